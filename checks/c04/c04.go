// Package c04: compatible changes are never reported and breaking categories are ordered.
//
// Bounded-exhaustive exploration over the schema DSL / operator catalogue of checks/c03:
//
//	(a) identity, cosmetic re-renderings (comments, whitespace, blank lines, import order) and chains of
//	    additive operators (every S_i compared with every earlier S_j) must produce zero annotations in
//	    FILE / PACKAGE / WIRE_JSON / WIRE of buf.yaml v1beta1 / v1 / v2;
//	(b) for every (old, new) pair of the C03 catalogue (breaking edits included, also with surroundings) and
//	    for every ordered pair of edited schemas (e1(S), e2(S)):
//	    clean(FILE) => clean(PACKAGE) => clean(WIRE_JSON) => clean(WIRE), per config version.
//
// The oracle is a relation between runs (zero / implication), independent of the handlers' logic.
package c04

import (
	"fmt"
	"os"
	"strings"
	"sync"
	"time"

	"github.com/bufbuild/buf/private/bufpkg/bufimage"
	"github.com/bufbuild/bufverif/checks/c03"
	"github.com/bufbuild/bufverif/internal/bufx"
	"github.com/bufbuild/bufverif/internal/enum"
	"github.com/bufbuild/bufverif/internal/evid"
)

func init() {
	evid.Register(&evid.Check{ID: "C04", Level: "exploration", Run: run, QuickBudget: 480 * time.Second, ThoroughBudget: 30 * time.Minute})
}

type caseT struct {
	Kind        string               `json:"kind"`
	Pair        string               `json:"pair"`
	Config      string               `json:"config"`
	Annotations []bufx.Annotation    `json:"annotations,omitempty"`
	Clean       map[string]bool      `json:"clean_per_category,omitempty"`
	Changed     map[string][2]string `json:"changed_files_old_new,omitempty"`
	ImageOrder  [][]string           `json:"image_file_order_old_new,omitempty"`
	Imports     string               `json:"import_configuration,omitempty"`
	MapSeed     string               `json:"map_seed,omitempty"`
	PerSeed     map[string]string    `json:"clean_c_or_dirty_D_per_category_under_map_seeds_0_1_etc,omitempty"`
}

func changed(oldR, newR *c03.Rendered) map[string][2]string {
	out := map[string][2]string{}
	for p, t := range oldR.Files {
		if newR.Files[p] != t {
			out[p] = [2]string{t, newR.Files[p]}
		}
	}
	for p, t := range newR.Files {
		if _, ok := oldR.Files[p]; !ok {
			out[p] = [2]string{"", t}
		}
	}
	return out
}

type runner struct {
	r   *evid.Run
	eng *c03.Engine
	mu  sync.Mutex
	n   map[string]int
}

func (x *runner) add(key string, n int) {
	x.mu.Lock()
	x.n[key] += n
	x.mu.Unlock()
}

// mode is how a comparison is run: by default through Engine.Breaking (imports excluded, all files targets);
// the import configurations (imports.go) run with their own call and label.
type mode struct {
	label    string // "" = default
	breaking func(c c03.Config, newImg, oldImg bufimage.Image) ([]bufx.Annotation, error)
}

func (x *runner) call(m *mode, c c03.Config, newImg, oldImg bufimage.Image) ([]bufx.Annotation, error) {
	if m == nil || m.breaking == nil {
		return x.eng.Breaking(c, newImg, oldImg)
	}
	return m.breaking(c, newImg, oldImg)
}

func (m *mode) String() string {
	if m == nil {
		return ""
	}
	return m.label
}

// silent demands zero annotations for new vs old under every config.
func (x *runner) silent(kind, opSig, pair string, oldR, newR *c03.Rendered, oldImg, newImg bufimage.Image, cfgs []c03.Config) {
	x.silentIn(nil, kind, opSig, pair, oldR, newR, oldImg, newImg, cfgs)
}

func (x *runner) silentIn(m *mode, kind, opSig, pair string, oldR, newR *c03.Rendered, oldImg, newImg bufimage.Image, cfgs []c03.Config) {
	for _, c := range cfgs {
		anns, err := x.call(m, c, newImg, oldImg)
		x.r.Eval(1)
		if err != nil {
			if strings.HasPrefix(err.Error(), "config ") {
				x.r.Incomplete("harness: " + err.Error())
				continue
			}
			x.r.Violate("compatible-error/"+kind+"/"+opSig, fmt.Sprintf("%s %s under %s: Breaking failed: %v", kind, pair, c, err),
				caseT{Kind: kind, Pair: pair, Config: c.String(), Changed: changed(oldR, newR), Imports: m.String()})
			continue
		}
		// one signature per rule that spoke up (the chain / style that exposed it is in the case, not in the signature)
		seen := map[string]bool{}
		for _, a := range anns {
			if seen[a.Type] {
				continue
			}
			seen[a.Type] = true
			x.r.Violate("compatible-reported/"+kind+"/"+a.Type,
				fmt.Sprintf("%s %s under %s: %d annotation(s) for a compatible change (edit: %s), first of this rule: %q", kind, pair, c, len(anns), opSig, a.Message),
				caseT{Kind: kind, Pair: pair, Config: c.String(), Annotations: anns, Changed: changed(oldR, newR), Imports: m.String()})
		}
	}
	x.add("silent_pairs_"+kind, 1)
}

// hierarchy checks clean(FILE) => clean(PACKAGE) => clean(WIRE_JSON) => clean(WIRE) for each version.
func (x *runner) hierarchy(kind, opSig, pair string, oldR, newR *c03.Rendered, oldImg, newImg bufimage.Image, versions []string) {
	x.hierarchyIn(nil, "hierarchy", kind, opSig, pair, oldR, newR, oldImg, newImg, versions)
}

// hierarchyIn: sigPrefix is "hierarchy" for the default mode; the import configurations use their own prefix.
func (x *runner) hierarchyIn(m *mode, sigPrefix, kind, opSig, pair string, oldR, newR *c03.Rendered, oldImg, newImg bufimage.Image, versions []string) {
	for _, v := range versions {
		clean := map[string]bool{}
		byCat := map[string][]bufx.Annotation{}
		ok := true
		for _, cat := range c03.Categories {
			c := c03.Config{Version: v, Use: cat}
			anns, err := x.call(m, c, newImg, oldImg)
			x.r.Eval(1)
			if err != nil {
				if strings.HasPrefix(err.Error(), "config ") {
					x.r.Incomplete("harness: " + err.Error())
				} else {
					x.r.Violate(sigPrefix+"-error/"+opSig, fmt.Sprintf("%s %s under %s: Breaking failed: %v", kind, pair, c, err),
						caseT{Kind: kind, Pair: pair, Config: c.String(), Changed: changed(oldR, newR), Imports: m.String()})
				}
				ok = false
				break
			}
			clean[cat] = len(anns) == 0
			byCat[cat] = anns
		}
		if !ok {
			continue
		}
		pattern := ""
		for _, cat := range c03.Categories {
			if clean[cat] {
				pattern += "c"
			} else {
				pattern += "D"
			}
		}
		x.add(sigPrefix+"_pattern_"+pattern, 1)
		for i := 0; i+1 < len(c03.Categories); i++ {
			strict, lax := c03.Categories[i], c03.Categories[i+1]
			if clean[strict] {
				x.add(sigPrefix+"_antecedent_true_"+strict, 1)
			}
			if clean[strict] && !clean[lax] {
				seen := map[string]bool{}
				for _, a := range byCat[lax] {
					if seen[a.Type] {
						continue
					}
					seen[a.Type] = true
					x.r.Violate(sigPrefix+"/"+v+"/"+strict+"-clean-but-"+lax+"-reports/"+a.Type,
						fmt.Sprintf("%s %s (%s), %s: clean under %s but %s reports %d annotation(s), first of this rule: %q", kind, pair, opSig, v, strict, lax, len(byCat[lax]), a.Message),
						caseT{Kind: kind, Pair: pair, Config: v + "/" + lax, Annotations: byCat[lax], Clean: clean, Changed: changed(oldR, newR), Imports: m.String()})
				}
			}
		}
	}
	x.add(sigPrefix+"_pairs_"+kind, 1)
}

// styles are the cosmetic rendering variants.
var styles = []struct {
	name string
	st   c03.Style
}{
	{"canonical", c03.Style{}},
	{"line-comments", c03.Style{Comments: 1}},
	{"block-and-trailing-comments", c03.Style{Comments: 2}},
	{"tabs", c03.Style{Indent: "\t"}},
	{"wide-indent-blank-lines", c03.Style{Indent: "      ", BlankLines: true}},
	{"reversed-imports", c03.Style{ReverseImports: true}},
	{"spaced-tokens", c03.Style{OpenBraceNL: true}},
	{"everything", c03.Style{Comments: 2, Indent: "   ", BlankLines: true, ReverseImports: true, OpenBraceNL: true}},
	// proto2 only: the implied `syntax = "proto2";` line is left out (buf: "syntax unspecified")
	{"no-syntax-line", c03.Style{NoSyntaxLine: true}},
	{"no-syntax-line-commented", c03.Style{NoSyntaxLine: true, Comments: 1, BlankLines: true}},
}

// styleApplies: the no-syntax-line renderings exist for proto2 only.
func styleApplies(base string, st c03.Style) bool { return !st.NoSyntaxLine || base == "proto2" }

// noSyntaxBase is the proto2 base with every file written without a syntax declaration.
func noSyntaxBase() c03.Base {
	for _, b := range c03.Bases() {
		if b.Name == "proto2" {
			s := b.Schema.Clone()
			for _, f := range s.Files {
				f.NoSyntaxDecl = true
			}
			return c03.Base{Name: "proto2-no-syntax-line", Schema: s}
		}
	}
	panic("no proto2 base")
}

func run(r *evid.Run) {
	full := !r.Quick()
	defer c03.TuneGC()()
	x := &runner{r: r, eng: c03.NewEngine(), n: map[string]int{}}
	maxChain := 2
	if full {
		maxChain = 3
	}
	r.Rule(fmt.Sprintf("(a) silent: per base schema in {proto2, proto3, edition 2023}: identity; every ordered pair of %d cosmetic renderings (comments, indentation, blank lines, import order, token spacing; proto2 also: the implied syntax line left out, 2 more renderings), single additive steps also on the proto2 base without syntax declarations; every chain of length <= 2 over the additive operators at their canonical site (max length here: %d; length 3 over the 12 core operators; thorough: single steps also at every site), each S_i compared with every earlier S_j; configs FILE/PACKAGE/WIRE_JSON/WIRE and their union x v1beta1/v1/v2 (quick: intermediate pairs only under the v2 union, end-to-end pairs of chains of length 2 under the three unions, two different renderings under the unions + the v2 categories). "+
		"(a, file sets) modules of up to three small files whose content shape (which of message / enum / service / extension the file declares: nothing, each alone, all; thorough two more) and package (one package; one file in another package) are enumerated independently: every pair (old, new) of file sets with old a proper non-empty subset of new, i.e. every S_i against every S_j of every history adding the files one at a time in any order; "+
		"(a, options) a small schema under option profiles (every observed file / message / field / enum / method option set at once with pairwise different values; each file option, field option, message / enum / method option alone; explicit defaults; edition features) x proto2 / proto3 / edition 2023: identity (two builds), re-renderings (everything at once; the options of every element in reverse order) in both directions, three index-shifting additive steps; "+
		"(a + b, import configurations) the bases with a file importing a.proto and b.proto, both images restricted (ImageWithOnlyPaths = --path; and built as module api of a two-module buf.yaml v2 workspace) so that a.proto and / or b.proto are imports, x imports included (CLI default) / excluded: identity, two re-renderings, every additive operator at its canonical site; hierarchy for one catalogue instance per operator and set of expected rules (thorough: and position; also with the file an import on one side only); "+
		"(a, many files) thread parallelism set to 2, 3 (thorough: 4, 5 and the machine's own) in a serial section: modules of n small files (layouts own-package / packages of three, without imports / every fourth file importing the next two) for every n from one below the switch-over of bufprotosource.NewFiles to parallel chunks (8 files per unit of parallelism) through every remainder to the next multiple, and every remainder in the second round of chunks: identity (two builds), every ordered pair of 3 renderings (canonical, imports reversed = other image order, everything), every chain of length <= 2 over 4 additive operators (new file sorting first / in the middle / last, new import of a late file), each S_i against every earlier S_j; "+
		"(b, map iteration order) one proto2 module whose every handler-walked map has 2..6 entries (three extended messages, six messages, five enums, three services, three files in two packages): every pair (removal of one previous element: all extensions of a message / one extension / message / nested message / field / oneof / enum / nested enum / enum value / service / method / file) x (breaking change of a sibling: extension or field type, field leaves oneof, field deleted, required field added, enum value deleted / renamed, rpc request / response type, file option) of the same handler family (removed files: with every kind of change), base vs both edits, every category x map-iteration seed 0..5 (= every rotation of every such map; process-wide seed of the runtime overlay, serial outer loop; quick: all changes that go through the loop the removed element sits in and one or two of the others, v2 for every pair, v1 for the first removal of every kind with the first change of every kind, v1beta1 for the first pair of every kind of removal; thorough: every pair of a family, all versions): clean(strict) under one order => clean(lax) under every order, and a category's verdict does not depend on the order; "+
		"(b) hierarchy: every (old,new) pair of the C03 catalogue (quick: without surrounding; v2 at every position, field-type table at the top position only; v1beta1 and v1 on the first top / file position instance of every operator + set of expected rules; thorough: every position and version, also with the index-shifting surrounding) and every ordered pair of edited schemas of a base (quick: one per distinct expected-rule set, <=28, v2; thorough: one per operator+variant, <=60, all versions); "+
		"distinct key = kind/pair id; a pair is non-trivial when old and new differ", len(styles)-2, maxChain))
	r.Assume("'additive' is the property's list: new files, messages, enums, services, RPCs, oneofs (with new fields), reserved ranges/names, enum values and non-required fields with fresh numbers and names, new imports; extensions with fresh numbers are treated as non-required fields")
	r.Assume("the additive operators never reuse a number or name of the base (numbers >= 700, names containing 'added')")
	r.Assume("rule handlers run independently of each other, so intermediate chain pairs (and, in the quick tier, the end-to-end pairs of chains of length 2 and most file-set pairs) run under use:[FILE,PACKAGE,WIRE_JSON,WIRE] only; single steps run under each category separately")
	r.Assume("buf.yaml v1beta1 / v1 / v2 differ in which rules a category contains, not in the rule handlers: the quick tier runs the older versions of the catalogue hierarchy on one instance per operator and set of expected rules")

	phases := map[string]bool{"cosmetic": true, "additive": true, "manyfiles": true, "filesets": true, "options": true, "imports": true, "maporder": true, "catalogue": true, "pairs": true}
	allPhases := len(phases)
	onlyOps := map[string]bool{}
	if v := os.Getenv("VERIF_C04_PHASES"); v != "" {
		// debugging / mutant triage aid (run is then marked incomplete)
		phases = map[string]bool{}
		for _, p := range strings.Split(v, ",") {
			phases[p] = true
		}
		r.Incomplete("filtered run: VERIF_C04_PHASES=" + v)
	}
	if v := os.Getenv("VERIF_C04_ONLY_OPS"); v != "" {
		for _, o := range strings.Split(v, ",") {
			onlyOps[o] = true
		}
		r.Incomplete("filtered run: VERIF_C04_ONLY_OPS=" + v)
	}
	cats := c03.CategoryConfigs()
	unions := c03.UnionConfigs()
	all := append(append([]c03.Config(nil), unions...), cats...)

	// ---------------------------------------------------------------- (a) identity + cosmetic
	type job func()
	var jobs []job
	for _, b := range c03.Bases() {
		if !phases["cosmetic"] {
			break
		}
		b := b
		s := c03.WithImports(b.Schema)
		for i := range styles {
			for j := range styles {
				i, j := i, j
				if !styleApplies(b.Name, styles[i].st) || !styleApplies(b.Name, styles[j].st) {
					continue
				}
				jobs = append(jobs, func() {
					oldR, newR := s.Render(styles[i].st), s.Render(styles[j].st)
					oldImg, err1 := x.eng.CachedImage(oldR)
					newImg, err2 := x.eng.CachedImage(newR)
					if err1 != nil || err2 != nil {
						r.Incomplete(fmt.Sprintf("harness: cosmetic rendering does not build: %v %v", err1, err2))
						return
					}
					kind := "cosmetic"
					if i == j {
						kind = "identity"
					}
					pair := b.Name + ":" + styles[i].name + "->" + styles[j].name
					// quick: identities under every config, two different renderings under the unions + the v2 categories
					cfgs := all
					if !full && i != j {
						cfgs = append(append([]c03.Config(nil), unions...), cats[8:]...)
					}
					x.silent(kind, styles[j].name, pair, oldR, newR, oldImg, newImg, cfgs)
					if i != j {
						r.Distinct(kind + "/" + pair)
					}
				})
			}
		}
	}
	r.ParallelFor(len(jobs), 0, func(i int) { jobs[i]() })

	// ---------------------------------------------------------------- (a) additive chains
	ops := c03.AdditiveOps()
	opNames := []string{}
	for _, o := range ops {
		opNames = append(opNames, o.Name)
	}
	r.Set("additive_operators", opNames)
	for _, b := range append(c03.Bases(), noSyntaxBase()) {
		if r.Expired() || !phases["additive"] {
			break
		}
		b := b
		// the base without syntax declarations: single steps only (quick and thorough)
		singleOnly := b.Name == "proto2-no-syntax-line"
		baseR := b.Schema.Render(c03.Style{})
		// canonical and all sites per operator, computed on the base
		var canon []step
		var every []step
		for oi, o := range ops {
			sites := o.Sites(b.Schema)
			if len(sites) == 0 || (len(onlyOps) > 0 && !onlyOps[o.Name]) {
				continue
			}
			canon = append(canon, step{oi, sites[0]})
			for _, st := range sites {
				every = append(every, step{oi, st})
			}
		}
		x.add("additive_operators_applicable_"+b.Name, len(canon))
		x.add("additive_sites_"+b.Name, len(every))
		apply := func(steps []step) *c03.Schema {
			s := b.Schema.Clone()
			for g, st := range steps {
				ops[st.op].Apply(s, st.site, g+1)
			}
			return s
		}
		name := func(steps []step) string {
			parts := make([]string, len(steps))
			for i, st := range steps {
				parts[i] = ops[st.op].Name + "@" + st.site
			}
			return b.Name + ":" + strings.Join(parts, ",")
		}
		sig := func(steps []step) string {
			parts := make([]string, len(steps))
			for i, st := range steps {
				parts[i] = ops[st.op].Name
			}
			return strings.Join(parts, "+")
		}
		var chains [][]step
		maxLen := 2
		if singleOnly {
			maxLen = 1
		}
		for _, seq := range enum.Sequences(len(canon), 1, maxLen) {
			ch := make([]step, len(seq))
			for i, k := range seq {
				ch[i] = canon[k]
			}
			chains = append(chains, ch)
		}
		if maxChain >= 3 && !singleOnly {
			// length 3 over the core operators (the ones that touch the same parents: fields, oneofs,
			// reserved, enum values, nested and top-level types, imports, files)
			var core []step
			for _, st := range canon {
				if coreOps[ops[st.op].Name] {
					core = append(core, st)
				}
			}
			x.add("additive_core_operators_"+b.Name, len(core))
			for _, seq := range enum.Sequences(len(core), 3, 3) {
				chains = append(chains, []step{core[seq[0]], core[seq[1]], core[seq[2]]})
			}
		}
		if full {
			for _, st := range every {
				if st.site != canon0(canon, st.op) {
					chains = append(chains, []step{st})
				}
			}
		}
		x.add("additive_chains_"+b.Name, len(chains))
		r.ParallelFor(len(chains), 0, func(i int) {
			ch := chains[i]
			last := apply(ch)
			lastR := last.Render(c03.Style{})
			var lastImg bufimage.Image
			var err error
			if len(ch) == 1 {
				lastImg, err = x.eng.CachedImage(lastR) // reused as the S1 prefix of longer chains
			} else {
				lastImg, err = x.eng.Image(lastR)
			}
			if err != nil {
				r.Incomplete(fmt.Sprintf("harness: additive chain %s does not build: %v", name(ch), err))
				return
			}
			for j := 0; j < len(ch); j++ {
				prevR := baseR
				if j > 0 {
					prevR = apply(ch[:j]).Render(c03.Style{})
				}
				prevImg, err := x.eng.CachedImage(prevR)
				if err != nil {
					r.Incomplete(fmt.Sprintf("harness: additive chain %s does not build: %v", name(ch[:j]), err))
					return
				}
				// end-to-end pair of a single step: every config; of longer chains: the v2 categories plus
				// the unions of the older versions (thorough, length 2: every config; quick, length 2: the three
				// unions - every rule of every category at once); intermediate pairs: unions
				cfgs := all
				switch {
				case j > 0 && full && len(ch) == 2:
					cfgs = unions
				case j > 0:
					cfgs = unions[2:]
				case len(ch) == 2 && !full:
					cfgs = unions
				case len(ch) == 3:
					cfgs = append(append([]c03.Config(nil), unions[:2]...), cats[8:]...)
				}
				pair := fmt.Sprintf("%s  (S%d vs S%d)", name(ch), len(ch), j)
				x.silent("additive", sig(ch[j:]), pair, prevR, lastR, prevImg, lastImg, cfgs)
				r.Distinct("additive/" + pair)
			}
			r.SampleEvery(i, 2003, func() any {
				return caseT{Kind: "additive", Pair: name(ch), Config: "all", Changed: changed(baseR, lastR)}
			})
		})
	}

	// ---------------------------------------------------------------- (a) the same three kinds over modules of many files
	if phases["manyfiles"] && len(onlyOps) == 0 && !r.Expired() {
		x.runManyFiles(full, cats, unions)
	}

	// ---------------------------------------------------------------- (a) file-set histories, option profiles; (a) + (b) import configurations
	if phases["filesets"] && len(onlyOps) == 0 && !r.Expired() {
		x.runFileSets(full, cats, unions)
	}
	if phases["options"] && len(onlyOps) == 0 && !r.Expired() {
		x.runOptions(full, cats, unions)
	}
	if phases["imports"] && len(onlyOps) == 0 && !r.Expired() {
		x.runImports(full, cats, unions)
	}

	// ---------------------------------------------------------------- (b) hierarchy under every map iteration order
	if phases["maporder"] && len(onlyOps) == 0 && !r.Expired() {
		x.runMapOrder(full)
	}

	// ---------------------------------------------------------------- (b) hierarchy over the C03 catalogue
	process := func(instances []c03.Instance) {
		if len(onlyOps) > 0 {
			var keep []c03.Instance
			for _, in := range instances {
				if onlyOps[in.Op] {
					keep = append(keep, in)
				}
			}
			instances = keep
		}
		type item struct {
			in   *c03.Instance
			mode int
		}
		var items []item
		// quick: buf.yaml v1beta1 and v1 differ from v2 in which rules a category contains, not in the handlers, so
		// they run on the first top / file position instance of every operator + set of expected rules
		olderVersions := map[*c03.Instance]bool{}
		firstOfKey := map[string]bool{}
		for i := range instances {
			in := &instances[i]
			shallow := in.Pos == "top" || in.Pos == "file"
			if !phases["catalogue"] || (!full && !shallow && in.Op == "field-type") {
				continue // quick: the field-type table only at the top position
			}
			if shallow && in.Op != "field-type" {
				rules := map[string]bool{}
				for _, ex := range in.Expects {
					rules[ex.Rule] = true
				}
				key := in.Op + "|" + strings.Join(bufx.SortedKeys(rules), "+")
				if !firstOfKey[key] {
					firstOfKey[key] = true
					olderVersions[in] = true
				}
			}
			items = append(items, item{in, c03.SurroundNone})
			if full && in.Op != "field-type" {
				items = append(items, item{in, c03.SurroundBefore})
			}
		}
		r.ParallelFor(len(items), 0, func(i int) {
			it := items[i]
			p, err := x.eng.Prepare(it.in, it.mode)
			if err != nil {
				r.Incomplete("harness: " + err.Error())
				return
			}
			versions := c03.Versions
			if !full && !olderVersions[it.in] {
				versions = []string{"v2"}
			} else if !full {
				x.add("hierarchy_catalogue_pairs_under_all_versions", 1)
			}
			pair := it.in.ID() + " [" + c03.SurroundNames[it.mode] + "]"
			x.hierarchy("catalogue", it.in.Op, pair, p.OldR, p.NewR, p.OldImg, p.NewImg, versions)
			r.Distinct("catalogue/" + pair)
			r.SampleEvery(i, 2503, func() any { return caseT{Kind: "catalogue", Pair: pair, Config: strings.Join(versions, ",")} })
		})
		// ordered pairs of edited schemas of the same base: first instance per operator (thorough: per operator+variant, capped)
		seen := map[string]bool{}
		type edited struct {
			id string
			op string
			s  *c03.Schema
		}
		var eds []edited
		for i := range instances {
			in := &instances[i]
			// quick: one edited schema per distinct set of expected rules; thorough: one per operator + variant
			// (the big tables by operator only), capped at 60 per base
			rules := map[string]bool{}
			for _, ex := range in.Expects {
				rules[ex.Rule] = true
			}
			key := strings.Join(bufx.SortedKeys(rules), "+")
			if full {
				key = in.Op
				if in.Op != "field-type" && in.Op != "file-option" && in.Op != "field-delete" && in.Op != "field-ctype" && in.Op != "field-jstype" && in.Op != "rpc-change" {
					key = in.Op + "/" + in.Variant
				}
			}
			if seen[key] || (full && len(eds) >= 60) || (!full && len(eds) >= 28) {
				continue
			}
			seen[key] = true
			eds = append(eds, edited{in.ID(), in.Op, in.New})
		}
		if len(eds) == 0 || !phases["pairs"] {
			return
		}
		eds = append(eds, edited{instances[0].Base + "/base", "base", instances[0].Old})
		x.add("edited_schemas_for_pairs", len(eds))
		type pr struct{ a, b int }
		var prs []pr
		for a := range eds {
			for b := range eds {
				if a != b {
					prs = append(prs, pr{a, b})
				}
			}
		}
		r.ParallelFor(len(prs), 0, func(i int) {
			a, b := eds[prs[i].a], eds[prs[i].b]
			oldR, newR := a.s.Render(c03.Style{}), b.s.Render(c03.Style{})
			oldImg, err1 := x.eng.CachedImage(oldR)
			newImg, err2 := x.eng.CachedImage(newR)
			if err1 != nil || err2 != nil {
				r.Incomplete(fmt.Sprintf("harness: edited schema does not build: %v %v", err1, err2))
				return
			}
			pair := a.id + "  =>  " + b.id
			versions := []string{"v2"}
			if full {
				versions = c03.Versions
			}
			x.hierarchy("edit-pair", a.op+"=>"+b.op, pair, oldR, newR, oldImg, newImg, versions)
			r.Distinct("edit-pair/" + pair)
		})
	}
	if !r.Expired() {
		process(c03.SyntaxInstances())
	}
	for _, b := range c03.Bases() {
		if r.Expired() {
			break
		}
		process(c03.Instances(b, false))
	}

	// ---------------------------------------------------------------- coverage
	keys := bufx.SortedKeys(x.n)
	patterns := map[string]int{}
	impPatterns := map[string]int{}
	for _, k := range keys {
		if strings.HasPrefix(k, "hierarchy_pattern_") {
			patterns[strings.TrimPrefix(k, "hierarchy_pattern_")] = x.n[k]
		} else if strings.HasPrefix(k, "hierarchy-imports_pattern_") {
			impPatterns[strings.TrimPrefix(k, "hierarchy-imports_pattern_")] = x.n[k]
		} else {
			r.Set(k, x.n[k])
		}
	}
	r.Set("hierarchy_patterns_FILE_PACKAGE_WIREJSON_WIRE(c=clean,D=dirty)", patterns)
	r.Set("hierarchy_imports_patterns_FILE_PACKAGE_WIREJSON_WIRE(c=clean,D=dirty)", impPatterns)
	if r.Expired() || len(onlyOps) > 0 || len(phases) < allPhases {
		return
	}
	for _, k := range []string{"silent_pairs_identity", "silent_pairs_cosmetic", "silent_pairs_additive",
		"silent_pairs_identity-many-files", "silent_pairs_cosmetic-many-files", "silent_pairs_additive-many-files", "hierarchy_pairs_catalogue", "hierarchy_pairs_edit-pair",
		"silent_pairs_additive-file-sets", "silent_pairs_identity-options", "silent_pairs_cosmetic-options", "silent_pairs_additive-options",
		"silent_pairs_identity-imports", "silent_pairs_cosmetic-imports", "silent_pairs_additive-imports", "imports_additive_pairs_with_the_edit_inside_an_imported_file",
		"hierarchy-imports_pairs_catalogue", "imports_hierarchy_pairs_with_the_edit_inside_an_imported_file",
		"imports_silent_pairs_through_a_workspace", "imports_hierarchy_pairs_through_a_workspace",
		"hierarchy-imports_antecedent_true_FILE", "hierarchy-imports_antecedent_true_PACKAGE", "hierarchy-imports_antecedent_true_WIRE_JSON",
		"hierarchy_antecedent_true_FILE", "hierarchy_antecedent_true_PACKAGE", "hierarchy_antecedent_true_WIRE_JSON",
		"map_order_pairs", "map_order_pairs_v1beta1", "map_order_pairs_v1", "map_order_pairs_v2",
		"map_order_consequent_false_PACKAGE", "map_order_consequent_false_WIRE_JSON", "map_order_consequent_false_WIRE"} {
		if x.n[k] == 0 {
			r.Incomplete("clause never exercised: " + k)
		}
	}
	mixed := 0
	for p, n := range patterns {
		if strings.Contains(p, "c") && strings.Contains(p, "D") {
			mixed += n
		}
	}
	r.Set("hierarchy_pairs_with_mixed_verdicts", mixed)
	if mixed == 0 {
		r.Incomplete("no pair distinguished the categories (hierarchy clause vacuous)")
	}
	mixed = 0
	for p, n := range impPatterns {
		if strings.Contains(p, "c") && strings.Contains(p, "D") {
			mixed += n
		}
	}
	r.Set("hierarchy_imports_pairs_with_mixed_verdicts", mixed)
	if mixed == 0 {
		r.Incomplete("import configurations: no pair distinguished the categories (hierarchy clause vacuous)")
	}
}

// coreOps are the additive operators used for chains of length 3.
var coreOps = map[string]bool{
	"new-file-same-package": true, "new-message": true, "new-nested-message": true, "new-nested-enum": true,
	"new-rpc": true, "new-oneof": true, "message-reserved-range": true, "message-reserved-name": true,
	"new-enum-value": true, "new-field-singular": true, "new-field-repeated": true, "new-field-in-existing-oneof": true,
}

// step is one additive operator applied at one site.
type step struct {
	op   int
	site string
}

// canon0 returns the canonical site of an operator.
func canon0(canon []step, op int) string {
	for _, c := range canon {
		if c.op == op {
			return c.site
		}
	}
	return ""
}
