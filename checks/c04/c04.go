// Package c04 is the check for property C04 (see DESIGN.md section 3).
package c04
