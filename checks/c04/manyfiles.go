package c04

import (
	"fmt"
	"sort"
	"strings"
	"sync"

	"github.com/bufbuild/buf/private/bufpkg/bufimage"
	"github.com/bufbuild/buf/private/pkg/thread"
	"github.com/bufbuild/bufverif/checks/c03"
)

// ---------------------------------------------------------------------------------------------
// Schema-size dimension of clause (a): identity, cosmetic re-renderings and additive chains over
// modules of MANY files.
//
// buf converts the files of both images (targets and imports) with bufprotosource.NewFiles, which
// switches from a sequential loop to parallel chunks once there are at least 8 files per unit of
// thread.Parallelism(). Everything the other phases compare is far below that switch-over on any
// machine, so the chunked conversion of the previous / the current side never ran. Here the
// (process-global) parallelism is set to small values in a serial section, and schemas of n files
// are enumerated for every n around the switch-over (one below, the exact multiple, every remainder
// n mod parallelism) and around the next round of chunks. The two sides of a comparison differ in
// number of files (additive: new files sorting first / in the middle / last), in image order
// (additive: a new import of a later file; cosmetic: imports written in reverse order - the image
// is in dependency order) or in nothing at all, so that one side can be converted sequentially and
// the other in chunks, or both in chunks of different shapes.
// ---------------------------------------------------------------------------------------------

// bigLayouts: "own" = every file is a package of its own; "shared" = packages of three files.
// bigTopos: "flat" = no imports; "linked" = every fourth file imports (and uses) the two files after it.
type bigShape struct{ Layout, Topo string }

type bigCase struct {
	Parallelism int    `json:"parallelism"`
	Files       int    `json:"files"`
	Layout      string `json:"layout"`
	Topo        string `json:"import_topology"`
}

func (c bigCase) String() string {
	return fmt.Sprintf("many-files/parallelism%d/files%d/%s/%s", c.Parallelism, c.Files, c.Layout, c.Topo)
}

func bigGroup(i int, layout string) string {
	if layout == "shared" {
		return fmt.Sprintf("g%03d", i/3)
	}
	return fmt.Sprintf("p%03d", i)
}

func bigPath(i int, layout string) string {
	return fmt.Sprintf("big/%s/f%03d.proto", bigGroup(i, layout), i)
}

func bigPackage(i int, layout string) string { return "big." + bigGroup(i, layout) + ".v1" }

// smallFile is one file with an enum, two messages and a service, all named after tag.
func smallFile(path, pkg, tag string) *c03.File {
	e, m := "E"+tag, "M"+tag
	up := strings.ToUpper(e)
	return &c03.File{
		Path: path, Syntax: "proto3", Package: pkg,
		Enums: []*c03.Enum{{Name: e, Values: []*c03.EnumValue{{Name: up + "_UNSPECIFIED", Num: 0}, {Name: up + "_ONE", Num: 1}}}},
		Messages: []*c03.Message{
			{Name: m, Fields: []*c03.Field{
				{Name: "a", Num: 1, Type: "int32", Kind: "int32"},
				{Name: "b", Num: 2, Type: "string", Kind: "string"},
				{Name: "e", Num: 3, Type: e, Kind: "enum"},
			}},
			{Name: "Spare" + tag, Fields: []*c03.Field{{Name: "id", Num: 1, Type: "int32", Kind: "int32"}}},
		},
		Services: []*c03.Service{{Name: "S" + tag, Methods: []*c03.Method{{Name: "Get", In: m, Out: m}}}},
	}
}

// bigSchema builds the module of n files. Path order equals index order.
func bigSchema(n int, layout, topo string) *c03.Schema {
	s := &c03.Schema{}
	for i := 0; i < n; i++ {
		f := smallFile(bigPath(i, layout), bigPackage(i, layout), fmt.Sprintf("%03d", i))
		if topo == "linked" && i%4 == 0 {
			for k, j := range []int{i + 1, i + 2} {
				if j >= n {
					continue
				}
				f.Imports = append(f.Imports, bigPath(j, layout))
				f.Messages[0].Fields = append(f.Messages[0].Fields, &c03.Field{
					Name: fmt.Sprintf("next%d", k+1), Num: 10 + k, Type: fmt.Sprintf("%s.M%03d", bigPackage(j, layout), j), Kind: "message"})
			}
		}
		s.Files = append(s.Files, f)
	}
	return s
}

// bigOp is an additive operator on a many-files schema; g (1, 2, ...) is the position in the chain and
// keeps every added name fresh.
type bigOp struct {
	Name  string
	Apply func(s *c03.Schema, c bigCase, g int)
}

func bigOps() []bigOp {
	return []bigOp{
		// a new file in a new package whose path sorts before every existing file (shifts every image index)
		{"new-file-sorting-first", func(s *c03.Schema, c bigCase, g int) {
			tag := fmt.Sprintf("First%d", g)
			s.Files = append([]*c03.File{smallFile(fmt.Sprintf("aaa/added%d/v1/first%d.proto", g, g), fmt.Sprintf("aaa.added%d.v1", g), tag)}, s.Files...)
		}},
		// a new file in the package of the middle file, sorting right after it
		{"new-file-sorting-in-the-middle", func(s *c03.Schema, c bigCase, g int) {
			mid := c.Files / 2
			tag := fmt.Sprintf("%03dAdded%d", mid, g)
			s.Files = append(s.Files, smallFile(fmt.Sprintf("big/%s/f%03d_added%d.proto", bigGroup(mid, c.Layout), mid, g), bigPackage(mid, c.Layout), tag))
		}},
		// a new file in a new package whose path sorts after every existing file
		{"new-file-sorting-last", func(s *c03.Schema, c bigCase, g int) {
			tag := fmt.Sprintf("Last%d", g)
			s.Files = append(s.Files, smallFile(fmt.Sprintf("zzz/added%d/v1/last%d.proto", g, g), fmt.Sprintf("zzz.added%d.v1", g), tag))
		}},
		// a new import (plus a new message using it) in an early file of a late file: the image is in
		// dependency order, so the late file moves to the front of the image
		{"new-import-of-a-late-file", func(s *c03.Schema, c bigCase, g int) {
			from, to := g-1, c.Files-g
			f := s.File(bigPath(from, c.Layout))
			imp := bigPath(to, c.Layout)
			have := false
			for _, i := range f.Imports {
				have = have || i == imp
			}
			if !have {
				f.Imports = append(f.Imports, imp)
				sort.Strings(f.Imports)
			}
			f.Messages = append(f.Messages, &c03.Message{Name: fmt.Sprintf("AddedUser%d", g), Fields: []*c03.Field{
				{Name: "late", Num: 1, Type: fmt.Sprintf("%s.M%03d", bigPackage(to, c.Layout), to), Kind: "message"}}})
		}},
	}
}

// bigStyles are the renderings compared with each other (every ordered pair, identities included).
var bigStyles = []struct {
	name string
	st   c03.Style
}{
	{"canonical", c03.Style{}},
	{"reversed-imports", c03.Style{ReverseImports: true}},
	{"everything", c03.Style{Comments: 2, Indent: "   ", BlankLines: true, ReverseImports: true, OpenBraceNL: true}},
}

// bigCounts lists the file counts of the base schemas under a parallelism: from one below the
// switch-over to parallel chunks (8 files per unit) through every remainder to one past the next
// multiple, and - second round of chunks - every remainder above 16 files per unit.
func bigCounts(par int, full bool) []int {
	var out []int
	for n := 8*par - 1; n <= 9*par; n++ {
		out = append(out, n)
	}
	for n := 16*par + 1; n < 17*par; n++ {
		out = append(out, n)
	}
	if full {
		out = append(out, 9*par+1, 16*par-1, 16*par, 24*par+par/2+1)
	}
	return out
}

// imageOrder lists the file paths of an image in image order (replay aid: the conversion works on that order).
func imageOrder(img bufimage.Image) []string {
	var out []string
	for _, f := range img.Files() {
		out = append(out, f.Path())
	}
	return out
}

// runManyFiles runs the schema-size dimension. thread.SetParallelism is process-global: it is only
// changed here, between parallel sections, and restored before returning.
func (x *runner) runManyFiles(full bool, cats, unions []c03.Config) {
	r := x.r
	def := thread.Parallelism()
	defer thread.SetParallelism(def)
	pars := []int{2, 3}
	shapes := []bigShape{{"own", "flat"}, {"shared", "linked"}}
	if full {
		pars = append(pars, 4, 5)
		shapes = append(shapes, bigShape{"shared", "flat"}, bigShape{"own", "linked"})
	}
	ops := bigOps()
	opNames := []string{}
	for _, o := range ops {
		opNames = append(opNames, o.Name)
	}
	r.Set("many_files_additive_operators", opNames)
	r.Set("many_files_default_parallelism", def)

	// renderings and single steps: the four v2 categories + the unions of the older versions (thorough: every
	// config); end-to-end pairs of chains of length 2: the four v2 categories + the unions of the older versions;
	// intermediate chain pairs: the v2 union
	e2e2 := append(append([]c03.Config(nil), unions[:2]...), cats[8:]...)
	e2e := e2e2
	if full {
		e2e = append(append([]c03.Config(nil), unions...), cats...)
	}
	inter := unions[2:]

	var mu sync.Mutex
	stat := map[string]int{}
	perPar := map[string]int{}
	// classify records how the two sides of a pair are converted (by image size, as NewFiles decides)
	classify := func(par int, oldImg, newImg bufimage.Image) {
		no, nn := len(oldImg.Files()), len(newImg.Files())
		co, cn := no/par >= 8, nn/par >= 8
		mu.Lock()
		defer mu.Unlock()
		stat["pairs"]++
		switch {
		case co && cn:
			stat["pairs_both_sides_in_parallel_chunks"]++
		case cn:
			stat["pairs_current_in_parallel_chunks_previous_sequential"]++
		case co:
			stat["pairs_previous_in_parallel_chunks_current_sequential"]++
		default:
			stat["pairs_both_sides_sequential"]++
		}
		if (co && no%par != 0) || (cn && nn%par != 0) {
			stat["pairs_with_a_chunked_side_with_remainder"]++
		}
		if co && cn && no%par != nn%par {
			stat["pairs_both_chunked_with_different_remainders"]++
		}
		if no == nn && strings.Join(imageOrder(oldImg), "\n") != strings.Join(imageOrder(newImg), "\n") {
			stat["pairs_same_files_in_a_different_image_order"]++
		}
	}

	type job struct {
		c     bigCase
		first int // index of the first additive operator; -1: the identity / cosmetic job of the case
	}
	runAll := func(par int, counts []int, shapes []bigShape, withChains bool) {
		var jobs []job
		for _, n := range counts {
			for _, sh := range shapes {
				c := bigCase{par, n, sh.Layout, sh.Topo}
				jobs = append(jobs, job{c, -1})
				for oi := range ops {
					if withChains || oi == 0 {
						jobs = append(jobs, job{c, oi})
					}
				}
			}
		}
		thread.SetParallelism(par)
		r.ParallelFor(len(jobs), 0, func(i int) {
			c := jobs[i].c
			base := bigSchema(c.Files, c.Layout, c.Topo)
			if jobs[i].first < 0 {
				// ---- identity (two separate builds of the same text) and cosmetic renderings
				styles := bigStyles
				if c.Topo == "flat" {
					styles = []struct {
						name string
						st   c03.Style
					}{bigStyles[0], bigStyles[2]} // without imports, reversed-imports is the canonical text
				}
				rs := make([]*c03.Rendered, len(styles))
				olds := make([]bufimage.Image, len(styles))
				news := make([]bufimage.Image, len(styles))
				for k := range styles {
					rs[k] = base.Render(styles[k].st)
					var err1, err2 error
					olds[k], err1 = x.eng.Image(rs[k])
					news[k], err2 = x.eng.Image(rs[k])
					if err1 != nil || err2 != nil {
						r.Incomplete(fmt.Sprintf("harness: %s rendering %s does not build: %v %v", c, styles[k].name, err1, err2))
						return
					}
				}
				for a := range styles {
					for b := range styles {
						kind := "cosmetic-many-files"
						if a == b {
							kind = "identity-many-files"
						}
						pair := c.String() + ":" + styles[a].name + "->" + styles[b].name
						x.silent(kind, styles[b].name, pair, rs[a], rs[b], olds[a], news[b], e2e)
						classify(par, olds[a], news[b])
						r.Distinct(kind + "/" + pair)
					}
				}
				mu.Lock()
				stat["cases"]++
				perPar[fmt.Sprint(par)]++
				mu.Unlock()
				r.SampleEvery(i, 41, func() any {
					return caseT{Kind: "cosmetic-many-files", Pair: c.String() + ":canonical->everything", Config: "v2 categories + unions", ImageOrder: [][]string{imageOrder(olds[0]), imageOrder(news[len(news)-1])}}
				})
				return
			}
			// ---- additive chains first; first,second for every second operator: S1-S0, S2-S0, S2-S1
			baseR := base.Render(c03.Style{})
			baseImg, err := x.eng.Image(baseR)
			if err != nil {
				r.Incomplete(fmt.Sprintf("harness: %s does not build: %v", c, err))
				return
			}
			o1 := ops[jobs[i].first]
			s1 := base.Clone()
			o1.Apply(s1, c, 1)
			s1R := s1.Render(c03.Style{})
			s1Img, err := x.eng.Image(s1R)
			if err != nil {
				r.Incomplete(fmt.Sprintf("harness: %s + %s does not build: %v", c, o1.Name, err))
				return
			}
			name1 := c.String() + ":" + o1.Name
			pair := name1 + "  (S1 vs S0)"
			x.silent("additive-many-files", o1.Name, pair, baseR, s1R, baseImg, s1Img, e2e)
			classify(par, baseImg, s1Img)
			r.Distinct("additive-many-files/" + pair)
			if !withChains {
				return
			}
			for _, o2 := range ops {
				s2 := s1.Clone()
				o2.Apply(s2, c, 2)
				s2R := s2.Render(c03.Style{})
				s2Img, err := x.eng.Image(s2R)
				if err != nil {
					r.Incomplete(fmt.Sprintf("harness: %s + %s + %s does not build: %v", c, o1.Name, o2.Name, err))
					return
				}
				name2 := name1 + "," + o2.Name
				pair := name2 + "  (S2 vs S0)"
				x.silent("additive-many-files", o1.Name+"+"+o2.Name, pair, baseR, s2R, baseImg, s2Img, e2e2)
				classify(par, baseImg, s2Img)
				r.Distinct("additive-many-files/" + pair)
				pair = name2 + "  (S2 vs S1)"
				x.silent("additive-many-files", o2.Name, pair, s1R, s2R, s1Img, s2Img, inter)
				classify(par, s1Img, s2Img)
				r.Distinct("additive-many-files/" + pair)
				mu.Lock()
				stat["chains_of_length_2"]++
				mu.Unlock()
			}
			r.SampleEvery(i, 53, func() any {
				return caseT{Kind: "additive-many-files", Pair: name1 + "  (S1 vs S0)", Config: "v2 categories + unions", ImageOrder: [][]string{imageOrder(baseImg), imageOrder(s1Img)}}
			})
		})
	}
	for _, par := range pars {
		if r.Expired() {
			break
		}
		runAll(par, bigCounts(par, full), shapes, true)
	}
	// the parallelism of the machine itself (the value buf runs with), when that stays affordable:
	// identity / cosmetic and the single step that shifts every index, just above the switch-over
	if full && def >= 6 && def <= 16 && !r.Expired() {
		runAll(def, []int{8*def - 1, 8*def + 1}, shapes[1:2], false)
	}
	thread.SetParallelism(def)
	for _, k := range []string{"cases", "chains_of_length_2", "pairs", "pairs_both_sides_in_parallel_chunks", "pairs_current_in_parallel_chunks_previous_sequential",
		"pairs_previous_in_parallel_chunks_current_sequential", "pairs_both_sides_sequential", "pairs_with_a_chunked_side_with_remainder",
		"pairs_both_chunked_with_different_remainders", "pairs_same_files_in_a_different_image_order"} {
		r.Set("many_files_"+k, stat[k])
	}
	r.Set("many_files_cases_per_parallelism", perPar)
	if r.Expired() {
		return
	}
	for _, k := range []string{"pairs_both_sides_in_parallel_chunks", "pairs_current_in_parallel_chunks_previous_sequential", "pairs_both_sides_sequential",
		"pairs_with_a_chunked_side_with_remainder", "pairs_both_chunked_with_different_remainders", "pairs_same_files_in_a_different_image_order"} {
		if stat[k] == 0 {
			r.Incomplete("many-files: clause never exercised: " + k)
		}
	}
}
