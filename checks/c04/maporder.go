package c04

import (
	"fmt"
	"sort"
	"strings"

	"github.com/bufbuild/buf/private/bufpkg/bufimage"
	"github.com/bufbuild/bufverif/checks/c03"
)

// ---------------------------------------------------------------------------------------------
// Hierarchy under every map iteration order (fourth strengthening round, seed C04/r4-m1).
//
// Every pair handler of the breaking rules (file / message / field + extension / enum / enum value /
// service / method pairs) walks Go maps keyed by the PREVIOUS elements and looks the current partner
// up. Go starts every map iteration at a random position, so a handler that stops (return / break
// instead of continue) at a previous element whose partner is gone skips a random part of the other
// elements: which annotations a category produces is then a matter of luck, every category runs its
// own rules with its own luck, and a stricter category can come out clean in the same comparison in
// which a laxer one reports. A comparison "is clean under a category" or it is not - the map order is
// a choice the runtime makes, so the property quantifies over it like over any other schedule:
//
//	for all map orders o, o':  clean(strict, o)  =>  clean(lax, o')
//	for all map orders o, o':  clean(cat, o)    <=>  clean(cat, o')      (a verdict is a function of the comparison)
//
// The driver is built with the runtime overlay overlay/mapseed.json (tag mapseed), which makes every map
// iteration of the process start at the offset given by a seed. All maps of the handlers hold <= 8
// entries here (one bucket: entries sit in insertion order, the seed rotates the start), so the seeds 0..n-1 (n = the
// largest number of entries, moSeeds) enumerate every rotation of every such map - the seed is an outer, serial loop around r.ParallelFor.
//
// Worlds: one proto2 module (three files, two packages) with SEVERAL siblings in every map the handlers
// walk - three extended messages (extensions declared at file level and inside another message), six
// messages, five enums, three services, several fields / values / methods / oneofs each. Edit pairs:
// (removal, change) - a removal takes one previous element away altogether (all extensions of one
// message, one extension, a message, a nested message, a field, a oneof, an enum, an enum value, a
// service, a method, a file) and a breaking change hits a SIBLING of it (extension / field type,
// field leaves its oneof, field deleted, required field added, enum value deleted / renamed, request /
// response type, file option). Old side = the base, new side = both edits applied.
// ---------------------------------------------------------------------------------------------

const (
	moA = "ord/a.proto"
	moB = "ord/b.proto"
	moC = "ord/c.proto"
)

func moI32(name string, num int) *c03.Field {
	return &c03.Field{Name: name, Num: num, Label: "optional", Type: "int32", Kind: "int32"}
}

func moEnum(name, prefix string) *c03.Enum {
	return &c03.Enum{Name: name, Values: []*c03.EnumValue{{Name: prefix + "_ZERO", Num: 0}, {Name: prefix + "_ONE", Num: 1}, {Name: prefix + "_TWO", Num: 2}}}
}

// moBase is the world: every map a pair handler walks has between two and seven entries.
func moBase() *c03.Schema {
	ext := []c03.Range{{Lo: 100, Hi: 199}}
	a := &c03.File{Path: moA, Syntax: "proto2", Package: "ord.v1", Opts: []c03.Opt{{Name: "go_package", Val: `"example.com/ord/v1;ordv1"`}},
		Enums: []*c03.Enum{moEnum("Color", "COLOR"), moEnum("Shape", "SHAPE")},
		Messages: []*c03.Message{
			{Name: "Alpha", Oneofs: []string{"choice", "pick"}, ExtRanges: ext, Fields: []*c03.Field{
				moI32("a1", 1), moI32("a2", 2),
				{Name: "c1", Num: 4, Type: "int32", Kind: "int32", Oneof: "choice"}, {Name: "c2", Num: 5, Type: "int32", Kind: "int32", Oneof: "choice"},
				{Name: "p1", Num: 6, Type: "int32", Kind: "int32", Oneof: "pick"}, {Name: "p2", Num: 7, Type: "int32", Kind: "int32", Oneof: "pick"}}},
			{Name: "Beta", ExtRanges: ext, Fields: []*c03.Field{moI32("b1", 1), moI32("b2", 2), moI32("b3", 3)},
				Nested:  []*c03.Message{{Name: "Inner", Fields: []*c03.Field{moI32("i1", 1), moI32("i2", 2)}}},
				Enums:   []*c03.Enum{moEnum("Mode", "MODE")},
				Extends: []*c03.Extend{{Extendee: "Gamma", Fields: []*c03.Field{moI32("xg2", 102)}}}},
			{Name: "Gamma", ExtRanges: ext, Fields: []*c03.Field{moI32("g1", 1), moI32("g2", 2)}},
		},
		Extends: []*c03.Extend{
			{Extendee: "Alpha", Fields: []*c03.Field{moI32("xa1", 101), moI32("xa2", 102)}},
			{Extendee: "Beta", Fields: []*c03.Field{moI32("xb1", 101), moI32("xb2", 102)}},
			{Extendee: "Gamma", Fields: []*c03.Field{moI32("xg1", 101)}},
		},
		Services: []*c03.Service{
			{Name: "First", Methods: []*c03.Method{{Name: "Get", In: "Alpha", Out: "Beta"}, {Name: "Put", In: "Alpha", Out: "Beta"}, {Name: "Del", In: "Alpha", Out: "Beta"}}},
			{Name: "Second", Methods: []*c03.Method{{Name: "Get", In: "Alpha", Out: "Beta"}, {Name: "Put", In: "Alpha", Out: "Beta"}}},
		}}
	b := &c03.File{Path: moB, Syntax: "proto2", Package: "ord.v1", Imports: []string{moA}, Opts: []c03.Opt{{Name: "go_package", Val: `"example.com/ord/v1;ordv1"`}},
		Enums:    []*c03.Enum{moEnum("Tone", "TONE")},
		Messages: []*c03.Message{{Name: "Delta", Fields: []*c03.Field{moI32("d1", 1), moI32("d2", 2)}}},
		Services: []*c03.Service{{Name: "Third", Methods: []*c03.Method{{Name: "Run", In: "Alpha", Out: "Beta"}, {Name: "Stop", In: "Alpha", Out: "Beta"}}}}}
	c := &c03.File{Path: moC, Syntax: "proto2", Package: "ord.other.v1", Opts: []c03.Opt{{Name: "go_package", Val: `"example.com/ord/other/v1;otherv1"`}},
		Enums:    []*c03.Enum{moEnum("Kind", "KIND")},
		Messages: []*c03.Message{{Name: "Eps", Fields: []*c03.Field{moI32("e1", 1), moI32("e2", 2)}}}}
	return &c03.Schema{Files: []*c03.File{a, b, c}}
}

// moEdit is one half of an edit pair. Elements are named by slash-separated ids (file/kind/element/...): a
// removal lists what it takes away, a change what it needs; a change whose element is below a removed id
// does not combine with that removal.
type moEdit struct {
	kind    string // signature part: kind of removal / change
	target  string // element
	family  string // msg | enum | svc | file: which pair handlers walk over the element
	removes []string
	needs   []string
	apply   func(s *c03.Schema)
}

func (e moEdit) name() string { return e.kind + "(" + e.target + ")" }

func moDropExtends(list []*c03.Extend, extendee string, only string) []*c03.Extend {
	var out []*c03.Extend
	for _, x := range list {
		if x.Extendee != extendee {
			out = append(out, x)
			continue
		}
		if only == "" {
			continue
		}
		var fs []*c03.Field
		for _, f := range x.Fields {
			if f.Name != only {
				fs = append(fs, f)
			}
		}
		if len(fs) > 0 {
			out = append(out, &c03.Extend{Extendee: extendee, Fields: fs})
		}
	}
	return out
}

// moRemoveExtensions removes every extension of extendee (only == "") or the one named only, wherever declared.
func moRemoveExtensions(s *c03.Schema, extendee, only string) {
	var walk func(m *c03.Message)
	walk = func(m *c03.Message) {
		m.Extends = moDropExtends(m.Extends, extendee, only)
		for _, n := range m.Nested {
			walk(n)
		}
	}
	for _, f := range s.Files {
		f.Extends = moDropExtends(f.Extends, extendee, only)
		for _, m := range f.Messages {
			walk(m)
		}
	}
}

func moExtension(s *c03.Schema, extendee, name string) *c03.Field {
	var found *c03.Field
	look := func(list []*c03.Extend) {
		for _, x := range list {
			if x.Extendee == extendee {
				for _, f := range x.Fields {
					if f.Name == name {
						found = f
					}
				}
			}
		}
	}
	var walk func(m *c03.Message)
	walk = func(m *c03.Message) {
		look(m.Extends)
		for _, n := range m.Nested {
			walk(n)
		}
	}
	for _, f := range s.Files {
		look(f.Extends)
		for _, m := range f.Messages {
			walk(m)
		}
	}
	return found
}

func moString(f *c03.Field) { f.Type, f.Kind = "string", "string" }

// moRemovals: every kind of previous element that can lose its partner, first / last / nested siblings.
func moRemovals() []moEdit {
	fileOf := map[string]string{"a": moA, "b": moB, "c": moC}
	extGroup := func(m string) moEdit {
		return moEdit{kind: "all-extensions-removed", target: m, family: "msg", removes: []string{"a/ext/" + m},
			apply: func(s *c03.Schema) { moRemoveExtensions(s, m, "") }}
	}
	extOne := func(m, x string) moEdit {
		return moEdit{kind: "extension-removed", target: m + "." + x, family: "msg", removes: []string{"a/ext/" + m + "/" + x},
			apply: func(s *c03.Schema) { moRemoveExtensions(s, m, x) }}
	}
	field := func(file, msg string, num int, name string) moEdit {
		return moEdit{kind: "field-removed-reserved", target: msg + "." + name, family: "msg", removes: []string{file + "/msg/" + msg + "/f/" + name},
			apply: func(s *c03.Schema) {
				m := s.File(fileOf[file]).Msg(msg)
				m.DeleteField(num)
				m.Reserved = append(m.Reserved, c03.Range{Lo: num, Hi: num})
				m.ReservedNames = append(m.ReservedNames, name)
			}}
	}
	enum := func(file, name string) moEdit {
		return moEdit{kind: "enum-removed", target: name, family: "enum", removes: []string{file + "/enum/" + name},
			apply: func(s *c03.Schema) { s.File(fileOf[file]).DeleteEnum(name) }}
	}
	value := func(file, en, name string, num int) moEdit {
		return moEdit{kind: "enum-value-removed-reserved", target: en + "." + name, family: "enum", removes: []string{file + "/enum/" + en + "/v/" + name},
			apply: func(s *c03.Schema) {
				e := s.File(fileOf[file]).Enum(en)
				e.DeleteValue(name)
				e.Reserved = append(e.Reserved, c03.Range{Lo: num, Hi: num})
				e.ReservedNames = append(e.ReservedNames, name)
			}}
	}
	service := func(file, name string) moEdit {
		return moEdit{kind: "service-removed", target: name, family: "svc", removes: []string{file + "/svc/" + name},
			apply: func(s *c03.Schema) { s.File(fileOf[file]).DeleteService(name) }}
	}
	method := func(file, svc, name string) moEdit {
		return moEdit{kind: "method-removed", target: svc + "." + name, family: "svc", removes: []string{file + "/svc/" + svc + "/m/" + name},
			apply: func(s *c03.Schema) {
				sv := s.File(fileOf[file]).Service(svc)
				var out []*c03.Method
				for _, m := range sv.Methods {
					if m.Name != name {
						out = append(out, m)
					}
				}
				sv.Methods = out
			}}
	}
	return []moEdit{
		extGroup("Alpha"), extGroup("Gamma"), extGroup("Beta"),
		extOne("Beta", "xb1"),
		{kind: "message-removed", target: "Gamma", family: "msg", removes: []string{"a/msg/Gamma", "a/ext/Gamma"},
			apply: func(s *c03.Schema) { moRemoveExtensions(s, "Gamma", ""); s.File(moA).DeleteMessage("Gamma") }},
		{kind: "message-removed", target: "Delta", family: "msg", removes: []string{"b/msg/Delta"},
			apply: func(s *c03.Schema) { s.File(moB).DeleteMessage("Delta") }},
		{kind: "nested-message-removed", target: "Beta.Inner", family: "msg", removes: []string{"a/msg/Beta.Inner"},
			apply: func(s *c03.Schema) { s.File(moA).Msg("Beta").DeleteNested("Inner") }},
		field("a", "Alpha", 1, "a1"), field("a", "Beta", 3, "b3"),
		{kind: "oneof-removed-reserved", target: "Alpha.choice", family: "msg", removes: []string{"a/msg/Alpha/f/c1", "a/msg/Alpha/f/c2", "a/msg/Alpha/oneof/choice"},
			apply: func(s *c03.Schema) {
				m := s.File(moA).Msg("Alpha")
				m.DeleteField(4)
				m.DeleteField(5)
				m.Reserved = append(m.Reserved, c03.Range{Lo: 4, Hi: 5})
				m.ReservedNames = append(m.ReservedNames, "c1", "c2")
			}},
		enum("a", "Color"), enum("b", "Tone"),
		{kind: "nested-enum-removed", target: "Beta.Mode", family: "enum", removes: []string{"a/enum/Beta.Mode"},
			apply: func(s *c03.Schema) { s.File(moA).Msg("Beta").DeleteEnum("Mode") }},
		value("a", "Color", "COLOR_ONE", 1), value("a", "Shape", "SHAPE_TWO", 2),
		service("a", "First"), service("b", "Third"),
		method("a", "First", "Get"), method("a", "Second", "Put"),
		{kind: "file-removed", target: moB, family: "file", removes: []string{"b"}, apply: func(s *c03.Schema) { s.RemoveFile(moB) }},
		{kind: "file-removed", target: moC, family: "file", removes: []string{"c"}, apply: func(s *c03.Schema) { s.RemoveFile(moC) }},
	}
}

// moChanges: breaking changes of one element, one per pair handler and position.
func moChanges() []moEdit {
	fileOf := map[string]string{"a": moA, "b": moB, "c": moC}
	extType := func(m, x string) moEdit {
		return moEdit{kind: "extension-type-changed", target: m + "." + x, family: "msg", needs: []string{"a/ext/" + m + "/" + x},
			apply: func(s *c03.Schema) { moString(moExtension(s, m, x)) }}
	}
	fieldType := func(file, msg string, num int, name string) moEdit {
		return moEdit{kind: "field-type-changed", target: msg + "." + name, family: "msg", needs: []string{file + "/msg/" + msg + "/f/" + name},
			apply: func(s *c03.Schema) { moString(s.File(fileOf[file]).Msg(msg).Field(num)) }}
	}
	valueDel := func(file, en, name string) moEdit {
		return moEdit{kind: "enum-value-deleted", target: en + "." + name, family: "enum", needs: []string{file + "/enum/" + en + "/v/" + name},
			apply: func(s *c03.Schema) { s.File(fileOf[file]).Enum(en).DeleteValue(name) }}
	}
	valueRename := func(file, en, name string) moEdit {
		return moEdit{kind: "enum-value-renamed", target: en + "." + name, family: "enum", needs: []string{file + "/enum/" + en + "/v/" + name},
			apply: func(s *c03.Schema) { s.File(fileOf[file]).Enum(en).Value(name).Name = name + "_RENAMED" }}
	}
	rpc := func(file, svc, name string, request bool) moEdit {
		kind := "rpc-response-type-changed"
		if request {
			kind = "rpc-request-type-changed"
		}
		return moEdit{kind: kind, target: svc + "." + name, family: "svc", needs: []string{file + "/svc/" + svc + "/m/" + name},
			apply: func(s *c03.Schema) {
				m := s.File(fileOf[file]).Service(svc).Method(name)
				if request {
					m.In = "Beta"
				} else {
					m.Out = "Alpha"
				}
			}}
	}
	fileOpt := func(file string) moEdit {
		return moEdit{kind: "file-option-changed", target: fileOf[file], family: "file", needs: []string{file + "/opt"},
			apply: func(s *c03.Schema) {
				s.File(fileOf[file]).Opts = []c03.Opt{{Name: "go_package", Val: `"example.com/changed/v1;changedv1"`}}
			}}
	}
	return []moEdit{
		extType("Gamma", "xg1"), extType("Alpha", "xa2"), extType("Beta", "xb2"), extType("Gamma", "xg2"),
		fieldType("a", "Alpha", 2, "a2"), fieldType("a", "Beta.Inner", 1, "i1"), fieldType("b", "Delta", 2, "d2"), fieldType("c", "Eps", 1, "e1"),
		{kind: "field-leaves-oneof", target: "Alpha.p1", family: "msg", needs: []string{"a/msg/Alpha/f/p1"},
			apply: func(s *c03.Schema) {
				f := s.File(moA).Msg("Alpha").Field(6)
				f.Oneof, f.Label = "", "optional"
			}},
		{kind: "field-deleted", target: "Beta.b1", family: "msg", needs: []string{"a/msg/Beta/f/b1"},
			apply: func(s *c03.Schema) { s.File(moA).Msg("Beta").DeleteField(1) }},
		{kind: "required-field-added", target: "Gamma", family: "msg", needs: []string{"a/msg/Gamma/req"},
			apply: func(s *c03.Schema) {
				m := s.File(moA).Msg("Gamma")
				m.Fields = append(m.Fields, &c03.Field{Name: "g9", Num: 9, Label: "required", Type: "int32", Kind: "int32"})
			}},
		valueDel("a", "Shape", "SHAPE_ONE"), valueRename("a", "Color", "COLOR_TWO"), valueDel("c", "Kind", "KIND_ONE"), valueRename("a", "Beta.Mode", "MODE_ONE"),
		rpc("a", "First", "Put", true), rpc("a", "Second", "Get", false), rpc("b", "Third", "Run", true),
		fileOpt("a"), fileOpt("c"),
	}
}

// moConflict: the change needs an element the removal takes away.
func moConflict(rm, ch moEdit) bool {
	for _, gone := range rm.removes {
		for _, n := range ch.needs {
			if n == gone || strings.HasPrefix(n, gone+"/") {
				return true
			}
		}
	}
	return false
}

type moPair struct {
	rm, ch   moEdit
	versions []string
	newR     *c03.Rendered
	newImg   bufimage.Image
}

func (p *moPair) id() string { return p.rm.name() + " + " + p.ch.name() }

// moQuickCap: how many changes of a kind a removal combines with in the quick tier (thorough: all of its family).
// The changes that go through the loop the removed element sits in are all kept; of the others one or two.
func moQuickCap(rm, ch moEdit) int {
	switch rm.kind {
	case "all-extensions-removed", "extension-removed":
		switch ch.kind {
		case "extension-type-changed":
			return 99
		case "field-type-changed":
			return 1
		}
		return 0
	case "message-removed", "nested-message-removed":
		if ch.kind == "extension-type-changed" {
			return 2
		}
	case "field-removed-reserved", "oneof-removed-reserved":
		if ch.kind == "extension-type-changed" {
			return 1
		}
	case "file-removed":
		return 1
	}
	return 99
}

// moPairs: a removal combines with the changes of its family (the elements the same handlers walk over); a
// removed file with changes of every kind (every handler walks over files first), a changed file option with
// removed files only. Quick: see moQuickCap; v2 for every pair, v1 for the first removal of every kind with the
// first change of every kind, v1beta1 for the first pair of every kind of removal (the versions share the
// handlers and differ in the category contents). Thorough: every pair under every version.
func moPairs(full bool) []*moPair {
	var out []*moPair
	firstOfKind := map[string]bool{}
	for _, rm := range moRemovals() {
		older := !firstOfKind[rm.kind]
		firstOfKind[rm.kind] = true
		used := map[string]int{}
		for _, ch := range moChanges() {
			if moConflict(rm, ch) || (rm.family != "file" && rm.family != ch.family) {
				continue
			}
			if !full && used[ch.kind] >= moQuickCap(rm, ch) {
				continue
			}
			used[ch.kind]++
			versions := []string{"v2"}
			switch {
			case full || (older && len(used) == 1 && used[ch.kind] == 1):
				versions = c03.Versions
			case older && used[ch.kind] == 1:
				versions = []string{"v1", "v2"}
			}
			out = append(out, &moPair{rm: rm, ch: ch, versions: versions})
		}
	}
	return out
}

// moSeeds: every map the handlers walk holds at most moSeeds entries in this world (checked by moLargestMap), so
// the seeds 0..moSeeds-1 enumerate every rotation of every one of them (a seed >= the number of entries starts at
// an empty slot of the bucket and gives the order of seed 0 again).
const moSeeds = 6

// moLargestMap is the size of the biggest element group of the schema that a handler collects into one map:
// files, packages, messages (all, with nested), enums, services, extended messages, and per parent the fields,
// oneofs, enum values, methods and extensions of one message.
func moLargestMap(s *c03.Schema) int {
	max := 0
	up := func(n int) {
		if n > max {
			max = n
		}
	}
	msgs, enums, svcs := 0, 0, 0
	extPer := map[string]int{}
	pkgs := map[string]bool{}
	exts := func(list []*c03.Extend) {
		for _, x := range list {
			extPer[x.Extendee] += len(x.Fields)
		}
	}
	var walk func(m *c03.Message)
	walk = func(m *c03.Message) {
		msgs++
		enums += len(m.Enums)
		up(len(m.Fields))
		up(len(m.Oneofs))
		for _, e := range m.Enums {
			up(len(e.Values))
		}
		exts(m.Extends)
		for _, n := range m.Nested {
			walk(n)
		}
	}
	for _, f := range s.Files {
		pkgs[f.Package] = true
		enums += len(f.Enums)
		svcs += len(f.Services)
		for _, e := range f.Enums {
			up(len(e.Values))
		}
		for _, sv := range f.Services {
			up(len(sv.Methods))
		}
		exts(f.Extends)
		for _, m := range f.Messages {
			walk(m)
		}
	}
	up(len(s.Files))
	up(len(pkgs))
	up(msgs)
	up(enums)
	up(svcs)
	up(len(extPer))
	for _, n := range extPer {
		up(n)
	}
	return max
}

type moCell struct {
	rules []string // sorted distinct rule ids; empty = clean
	first map[string]string
	n     int
}

func (x *runner) runMapOrder(full bool) {
	r := x.r
	base := moBase()
	baseR := base.Render(c03.Style{})
	baseImg, err := x.eng.CachedImage(baseR)
	if err != nil {
		r.Incomplete(fmt.Sprintf("harness: map-order base does not build: %v", err))
		return
	}
	if n := moLargestMap(base); n > moSeeds || n > 8 {
		r.Incomplete(fmt.Sprintf("harness: the map-order world has a group of %d elements, the seeds 0..%d do not enumerate every rotation of its map", n, moSeeds-1))
	}
	r.Set("map_order_largest_element_group_of_the_world", moLargestMap(base))
	pairs := moPairs(full)
	r.ParallelFor(len(pairs), 0, func(i int) {
		p := pairs[i]
		s := base.Clone()
		p.rm.apply(s)
		p.ch.apply(s)
		p.newR = s.Render(c03.Style{})
		img, err := x.eng.Image(p.newR)
		p.newImg = img
		if err != nil {
			p.newImg = nil
			r.Incomplete(fmt.Sprintf("harness: map-order pair %s does not build: %v", p.id(), err))
		}
	})
	type job struct {
		p   *moPair
		v   string
		cat int
	}
	var jobs []job
	for _, p := range pairs {
		if p.newImg == nil {
			continue
		}
		for _, v := range p.versions {
			for ci := range c03.Categories {
				jobs = append(jobs, job{p, v, ci})
			}
		}
	}
	seeded := mapSeedAvailable()
	r.Set("map_order_seed_overlay_present", seeded)
	if !seeded {
		r.Incomplete("built without the map-seed overlay (-tags verif,mapseed -overlay overlay/mapseed.json): the map-order phase repeats every comparison once per seed under the runtime's random orders instead of enumerating them")
	}
	// cells[seed][job]
	cells := make([][]*moCell, moSeeds)
	failed := make([]bool, len(jobs))
	for seed := 0; seed < moSeeds && !r.Expired(); seed++ {
		cells[seed] = make([]*moCell, len(jobs))
		if seeded {
			setMapSeed(uint64(seed), true)
		}
		seed := seed
		r.ParallelFor(len(jobs), 0, func(i int) {
			j := jobs[i]
			c := c03.Config{Version: j.v, Use: c03.Categories[j.cat]}
			anns, err := x.eng.Breaking(c, j.p.newImg, baseImg)
			r.Eval(1)
			if err != nil {
				failed[i] = true
				if strings.HasPrefix(err.Error(), "config ") {
					r.Incomplete("harness: " + err.Error())
				} else {
					r.Violate("hierarchy-error/"+j.p.rm.kind+"+"+j.p.ch.kind, fmt.Sprintf("map-order %s under %s (map seed %d): Breaking failed: %v", j.p.id(), c, seed, err),
						caseT{Kind: "map-order", Pair: j.p.id(), Config: c.String(), Changed: changed(baseR, j.p.newR), MapSeed: fmt.Sprint(seed)})
				}
				return
			}
			cell := &moCell{first: map[string]string{}, n: len(anns)}
			for _, a := range anns {
				if _, ok := cell.first[a.Type]; !ok {
					cell.first[a.Type] = a.Message
					cell.rules = append(cell.rules, a.Type)
				}
			}
			sort.Strings(cell.rules)
			cells[seed][i] = cell
		})
	}
	if seeded {
		setMapSeed(0, false)
	}
	if r.Expired() {
		return
	}
	// judge: jobs are grouped by (pair, version) in runs of len(Categories)
	nc := len(c03.Categories)
	for g := 0; g+nc <= len(jobs); g += nc {
		p, v := jobs[g].p, jobs[g].v
		ok := true
		for ci := 0; ci < nc; ci++ {
			if failed[g+ci] {
				ok = false
			}
			for seed := 0; seed < moSeeds; seed++ {
				if cells[seed] == nil || cells[seed][g+ci] == nil {
					ok = false
				}
			}
		}
		if !ok {
			continue
		}
		perSeed := map[string]string{}
		cleanAt := make([]int, nc) // a seed under which the category is clean (-1: none)
		dirtyAt := make([]int, nc) // a seed under which it reports (-1: none)
		for ci, cat := range c03.Categories {
			cleanAt[ci], dirtyAt[ci] = -1, -1
			pat := ""
			for seed := 0; seed < moSeeds; seed++ {
				if len(cells[seed][g+ci].rules) == 0 {
					pat += "c"
					if cleanAt[ci] < 0 {
						cleanAt[ci] = seed
					}
				} else {
					pat += "D"
					if dirtyAt[ci] < 0 {
						dirtyAt[ci] = seed
					}
				}
			}
			perSeed[cat] = pat
		}
		pattern := ""
		for ci := range c03.Categories {
			if dirtyAt[ci] < 0 {
				pattern += "c"
			} else {
				pattern += "D"
			}
		}
		x.add("map_order_pattern_"+pattern, 1)
		for ci := 1; ci < nc; ci++ {
			if dirtyAt[ci] >= 0 {
				// the pair would expose a stricter category that misses the change under some order
				x.add("map_order_consequent_false_"+c03.Categories[ci], 1)
			}
		}
		x.add("map_order_pairs_"+v, 1)
		opSig := p.rm.kind + "+" + p.ch.kind
		mk := func(ci, seed int) caseT {
			return caseT{Kind: "map-order", Pair: p.id(), Config: v + "/" + c03.Categories[ci], PerSeed: perSeed,
				Changed: changed(baseR, p.newR), MapSeed: fmt.Sprint(seed)}
		}
		// a verdict is a function of the comparison
		for ci, cat := range c03.Categories {
			if cleanAt[ci] >= 0 && dirtyAt[ci] >= 0 {
				cell := cells[dirtyAt[ci]][g+ci]
				for _, rule := range cell.rules {
					// the rules that are missing under the clean order
					x.r.Violate("hierarchy-map-order/"+v+"/"+cat+"-verdict-depends-on-map-iteration-order/"+rule,
						fmt.Sprintf("map-order %s (%s), %s: category %s is clean under map seed %d but reports %d annotation(s) under map seed %d (clean c / dirty D per map seed 0, 1, ..: %s), first of this rule: %q",
							p.id(), opSig, v, cat, cleanAt[ci], cell.n, dirtyAt[ci], perSeed[cat], cell.first[rule]),
						mk(ci, dirtyAt[ci]))
				}
			}
		}
		// clean(strict, o) => clean(lax, o') for all map orders o, o'
		for ci := 0; ci+1 < nc; ci++ {
			strict, lax := c03.Categories[ci], c03.Categories[ci+1]
			if cleanAt[ci] < 0 {
				continue
			}
			x.add("map_order_antecedent_true_"+strict, 1)
			if dirtyAt[ci+1] < 0 {
				continue
			}
			// the same order on both sides is the plain hierarchy violation (signature of the catalogue phase)
			prefix, so, lo := "hierarchy-map-order", cleanAt[ci], dirtyAt[ci+1]
			for seed := 0; seed < moSeeds; seed++ {
				if len(cells[seed][g+ci].rules) == 0 && len(cells[seed][g+ci+1].rules) > 0 {
					prefix, so, lo = "hierarchy", seed, seed
					break
				}
			}
			cell := cells[lo][g+ci+1]
			for _, rule := range cell.rules {
				x.r.Violate(prefix+"/"+v+"/"+strict+"-clean-but-"+lax+"-reports/"+rule,
					fmt.Sprintf("map-order %s (%s), %s: clean under %s (map seed %d) but %s reports %d annotation(s) (map seed %d); clean c / dirty D per map seed 0, 1, ..: %s %s, %s %s; first of this rule: %q",
						p.id(), opSig, v, strict, so, lax, cell.n, lo, strict, perSeed[strict], lax, perSeed[lax], cell.first[rule]),
					mk(ci+1, lo))
			}
		}
		if v == p.versions[len(p.versions)-1] {
			r.Distinct("map-order/" + p.id())
			x.add("map_order_pairs", 1)
			x.add("map_order_pairs_removal_"+p.rm.kind, 1)
			x.add("map_order_pairs_change_"+p.ch.kind, 1)
		}
		r.SampleEvery(g/nc, 41, func() any { return mk(0, 0) })
	}
	x.add("map_order_seeds", moSeeds)
}
