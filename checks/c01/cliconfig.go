package c01

import (
	"encoding/json"
	"encoding/xml"
	"regexp"
	"strconv"
	"strings"
)

// Configuration dimension of the CLI observation point: settings that change how `buf build` reads its input or prints
// its diagnostics, but not what the image or the diagnostics are.
//
//   - Mem: BUF_BETA_COPY_FILES_TO_MEMORY is set, the input bucket is copied into memory before anything is read. The copy
//     has to preserve the external paths (the path the user gave) of every file.
//   - ErrFormat: --error-format. Every format carries the file path, line and column of each diagnostic.
//
// The zero value is the default configuration (files read from disk, text diagnostics).
type cliConfig struct {
	Mem       bool   `json:"copy_files_to_memory,omitempty"`
	ErrFormat string `json:"error_format,omitempty"` // "" = flag not given (text)
}

// errFormats are the values of --error-format (without aliases); "" stands for the default.
var errFormats = []string{"", "json", "msvs", "junit", "github-actions"}

func (c cliConfig) env() map[string]string {
	if c.Mem {
		return map[string]string{"BUF_BETA_COPY_FILES_TO_MEMORY": "1"}
	}
	return nil
}

func (c cliConfig) args() []string {
	if c.ErrFormat != "" {
		return []string{"--error-format", c.ErrFormat}
	}
	return nil
}

// point is the observation point name in signatures: "cli" for the default way of reading the input, "cli-mem" with the
// files copied to memory; the output encoding of the image is appended as before ("cli-json", "cli-mem-json").
func (c cliConfig) point(format string) string {
	p := "cli"
	if c.Mem {
		p = "cli-mem"
	}
	if format != "" && format != "binpb" {
		p += "-" + format
	}
	return p
}

// errClause is the name of the diagnostics clause in signatures: "error" for text diagnostics, "error-<format>" otherwise.
func (c cliConfig) errClause() string {
	if c.ErrFormat == "" {
		return "error"
	}
	return "error-" + c.ErrFormat
}

func (c cliConfig) String() string {
	var parts []string
	if c.Mem {
		parts = append(parts, "BUF_BETA_COPY_FILES_TO_MEMORY=1")
	}
	if c.ErrFormat != "" {
		parts = append(parts, "--error-format="+c.ErrFormat)
	}
	if len(parts) == 0 {
		return "default configuration"
	}
	return strings.Join(parts, " ")
}

type cliPlan struct {
	form int // 0 = absolute directory, 1 = directory relative to the process working directory
	cfg  cliConfig
}

// otherCLIConfigs lists the (directory form, configuration) pairs other than the two with the default configuration.
// full: the whole product 2 forms x {disk, memory} x 5 diagnostics formats (18 pairs); otherwise one setting is changed at
// a time (files copied to memory with text diagnostics; each other diagnostics format with the files read from disk:
// 10 pairs).
func otherCLIConfigs(full bool) []cliPlan {
	var out []cliPlan
	for _, ef := range errFormats {
		for _, mem := range []bool{true, false} {
			for form := 0; form < 2; form++ {
				if !mem && ef == "" {
					continue
				}
				if !full && mem && ef != "" {
					continue
				}
				out = append(out, cliPlan{form, cliConfig{Mem: mem, ErrFormat: ef}})
			}
		}
	}
	return out
}

var (
	reMSVSLine   = regexp.MustCompile(`^(.+?)\((\d+)(?:,(\d+))?\) : error ([A-Za-z_]+) : (.*)$`)
	reGithubLine = regexp.MustCompile(`^::error file=([^,:]*)(?:,line=(\d+))?(?:,col=(\d+))?(?:,endLine=\d+)?(?:,endColumn=\d+)?::(.*)$`)
)

var githubUnescaper = strings.NewReplacer("%3A", ":", "%2C", ",", "%0D", "\r", "%0A", "\n", "%25", "%")

// parseDiagnostics reads the diagnostics `buf build --error-format <format>` printed: (path, line, column) -> message,
// plus everything that is not a diagnostic in that format.
func parseDiagnostics(format, stderr string) (map[posKey]string, []string) {
	if format == "" || format == "text" {
		return cliAnnotations(stderr)
	}
	out := map[posKey]string{}
	var other []string
	if format == "junit" {
		// <testsuites><testsuite name="<path without .proto>"><testcase name="COMPILE_<line>_<col>"><failure message="<path>:<line>:<col>:<msg>" .../>
		var doc struct {
			Suites []struct {
				Name  string `xml:"name,attr"`
				Cases []struct {
					Name    string `xml:"name,attr"`
					Failure *struct {
						Message string `xml:"message,attr"`
					} `xml:"failure"`
				} `xml:"testcase"`
			} `xml:"testsuite"`
		}
		if err := xml.Unmarshal([]byte(stderr), &doc); err != nil {
			return out, []string{"not a JUnit document: " + err.Error()}
		}
		for _, s := range doc.Suites {
			for _, c := range s.Cases {
				if c.Failure == nil {
					other = append(other, "testcase without failure: "+c.Name)
					continue
				}
				m := reCLILine.FindStringSubmatch(c.Failure.Message)
				if m == nil {
					other = append(other, c.Failure.Message)
					continue
				}
				l, _ := strconv.Atoi(m[2])
				col, _ := strconv.Atoi(m[3])
				// the suite is named after the file, the test case after the position: both must say the same as the message
				if s.Name+".proto" != m[1] || !strings.HasSuffix(c.Name, "_"+m[2]+"_"+m[3]) {
					other = append(other, "testsuite "+s.Name+" testcase "+c.Name+" disagree with the failure message "+c.Failure.Message)
					continue
				}
				out[posKey{Path: m[1], Line: l, Col: col}] = m[4]
			}
		}
		return out, other
	}
	for _, line := range strings.Split(strings.TrimRight(stderr, "\n"), "\n") {
		if line == "" {
			continue
		}
		switch format {
		case "json":
			var a struct {
				Path        string `json:"path"`
				StartLine   int    `json:"start_line"`
				StartColumn int    `json:"start_column"`
				Message     string `json:"message"`
			}
			if err := json.Unmarshal([]byte(line), &a); err != nil || a.Path == "" {
				other = append(other, line)
				continue
			}
			out[posKey{Path: a.Path, Line: a.StartLine, Col: a.StartColumn}] = a.Message
		case "msvs":
			m := reMSVSLine.FindStringSubmatch(line)
			if m == nil {
				other = append(other, line)
				continue
			}
			l, _ := strconv.Atoi(m[2])
			c, _ := strconv.Atoi(m[3])
			out[posKey{Path: m[1], Line: l, Col: c}] = m[5]
		case "github-actions":
			m := reGithubLine.FindStringSubmatch(line)
			if m == nil {
				other = append(other, line)
				continue
			}
			l, _ := strconv.Atoi(m[2])
			c, _ := strconv.Atoi(m[3])
			out[posKey{Path: githubUnescaper.Replace(m[1]), Line: l, Col: c}] = m[4]
		default:
			other = append(other, line)
		}
	}
	return out, other
}
