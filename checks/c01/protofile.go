package c01

import (
	"fmt"
	"os"
	"path/filepath"

	"github.com/bufbuild/bufverif/internal/enum"
)

// Protofile phase (input kind dimension): the input is a .proto file reference, `buf build <file>` and
// `buf build <file>#include_package_files=true`, instead of a directory. Reference model (refProtoFileTargets): the file
// itself is targeted, with include_package_files also the files of its module that declare the same package; a file
// without a package statement has no package files. Everything else in the image must be a (transitive) import of those.
//
// Worlds: the 25 DAG shapes on 3 files (edge kinds rotating) x assignment of the files to <=2 modules x package pattern
// (every file: own package / the shared package / no package statement: 27 patterns) x decoration; selections: every
// file x include_package_files in {false, true}. API on all worlds, CLI on every fourth. (Quick: every pattern x 4 of the
// 8 assignments, shape rotating; thorough: every shape x every pattern x 2 assignments.)

// decorations without the descriptor.proto variant (compiling descriptor.proto from source is 3/4 of the cost of a world)
var protoFileDecors = []int{1, 2, 8, 11}

func protoFileSelections(w *World) []Selection {
	var sels []Selection
	for _, f := range w.Files {
		if f.Index < 0 {
			continue
		}
		for _, inc := range []bool{false, true} {
			sels = append(sels, Selection{ProtoFile: f.Ext, IncludePkg: inc})
		}
	}
	return sels
}

func (rn *runner) protoFileSpecs(quick bool) []*Spec {
	allKinds := []int{kPlain, kPublic, kUnused}
	shapes := enum.Digraphs(3, true)
	mods, dirs := assignments(3)
	mk := func(gi, a, pp int) *Spec {
		k := make([][]int, 3)
		for i := range k {
			k[i] = make([]int, 3)
		}
		for e, ed := range shapes[gi].Edges() {
			k[ed[0]][ed[1]] = allKinds[(e+gi+pp)%3]
		}
		s := &Spec{N: 3, Kind: k, Mod: mods[a], ModDirs: dirs[a], Shadow: -1, Pkg: []int{pp % 3, (pp / 3) % 3, (pp / 9) % 3}}
		decorate(s, protoFileDecors[(gi+a+pp)%len(protoFileDecors)])
		return s
	}
	var specs []*Spec
	if quick {
		// every package pattern x 4 of the 8 assignments (one single-module layout and three splits, alternating between
		// the two halves with the pattern); the graph shape rotates (each of the 25 shapes occurs 4 or 5 times)
		for pp := 0; pp < 27; pp++ {
			for k := 0; k < 4; k++ {
				a := (pp + 2*k) % len(mods)
				specs = append(specs, mk((pp*4+k)%len(shapes), a, pp))
			}
		}
		return specs
	}
	for gi := range shapes {
		for pp := 0; pp < 27; pp++ {
			for _, a := range []int{(gi + pp) % len(mods), (gi + pp + 3) % len(mods)} {
				specs = append(specs, mk(gi, a, pp))
			}
		}
	}
	return specs
}

func (rn *runner) runProtoFilePhase(scratch string) {
	r := rn.r
	specs := rn.protoFileSpecs(r.Quick())
	r.Set("protofile_phase_worlds", len(specs))
	r.ParallelFor(len(specs), 0, func(i int) {
		s := specs[i]
		w, directFor, ok := rn.prepare(s)
		if !ok {
			return
		}
		cnt := counters{}
		defer rn.merge(cnt)
		sels := protoFileSelections(w)
		for _, sel := range sels {
			must, optional := refProtoFileTargets(w, sel)
			cnt.add("protofile_selections", 1)
			if len(must) > 1 {
				cnt.add("protofile_include_adds_package_files", 1)
			}
			if len(optional) > 0 {
				cnt.add("protofile_same_package_in_another_module", 1)
			}
			if sel.IncludePkg {
				for _, f := range w.Files {
					if f.Ext == sel.ProtoFile && packageOf(f.Text) == "" {
						for _, g := range w.Files {
							if g.Ext != f.Ext && g.Module == f.Module && packageOf(g.Text) == "" {
								cnt.add("protofile_package_less_target_with_package_less_sibling", 1)
								break
							}
						}
					}
				}
			}
		}
		r.SampleEvery(i, 101, func() any {
			return Case{Phase: "protofile", Spec: s, Selection: &sels[len(sels)-1], Files: w.BucketFiles(), World: infoOf(w)}
		})
		rn.runWorld("protofile", s, w, sels, directFor)
		if i%4 != 0 {
			return
		}
		files := w.BucketFiles()
		dir := filepath.Join(scratch, fmt.Sprintf("p%d", i))
		if err := writeWorld(dir, files); err != nil {
			r.Incomplete("scratch: " + err.Error())
			return
		}
		defer os.RemoveAll(dir)
		for _, sel := range sels {
			cnt.add("protofile_cli_builds", 1)
			rn.cliOne("protofile", s, specKey(s), w, files, dir, sel, "binpb", directFor, cnt)
		}
	})
}

// protoFileAlternative: a .proto file reference with include_package_files whose package also has files in ANOTHER module
// may be read either way (package files of the file's module only, or of the whole workspace). vs are the violations of
// the strict reading; if the image is explained completely by the wide reading, nothing is reported.
func (rn *runner) protoFileAlternative(point string, exp *expectation, sel Selection, obs []obsFile, vs []violation, directFor func([]string) *Direct, cnt counters) []violation {
	if len(vs) == 0 {
		return vs
	}
	must, optional := refProtoFileTargets(exp.world, sel)
	if len(optional) == 0 {
		return vs
	}
	all := sortedCopy(append(append([]string{}, must...), optional...))
	d := directFor(all)
	if d == nil {
		return vs
	}
	alt := *exp
	alt.targets, alt.direct = all, d
	if len(checkImage(point, &alt, obs, counters{})) == 0 {
		cnt.add("protofile_wide_reading_accepted", 1)
		return nil
	}
	return vs
}
