package c01

import (
	"fmt"
	"os"
	"path/filepath"

	"github.com/bufbuild/bufverif/internal/bufx"
)

// CLI observation point for the image clause: the worlds of the paths and shadow phases are written to scratch
// directories and built with `buf build <dir>[/<module dir>] -o -#format=binpb [--path p] [--exclude-path e]`;
// the bytes on stdout are decoded with the generated image proto (not with bufimage) and go through the same oracle.

func (rn *runner) runCLIPhase(scratch string, all []worldItem) {
	r := rn.r
	var items []worldItem
	for _, it := range all {
		if it.cliMode != selNone {
			items = append(items, it)
		}
	}
	r.Set("cli_phase_worlds", len(items))
	r.ParallelFor(len(items), 0, func(i int) {
		it := items[i]
		w, directFor, ok := rn.prepare(it.spec)
		if !ok {
			return
		}
		cnt := counters{}
		defer rn.merge(cnt)
		files := w.BucketFiles()
		dir := filepath.Join(scratch, fmt.Sprintf("c%d", i))
		if err := writeWorld(dir, files); err != nil {
			r.Incomplete("scratch: " + err.Error())
			return
		}
		defer os.RemoveAll(dir)
		sels := selections(w, it.cliMode, false)
		for _, sel := range sels {
			rn.cliOne("cli", it.spec, specKey(it.spec), w, files, dir, sel, "binpb", directFor, cnt)
		}
		// output format dimension: the plain build of the workspace root once more in one of the text encodings (rotating),
		// decoded with a resolver made from the bare compiler's descriptors
		rn.cliOne("cli", it.spec, specKey(it.spec), w, files, dir, Selection{SubDir: "."}, textFormats[i%len(textFormats)], directFor, cnt)
	})
}

var textFormats = []string{"json", "txtpb", "yaml"}

// cliArgs is the command line of one selection: `buf build <input> -o -#format=<format> [--path p] [--exclude-path e]`.
func cliArgs(dir string, sel Selection, format string) []string {
	input := filepath.Join(dir, filepath.FromSlash(sel.SubDir))
	if sel.ProtoFile != "" {
		input = filepath.Join(dir, filepath.FromSlash(sel.ProtoFile))
		if sel.IncludePkg {
			input += "#include_package_files=true"
		}
	}
	args := []string{"build", input, "-o", "-#format=" + format}
	for _, p := range sel.Paths {
		args = append(args, "--path", filepath.Join(dir, filepath.FromSlash(p)))
	}
	for _, e := range sel.Excludes {
		args = append(args, "--exclude-path", filepath.Join(dir, filepath.FromSlash(e)))
	}
	return args
}

// cliPoint names the observation point of an output format in signatures ("cli" is the binary encoding).
func cliPoint(format string) string {
	if format == "binpb" {
		return "cli"
	}
	return "cli-" + format
}

// cliOne runs one selection of a world written to dir through `buf build` with one output format and judges the outcome.
func (rn *runner) cliOne(phase string, spec *Spec, wkey string, w *World, files map[string]string, dir string, sel Selection, format string, directFor func([]string) *Direct, cnt counters) {
	r := rn.r
	point := cliPoint(format)
	res := bufx.RunCLI(rn.ctx, nil, "", cliArgs(dir, sel, format)...)
	r.Eval(1)
	cnt.add("cli_builds", 1)
	mkCase := func() any {
		c := Case{Phase: phase, Spec: spec, Selection: &sel, Files: files, World: infoOf(w), Format: format}
		if spec == nil {
			c.Note = wkey
		}
		return c
	}
	targets := refTargets(w, sel)
	if res.ExitCode != 0 {
		switch {
		case len(targets) == 0:
			cnt.add("cli_outcome_error_no_targets", 1)
		case selectionMayBeRejected(w, sel):
			cnt.add("cli_outcome_selection_rejected", 1)
		default:
			r.Violate(point+"/build/unexpected-exit", fmt.Sprintf("%s: reference targets %v compile directly, `buf build` exit %d stderr %q", sel, targets, res.ExitCode, res.Stderr), mkCase())
		}
		if len(res.Stdout) != 0 {
			r.Violate(point+"/build/output-on-failure", fmt.Sprintf("%s: exit %d but %d bytes on stdout", sel, res.ExitCode, len(res.Stdout)), mkCase())
		}
		return
	}
	if len(targets) == 0 {
		r.Violate(point+"/build/image-without-targets", fmt.Sprintf("%s: nothing is targeted according to the reference model, `buf build` exit 0", sel), mkCase())
		return
	}
	direct := directFor(targets)
	if direct == nil {
		return
	}
	exp := &expectation{world: w, targets: targets, direct: direct}
	var obs []obsFile
	var err error
	if format == "binpb" {
		obs, err = observeWire([]byte(res.Stdout))
	} else {
		obs, exp.canon, err = observeText(format, []byte(res.Stdout), direct)
	}
	if err != nil {
		r.Violate(point+"/build/undecodable-output", fmt.Sprintf("%s: %v", sel, err), mkCase())
		return
	}
	cnt.add("cli_images", 1)
	if format != "binpb" {
		cnt.add("cli_images_"+format, 1)
	}
	vs := checkImage(point, exp, obs, cnt)
	if sel.ProtoFile != "" {
		vs = rn.protoFileAlternative(point, exp, sel, obs, vs, directFor, cnt)
	}
	report(r, vs, mkCase())
	if len(obs) >= 2 {
		key := phase + "|" + wkey + "|" + sel.String()
		if format != "binpb" {
			key += "|" + format
		}
		r.Distinct(key)
	}
}
