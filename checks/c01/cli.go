package c01

import (
	"fmt"
	"os"
	"path/filepath"
	"strings"

	"github.com/bufbuild/bufverif/internal/bufx"
)

// CLI observation point for the image clause: the worlds of the paths and shadow phases are written to scratch
// directories and built with `buf build <dir>[/<module dir>] -o -#format=binpb [--path p] [--exclude-path e]`;
// the bytes on stdout are decoded with the generated image proto (not with bufimage) and go through the same oracle.

func (rn *runner) runCLIPhase(scratch string, all []worldItem) {
	r := rn.r
	var items []worldItem
	for _, it := range all {
		if it.cliMode != selNone {
			items = append(items, it)
		}
	}
	r.Set("cli_phase_worlds", len(items))
	r.ParallelFor(len(items), 0, func(i int) {
		it := items[i]
		w, directFor, ok := rn.prepare(it.spec)
		if !ok {
			return
		}
		cnt := counters{}
		defer rn.merge(cnt)
		files := w.BucketFiles()
		dir := filepath.Join(scratch, fmt.Sprintf("c%d", i))
		if err := writeWorld(dir, files); err != nil {
			r.Incomplete("scratch: " + err.Error())
			return
		}
		defer os.RemoveAll(dir)
		sels := selections(w, it.cliMode, false)
		control := map[string]map[string]bool{}
		for _, sel := range sels {
			control[sel.String()] = rn.cliOne("cli", it.spec, specKey(it.spec), w, files, dir, sel, "binpb", directFor, cnt)
		}
		// output format dimension: the plain build of the workspace root once more in one of the text encodings (rotating),
		// decoded with a resolver made from the bare compiler's descriptors
		rn.cliOne("cli", it.spec, specKey(it.spec), w, files, dir, Selection{SubDir: "."}, textFormats[i%len(textFormats)], directFor, cnt)
		// configuration dimension: the input directories once more with BUF_BETA_COPY_FILES_TO_MEMORY set (every file is read
		// from an in-memory copy of the input bucket); the image must not change
		for _, sel := range subDirSelections(w) {
			rn.cliOneCfg("cli", it.spec, specKey(it.spec), w, files, dir, sel, "binpb", cliConfig{Mem: true}, control[sel.String()], directFor, cnt)
		}
	})
}

var textFormats = []string{"json", "txtpb", "yaml"}

// cliArgs is the command line of one selection: `buf build <input> -o -#format=<format> [--path p] [--exclude-path e]`.
func cliArgs(dir string, sel Selection, format string) []string {
	input := filepath.Join(dir, filepath.FromSlash(sel.SubDir))
	if sel.ProtoFile != "" {
		input = filepath.Join(dir, filepath.FromSlash(sel.ProtoFile))
		if sel.IncludePkg {
			input += "#include_package_files=true"
		}
	}
	args := []string{"build", input, "-o", "-#format=" + format}
	for _, p := range sel.Paths {
		args = append(args, "--path", filepath.Join(dir, filepath.FromSlash(p)))
	}
	for _, e := range sel.Excludes {
		args = append(args, "--exclude-path", filepath.Join(dir, filepath.FromSlash(e)))
	}
	return args
}

// cliOne runs one selection of a world written to dir through `buf build` with one output format and judges the outcome.
// It returns the kinds of violation found (signatures without the observation point).
func (rn *runner) cliOne(phase string, spec *Spec, wkey string, w *World, files map[string]string, dir string, sel Selection, format string, directFor func([]string) *Direct, cnt counters) map[string]bool {
	return rn.cliOneCfg(phase, spec, wkey, w, files, dir, sel, format, cliConfig{}, nil, directFor, cnt)
}

// cliOneCfg is cliOne under a configuration of the CLI (cliConfig). control holds the kinds of violation the same
// selection showed in the default configuration: those are not reported again under the observation point of the
// configuration (one defect, one signature; the configuration is only blamed for what it changes).
func (rn *runner) cliOneCfg(phase string, spec *Spec, wkey string, w *World, files map[string]string, dir string, sel Selection, format string, cfg cliConfig, control map[string]bool, directFor func([]string) *Direct, cnt counters) map[string]bool {
	r := rn.r
	point := cfg.point(format)
	res := bufx.RunCLI(rn.ctx, cfg.env(), "", append(cliArgs(dir, sel, format), cfg.args()...)...)
	r.Eval(1)
	cnt.add("cli_builds", 1)
	mkCase := func() any {
		c := Case{Phase: phase, Spec: spec, Selection: &sel, Files: files, World: infoOf(w), Format: format}
		if spec == nil {
			c.Note = wkey
		}
		if cfg != (cliConfig{}) {
			c.Config = &cfg
		}
		return c
	}
	kinds := map[string]bool{}
	emit := func(kind, what string) {
		kinds[kind] = true
		if control[kind] {
			cnt.add("cli_config_violation_also_in_default_configuration", 1)
			return
		}
		report(r, []violation{{point + "/" + kind, what}}, mkCase())
	}
	targets := refTargets(w, sel)
	if res.ExitCode != 0 {
		switch {
		case len(targets) == 0:
			cnt.add("cli_outcome_error_no_targets", 1)
		case selectionMayBeRejected(w, sel):
			cnt.add("cli_outcome_selection_rejected", 1)
		default:
			emit("build/unexpected-exit", fmt.Sprintf("%s: reference targets %v compile directly, `buf build` (%s) exit %d stderr %q", sel, targets, cfg, res.ExitCode, res.Stderr))
		}
		if len(res.Stdout) != 0 {
			emit("build/output-on-failure", fmt.Sprintf("%s: exit %d but %d bytes on stdout", sel, res.ExitCode, len(res.Stdout)))
		}
		return kinds
	}
	if len(targets) == 0 {
		emit("build/image-without-targets", fmt.Sprintf("%s: nothing is targeted according to the reference model, `buf build` (%s) exit 0", sel, cfg))
		return kinds
	}
	direct := directFor(targets)
	if direct == nil {
		return kinds
	}
	exp := &expectation{world: w, targets: targets, direct: direct}
	var obs []obsFile
	var err error
	if format == "binpb" {
		obs, err = observeWire([]byte(res.Stdout))
	} else {
		obs, exp.canon, err = observeText(format, []byte(res.Stdout), direct)
	}
	if err != nil {
		emit("build/undecodable-output", fmt.Sprintf("%s: %v", sel, err))
		return kinds
	}
	cnt.add("cli_images", 1)
	if format != "binpb" {
		cnt.add("cli_images_"+format, 1)
	}
	if cfg.Mem {
		cnt.add("cli_images_copy_to_memory", 1)
	}
	vs := checkImage(point, exp, obs, cnt)
	if sel.ProtoFile != "" {
		vs = rn.protoFileAlternative(point, exp, sel, obs, vs, directFor, cnt)
	}
	for _, v := range vs {
		emit(strings.TrimPrefix(v.sig, point+"/"), v.what)
	}
	if len(obs) >= 2 {
		key := phase + "|" + wkey + "|" + sel.String()
		if format != "binpb" {
			key += "|" + format
		}
		if cfg != (cliConfig{}) {
			key += "|" + cfg.String()
		}
		r.Distinct(key)
	}
	return kinds
}
