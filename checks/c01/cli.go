package c01

import (
	"fmt"
	"os"
	"path/filepath"

	"github.com/bufbuild/bufverif/internal/bufx"
)

// CLI observation point for the image clause: the worlds of the paths and shadow phases are written to scratch
// directories and built with `buf build <dir>[/<module dir>] -o -#format=binpb [--path p] [--exclude-path e]`;
// the bytes on stdout are decoded with the generated image proto (not with bufimage) and go through the same oracle.

func (rn *runner) runCLIPhase(scratch string, all []worldItem) {
	r := rn.r
	var items []worldItem
	for _, it := range all {
		if it.cliMode != selNone {
			items = append(items, it)
		}
	}
	r.Set("cli_phase_worlds", len(items))
	r.ParallelFor(len(items), 0, func(i int) {
		it := items[i]
		w, directFor, ok := rn.prepare(it.spec)
		if !ok {
			return
		}
		cnt := counters{}
		defer rn.merge(cnt)
		files := w.BucketFiles()
		dir := filepath.Join(scratch, fmt.Sprintf("c%d", i))
		if err := writeWorld(dir, files); err != nil {
			r.Incomplete("scratch: " + err.Error())
			return
		}
		defer os.RemoveAll(dir)
		sels := selections(w, it.cliMode, false)
		for _, sel := range sels {
			sel := sel
			args := []string{"build", filepath.Join(dir, filepath.FromSlash(sel.SubDir)), "-o", "-#format=binpb"}
			for _, p := range sel.Paths {
				args = append(args, "--path", filepath.Join(dir, filepath.FromSlash(p)))
			}
			for _, e := range sel.Excludes {
				args = append(args, "--exclude-path", filepath.Join(dir, filepath.FromSlash(e)))
			}
			res := bufx.RunCLI(rn.ctx, nil, "", args...)
			r.Eval(1)
			cnt.add("cli_builds", 1)
			mkCase := func() any { return Case{Phase: "cli", Spec: it.spec, Selection: &sel, Files: files, World: infoOf(w)} }
			targets := refTargets(w, sel)
			if res.ExitCode != 0 {
				switch {
				case len(targets) == 0:
					cnt.add("cli_outcome_error_no_targets", 1)
				case selectionMayBeRejected(w, sel):
					cnt.add("cli_outcome_selection_rejected", 1)
				default:
					r.Violate("cli/build/unexpected-exit", fmt.Sprintf("%s: reference targets %v compile directly, `buf build` exit %d stderr %q", sel, targets, res.ExitCode, res.Stderr), mkCase())
				}
				if len(res.Stdout) != 0 {
					r.Violate("cli/build/output-on-failure", fmt.Sprintf("%s: exit %d but %d bytes on stdout", sel, res.ExitCode, len(res.Stdout)), mkCase())
				}
				continue
			}
			if len(targets) == 0 {
				r.Violate("cli/build/image-without-targets", fmt.Sprintf("%s: nothing is targeted according to the reference model, `buf build` exit 0", sel), mkCase())
				continue
			}
			obs, err := observeWire([]byte(res.Stdout))
			if err != nil {
				r.Violate("cli/build/undecodable-output", fmt.Sprintf("%s: %v", sel, err), mkCase())
				continue
			}
			cnt.add("cli_images", 1)
			direct := directFor(targets)
			if direct == nil {
				continue
			}
			exp := &expectation{world: w, targets: targets, direct: direct}
			report(r, checkImage("cli", exp, obs, cnt), mkCase())
			if len(obs) >= 2 {
				r.Distinct("cli|" + specKey(it.spec) + "|" + sel.String())
			}
		}
	})
}
