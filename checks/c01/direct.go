package c01

import (
	"context"
	"errors"
	"fmt"
	"io"
	"sort"
	"sync"

	"github.com/bufbuild/buf/private/gen/data/datawkt"
	"github.com/bufbuild/buf/private/pkg/storage"
	"github.com/bufbuild/protocompile"
	"github.com/bufbuild/protocompile/linker"
	"github.com/bufbuild/protocompile/parser"
	"github.com/bufbuild/protocompile/protoutil"
	"github.com/bufbuild/protocompile/reporter"
	"google.golang.org/protobuf/reflect/protoreflect"
	"google.golang.org/protobuf/types/descriptorpb"
)

// DirectError is one error reported by the bare compiler.
type DirectError struct {
	File string `json:"file"` // import path
	Line int    `json:"line"`
	Col  int    `json:"col"`
	Msg  string `json:"msg"`
}

// Direct is the outcome of compiling texts with a bare protocompile.Compiler (no buf code involved).
type Direct struct {
	OK       bool
	Errors   []DirectError // in the order reported with MaxParallelism 1
	OtherErr string        // a failure that is not a positioned source error
	// for OK:
	Protos   map[string]*descriptorpb.FileDescriptorProto // every file reachable from the compiled names that came from texts
	Deps     map[string][]string                          // dependency lists of every reachable file (incl. standard imports)
	NoSyntax map[string]bool
	Unused   map[string]map[string]bool    // file -> unused import paths
	All      []protoreflect.FileDescriptor // every reachable file (incl. standard imports), each after its imports
}

// directCompile compiles names (in the given order) over texts; imports not in texts fall back to
// protocompile's standard imports (the descriptors linked into protobuf-go). Same source info mode as buf.
func directCompile(texts map[string]string, names []string) *Direct {
	d := &Direct{Protos: map[string]*descriptorpb.FileDescriptorProto{}, Deps: map[string][]string{}, NoSyntax: map[string]bool{}, Unused: map[string]map[string]bool{}}
	var errs []reporter.ErrorWithPos
	var warns []reporter.ErrorWithPos
	compiler := protocompile.Compiler{
		MaxParallelism: 1,
		SourceInfoMode: protocompile.SourceInfoExtraOptionLocations,
		Resolver:       protocompile.WithStandardImports(&protocompile.SourceResolver{Accessor: protocompile.SourceAccessorFromMap(texts)}),
		Reporter: reporter.NewReporter(
			func(e reporter.ErrorWithPos) error { errs = append(errs, e); return nil },
			func(e reporter.ErrorWithPos) { warns = append(warns, e) },
		),
	}
	files, err := compiler.Compile(context.Background(), names...)
	if err != nil {
		if len(errs) == 0 {
			var ewp reporter.ErrorWithPos
			if errors.As(err, &ewp) {
				errs = append(errs, ewp)
			} else {
				d.OtherErr = err.Error()
				return d
			}
		}
		for _, e := range errs {
			p := e.GetPosition()
			msg := ""
			if u := e.Unwrap(); u != nil {
				msg = u.Error()
			}
			d.Errors = append(d.Errors, DirectError{File: p.Filename, Line: p.Line, Col: p.Col, Msg: msg})
		}
		return d
	}
	if len(errs) > 0 {
		d.OtherErr = "compiler returned no error but reported errors"
		return d
	}
	d.OK = true
	var walk func(f protoreflect.FileDescriptor)
	walk = func(f protoreflect.FileDescriptor) {
		if _, ok := d.Deps[f.Path()]; ok {
			return
		}
		deps := []string{}
		imports := f.Imports()
		for i := 0; i < imports.Len(); i++ {
			deps = append(deps, imports.Get(i).Path())
		}
		d.Deps[f.Path()] = deps
		if _, fromText := texts[f.Path()]; fromText {
			d.Protos[f.Path()] = protoutil.ProtoFromFileDescriptor(f)
		}
		for i := 0; i < imports.Len(); i++ {
			walk(imports.Get(i).FileDescriptor)
		}
		d.All = append(d.All, f)
	}
	for _, f := range files {
		walk(f)
	}
	for _, w := range warns {
		pos := w.GetPosition()
		if w.Unwrap() == parser.ErrNoSyntax {
			d.NoSyntax[pos.Filename] = true
		}
		var unused linker.ErrorUnusedImport
		if errors.As(w.Unwrap(), &unused) {
			if d.Unused[pos.Filename] == nil {
				d.Unused[pos.Filename] = map[string]bool{}
			}
			d.Unused[pos.Filename][unused.UnusedImport()] = true
		}
	}
	return d
}

// unusedIndexes are the positions in deps of the imports the direct compiler warned about.
func (d *Direct) unusedIndexes(path string) []int32 {
	var out []int32
	for i, dep := range d.Deps[path] {
		if d.Unused[path][dep] {
			out = append(out, int32(i))
		}
	}
	return out
}

// closure returns start plus everything transitively imported according to the direct compiler, sorted.
func (d *Direct) closure(start []string) []string {
	seen := map[string]bool{}
	var rec func(p string)
	rec = func(p string) {
		if seen[p] {
			return
		}
		seen[p] = true
		for _, q := range d.Deps[p] {
			rec(q)
		}
	}
	for _, p := range start {
		rec(p)
	}
	var out []string
	for p := range seen {
		out = append(out, p)
	}
	sort.Strings(out)
	return out
}

// ---------------------------------------------------------------------------------------------
// Built-in well-known types: expected descriptors.
// ---------------------------------------------------------------------------------------------

type wktExpect struct {
	withSource *descriptorpb.FileDescriptorProto // datawkt source text compiled directly (source info included)
	linkedIn   *descriptorpb.FileDescriptorProto // the descriptor linked into protobuf-go (no source info), nil if unknown
	err        string
}

var (
	wktMu    sync.Mutex
	wktCache = map[string]*wktExpect{}
)

// builtinWKT returns what the image must contain for a WKT path the workspace does not supply.
func builtinWKT(path string) *wktExpect {
	wktMu.Lock()
	defer wktMu.Unlock()
	if e, ok := wktCache[path]; ok {
		return e
	}
	e := &wktExpect{}
	wktCache[path] = e
	ctx := context.Background()
	// The texts of all built-in files (a WKT may import another WKT).
	texts := map[string]string{}
	e.err = loadWKTTexts(ctx, texts)
	if e.err != "" {
		return e
	}
	if _, ok := texts[path]; !ok {
		e.err = fmt.Sprintf("%s is not a built-in file", path)
		return e
	}
	compiler := protocompile.Compiler{
		MaxParallelism: 1,
		SourceInfoMode: protocompile.SourceInfoExtraOptionLocations,
		Resolver:       &protocompile.SourceResolver{Accessor: protocompile.SourceAccessorFromMap(texts)},
	}
	files, err := compiler.Compile(ctx, path)
	if err != nil {
		e.err = "built-in " + path + " does not compile directly: " + err.Error()
		return e
	}
	e.withSource = protoutil.ProtoFromFileDescriptor(files[0])
	std, err := protocompile.WithStandardImports(protocompile.ResolverFunc(func(string) (protocompile.SearchResult, error) {
		return protocompile.SearchResult{}, errors.New("not found")
	})).FindFileByPath(path)
	if err == nil && std.Desc != nil {
		e.linkedIn = protoutil.ProtoFromFileDescriptor(std.Desc)
	}
	return e
}

var (
	wktTextOnce sync.Once
	wktTexts    map[string]string
	wktTextErr  string
)

func loadWKTTexts(ctx context.Context, into map[string]string) string {
	wktTextOnce.Do(func() {
		wktTexts = map[string]string{}
		err := datawkt.ReadBucket.Walk(ctx, "", func(info storage.ObjectInfo) error {
			obj, err := datawkt.ReadBucket.Get(ctx, info.Path())
			if err != nil {
				return err
			}
			defer obj.Close()
			data, err := io.ReadAll(obj)
			if err != nil {
				return err
			}
			wktTexts[info.Path()] = string(data)
			return nil
		})
		if err != nil {
			wktTextErr = "cannot read datawkt: " + err.Error()
		}
	})
	for k, v := range wktTexts {
		into[k] = v
	}
	return wktTextErr
}
