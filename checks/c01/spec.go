package c01

import (
	"fmt"
	"sort"
	"strings"
)

// ---------------------------------------------------------------------------------------------
// Workspace DSL: a file-level import graph with edge kinds, per-file syntax / WKT decoration, an
// assignment of files to modules and a directory layout. Everything the reference model needs is
// read from this structure, never from buf.
// ---------------------------------------------------------------------------------------------

// Edge kinds.
const (
	kNone   = 0
	kPlain  = 1 // import "x"; and a field of the imported message type (import is used)
	kPublic = 2 // import public "x"; and a field of the imported message type
	kUnused = 3 // import "x"; nothing of it is referenced (compiler warns: unused import)
)

var kindNames = []string{"-", "plain", "public", "unused"}

// Syntax variants.
const (
	sProto3 = iota
	sProto2
	sEditions
	sUnspecified
)

var syntaxNames = []string{"proto3", "proto2", "editions2023", "unspecified"}

// WKT variants of a file.
const (
	wNone       = iota
	wAnyUsed    // import "google/protobuf/any.proto" placed last, used by a field
	wAnyUnused  // import "google/protobuf/any.proto" placed first, not used
	wDescriptor // import descriptor.proto first (custom option with a message literal) + unused timestamp.proto last
)

var wktNames = []string{"none", "any-used-last", "any-unused-first", "descriptor-used-first+timestamp-unused-last"}

const (
	wktAny        = "google/protobuf/any.proto"
	wktDescriptor = "google/protobuf/descriptor.proto"
	wktTimestamp  = "google/protobuf/timestamp.proto"
)

// relPaths are the module-relative paths of file 0..3 (two files share directory x (and a third lives in the sibling xz whose name has x as a string prefix), one is nested
// two levels deep, one is at the module root).
var relPaths = []string{"x/f0.proto", "x/y/f1.proto", "xz/f2.proto", "f3.proto"}

// Spec is one workspace.
type Spec struct {
	N       int      `json:"n"`
	Kind    [][]int  `json:"kind"`     // Kind[i][j] = kind of the import of file j by file i
	Syntax  []int    `json:"syntax"`   // per file
	Wkt     []int    `json:"wkt"`      // per file
	Mod     []int    `json:"mod"`      // module index per file
	ModDirs []string `json:"mod_dirs"` // directory of each module relative to the workspace root ("." = the root itself)
	Shadow  int      `json:"shadow"`   // module index that supplies its own google/protobuf/any.proto, -1 = none
	// ShadowWkts says which well-known types module Shadow supplies (bit set of shadowAny, shadowTimestamp); 0 = any.proto only.
	ShadowWkts int `json:"shadow_wkts,omitempty"`
	// Pkg is the package variant per file (nil = every file has its own package): pOwn, pShared, pNone.
	Pkg []int `json:"pkg,omitempty"`
	// Bystander adds one more module (directory bystanderDir) to the workspace that contains no .proto file at all:
	// 0 = none, otherwise the content variant (bystanderReadme, bystanderNested, bystanderProtoLike).
	Bystander int `json:"bystander,omitempty"`
	// BystanderFirst lists the bystander module before the other modules in the workspace configuration (default: last).
	BystanderFirst bool `json:"bystander_first,omitempty"`
	// V1 renders a v1 workspace (buf.work.yaml plus one v1 buf.yaml per module directory) instead of a v2 buf.yaml.
	// Not possible for a module at the workspace root.
	V1 bool `json:"v1,omitempty"`
}

// Content variants of the bystander module (a module of the workspace without .proto files).
const (
	bystanderReadme    = 1 // only a README.md
	bystanderNested    = 2 // a LICENSE and a text file in a sub directory
	bystanderProtoLike = 3 // files whose names look like proto files but are not (x/f0.proto.bak at the path of a real file, proto.txt)
)

var bystanderNames = []string{"none", "readme-only", "nested-non-proto-files", "proto-like-names"}

const bystanderDir = "mc"

func bystanderFiles(kind int) map[string]string {
	switch kind {
	case bystanderReadme:
		return map[string]string{"README.md": "# nothing here yet\n"}
	case bystanderNested:
		return map[string]string{"LICENSE": "none\n", "docs/notes/plan.txt": "protos will be added later\n"}
	case bystanderProtoLike:
		return map[string]string{"x/f0.proto.bak": "syntax = \"proto3\";\nmessage Old {}\n", "proto.txt": "message NotAProtoFile {}\n"}
	}
	return nil
}

// Package variants of a file.
const (
	pOwn    = iota // package pkg.f<i>;
	pShared        // package pkg; (the same for every file with this variant; the parent of the own packages)
	pNone          // no package statement
)

var pkgNames = []string{"own", "shared", "none"}

const (
	shadowAny       = 1
	shadowTimestamp = 2
)

// modName is the configured full name of module m.
func modName(dir string) string {
	if dir == "." {
		return "buf.build/acme/root"
	}
	return "buf.build/acme/" + strings.ReplaceAll(dir, "/", "-")
}

// pkgOf is the package of file i ("" = the file has no package statement).
func (s *Spec) pkgOf(i int) string {
	if s.Pkg != nil {
		switch s.Pkg[i] {
		case pShared:
			return "pkg" // a dotted prefix of the own packages pkg.f<i>: equal packages, not related ones, are "the same package"
		case pNone:
			return ""
		}
	}
	return fmt.Sprintf("pkg.f%d", i)
}

// qual is the fully qualified name of a top-level element of file i.
func (s *Spec) qual(i int, name string) string {
	if p := s.pkgOf(i); p != "" {
		return p + "." + name
	}
	return name
}

// publicReach returns the files whose symbols are visible through file j because of chains of public
// imports starting at j (not including j).
func (s *Spec) publicReach(j int) []int {
	seen := map[int]bool{}
	var rec func(int)
	rec = func(u int) {
		for v := 0; v < s.N; v++ {
			if s.Kind[u][v] == kPublic && !seen[v] {
				seen[v] = true
				rec(v)
			}
		}
	}
	rec(j)
	var out []int
	for v := 0; v < s.N; v++ {
		if seen[v] {
			out = append(out, v)
		}
	}
	return out
}

// viaPublic lists the files k that file i references only through public imports of its used imports.
func (s *Spec) viaPublic(i int) []int {
	set := map[int]bool{}
	for j := 0; j < s.N; j++ {
		if s.Kind[i][j] == kPlain || s.Kind[i][j] == kPublic {
			for _, k := range s.publicReach(j) {
				if k != i && s.Kind[i][k] == kNone {
					set[k] = true
				}
			}
		}
	}
	var out []int
	for k := 0; k < s.N; k++ {
		if set[k] {
			out = append(out, k)
		}
	}
	return out
}

// importList is the ordered dependency list of file i as written in its source, and the subset the
// reference model expects to be reported unused.
func (s *Spec) importList(i int) (deps []string, unused []int) {
	add := func(p string, isUnused bool) {
		if isUnused {
			unused = append(unused, len(deps))
		}
		deps = append(deps, p)
	}
	switch s.Wkt[i] {
	case wAnyUnused:
		add(wktAny, true)
	case wDescriptor:
		add(wktDescriptor, false)
	}
	for j := 0; j < s.N; j++ {
		if s.Kind[i][j] != kNone {
			add(relPaths[j], s.Kind[i][j] == kUnused)
		}
	}
	switch s.Wkt[i] {
	case wAnyUsed:
		add(wktAny, false)
	case wDescriptor:
		add(wktTimestamp, true)
	}
	return deps, unused
}

// renderFile produces the source text of file i.
func (s *Spec) renderFile(i int) string {
	var b strings.Builder
	lbl := ""
	fmt.Fprintf(&b, "// File f%d of the generated workspace.\n", i)
	switch s.Syntax[i] {
	case sProto3:
		b.WriteString("syntax = \"proto3\";\n")
	case sProto2:
		b.WriteString("syntax = \"proto2\";\n")
		lbl = "optional "
	case sEditions:
		b.WriteString("edition = \"2023\";\n")
	case sUnspecified:
		lbl = "optional "
	}
	if p := s.pkgOf(i); p != "" {
		fmt.Fprintf(&b, "\npackage %s;\n\n", p)
	} else {
		b.WriteString("\n// (no package statement)\n\n")
	}
	switch s.Wkt[i] {
	case wAnyUnused:
		fmt.Fprintf(&b, "import %q;\n", wktAny)
	case wDescriptor:
		fmt.Fprintf(&b, "import %q;\n", wktDescriptor)
	}
	for j := 0; j < s.N; j++ {
		switch s.Kind[i][j] {
		case kPlain, kUnused:
			fmt.Fprintf(&b, "import %q;\n", relPaths[j])
		case kPublic:
			fmt.Fprintf(&b, "import public %q; // re-exported\n", relPaths[j])
		}
	}
	switch s.Wkt[i] {
	case wAnyUsed:
		fmt.Fprintf(&b, "import %q;\n", wktAny)
	case wDescriptor:
		fmt.Fprintf(&b, "import %q;\n", wktTimestamp)
	}
	if s.Wkt[i] == wDescriptor {
		fmt.Fprintf(&b, "\n// Payload of the custom option of f%d.\nmessage O%d {\n  %sint32 a = 1;\n  %sstring b = 2;\n}\n", i, i, lbl, lbl)
		fmt.Fprintf(&b, "\nextend google.protobuf.FieldOptions {\n  // The custom option.\n  %sO%d opt%d = %d;\n}\n", lbl, i, i, 50000+i)
	}
	fmt.Fprintf(&b, "\n// Leading comment of M%d.\nmessage M%d {\n", i, i)
	fmt.Fprintf(&b, "  // Leading comment of id.\n  %sint32 id = 1; // trailing comment of id\n", lbl)
	for j := 0; j < s.N; j++ {
		if s.Kind[i][j] == kPlain || s.Kind[i][j] == kPublic {
			fmt.Fprintf(&b, "  %s%s r%d = %d;\n", lbl, s.qual(j, fmt.Sprintf("M%d", j)), j, 2+j)
		}
	}
	for _, k := range s.viaPublic(i) {
		fmt.Fprintf(&b, "  %s%s t%d = %d; // visible through a public import only\n", lbl, s.qual(k, fmt.Sprintf("M%d", k)), k, 10+k)
	}
	switch s.Wkt[i] {
	case wAnyUsed:
		fmt.Fprintf(&b, "  %sgoogle.protobuf.Any w = 20;\n", lbl)
	case wDescriptor:
		fmt.Fprintf(&b, "  %sstring s = 21 [(%s) = {\n    a: 1 /* inside the literal */\n    b: \"x\"\n  }];\n", lbl, s.qual(i, fmt.Sprintf("opt%d", i)))
	}
	b.WriteString("}\n")
	return b.String()
}

const shadowAnyText = `syntax = "proto3";

package google.protobuf;

// A copy of Any supplied by the workspace itself: it must win over the built-in one.
message Any {
  string type_url = 1;
  bytes value = 2;
  // Not present in the real Any.
  string shadow = 3;
}
`

const shadowTimestampText = `syntax = "proto3";

package google.protobuf;

// A copy of Timestamp supplied by the workspace itself.
message Timestamp {
  int64 seconds = 1;
  int32 nanos = 2;
  // Not present in the real Timestamp.
  string zone = 3;
}
`

// File is one .proto file of a rendered workspace.
type File struct {
	Path   string // module-relative path = name in the image
	Module int    // owning module
	Ext    string // path relative to the workspace root = external path for an input "."
	Text   string
	Index  int // index in the Spec, -1 for the shadow WKT
}

// World is a rendered workspace: what is on disk / in the bucket plus the module table.
type World struct {
	ModDirs  []string
	ModNames []string // "" = unnamed
	BufYAML  string   // "" = no buf.yaml
	Extra    map[string]string
	Files    []File
	// EmptyMods are the directories of the workspace modules that contain no .proto file (they are listed in ModDirs too,
	// after the modules that own files). NonProto are the workspace-relative paths of the files in them.
	EmptyMods []string
	NonProto  []string
}

func joinDir(dir, p string) string {
	if dir == "." || dir == "" {
		return p
	}
	return dir + "/" + p
}

// Render produces the world of a spec.
func (s *Spec) Render() *World {
	w := &World{ModDirs: append([]string(nil), s.ModDirs...)}
	for _, d := range s.ModDirs {
		w.ModNames = append(w.ModNames, modName(d))
	}
	listed := append([]string(nil), s.ModDirs...)
	if s.Bystander != 0 {
		w.ModDirs = append(w.ModDirs, bystanderDir)
		w.ModNames = append(w.ModNames, modName(bystanderDir))
		w.EmptyMods = []string{bystanderDir}
		w.Extra = map[string]string{}
		for p, text := range bystanderFiles(s.Bystander) {
			w.Extra[joinDir(bystanderDir, p)] = text
			w.NonProto = append(w.NonProto, joinDir(bystanderDir, p))
		}
		sort.Strings(w.NonProto)
		if s.BystanderFirst {
			listed = append([]string{bystanderDir}, listed...)
		} else {
			listed = append(listed, bystanderDir)
		}
	}
	if s.V1 {
		// v1 workspace: buf.work.yaml lists the directories, every directory has its own v1 buf.yaml with the module name
		if w.Extra == nil {
			w.Extra = map[string]string{}
		}
		var y strings.Builder
		y.WriteString("version: v1\ndirectories:\n")
		for _, d := range listed {
			fmt.Fprintf(&y, "  - %s\n", d)
			w.Extra[joinDir(d, "buf.yaml")] = fmt.Sprintf("version: v1\nname: %s\n", modName(d))
		}
		w.Extra["buf.work.yaml"] = y.String()
	} else {
		var y strings.Builder
		y.WriteString("version: v2\nmodules:\n")
		for _, d := range listed {
			fmt.Fprintf(&y, "  - path: %s\n    name: %s\n", d, modName(d))
		}
		w.BufYAML = y.String()
	}
	for i := 0; i < s.N; i++ {
		w.Files = append(w.Files, File{Path: relPaths[i], Module: s.Mod[i], Ext: joinDir(s.ModDirs[s.Mod[i]], relPaths[i]), Text: s.renderFile(i), Index: i})
	}
	if s.Shadow >= 0 {
		if s.ShadowWkts == 0 || s.ShadowWkts&shadowAny != 0 {
			w.Files = append(w.Files, File{Path: wktAny, Module: s.Shadow, Ext: joinDir(s.ModDirs[s.Shadow], wktAny), Text: shadowAnyText, Index: -1})
		}
		if s.ShadowWkts&shadowTimestamp != 0 {
			w.Files = append(w.Files, File{Path: wktTimestamp, Module: s.Shadow, Ext: joinDir(s.ModDirs[s.Shadow], wktTimestamp), Text: shadowTimestampText, Index: -1})
		}
	}
	return w
}

// BucketFiles is the content of the workspace root.
func (w *World) BucketFiles() map[string]string {
	m := map[string]string{}
	if w.BufYAML != "" {
		m["buf.yaml"] = w.BufYAML
	}
	for k, v := range w.Extra {
		m[k] = v
	}
	for _, f := range w.Files {
		m[f.Ext] = f.Text
	}
	return m
}

// Texts is the import-path -> source map handed to the direct compiler.
func (w *World) Texts() map[string]string {
	m := map[string]string{}
	for _, f := range w.Files {
		m[f.Path] = f.Text
	}
	return m
}

// ---------------------------------------------------------------------------------------------
// Target selection and its reference semantics.
// ---------------------------------------------------------------------------------------------

// Selection is an input directory plus --path / --exclude-path values, all relative to the workspace root.
//
// With ProtoFile set the input is a .proto file reference (`buf build <ProtoFile>[#include_package_files=true]`): SubDir,
// Paths and Excludes are unused.
type Selection struct {
	SubDir   string   `json:"sub_dir"`
	Paths    []string `json:"paths"`
	Excludes []string `json:"excludes"`
	// ProtoFile is the workspace-relative path of the referenced .proto file ("" = directory input).
	ProtoFile string `json:"proto_file,omitempty"`
	// IncludePkg is include_package_files of the file reference.
	IncludePkg bool `json:"include_package_files,omitempty"`
}

func (s Selection) String() string {
	if s.ProtoFile != "" {
		return fmt.Sprintf("file=%s include_package_files=%v", s.ProtoFile, s.IncludePkg)
	}
	return fmt.Sprintf("in=%s path=%v exclude=%v", s.SubDir, s.Paths, s.Excludes)
}

// packageOf reads the package statement of a source text with the harness' own lexer ("" = none). Only the first
// statement-level `package` keyword counts (a field or message may be called package as well).
func packageOf(text string) string {
	toks := lex(text)
	depth := 0
	for i, t := range toks {
		switch text[t.Start:t.End] {
		case "{":
			depth++
		case "}":
			depth--
		case "package":
			if depth != 0 || (i > 0 && text[toks[i-1].Start:toks[i-1].End] != ";" && text[toks[i-1].Start:toks[i-1].End] != "}") {
				continue
			}
			var b strings.Builder
			for _, u := range toks[i+1:] {
				if text[u.Start:u.End] == ";" {
					return b.String()
				}
				b.WriteString(text[u.Start:u.End])
			}
			return b.String()
		}
	}
	return ""
}

// refProtoFileTargets is the reference model of a .proto file reference: the referenced file is targeted; with
// include_package_files the other files of its module that declare the same package are targeted too. A file without a
// package statement has no package files. Files of OTHER modules that declare the same package are returned separately:
// whether "the package" extends over module boundaries is not stated anywhere, either reading is accepted.
func refProtoFileTargets(w *World, sel Selection) (must, optional []string) {
	var ref *File
	for i := range w.Files {
		if w.Files[i].Ext == sel.ProtoFile {
			ref = &w.Files[i]
		}
	}
	if ref == nil {
		return nil, nil
	}
	must = append(must, ref.Path)
	if pkg := packageOf(ref.Text); sel.IncludePkg && pkg != "" {
		for _, f := range w.Files {
			if f.Ext == ref.Ext || packageOf(f.Text) != pkg {
				continue
			}
			if f.Module == ref.Module {
				must = append(must, f.Path)
			} else {
				optional = append(optional, f.Path)
			}
		}
	}
	sort.Strings(must)
	sort.Strings(optional)
	return must, optional
}

func containsPath(dirOrFile, p string) bool {
	return dirOrFile == p || strings.HasPrefix(p, dirOrFile+"/")
}

// refTargets is the reference model of targeting: a file is targeted iff its module is part of the input
// and it is selected by the path filters. Returns image paths, sorted.
func refTargets(w *World, sel Selection) []string {
	if sel.ProtoFile != "" {
		must, _ := refProtoFileTargets(w, sel)
		return must
	}
	var out []string
	for _, f := range w.Files {
		if sel.SubDir != "." && sel.SubDir != "" && w.ModDirs[f.Module] != sel.SubDir {
			continue
		}
		if len(sel.Paths) > 0 {
			hit := false
			for _, p := range sel.Paths {
				if containsPath(p, f.Ext) {
					hit = true
				}
			}
			if !hit {
				continue
			}
		}
		excluded := false
		for _, e := range sel.Excludes {
			if containsPath(e, f.Ext) {
				excluded = true
			}
		}
		if excluded {
			continue
		}
		out = append(out, f.Path)
	}
	sort.Strings(out)
	return out
}

// selectionMayBeRejected: selections buf is known to refuse for reasons unrelated to the property (a module
// directory given as --path / --exclude-path, the same value for both flags, an exclude that contains a path; a
// selection that targets a module without .proto files as a whole: buf demands a .proto file of every module it is asked
// to build). For those either outcome is accepted; if an image is produced it is still checked.
func selectionMayBeRejected(w *World, sel Selection) bool {
	if sel.ProtoFile != "" {
		return false
	}
	if targetsEmptyModule(w, sel) {
		return true
	}
	isMod := func(p string) bool {
		for _, d := range w.ModDirs {
			if d == p {
				return true
			}
		}
		return false
	}
	for _, p := range sel.Paths {
		if isMod(p) {
			return true
		}
		for _, e := range sel.Excludes {
			if containsPath(e, p) {
				return true
			}
		}
	}
	for _, e := range sel.Excludes {
		if isMod(e) {
			return true
		}
	}
	return false
}

// targetsEmptyModule: the selection makes a module without .proto files a target module as a whole. That is the case
// when the input directory is the workspace root or that module and no --path narrows the targets down (with --path
// only the modules that contain one of the paths are target modules, and a .proto file reference targets the module of
// the file only).
func targetsEmptyModule(w *World, sel Selection) bool {
	if sel.ProtoFile != "" || len(sel.Paths) > 0 {
		return false
	}
	for _, d := range w.EmptyMods {
		if sel.SubDir == "." || sel.SubDir == "" || sel.SubDir == d {
			return true
		}
	}
	return false
}

// pathCandidates lists every file and every directory (below the root) of the world, sorted. The non-proto files of a
// module without .proto files (and their directories) are candidates as well.
func pathCandidates(w *World) []string {
	set := map[string]bool{}
	exts := append([]string(nil), w.NonProto...)
	for _, f := range w.Files {
		exts = append(exts, f.Ext)
	}
	for _, ext := range exts {
		set[ext] = true
		p := ext
		for {
			i := strings.LastIndex(p, "/")
			if i < 0 {
				break
			}
			p = p[:i]
			set[p] = true
		}
	}
	var out []string
	for p := range set {
		out = append(out, p)
	}
	sort.Strings(out)
	return out
}
