package c01

// A small lexer for .proto text: enough to find token boundaries (identifiers, numbers, string literals,
// punctuation) while skipping whitespace and comments. Used to plant single-token deletions / duplications.

type token struct {
	Start, End int // byte offsets
}

func isIdentStart(c byte) bool { return c == '_' || (c >= 'a' && c <= 'z') || (c >= 'A' && c <= 'Z') }
func isDigit(c byte) bool      { return c >= '0' && c <= '9' }

func lex(src string) []token {
	var toks []token
	i := 0
	for i < len(src) {
		c := src[i]
		switch {
		case c == ' ' || c == '\t' || c == '\n' || c == '\r':
			i++
		case c == '/' && i+1 < len(src) && src[i+1] == '/':
			for i < len(src) && src[i] != '\n' {
				i++
			}
		case c == '/' && i+1 < len(src) && src[i+1] == '*':
			i += 2
			for i+1 < len(src) && !(src[i] == '*' && src[i+1] == '/') {
				i++
			}
			i += 2
			if i > len(src) {
				i = len(src)
			}
		case c == '"' || c == '\'':
			j := i + 1
			for j < len(src) && src[j] != c && src[j] != '\n' {
				if src[j] == '\\' {
					j++
				}
				j++
			}
			if j < len(src) {
				j++
			}
			toks = append(toks, token{i, j})
			i = j
		case isIdentStart(c):
			j := i + 1
			for j < len(src) && (isIdentStart(src[j]) || isDigit(src[j])) {
				j++
			}
			toks = append(toks, token{i, j})
			i = j
		case isDigit(c):
			j := i + 1
			for j < len(src) && (isIdentStart(src[j]) || isDigit(src[j]) || src[j] == '.') {
				j++
			}
			toks = append(toks, token{i, j})
			i = j
		default:
			toks = append(toks, token{i, i + 1})
			i++
		}
	}
	return toks
}

// mutate applies operator op ("del" or "dup") at token t.
func mutate(src string, t token, op string) string {
	switch op {
	case "del":
		return src[:t.Start] + src[t.End:]
	case "dup":
		return src[:t.End] + " " + src[t.Start:t.End] + src[t.End:]
	}
	return src
}
