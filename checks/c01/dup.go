package c01

import (
	"fmt"

	"github.com/bufbuild/bufverif/internal/bufx"
)

// Dup phase ("each path once"): two modules of one workspace both contain the same path (with different texts): an
// ordinary path (x/f0.proto) or the path of a well-known type (google/protobuf/any.proto, for which a built-in copy
// exists as a third candidate that must NOT be picked: the workspace supplies the file). For every selection, either
// there is no image, or the image has the path once and descriptor, owner and external path of that file all belong to
// ONE of the two candidates (the ordinary oracle must pass for one of the two single-owner views).

func (rn *runner) runDupPhase() {
	r := rn.r
	type variant struct {
		name     string
		importer bool // a third file imports the duplicated path
		wkt      bool // the duplicated path is google/protobuf/any.proto
	}
	variants := []variant{{"two-copies", false, false}, {"two-copies-imported", true, false},
		{"wkt-two-copies", false, true}, {"wkt-two-copies-imported", true, true}}
	r.ParallelFor(len(variants), 0, func(vi int) {
		v := variants[vi]
		cnt := counters{}
		defer rn.merge(cnt)
		textA := "syntax = \"proto3\";\npackage pkg.f0;\n// copy of module ma\nmessage M0 { int32 a = 1; }\n"
		textB := "syntax = \"proto3\";\npackage pkg.f0;\n// copy of module mb\nmessage M0 { string b = 2; }\n"
		dupPath, importerText := "x/f0.proto", "syntax = \"proto3\";\npackage pkg.f1;\nimport \"x/f0.proto\";\nmessage M1 { pkg.f0.M0 r = 1; }\n"
		if v.wkt {
			dupPath = wktAny
			textA = "syntax = \"proto3\";\npackage google.protobuf;\n// copy of module ma\nmessage Any { string type_url = 1; bytes value = 2; int32 a = 3; }\n"
			textB = "syntax = \"proto3\";\npackage google.protobuf;\n// copy of module mb\nmessage Any { string type_url = 1; bytes value = 2; string b = 4; }\n"
			importerText = "syntax = \"proto3\";\npackage pkg.f1;\nimport \"" + wktAny + "\";\nmessage M1 { google.protobuf.Any r = 1; }\n"
		}
		mk := func(keep int) *World {
			w := &World{ModDirs: []string{"ma", "mb"}, ModNames: []string{modName("ma"), modName("mb")},
				BufYAML: "version: v2\nmodules:\n  - path: ma\n    name: " + modName("ma") + "\n  - path: mb\n    name: " + modName("mb") + "\n"}
			if keep != 1 {
				w.Files = append(w.Files, File{Path: dupPath, Module: 0, Ext: "ma/" + dupPath, Text: textA})
			}
			if keep != 0 {
				w.Files = append(w.Files, File{Path: dupPath, Module: 1, Ext: "mb/" + dupPath, Text: textB})
			}
			if v.importer {
				w.Files = append(w.Files, File{Path: "x/y/f1.proto", Module: 1, Ext: "mb/x/y/f1.proto",
					Text: importerText})
			}
			return w
		}
		both := mk(2)
		files := both.BucketFiles()
		for _, sel := range selections(both, selPairs, false) {
			sel := sel
			r.Eval(1)
			cnt.add("dup_cases", 1)
			if v.wkt {
				cnt.add("dup_cases_wkt", 1)
			}
			ws, err := bufx.Workspace(rn.ctx, bufx.MemBucket(files), sel.SubDir, sel.Paths, sel.Excludes, bufx.NopProviders)
			var obs []obsFile
			if err == nil {
				image, berr := bufx.BuildWorkspaceImage(rn.ctx, ws)
				err = berr
				if err == nil {
					obs = observeImage(image)
				}
			}
			if err != nil {
				cnt.add("dup_outcome_error", 1)
				continue
			}
			cnt.add("dup_outcome_image", 1)
			hasDup := false
			for _, o := range obs {
				if o.Path == dupPath {
					hasDup = true
				}
			}
			if !hasDup {
				cnt.add("dup_outcome_image_without_the_duplicated_path", 1)
			}
			// an image was built: it must be explainable by one single-owner view
			var firstVs []violation
			okOne := false
			for keep := 0; keep <= 1; keep++ {
				w := mk(keep)
				targets := refTargets(w, sel)
				if len(targets) == 0 {
					continue
				}
				d := directCompile(w.Texts(), targets)
				if !d.OK {
					continue
				}
				vs := checkImage("api", &expectation{world: w, targets: targets, direct: d}, obs, counters{})
				if len(vs) == 0 {
					okOne = true
				} else if firstVs == nil {
					firstVs = vs
				}
			}
			if !okOne {
				what := "no single-owner view explains the image"
				if len(firstVs) > 0 {
					what = firstVs[0].what
				}
				sig := "api/dup/inconsistent-image"
				if v.wkt {
					sig += "/workspace-wkt"
				}
				r.Violate(sig, fmt.Sprintf("%s %s: %s exists in modules ma and mb; an image was built that matches neither copy consistently: %s", v.name, sel, dupPath, what),
					Case{Phase: "dup", Selection: &sel, Files: files, Note: v.name})
			}
			r.Distinct("dup|" + v.name + "|" + sel.String())
		}
	})
}
