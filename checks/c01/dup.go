package c01

import (
	"fmt"

	"github.com/bufbuild/bufverif/internal/bufx"
)

// Dup phase ("each path once"): two modules of one workspace both contain x/f0.proto (with different texts). For every
// selection, either there is no image, or the image has the path once and descriptor, owner and external path of that
// file all belong to ONE of the two candidates (the ordinary oracle must pass for one of the two single-owner views).

func (rn *runner) runDupPhase() {
	r := rn.r
	type variant struct {
		name     string
		importer bool // a third file imports x/f0.proto
	}
	variants := []variant{{"two-copies", false}, {"two-copies-imported", true}}
	r.ParallelFor(len(variants), 0, func(vi int) {
		v := variants[vi]
		cnt := counters{}
		defer rn.merge(cnt)
		textA := "syntax = \"proto3\";\npackage pkg.f0;\n// copy of module ma\nmessage M0 { int32 a = 1; }\n"
		textB := "syntax = \"proto3\";\npackage pkg.f0;\n// copy of module mb\nmessage M0 { string b = 2; }\n"
		mk := func(keep int) *World {
			w := &World{ModDirs: []string{"ma", "mb"}, ModNames: []string{modName("ma"), modName("mb")},
				BufYAML: "version: v2\nmodules:\n  - path: ma\n    name: " + modName("ma") + "\n  - path: mb\n    name: " + modName("mb") + "\n"}
			if keep != 1 {
				w.Files = append(w.Files, File{Path: "x/f0.proto", Module: 0, Ext: "ma/x/f0.proto", Text: textA})
			}
			if keep != 0 {
				w.Files = append(w.Files, File{Path: "x/f0.proto", Module: 1, Ext: "mb/x/f0.proto", Text: textB})
			}
			if v.importer {
				w.Files = append(w.Files, File{Path: "x/y/f1.proto", Module: 1, Ext: "mb/x/y/f1.proto",
					Text: "syntax = \"proto3\";\npackage pkg.f1;\nimport \"x/f0.proto\";\nmessage M1 { pkg.f0.M0 r = 1; }\n"})
			}
			return w
		}
		both := mk(2)
		files := both.BucketFiles()
		for _, sel := range selections(both, selPairs, false) {
			sel := sel
			r.Eval(1)
			cnt.add("dup_cases", 1)
			ws, err := bufx.Workspace(rn.ctx, bufx.MemBucket(files), sel.SubDir, sel.Paths, sel.Excludes, bufx.NopProviders)
			var obs []obsFile
			if err == nil {
				image, berr := bufx.BuildWorkspaceImage(rn.ctx, ws)
				err = berr
				if err == nil {
					obs = observeImage(image)
				}
			}
			if err != nil {
				cnt.add("dup_outcome_error", 1)
				continue
			}
			cnt.add("dup_outcome_image", 1)
			hasDup := false
			for _, o := range obs {
				if o.Path == "x/f0.proto" {
					hasDup = true
				}
			}
			if !hasDup {
				cnt.add("dup_outcome_image_without_the_duplicated_path", 1)
			}
			// an image was built: it must be explainable by one single-owner view
			var firstVs []violation
			okOne := false
			for keep := 0; keep <= 1; keep++ {
				w := mk(keep)
				targets := refTargets(w, sel)
				if len(targets) == 0 {
					continue
				}
				d := directCompile(w.Texts(), targets)
				if !d.OK {
					continue
				}
				vs := checkImage("api", &expectation{world: w, targets: targets, direct: d}, obs, counters{})
				if len(vs) == 0 {
					okOne = true
				} else if firstVs == nil {
					firstVs = vs
				}
			}
			if !okOne {
				what := "no single-owner view explains the image"
				if len(firstVs) > 0 {
					what = firstVs[0].what
				}
				r.Violate("api/dup/inconsistent-image", fmt.Sprintf("%s %s: x/f0.proto exists in modules ma and mb; an image was built that matches neither copy consistently: %s", v.name, sel, what),
					Case{Phase: "dup", Selection: &sel, Files: files, Note: v.name})
			}
			r.Distinct("dup|" + v.name + "|" + sel.String())
		}
	})
}
