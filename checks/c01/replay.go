package c01

import (
	"context"
	"encoding/json"
	"fmt"
	"os"
	"path/filepath"
	"sort"
	"strings"

	"github.com/bufbuild/bufverif/internal/bufx"
	"github.com/bufbuild/bufverif/internal/evid"
)

func init() { evid.RegisterReplay("C01", replay) }

// replay re-judges one recorded case (the "case" object of a replay file) on the current tree: the world is rebuilt from
// the recorded files and ownership table, built through the API (and, for cli/errors cases, through the CLI on a scratch
// directory) and judged by the same oracles; a fault-phase case is rebuilt with its read fault injected. Cases of the remote and dup phases need their providers / two views and are
// not replayable this way.
func replay(raw json.RawMessage) (string, bool) {
	var c Case
	if err := json.Unmarshal(raw, &c); err != nil {
		return "cannot decode the case: " + err.Error(), false
	}
	if c.World == nil || c.Selection == nil || c.Phase == "remote" || c.Phase == "dup" {
		return "case of phase " + c.Phase + " is not replayable without the enumerator", false
	}
	w := &World{ModDirs: c.World.ModDirs, ModNames: c.World.ModNames}
	for _, f := range c.World.Files {
		w.Files = append(w.Files, File{Path: f.Path, Module: f.Module, Ext: f.Ext, Text: c.Files[f.Ext]})
	}
	ctx := context.Background()
	sel := *c.Selection
	targets := refTargets(w, sel)
	var vs []violation
	var lines []string
	direct := &Direct{}
	if len(targets) > 0 {
		direct = directCompile(w.Texts(), targets)
	}
	lines = append(lines, fmt.Sprintf("%s: reference targets %v; bare compiler ok=%v errors=%v", sel, targets, direct.OK, direct.Errors))

	if c.Fault != nil {
		// fault phase: the recorded read fault is injected again; error or a correct image are both fine
		if len(targets) == 0 || !direct.OK {
			return strings.Join(append(lines, "fault case without compilable reference targets"), "\n"), false
		}
		v, fired, built := judgeFault(ctx, w, c.Files, sel, *c.Fault, targets, direct, nil)
		lines = append(lines, fmt.Sprintf("api with read fault %s: image built=%v fault hit=%v", *c.Fault, built, fired))
		if v != nil {
			lines = append(lines, "VIOLATED "+v.sig+": "+v.what)
			return strings.Join(lines, "\n"), true
		}
		return strings.Join(append(lines, "no oracle violated"), "\n"), false
	}

	// API
	var obs []obsFile
	ws, err := bufx.Workspace(ctx, bufx.MemBucket(c.Files), sel.SubDir, sel.Paths, sel.Excludes, bufx.NopProviders)
	if err == nil {
		image, berr := bufx.BuildWorkspaceImage(ctx, ws)
		err = berr
		if err == nil {
			obs = observeImage(image)
		}
	}
	lines = append(lines, fmt.Sprintf("api: image files=%d err=%v", len(obs), err))
	switch {
	case len(targets) == 0:
		if err == nil {
			vs = append(vs, violation{"api/build/image-without-targets", "image built although nothing is targeted"})
		}
	case direct.OK:
		if err != nil {
			if !selectionMayBeRejected(w, sel) {
				vs = append(vs, violation{"api/build/unexpected-error/" + normErr(err), err.Error()})
			}
		} else {
			vs = append(vs, checkImage("api", &expectation{world: w, targets: targets, direct: direct}, obs, counters{})...)
		}
	default:
		if want, ok := expectedPositions(w, direct, ""); ok {
			if err == nil {
				vs = append(vs, violation{"api/error/image-despite-compile-error", fmt.Sprintf("bare compiler fails at %v", sortedPos(want))})
			} else if got, isSet := apiAnnotations(err); !isSet {
				vs = append(vs, violation{"api/error/not-annotations/" + normErr(err), err.Error()})
			} else if !samePositions(got, want) {
				vs = append(vs, violation{"api/error/" + classifyPosDiff(got, want), fmt.Sprintf("annotations %v, bare compiler %v", sortedPos(got), sortedPos(want))})
			}
		}
	}

	// CLI
	if c.Phase == "cli" || c.Phase == "errors" {
		scratch, serr := os.MkdirTemp("", "verif-c01-")
		if serr == nil {
			defer os.RemoveAll(scratch)
			dir := filepath.Join(scratch, "w")
			if werr := writeWorld(dir, c.Files); werr == nil {
				args := []string{"build", filepath.Join(dir, filepath.FromSlash(sel.SubDir)), "-o", "-#format=binpb"}
				for _, p := range sel.Paths {
					args = append(args, "--path", filepath.Join(dir, filepath.FromSlash(p)))
				}
				for _, e := range sel.Excludes {
					args = append(args, "--exclude-path", filepath.Join(dir, filepath.FromSlash(e)))
				}
				res := bufx.RunCLI(ctx, nil, "", args...)
				lines = append(lines, fmt.Sprintf("cli: exit=%d stdout=%d bytes stderr=%q", res.ExitCode, len(res.Stdout), strings.ReplaceAll(res.Stderr, scratch, "<scratch>")))
				switch {
				case len(targets) == 0:
					if res.ExitCode == 0 {
						vs = append(vs, violation{"cli/build/image-without-targets", "exit 0 although nothing is targeted"})
					}
				case direct.OK:
					if res.ExitCode != 0 {
						if !selectionMayBeRejected(w, sel) {
							vs = append(vs, violation{"cli/build/unexpected-exit", res.Stderr})
						}
					} else if wire, derr := observeWire([]byte(res.Stdout)); derr != nil {
						vs = append(vs, violation{"cli/build/undecodable-output", derr.Error()})
					} else {
						vs = append(vs, checkImage("cli", &expectation{world: w, targets: targets, direct: direct}, wire, counters{})...)
					}
				default:
					if want, ok := expectedPositions(w, direct, filepath.ToSlash(dir)); ok {
						got, other := cliAnnotations(res.Stderr)
						switch {
						case res.ExitCode == 0:
							vs = append(vs, violation{"cli/error/exit-0-despite-compile-error", "exit 0"})
						case len(res.Stdout) != 0:
							vs = append(vs, violation{"cli/error/output-despite-compile-error", "image bytes on stdout"})
						case res.ExitCode != 100 || len(other) > 0:
							vs = append(vs, violation{"cli/error/not-annotations", res.Stderr})
						case !samePositions(got, want):
							vs = append(vs, violation{"cli/error/abs/" + classifyPosDiff(got, want), fmt.Sprintf("printed %v, expected %v", sortedPos(got), sortedPos(want))})
						}
					}
				}
			}
		}
	}
	sort.Slice(vs, func(i, j int) bool { return vs[i].sig < vs[j].sig })
	for _, v := range vs {
		lines = append(lines, "VIOLATED "+v.sig+": "+v.what)
	}
	if len(vs) == 0 {
		lines = append(lines, "no oracle violated")
	}
	return strings.Join(lines, "\n"), len(vs) > 0
}
