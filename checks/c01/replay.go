package c01

import (
	"context"
	"encoding/json"
	"fmt"
	"os"
	"path/filepath"
	"sort"
	"strings"

	"github.com/bufbuild/bufverif/internal/bufx"
	"github.com/bufbuild/bufverif/internal/evid"
)

func init() { evid.RegisterReplay("C01", replay) }

// replay re-judges one recorded case (the "case" object of a replay file) on the current tree: the world is rebuilt from
// the recorded files and ownership table, built through the API (and, for cli/errors cases, through the CLI on a scratch
// directory) and judged by the same oracles; a fault-phase case is rebuilt with its read fault injected. Cases of the remote and dup phases need their providers / two views and are
// not replayable this way.
func replay(raw json.RawMessage) (string, bool) {
	var c Case
	if err := json.Unmarshal(raw, &c); err != nil {
		return "cannot decode the case: " + err.Error(), false
	}
	if c.World == nil || c.Selection == nil || c.Phase == "remote" || c.Phase == "dup" {
		return "case of phase " + c.Phase + " is not replayable without the enumerator", false
	}
	w := &World{ModDirs: c.World.ModDirs, ModNames: c.World.ModNames, EmptyMods: c.World.EmptyMods, NonProto: c.World.NonProto}
	for _, f := range c.World.Files {
		w.Files = append(w.Files, File{Path: f.Path, Module: f.Module, Ext: f.Ext, Text: c.Files[f.Ext]})
	}
	ctx := context.Background()
	sel := *c.Selection
	if c.Phase == "referrors" {
		return replayRefErr(ctx, w, c)
	}
	targets := refTargets(w, sel)
	var vs []violation
	var lines []string
	direct := &Direct{}
	if len(targets) > 0 {
		direct = directCompile(w.Texts(), targets)
	}
	lines = append(lines, fmt.Sprintf("%s: reference targets %v; bare compiler ok=%v errors=%v", sel, targets, direct.OK, direct.Errors))

	if c.Fault != nil {
		// fault phase: the recorded read fault is injected again; error or a correct image are both fine
		if len(targets) == 0 || !direct.OK {
			return strings.Join(append(lines, "fault case without compilable reference targets"), "\n"), false
		}
		v, fired, built := judgeFault(ctx, w, c.Files, sel, *c.Fault, targets, direct, nil)
		lines = append(lines, fmt.Sprintf("api with read fault %s: image built=%v fault hit=%v", *c.Fault, built, fired))
		if v != nil {
			lines = append(lines, "VIOLATED "+v.sig+": "+v.what)
			return strings.Join(lines, "\n"), true
		}
		return strings.Join(append(lines, "no oracle violated"), "\n"), false
	}

	// API
	obs, err := buildSelection(ctx, c.Files, sel)
	lines = append(lines, fmt.Sprintf("api: image files=%d err=%v", len(obs), err))
	switch {
	case len(targets) == 0:
		if err == nil {
			vs = append(vs, violation{"api/build/image-without-targets", "image built although nothing is targeted"})
		}
	case direct.OK:
		if err != nil {
			if !selectionMayBeRejected(w, sel) {
				vs = append(vs, violation{"api/build/unexpected-error/" + normErr(err), err.Error()})
			}
		} else {
			vs = append(vs, replayCheck("api", &expectation{world: w, targets: targets, direct: direct}, sel, obs)...)
		}
	default:
		if want, ok := expectedPositions(w, direct, ""); ok {
			if err == nil {
				vs = append(vs, violation{"api/error/image-despite-compile-error", fmt.Sprintf("bare compiler fails at %v", sortedPos(want))})
			} else if got, isSet := apiAnnotations(err); !isSet {
				vs = append(vs, violation{"api/error/not-annotations/" + normErr(err), err.Error()})
			} else if !samePositions(got, want) {
				vs = append(vs, violation{"api/error/" + classifyPosDiff(got, want), fmt.Sprintf("annotations %v, bare compiler %v", sortedPos(got), sortedPos(want))})
			}
		}
	}

	// CLI
	if c.Phase == "cli" || c.Phase == "errors" || c.Phase == "options" || ((c.Phase == "protofile" || c.Phase == "bystander") && c.Format != "") {
		scratch, serr := os.MkdirTemp("", "verif-c01-")
		if serr == nil {
			defer os.RemoveAll(scratch)
			dir := filepath.Join(scratch, "w")
			if werr := writeWorld(dir, c.Files); werr == nil {
				format := c.Format
				if format == "" {
					format = "binpb"
				}
				var cfg cliConfig
				if c.Config != nil {
					cfg = *c.Config
				}
				point := cfg.point(format)
				args := append(cliArgs(dir, sel, format), cfg.args()...)
				res := bufx.RunCLI(ctx, cfg.env(), "", args...)
				lines = append(lines, fmt.Sprintf("cli (%s): exit=%d stdout=%d bytes stderr=%q", cfg, res.ExitCode, len(res.Stdout), strings.ReplaceAll(res.Stderr, scratch, "<scratch>")))
				switch {
				case len(targets) == 0:
					if res.ExitCode == 0 {
						vs = append(vs, violation{point + "/build/image-without-targets", "exit 0 although nothing is targeted"})
					}
				case direct.OK:
					if res.ExitCode != 0 {
						if !selectionMayBeRejected(w, sel) {
							vs = append(vs, violation{point + "/build/unexpected-exit", res.Stderr})
						}
					} else {
						exp := &expectation{world: w, targets: targets, direct: direct}
						var wire []obsFile
						var derr error
						if format == "binpb" {
							wire, derr = observeWire([]byte(res.Stdout))
						} else {
							wire, exp.canon, derr = observeText(format, []byte(res.Stdout), direct)
						}
						if derr != nil {
							vs = append(vs, violation{point + "/build/undecodable-output", derr.Error()})
						} else {
							vs = append(vs, replayCheck(point, exp, sel, wire)...)
						}
					}
				default:
					if want, ok := expectedPositions(w, direct, filepath.ToSlash(dir)); ok {
						got, other := parseDiagnostics(cfg.ErrFormat, res.Stderr)
						pre := cfg.point("binpb") + "/" + cfg.errClause()
						switch {
						case res.ExitCode == 0:
							vs = append(vs, violation{pre + "/exit-0-despite-compile-error", "exit 0"})
						case len(res.Stdout) != 0:
							vs = append(vs, violation{pre + "/output-despite-compile-error", "image bytes on stdout"})
						case res.ExitCode != 100 || len(other) > 0:
							vs = append(vs, violation{pre + "/not-annotations", res.Stderr})
						case !samePositions(got, want):
							vs = append(vs, violation{pre + "/abs/" + classifyPosDiff(got, want), fmt.Sprintf("printed %v, expected %v", sortedPos(got), sortedPos(want))})
						}
					}
				}
			}
		}
	}
	sort.Slice(vs, func(i, j int) bool { return vs[i].sig < vs[j].sig })
	for _, v := range vs {
		lines = append(lines, "VIOLATED "+v.sig+": "+v.what)
	}
	if len(vs) == 0 {
		lines = append(lines, "no oracle violated")
	}
	return strings.Join(lines, "\n"), len(vs) > 0
}

// replayCheck is the image oracle plus, for a .proto file reference, the accepted wide reading of include_package_files.
func replayCheck(point string, exp *expectation, sel Selection, obs []obsFile) []violation {
	vs := checkImage(point, exp, obs, counters{})
	if len(vs) == 0 || sel.ProtoFile == "" {
		return vs
	}
	must, optional := refProtoFileTargets(exp.world, sel)
	if len(optional) == 0 {
		return vs
	}
	all := sortedCopy(append(append([]string{}, must...), optional...))
	d := directCompile(exp.world.Texts(), all)
	if !d.OK {
		return vs
	}
	alt := *exp
	alt.targets, alt.direct = all, d
	if len(checkImage(point, &alt, obs, counters{})) == 0 {
		return nil
	}
	return vs
}

// replayRefErr re-judges a case of the referrors phase (a .proto file reference over a workspace with a planted error):
// API always, CLI (absolute scratch directory) when the case was a CLI run.
func replayRefErr(ctx context.Context, w *World, c Case) (string, bool) {
	rw := newRefErrWorld(w, c.Note)
	sel := *c.Selection
	lines := []string{fmt.Sprintf("%s: reference targets %v; the workspace does not compile at %v", sel, refTargets(w, sel), sortedPos(rw.qUnder("")))}
	vs := rw.judgeAPI(ctx, nil, sel, counters{})
	if c.Format != "" {
		if scratch, err := os.MkdirTemp("", "verif-c01-"); err == nil {
			defer os.RemoveAll(scratch)
			dir := filepath.Join(scratch, "w")
			if writeWorld(dir, c.Files) == nil {
				var cfg cliConfig
				if c.Config != nil {
					cfg = *c.Config
				}
				vs = append(vs, rw.judgeCLI(ctx, nil, filepath.ToSlash(dir), sel, cfg, counters{})...)
			}
		}
	}
	sort.Slice(vs, func(i, j int) bool { return vs[i].sig < vs[j].sig })
	for _, v := range vs {
		lines = append(lines, "VIOLATED "+v.sig+": "+v.what)
	}
	if len(vs) == 0 {
		lines = append(lines, "no oracle violated")
	}
	return strings.Join(lines, "\n"), len(vs) > 0
}
