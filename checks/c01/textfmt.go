package c01

import (
	"fmt"

	"buf.build/go/protoyaml"
	imagev1 "github.com/bufbuild/buf/private/gen/proto/go/buf/alpha/image/v1"
	"google.golang.org/protobuf/encoding/protojson"
	"google.golang.org/protobuf/encoding/prototext"
	"google.golang.org/protobuf/proto"
	"google.golang.org/protobuf/reflect/protoreflect"
	"google.golang.org/protobuf/reflect/protoregistry"
	"google.golang.org/protobuf/types/descriptorpb"
	"google.golang.org/protobuf/types/dynamicpb"
)

// Text encodings of the image (`buf build -o -#format=json|txtpb|yaml`). Custom options are extensions of the descriptor
// option messages: a text encoding can only print them (and a reader can only parse them) with a resolver that knows the
// extension. The reference resolver is made from the bare compiler's descriptors of the same texts (protobuf-go registry
// + dynamicpb), never from bufimage.

// types is the reference resolver over every file of a direct compilation.
func (d *Direct) types() (*dynamicpb.Types, error) {
	files := &protoregistry.Files{}
	for _, f := range d.All {
		if err := files.RegisterFile(f); err != nil {
			return nil, fmt.Errorf("reference registry: %w", err)
		}
	}
	return dynamicpb.NewTypes(files), nil
}

// observeText decodes `buf build -o -#format=<format>` output. The returned canon function re-reads a descriptor with
// the reference resolver, so that both sides of the descriptor comparison hold custom options as typed extension fields
// (a text round trip cannot preserve the byte order of unknown fields, only their meaning).
func observeText(format string, data []byte, d *Direct) ([]obsFile, func(*descriptorpb.FileDescriptorProto) *descriptorpb.FileDescriptorProto, error) {
	types, err := d.types()
	if err != nil {
		return nil, nil, err
	}
	img := &imagev1.Image{}
	switch format {
	case "json":
		err = protojson.UnmarshalOptions{Resolver: types}.Unmarshal(data, img)
	case "txtpb":
		err = prototext.UnmarshalOptions{Resolver: types}.Unmarshal(data, img)
	case "yaml":
		err = protoyaml.UnmarshalOptions{Resolver: types}.Unmarshal(data, img)
	default:
		err = fmt.Errorf("unknown format %q", format)
	}
	if err != nil {
		return nil, nil, fmt.Errorf("%s output does not parse with the reference resolver: %w", format, err)
	}
	wire, err := proto.MarshalOptions{Deterministic: true}.Marshal(img)
	if err != nil {
		return nil, nil, err
	}
	obs, err := observeWire(wire)
	if err != nil {
		return nil, nil, err
	}
	canon := func(p *descriptorpb.FileDescriptorProto) *descriptorpb.FileDescriptorProto {
		b, err := proto.MarshalOptions{Deterministic: true}.Marshal(p)
		if err != nil {
			return p
		}
		q := &descriptorpb.FileDescriptorProto{}
		if err := (proto.UnmarshalOptions{Resolver: types}).Unmarshal(b, q); err != nil {
			return p
		}
		canonAny(q.ProtoReflect(), types)
		return q
	}
	for i := range obs {
		obs[i].Proto = canon(obs[i].Proto)
	}
	return obs, canon, nil
}

// canonAny re-encodes the payload of every google.protobuf.Any below m (option values may be Any literals) with the
// deterministic wire encoding of the reference resolver's type: the decoders of the text encodings produce the payload
// bytes with a field order of their own (protoyaml: random), which is not a difference of the image.
func canonAny(m protoreflect.Message, types *dynamicpb.Types) {
	if m.Descriptor().FullName() == "google.protobuf.Any" {
		urlField, valueField := m.Descriptor().Fields().ByName("type_url"), m.Descriptor().Fields().ByName("value")
		if urlField == nil || valueField == nil {
			return
		}
		mt, err := types.FindMessageByURL(m.Get(urlField).String())
		if err != nil {
			return
		}
		inner := mt.New()
		if err := (proto.UnmarshalOptions{Resolver: types}).Unmarshal(m.Get(valueField).Bytes(), inner.Interface()); err != nil {
			return
		}
		canonAny(inner, types)
		if b, err := (proto.MarshalOptions{Deterministic: true}).Marshal(inner.Interface()); err == nil {
			m.Set(valueField, protoreflect.ValueOfBytes(b))
		}
		return
	}
	m.Range(func(fd protoreflect.FieldDescriptor, v protoreflect.Value) bool {
		if fd.Message() == nil || fd.Name() == "source_code_info" {
			return true
		}
		switch {
		case fd.IsList():
			for i := 0; i < v.List().Len(); i++ {
				canonAny(v.List().Get(i).Message(), types)
			}
		case fd.IsMap():
			if fd.MapValue().Message() != nil {
				v.Map().Range(func(_ protoreflect.MapKey, mv protoreflect.Value) bool {
					canonAny(mv.Message(), types)
					return true
				})
			}
		default:
			canonAny(v.Message(), types)
		}
		return true
	})
}
