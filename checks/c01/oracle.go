package c01

import (
	"bytes"
	"fmt"
	"sort"
	"strings"

	"github.com/bufbuild/buf/private/bufpkg/bufimage"
	imagev1 "github.com/bufbuild/buf/private/gen/proto/go/buf/alpha/image/v1"
	"github.com/bufbuild/bufverif/internal/evid"
	"github.com/google/uuid"
	"google.golang.org/protobuf/proto"
	"google.golang.org/protobuf/types/descriptorpb"
)

// obsFile is one observed image file, from either observation point (API image or `buf build -o -` bytes).
type obsFile struct {
	Path     string
	Proto    *descriptorpb.FileDescriptorProto
	IsImport bool
	NoSyntax bool
	Unused   []int32
	ModName  string // "" = none
	Commit   string // "" = none
	Ext      string // external path; "" = not observable at this observation point
}

func observeImage(image bufimage.Image) []obsFile {
	var out []obsFile
	for _, f := range image.Files() {
		o := obsFile{Path: f.Path(), Proto: f.FileDescriptorProto(), IsImport: f.IsImport(), NoSyntax: f.IsSyntaxUnspecified(),
			Unused: f.UnusedDependencyIndexes(), Ext: f.ExternalPath()}
		if n := f.FullName(); n != nil {
			o.ModName = n.String()
		}
		if c := f.CommitID(); c != uuid.Nil {
			o.Commit = c.String()
		}
		out = append(out, o)
	}
	return out
}

// observeWire decodes the bytes written by `buf build -o -#format=binpb` without going through bufimage.
func observeWire(data []byte) ([]obsFile, error) {
	var img imagev1.Image
	if err := proto.Unmarshal(data, &img); err != nil {
		return nil, err
	}
	var out []obsFile
	for _, f := range img.GetFile() {
		ext := f.GetBufExtension()
		bare := proto.Clone(f).(*imagev1.ImageFile)
		bare.ClearBufExtension()
		b, err := proto.Marshal(bare)
		if err != nil {
			return nil, err
		}
		fdp := &descriptorpb.FileDescriptorProto{}
		if err := proto.Unmarshal(b, fdp); err != nil {
			return nil, err
		}
		o := obsFile{Path: f.GetName(), Proto: fdp, IsImport: ext.GetIsImport(), NoSyntax: ext.GetIsSyntaxUnspecified(), Unused: ext.GetUnusedDependency()}
		if n := ext.GetModuleInfo().GetName(); n != nil {
			o.ModName = n.GetRemote() + "/" + n.GetOwner() + "/" + n.GetRepository()
		}
		o.Commit = ext.GetModuleInfo().GetCommit()
		out = append(out, o)
	}
	return out, nil
}

// expectation is everything the reference side knows about one (world, selection).
type expectation struct {
	world    *World
	targets  []string // reference targets (image paths), sorted
	direct   *Direct  // bare compiler output for the same texts
	specDeps map[string][]string
	extRoot  string         // prefix of external paths ("" for a bucket input ".", the directory the user gave for the CLI)
	remote   map[int]string // module index -> commit id (dashed) for modules served by a provider instead of the workspace
	// canon, if set, is applied to every expected descriptor before the comparison (text encodings: custom options as typed
	// extension fields of the reference resolver on both sides).
	canon func(*descriptorpb.FileDescriptorProto) *descriptorpb.FileDescriptorProto
}

// counters of clause coverage, merged into the run at the end of a work item.
type counters map[string]int

func (c counters) add(k string, n int) { c[k] += n }

type violation struct {
	sig, what string
}

func eqInt32(a, b []int32) bool {
	if len(a) != len(b) {
		return false
	}
	for i := range a {
		if a[i] != b[i] {
			return false
		}
	}
	return true
}

func isWKTPath(p string) bool { return strings.HasPrefix(p, "google/protobuf/") }

// checkImage is the image oracle. point is "api" or "cli".
func checkImage(point string, exp *expectation, obs []obsFile, cnt counters) []violation {
	var vs []violation
	bad := func(sig, format string, a ...any) {
		vs = append(vs, violation{point + "/" + sig, fmt.Sprintf(format, a...)})
	}
	d := exp.direct
	owner := map[string]File{}
	for _, f := range exp.world.Files {
		owner[f.Path] = f
	}
	isTarget := map[string]bool{}
	for _, t := range exp.targets {
		isTarget[t] = true
	}
	role := func(p string) string {
		switch {
		case isTarget[p]:
			return "target"
		case isWKTPath(p) && owner[p].Path == "":
			return "builtin-wkt"
		default:
			for _, t := range exp.targets {
				for _, q := range d.Deps[t] {
					if q == p {
						return "direct-import"
					}
				}
			}
			return "transitive-import"
		}
	}

	// 1. exact file set: targets plus transitive imports, each path once.
	want := d.closure(exp.targets)
	wantSet := map[string]bool{}
	for _, p := range want {
		wantSet[p] = true
	}
	pos := map[string]int{}
	for i, o := range obs {
		if _, dup := pos[o.Path]; dup {
			bad("set/duplicate-path", "path %s occurs twice in the image", o.Path)
			continue
		}
		pos[o.Path] = i
		if !wantSet[o.Path] {
			r := "unreachable-file"
			if _, inWorld := owner[o.Path]; !inWorld {
				r = "unknown-file"
			}
			bad("set/extra/"+r, "image contains %s which is neither targeted nor imported (targets %v)", o.Path, exp.targets)
		}
	}
	for _, p := range want {
		if _, ok := pos[p]; !ok {
			bad("set/missing/"+role(p), "image lacks %s (%s; targets %v)", p, role(p), exp.targets)
		}
	}
	if len(want) > len(exp.targets) {
		cnt.add("clause_closure_cases_with_imports_added", 1)
	}

	for _, o := range obs {
		if !wantSet[o.Path] {
			continue
		}
		// 2. order: every file after everything it imports.
		for _, dep := range d.Deps[o.Path] {
			dp, ok := pos[dep]
			if !ok {
				continue // reported as missing
			}
			cnt.add("clause_order_pairs", 1)
			if dp >= pos[o.Path] {
				bad("order/import-after-importer", "%s (position %d) imports %s (position %d)", o.Path, pos[o.Path], dep, dp)
			}
		}
		// 3. import flag.
		if isTarget[o.Path] {
			cnt.add("clause_flag_targets", 1)
			if o.IsImport {
				bad("flag/target-marked-import", "targeted file %s is marked import", o.Path)
			}
		} else {
			cnt.add("clause_flag_imports", 1)
			if !o.IsImport {
				bad("flag/"+role(o.Path)+"-marked-non-import", "%s is not targeted (targets %v) but marked non-import", o.Path, exp.targets)
			}
		}
		f, inWorld := owner[o.Path]
		if inWorld {
			// 4. descriptor = what the compiler produces for that text.
			wantProto := d.Protos[o.Path]
			if wantProto == nil {
				bad("harness/no-direct-descriptor", "no direct descriptor for %s", o.Path)
				continue
			}
			cnt.add("clause_descriptor_files", 1)
			if exp.canon != nil {
				wantProto = exp.canon(wantProto)
			}
			if !protoSame(o.Proto, wantProto) {
				a, b := proto.Clone(o.Proto).(*descriptorpb.FileDescriptorProto), proto.Clone(wantProto).(*descriptorpb.FileDescriptorProto)
				a.SourceCodeInfo, b.SourceCodeInfo = nil, nil
				if protoSame(a, b) {
					bad("descriptor/source-info-differs", "%s: SourceCodeInfo differs from the direct compilation (%d vs %d locations)", o.Path,
						len(o.Proto.GetSourceCodeInfo().GetLocation()), len(wantProto.GetSourceCodeInfo().GetLocation()))
				} else {
					bad("descriptor/differs", "%s: descriptor differs from the direct compilation of the same text", o.Path)
				}
			}
			if f.Index < 0 {
				cnt.add("clause_wkt_workspace_supplied", 1)
			}
			// 5. markers.
			wantUnused := d.unusedIndexes(o.Path)
			if len(wantUnused) > 0 {
				cnt.add("clause_unused_nonempty", 1)
			}
			if !eqInt32(o.Unused, wantUnused) {
				bad("unused/differs", "%s: unused dependency indexes %v, direct compiler warnings say %v (deps %v)", o.Path, o.Unused, wantUnused, d.Deps[o.Path])
			}
			if d.NoSyntax[o.Path] {
				cnt.add("clause_syntax_unspecified", 1)
			}
			if o.NoSyntax != d.NoSyntax[o.Path] {
				bad("nosyntax/differs", "%s: IsSyntaxUnspecified=%v, direct compiler says %v", o.Path, o.NoSyntax, d.NoSyntax[o.Path])
			}
			// 6. owner.
			cnt.add("clause_owner_files", 1)
			if wantName := exp.world.ModNames[f.Module]; o.ModName != wantName {
				bad("owner/name", "%s: module name %q, owner is %q", o.Path, o.ModName, wantName)
			}
			wantCommit, isRemote := exp.remote[f.Module]
			if o.Commit != wantCommit {
				if isRemote {
					bad("owner/commit-of-dependency", "%s: commit %q, the dependency is pinned at %q", o.Path, o.Commit, wantCommit)
				} else {
					bad("owner/commit", "%s: commit %q on a file of a workspace module (which has no commit)", o.Path, o.Commit)
				}
			}
			if o.Ext != "" && !isRemote {
				wantExt := joinDir(exp.extRoot, f.Ext)
				if o.Ext != wantExt {
					bad("extpath/differs", "%s: external path %q, want %q", o.Path, o.Ext, wantExt)
				}
			}
		} else {
			// 7. built-in WKT.
			cnt.add("clause_wkt_builtin", 1)
			w := builtinWKT(o.Path)
			if w.err != "" {
				bad("harness/wkt", "%s", w.err)
				continue
			}
			wantBuiltin := w.withSource
			if exp.canon != nil {
				wantBuiltin = exp.canon(wantBuiltin)
			}
			if !protoSame(o.Proto, wantBuiltin) {
				bad("wkt/builtin-differs", "%s: descriptor is not the compilation of the built-in datawkt text", o.Path)
			}
			if w.linkedIn != nil {
				a := proto.Clone(o.Proto).(*descriptorpb.FileDescriptorProto)
				a.SourceCodeInfo = nil
				// informational only: datawkt tracks protoc releases, protobuf-go its own; the property asks for the built-in copy
				if protoSame(a, w.linkedIn) {
					cnt.add("info_wkt_equal_to_protobuf_go_linked_in", 1)
				} else {
					cnt.add("info_wkt_differs_from_protobuf_go_linked_in", 1)
				}
			}
			if o.ModName != "" || o.Commit != "" {
				bad("owner/wkt-has-module", "%s: built-in file carries module %q commit %q", o.Path, o.ModName, o.Commit)
			}
			if len(o.Unused) != 0 || o.NoSyntax {
				bad("unused/wkt", "%s: built-in file has markers unused=%v nosyntax=%v", o.Path, o.Unused, o.NoSyntax)
			}
		}
	}
	return vs
}

// checkSpecAgainstDirect makes sure the two reference sides (the spec's own import graph / expectations and
// the bare compiler) agree; a disagreement is a harness problem, never a violation.
func checkSpecAgainstDirect(s *Spec, d *Direct) string {
	for i := 0; i < s.N; i++ {
		deps, unused := s.importList(i)
		got := d.Deps[relPaths[i]]
		if strings.Join(deps, ",") != strings.Join(got, ",") {
			return fmt.Sprintf("spec deps of f%d %v != direct %v", i, deps, got)
		}
		// Unused workspace imports: the compiler attributes a symbol to the first import that makes it visible
		// (possibly a public re-export), so only the WKT imports have an unambiguous expectation here.
		got32 := map[int32]bool{}
		for _, u := range d.unusedIndexes(relPaths[i]) {
			got32[u] = true
		}
		for idx, dep := range deps {
			if !isWKTPath(dep) {
				continue
			}
			wantUnused := false
			for _, u := range unused {
				if u == idx {
					wantUnused = true
				}
			}
			if wantUnused != got32[int32(idx)] {
				return fmt.Sprintf("spec says WKT import #%d of f%d unused=%v, direct compiler reports unused %v", idx, i, wantUnused, d.unusedIndexes(relPaths[i]))
			}
		}
		if (s.Syntax[i] == sUnspecified) != d.NoSyntax[relPaths[i]] {
			return fmt.Sprintf("spec syntax-unspecified of f%d != direct %v", i, d.NoSyntax[relPaths[i]])
		}
	}
	return ""
}

// protoSame: equal as messages, or equal as deterministic wire bytes (custom options are dynamic messages whose
// descriptors belong to different compilations, which proto.Equal treats as different types).
func protoSame(a, b proto.Message) bool {
	if proto.Equal(a, b) {
		return true
	}
	ba, err1 := proto.MarshalOptions{Deterministic: true}.Marshal(a)
	bb, err2 := proto.MarshalOptions{Deterministic: true}.Marshal(b)
	return err1 == nil && err2 == nil && bytes.Equal(ba, bb)
}

func report(r *evid.Run, vs []violation, c any) {
	for _, v := range vs {
		if strings.Contains(v.sig, "/harness/") {
			r.Incomplete(v.sig + ": " + v.what)
			continue
		}
		r.Violate(v.sig, v.what, c)
	}
}

func sortedCopy(a []string) []string {
	b := append([]string(nil), a...)
	sort.Strings(b)
	return b
}
