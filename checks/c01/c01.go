// Package c01 is the check for property C01 (see DESIGN.md section 3).
package c01
