// Package c01: an image is the exact, closed, ordered compilation of the targeted files.
//
// Bounded-exhaustive exploration (engine B). Every labelled import DAG on n<=3 files (edge kind in
// {plain, public, unused}), decorated with per-file syntax and well-known-type imports, assigned to <=2
// modules of a v2 workspace, is built through the real workspace + bufimage.BuildImage code for every input
// directory and every --path/--exclude-path selection over the files and directories of the workspace;
// `buf build -o -` is run in-process on scratch directories for the CLI observation point. The oracle is a
// reference model written here (targeting, closure, topological predicate, owner) plus a bare
// protocompile.Compiler run over the same texts (descriptors, source info, warnings, error positions).
//
// Round 2 added: .proto file references as the input (protofile.go), custom options declared at every nesting
// placement observed through every output encoding (options.go, textfmt.go), and import paths respelled in
// non-canonical ways as planted compile errors (errors.go).
//
// Round 3 added: a workspace module without any .proto file next to the modules that are built, in v2 and v1
// workspaces (bystander.go), and the configuration of the CLI runs as a dimension: input copied to memory, every
// --error-format (cliconfig.go).
package c01

import (
	"context"
	"fmt"
	"os"
	"regexp"
	"runtime/debug"
	"runtime/pprof"
	"sort"
	"strings"
	"sync"
	"time"

	"github.com/bufbuild/buf/private/buf/bufworkspace"
	"github.com/bufbuild/bufverif/internal/bufx"
	"github.com/bufbuild/bufverif/internal/enum"
	"github.com/bufbuild/bufverif/internal/evid"
)

func init() {
	evid.Register(&evid.Check{ID: "C01", Level: "exploration", Run: run, QuickBudget: 300 * time.Second, ThoroughBudget: 45 * time.Minute})
}

// Case is what is written to samples / replays.
type Case struct {
	Phase     string            `json:"phase"`
	Spec      *Spec             `json:"spec,omitempty"`
	Selection *Selection        `json:"selection,omitempty"`
	Files     map[string]string `json:"files,omitempty"`
	World     *WorldInfo        `json:"world,omitempty"` // module table and file ownership (texts are in Files)
	Note      string            `json:"note,omitempty"`
	Format    string            `json:"format,omitempty"` // cli: output encoding of `buf build -o -#format=...` (empty = binpb)
	Fault     *FaultPlan        `json:"fault,omitempty"`  // fault phase: the injected read fault
	Config    *cliConfig        `json:"config,omitempty"` // cli: configuration of the run (nil = default: files read from disk, text diagnostics)
}

// WorldInfo is the structure of a world without the texts, enough to re-judge a recorded case.
type WorldInfo struct {
	ModDirs  []string   `json:"mod_dirs"`
	ModNames []string   `json:"mod_names"`
	Files    []FileInfo `json:"files"`
	// EmptyMods: directories of the modules without .proto files; NonProto: the files in them.
	EmptyMods []string `json:"empty_mods,omitempty"`
	NonProto  []string `json:"non_proto,omitempty"`
}

// FileInfo is the ownership record of one file.
type FileInfo struct {
	Path   string `json:"path"`
	Module int    `json:"module"`
	Ext    string `json:"ext"`
}

func infoOf(w *World) *WorldInfo {
	wi := &WorldInfo{ModDirs: w.ModDirs, ModNames: w.ModNames, EmptyMods: w.EmptyMods, NonProto: w.NonProto}
	for _, f := range w.Files {
		wi.Files = append(wi.Files, FileInfo{Path: f.Path, Module: f.Module, Ext: f.Ext})
	}
	return wi
}

type runner struct {
	r   *evid.Run
	ctx context.Context
	mu  sync.Mutex
	cnt counters
}

func (rn *runner) merge(c counters) {
	rn.mu.Lock()
	for k, v := range c {
		rn.cnt[k] += v
	}
	rn.mu.Unlock()
}

// decorate fills Syntax and Wkt of a spec from a decoration index 0..15: file 0 gets (syntax d%4, wkt d/4),
// the other files are rotated so that one workspace mixes syntaxes and WKT variants.
func decorate(s *Spec, d int) {
	s.Syntax = make([]int, s.N)
	s.Wkt = make([]int, s.N)
	for i := 0; i < s.N; i++ {
		s.Syntax[i] = (d%4 + i) % 4
		s.Wkt[i] = (d/4 + 2*i) % 4
	}
}

// graphs returns every labelled DAG on n nodes with every edge labelling over kinds. Edge i->j: file i imports file j.
func graphs(n int, kinds []int) [][][]int {
	var out [][][]int
	for _, g := range enum.Digraphs(n, true) {
		edges := g.Edges()
		dims := make([]int, len(edges))
		for i := range dims {
			dims[i] = len(kinds)
		}
		emit := func(idx []int) {
			k := make([][]int, n)
			for i := range k {
				k[i] = make([]int, n)
			}
			for e, ed := range edges {
				k[ed[0]][ed[1]] = kinds[idx[e]]
			}
			out = append(out, k)
		}
		if len(edges) == 0 {
			emit(nil)
			continue
		}
		enum.Product(dims, func(idx []int) bool { emit(idx); return true })
	}
	return out
}

// assignments returns (module index per file, module dirs) for every way to put n files into <=2 modules:
// all files in one module (laid out as directory "ma" and as the workspace root "."), and every split over ma/mb
// in which both are non-empty.
func assignments(n int) (mods [][]int, dirs [][]string) {
	for mask := 0; mask < (1<<n)-1; mask++ {
		m := make([]int, n)
		for i := 0; i < n; i++ {
			if mask&(1<<i) != 0 {
				m[i] = 1
			}
		}
		if mask == 0 {
			mods = append(mods, m, m)
			dirs = append(dirs, []string{"ma"}, []string{"."})
			continue
		}
		mods = append(mods, m)
		dirs = append(dirs, []string{"ma", "mb"})
	}
	return
}

func specKey(s *Spec) string {
	k := fmt.Sprintf("%v|%v|%v|%v|%v|%d.%d", s.Kind, s.Syntax, s.Wkt, s.Mod, s.ModDirs, s.Shadow, s.ShadowWkts)
	if s.Pkg != nil {
		k += fmt.Sprintf("|pkg%v", s.Pkg)
	}
	if s.Bystander != 0 {
		k += fmt.Sprintf("|bystander%d.%v", s.Bystander, s.BystanderFirst)
	}
	if s.V1 {
		k += "|v1"
	}
	return k
}

// subDirSelections: the workspace root and every module directory as the input.
func subDirSelections(w *World) []Selection {
	sels := []Selection{{SubDir: "."}}
	for _, d := range w.ModDirs {
		if d != "." {
			sels = append(sels, Selection{SubDir: d})
		}
	}
	return sels
}

// pathSelections: every --path subset (size<=maxPaths) x every --exclude-path subset (size<=maxExcl) over cands.
// With fullProduct=false, two paths are only combined with no exclude.
func pathSelections(subDir string, cands []string, maxPaths, maxExcl int, fullProduct bool) []Selection {
	var sels []Selection
	for _, ps := range enum.Subsets(len(cands), 0, maxPaths) {
		for _, es := range enum.Subsets(len(cands), 0, maxExcl) {
			if len(ps) == 0 && len(es) == 0 {
				continue // that is the plain sub-dir selection
			}
			if !fullProduct && len(ps) >= 2 && len(es) > 0 {
				continue
			}
			sel := Selection{SubDir: subDir}
			for _, i := range ps {
				sel.Paths = append(sel.Paths, cands[i])
			}
			for _, i := range es {
				sel.Excludes = append(sel.Excludes, cands[i])
			}
			sels = append(sels, sel)
		}
	}
	return sels
}

var reNorm = regexp.MustCompile(`"[^"]*"|[A-Za-z0-9_./-]+\.proto|[0-9]+`)

func normErr(err error) string {
	s := err.Error()
	s = reNorm.ReplaceAllString(s, "_")
	if len(s) > 120 {
		s = s[:120]
	}
	return s
}

// buildSelection builds the image of one selection through the API: workspace for the bucket (for a .proto file reference
// the way the controller does it: the directory of the file is the input, the file the only target path, plus
// WithProtoFileTargetPath), then bufimage.BuildImage.
func buildSelection(ctx context.Context, files map[string]string, sel Selection) ([]obsFile, error) {
	subDir, paths, excludes := sel.SubDir, sel.Paths, sel.Excludes
	var options []bufworkspace.WorkspaceBucketOption
	if sel.ProtoFile != "" {
		subDir, paths, excludes = ".", []string{sel.ProtoFile}, nil
		if i := strings.LastIndex(sel.ProtoFile, "/"); i >= 0 {
			subDir = sel.ProtoFile[:i]
		}
		options = append(options, bufworkspace.WithProtoFileTargetPath(sel.ProtoFile, sel.IncludePkg))
	}
	ws, err := bufx.Workspace(ctx, bufx.MemBucket(files), subDir, paths, excludes, bufx.NopProviders, options...)
	if err != nil {
		return nil, err
	}
	image, err := bufx.BuildWorkspaceImage(ctx, ws)
	if err != nil {
		return nil, err
	}
	return observeImage(image), nil
}

// runWorld builds one world under every selection through the API and checks each outcome. It returns the signatures
// reported per selection (key Selection.String()).
func (rn *runner) runWorld(phase string, s *Spec, w *World, sels []Selection, directFor func([]string) *Direct) map[string]map[string]bool {
	reported := map[string]map[string]bool{}
	cnt := counters{}
	defer rn.merge(cnt)
	files := w.BucketFiles()
	for _, sel := range sels {
		sel := sel
		rn.r.Eval(1)
		cnt.add("api_builds", 1)
		mkCase := func() any { return Case{Phase: phase, Spec: s, Selection: &sel, Files: files, World: infoOf(w)} }
		targets := refTargets(w, sel)
		obs, err := buildSelection(rn.ctx, files, sel)
		if err != nil {
			switch {
			case len(targets) == 0:
				cnt.add("outcome_error_no_targets", 1)
			case selectionMayBeRejected(w, sel):
				cnt.add("outcome_selection_rejected", 1)
			default:
				rn.r.Violate("api/build/unexpected-error/"+normErr(err), fmt.Sprintf("%s: reference targets %v compile directly, buf returned: %v", sel, targets, err), mkCase())
			}
			continue
		}
		if len(targets) == 0 {
			rn.r.Violate("api/build/image-without-targets", fmt.Sprintf("%s: no file is targeted according to the reference model, but an image with %d files was built", sel, len(obs)), mkCase())
			continue
		}
		cnt.add("outcome_image", 1)
		direct := directFor(targets)
		if direct == nil {
			continue
		}
		exp := &expectation{world: w, targets: targets, direct: direct}
		vs := checkImage("api", exp, obs, cnt)
		if sel.ProtoFile != "" {
			vs = rn.protoFileAlternative("api", exp, sel, obs, vs, directFor, cnt)
		}
		report(rn.r, vs, mkCase())
		for _, v := range vs {
			if reported[sel.String()] == nil {
				reported[sel.String()] = map[string]bool{}
			}
			reported[sel.String()][v.sig] = true
		}
		if len(obs) >= 2 {
			rn.r.Distinct(phase + "|" + specKey(s) + "|" + sel.String())
		}
		if len(sel.Paths) > 0 {
			cnt.add("selection_with_paths", 1)
		}
		if len(sel.Excludes) > 0 {
			cnt.add("selection_with_excludes", 1)
		}
		if sel.ProtoFile == "" && sel.SubDir != "." {
			cnt.add("selection_module_dir_input", 1)
		}
	}
	return reported
}

// prepare renders a spec, runs the bare compiler over all files and cross-checks the two reference sides. The
// returned function compiles exactly a target list (as buf does: the compiler only reports unused imports for the
// files it was asked to compile), memoised per target list.
func (rn *runner) prepare(s *Spec) (*World, func([]string) *Direct, bool) {
	w := s.Render()
	var names []string
	for _, f := range w.Files {
		names = append(names, f.Path)
	}
	sort.Strings(names)
	direct := directCompile(w.Texts(), names)
	if !direct.OK {
		rn.r.Incomplete(fmt.Sprintf("harness: generated workspace does not compile directly: %+v %s (%s)", direct.Errors, direct.OtherErr, specKey(s)))
		return nil, nil, false
	}
	if msg := checkSpecAgainstDirect(s, direct); msg != "" {
		rn.r.Incomplete("harness: reference sides disagree: " + msg + " (" + specKey(s) + ")")
		return nil, nil, false
	}
	texts := w.Texts()
	cache := map[string]*Direct{strings.Join(names, ","): direct}
	return w, func(targets []string) *Direct {
		key := strings.Join(targets, ",")
		if d, ok := cache[key]; ok {
			return d
		}
		d := directCompile(texts, targets)
		if !d.OK {
			rn.r.Incomplete(fmt.Sprintf("harness: targets %v do not compile directly: %+v %s (%s)", targets, d.Errors, d.OtherErr, specKey(s)))
			d = nil
		}
		cache[key] = d
		return d
	}, true
}

// selection modes of a world
const (
	selNone    = iota
	selSub     // the workspace root and every module directory as input, no path flags
	selSingles // selSub + every selection with exactly one --path or one --exclude-path (any input directory)
	selPairs   // selSub + input ".": (<=1 path) x (<=1 exclude); module directory inputs: one path or one exclude
	selReduced // selPairs + input ".": every 2 paths (no exclude)
	selFull    // selSub + input ".": (<=2 paths) x (<=1 exclude); module directory inputs: (<=1 path) x (<=1 exclude)
)

var selModeNames = []string{"none", "sub", "singles", "pairs", "reduced", "full"}

type worldItem struct {
	phase   string
	spec    *Spec
	mode    int // selections built through the API
	cliMode int // selections built through the CLI (selNone = world not used in the cli phase)
	nope    bool
}

func selections(w *World, mode int, nope bool) []Selection {
	sels := subDirSelections(w)
	if mode <= selSub {
		return sels
	}
	cands := pathCandidates(w)
	if nope {
		cands = append(cands, joinDir(w.ModDirs[0], "nope"))
	}
	single := func(in []Selection) []Selection {
		var out []Selection
		for _, s := range in {
			if len(s.Paths)+len(s.Excludes) == 1 {
				out = append(out, s)
			}
		}
		return out
	}
	var modDirs []string
	for _, d := range w.ModDirs {
		if d != "." {
			modDirs = append(modDirs, d)
		}
	}
	switch mode {
	case selSingles:
		sels = append(sels, single(pathSelections(".", cands, 1, 1, true))...)
		for _, d := range modDirs {
			sels = append(sels, single(pathSelections(d, cands, 1, 1, true))...)
		}
	case selPairs, selReduced:
		if mode == selPairs {
			sels = append(sels, pathSelections(".", cands, 1, 1, true)...)
		} else {
			sels = append(sels, pathSelections(".", cands, 2, 1, false)...)
		}
		for _, d := range modDirs {
			sels = append(sels, single(pathSelections(d, cands, 1, 1, true))...)
		}
	case selFull:
		sels = append(sels, pathSelections(".", cands, 2, 1, true)...)
		for _, d := range modDirs {
			sels = append(sels, pathSelections(d, cands, 1, 1, true)...)
		}
	}
	return sels
}

func run(r *evid.Run) {
	rn := &runner{r: r, ctx: context.Background(), cnt: counters{}}
	quick := r.Quick()
	// The run allocates a lot (every case compiles a workspace twice) with a small live heap: a quarter of the CPU time
	// is the collector at the default setting. Collect less often while this check runs, unless GOGC was set by the user.
	// (Quick tier only: the thorough tier has a large live heap and no CPU problem.)
	if quick {
		if old := debug.SetGCPercent(250); old != 100 {
			debug.SetGCPercent(old)
		} else {
			defer debug.SetGCPercent(old)
		}
	}
	if p := os.Getenv("C01_CPUPROFILE"); p != "" { // debugging aid
		if f, err := os.Create(p); err == nil {
			if pprof.StartCPUProfile(f) == nil {
				defer func() { pprof.StopCPUProfile(); f.Close() }()
			}
		}
	}
	r.Rule("phase graph: every labelled import DAG on n<=3 files x every edge labelling over {plain, public, unused-plain} (thorough: + n=4 plain) " +
		"x every assignment of the files to <=2 modules (single module as directory and as workspace root) x decoration (per-file syntax in {proto3, proto2, editions 2023, unspecified} " +
		"and WKT import variant in {none, Any used last, Any unused first, descriptor.proto used by a custom option with a message literal + unused timestamp.proto}; quick 2 of 16 decorations per world, thorough all 16) " +
		"x every input directory (workspace root, each module directory). phase paths: the 25 DAG shapes on 3 files x kind rotation x assignments x every --path subset (size<=2) and --exclude-path subset (size<=1) " +
		"over {every file, every directory, one non-existing path} (quick: 2 assignments per shape, two paths only without exclude; thorough: all 8 assignments, full product on 4 of them). " +
		"phase shadow: workspaces that supply their own google/protobuf/any.proto. phase remote: every DAG on 2..3 files (plain/public) x every split in which one part is a registry dependency pinned at a commit. phase dup: one path present in two modules (an ordinary path; the path of a well-known type). phase fault: the shadow worlds (the module supplies any.proto and timestamp.proto) x input directory x every file of the bucket x {Stat, Get, Read fails} x {EIO, EACCES} (quick: half of the two-file worlds, persistent faults, the error values alternate; thorough: x {always, first call only}, + for the workspace root as input one path / one exclude with persistent faults). phase cli: `buf build <dir> -o -#format=binpb` with path selections on scratch directories, output decoded without bufimage. " +
		"phase errors: 6 base workspaces x every token position x {delete, duplicate}, plus every import statement x 9 other spellings of its path (./p, p/, p/., /p, a//b, a/./b, a/../a/b, a/b/../b/c, nope/p: literally different from every file name, although a path-normalising storage layer maps most of them back to the file), API and CLI (absolute and relative input directory). " +
		"phase protofile: the input is a .proto file reference: 25 DAG shapes on 3 files x assignment x package pattern (each file: own package, a shared package, no package statement: 27) x every file x include_package_files in {false, true}, API and (every fourth world) CLI. " +
		"phase options: a custom option declared at each of 15 placements (file level, or inside message i1.i2.i3 of a binary message tree of depth 3; index 1 = not the first message of its parent) x extendee {File,Message,Field}Options x value {string, message literal, Any literal} x user {declaring file, importer in the same module, importer in another module} (quick: extendee and value rotate) + worlds with all 15 at once sharing extension numbers across extendees; API and CLI in every output encoding (binpb, json, txtpb, yaml; the text encodings are parsed back with a resolver made from the bare compiler's descriptors). phase cli also builds every world once in a text encoding (rotating). " +
		"phase bystander: the workspace has one more module that contains no .proto file (3 content variants, listed last or first, v2 buf.yaml or v1 buf.work.yaml workspace) next to every DAG on <=2 files x assignment; every input directory, one --path or one --exclude-path (also over the non-proto files) and every .proto file reference, API and CLI: whenever that module is not targeted as a whole the build must succeed with the image of the targeted files. " +
		"phase referrors: the input kind of the planted-error cases: 4 base workspaces with a configuration file (two v2 modules, editions module at the root, v1 buf.work.yaml workspace, a module in a sub-directory with two files of one package, an unrelated unimported file and the package continued in a second module) x every token x {delete, duplicate} x every file as a .proto file reference x include_package_files in {false, true}; API every selection, CLI two of them per mutation (absolute / relative directory; thorough: all, both forms, + files copied to memory): diagnostics, whether they come from the compiler or from the package/import scan that precedes it, must name places where the workspace does not compile, by the path the user gave. " +
		"configuration dimension of the CLI runs: the files are copied to memory first (BUF_BETA_COPY_FILES_TO_MEMORY) or not, diagnostics are printed in each --error-format (text, json, msvs, junit, github-actions); errors phase: every case runs once in the default configuration and once with one setting changed (10 combinations with the directory form, rotating; thorough: the product, 20 runs), cli and bystander phases: every input directory once more from memory. " +
		"A case is distinct by (workspace, selection[, encoding][, configuration]) resp. (base, file, token, operator); " +
		"it is non-trivial if the image has >=2 files resp. the mutation is a compile error.")
	r.Assume("the Protobuf compiler of the property is github.com/bufbuild/protocompile (the compiler buf links); it is run bare (own map resolver, standard imports, same SourceInfoMode, compiling exactly the reference targets) as the oracle")
	r.Assume("dependencies with a commit are served by an in-process provider (bufmoduletesting.OmniProvider) and pinned in buf.lock; API observation point only (the CLI's registry client cannot be replaced offline)")
	r.Assume("read faults are injected at the storage.ReadBucket interface of the workspace bucket (API observation point; the process runs as root, so unreadable files cannot be produced on disk for the CLI); with a fault either outcome is accepted, error or an image that is correct for the fault-free texts")
	r.Assume(".proto file references: the referenced file is targeted, with include_package_files also the files of ITS module that declare the same package; a file without a package statement has no package files (buf's documented behaviour); files of another module that declare the same package may or may not be targeted (both readings accepted)")
	r.Assume("text encodings are compared by meaning: both sides are read with the reference resolver (custom options as typed extension fields, Any payloads re-encoded deterministically), because a text round trip does not preserve the byte order of unknown fields")
	r.Assume("selections buf refuses by design (module directory as --path/--exclude-path, exclude containing a path) may error; when they build, the image is checked")
	r.Assume("a selection that makes a module without .proto files a target as a whole (input = the workspace root or that module, no --path) may be refused (buf demands a .proto file of every module it is asked to build); with --path, a sibling module directory as the input or a .proto file reference that module is not a target and must not influence the build")
	r.Assume("the path the user gave: `buf build <dir>` names a file <dir>/<path below dir> in every diagnostics format, with <dir> exactly as typed (absolute, or relative to the working directory: the scratch directories are reached through ../), whether the files are read from disk or from the in-memory copy")
	r.Assume("a .proto file reference over a workspace that does not compile: diagnostics equal to the bare compiler's for the reference targets, or a non-empty set of positions each on a (file, line) where the bare compiler reports an error when that file is compiled on its own (buf may stop at the first file whose package/import statements it cannot scan; its scanner names the same statement as the compiler, not always the same token); with include_package_files such a stop is accepted even when the reference targets themselves compile, without it they must build")
	r.Assume("the compiler reports unused imports only for the files it is asked to compile, so a non-targeted import never carries unused-dependency markers; this is taken as 'what the compiler produces'")

	var items []worldItem
	allDecors := []int{}
	for d := 0; d < 16; d++ {
		allDecors = append(allDecors, d)
	}
	quickDecors := []int{1, 6, 11, 12}
	addGraphPhase := func(n int, kinds []int, decorsFor func(gi, a int) []int) {
		mods, dirs := assignments(n)
		for gi, k := range graphs(n, kinds) {
			for a := range mods {
				for _, d := range decorsFor(gi, a) {
					s := &Spec{N: n, Kind: k, Mod: mods[a], ModDirs: dirs[a], Shadow: -1}
					decorate(s, d)
					items = append(items, worldItem{phase: "graph", spec: s, mode: selSub})
				}
			}
		}
	}
	twoOfFour := func(gi, a int) []int { return []int{quickDecors[(gi+a)%4], quickDecors[(gi+a+2)%4]} }
	// quick, n = 3: one decoration per (graph, assignment), rotating over the four (each decoration still meets every
	// graph shape and every assignment many times; 3/4 of the CPU time of a world is buf compiling descriptor.proto from
	// source for the decorations that import it).
	oneOfFour := func(gi, a int) []int { return []int{quickDecors[(gi+a)%4]} }
	allKinds := []int{kPlain, kPublic, kUnused}
	for n := 1; n <= 3; n++ {
		if quick && n == 3 {
			addGraphPhase(n, allKinds, oneOfFour)
		} else if quick {
			addGraphPhase(n, allKinds, twoOfFour)
		} else {
			addGraphPhase(n, allKinds, func(int, int) []int { return allDecors })
		}
	}
	if !quick {
		addGraphPhase(4, []int{kPlain}, twoOfFour)
	}
	r.Set("graph_phase_worlds", len(items))

	// paths phase
	rotations := 1
	if !quick {
		rotations = 3
	}
	nPathWorlds := 0
	{
		mods, dirs := assignments(3)
		for gi, g := range enum.Digraphs(3, true) {
			for rot := 0; rot < rotations; rot++ {
				k := make([][]int, 3)
				for i := range k {
					k[i] = make([]int, 3)
				}
				for e, ed := range g.Edges() {
					k[ed[0]][ed[1]] = allKinds[(e+rot+gi)%3]
				}
				for a := range mods {
					it := worldItem{phase: "paths", nope: true}
					if quick {
						// two assignments per shape, rotating so that all 8 occur
						if a != gi%len(mods) && a != (gi+3)%len(mods) {
							continue
						}
						it.mode, it.cliMode = selReduced, selSingles
					} else {
						it.mode = selReduced
						if rot == 0 && (a+gi)%2 == 0 {
							it.mode = selFull
						}
						if rot == 0 {
							it.cliMode = selPairs
						}
					}
					s := &Spec{N: 3, Kind: k, Mod: mods[a], ModDirs: dirs[a], Shadow: -1}
					decorate(s, (gi+5*rot)%16)
					it.spec = s
					items = append(items, it)
					nPathWorlds++
				}
			}
		}
	}
	r.Set("paths_phase_worlds", nPathWorlds)

	// shadow phase: graphs on <=2 files, file 0 (and by rotation others) import Any; a module supplies its own any.proto.
	nShadow := 0
	for n := 1; n <= 2; n++ {
		mods, dirs := assignments(n)
		for _, k := range graphs(n, []int{kPlain, kPublic}) {
			for a := range mods {
				for _, d := range []int{4, 9, 2, 15} { // file 0: Any used / Any unused / none (file 1 imports it) / descriptor
					for sh := range dirs[a] {
						s := &Spec{N: n, Kind: k, Mod: mods[a], ModDirs: dirs[a], Shadow: sh}
						decorate(s, d)
						it := worldItem{phase: "shadow", spec: s, mode: selSingles, cliMode: selSub}
						if quick && nShadow%2 == 1 {
							it.mode = selSub // quick: every other shadow world only with the input directories (the fault phase builds all of them again)
						}
						if !quick {
							it.mode, it.cliMode = selFull, selSingles
						}
						items = append(items, it)
						nShadow++
					}
				}
			}
		}
	}
	r.Set("shadow_phase_worlds", nShadow)

	phaseOn := func(p string) bool {
		f := os.Getenv("C01_PHASES") // debugging aid: comma separated subset of graph,paths,shadow,remote,dup,fault,bystander,protofile,options,cli,errors,referrors
		return f == "" || strings.Contains(","+f+",", ","+p+",")
	}
	if os.Getenv("C01_PHASES") != "" {
		r.Incomplete("C01_PHASES is set: only a subset of the phases ran")
	}
	// Order of execution: the small phases first (so that an internal deadline on a loaded machine still leaves every
	// clause exercised), then the big enumerations with the heaviest worlds (paths, shadow) ahead of the graph phase.
	scratch, err := os.MkdirTemp("", "verif-c01-")
	if err != nil {
		r.Incomplete("scratch: " + err.Error())
	} else {
		defer os.RemoveAll(scratch)
		if phaseOn("errors") {
			rn.runErrorPhase(scratch)
		}
		if phaseOn("referrors") {
			rn.runRefErrorPhase(scratch)
		}
		if phaseOn("remote") {
			rn.runRemotePhase()
		}
		if phaseOn("dup") {
			rn.runDupPhase()
		}
		if phaseOn("fault") {
			rn.runFaultPhase()
		}
		if phaseOn("bystander") {
			rn.runBystanderPhase(scratch)
		}
		if phaseOn("protofile") {
			rn.runProtoFilePhase(scratch)
		}
		if phaseOn("options") {
			rn.runOptionsPhase(scratch)
		}
		if phaseOn("cli") {
			rn.runCLIPhase(scratch, items)
		}
	}
	sort.SliceStable(items, func(i, j int) bool {
		rank := map[string]int{"paths": 0, "shadow": 1, "graph": 2}
		return rank[items[i].phase] < rank[items[j].phase]
	})
	r.ParallelFor(len(items), 0, func(i int) {
		it := items[i]
		if !phaseOn(it.phase) {
			return
		}
		w, directFor, ok := rn.prepare(it.spec)
		if !ok {
			return
		}
		sels := selections(w, it.mode, it.nope)
		r.SampleEvery(i, 499, func() any {
			return Case{Phase: it.phase, Spec: it.spec, Selection: &sels[len(sels)-1], Files: w.BucketFiles(), World: infoOf(w)}
		})
		rn.runWorld(it.phase, it.spec, w, sels, directFor)
	})

	// coverage facts and vacuity guards
	keys := make([]string, 0, len(rn.cnt))
	for k := range rn.cnt {
		keys = append(keys, k)
	}
	sort.Strings(keys)
	for _, k := range keys {
		r.Set(k, rn.cnt[k])
	}
	for _, k := range []string{
		"outcome_image", "outcome_error_no_targets", "clause_closure_cases_with_imports_added", "clause_order_pairs",
		"clause_flag_targets", "clause_flag_imports", "clause_descriptor_files", "clause_unused_nonempty",
		"clause_syntax_unspecified", "clause_owner_files", "clause_wkt_builtin", "clause_wkt_workspace_supplied",
		"selection_with_paths", "selection_with_excludes", "selection_module_dir_input",
		"clause_owner_files_with_commit", "dup_cases", "dup_cases_wkt", "fault_builds", "fault_outcome_error_workspace-wkt", "fault_outcome_error_target-file",
		"fault_outcome_error_imported-file", "fault_outcome_error_config-file", "fault_outcome_image_fault_not_reached", "cli_images", "error_cases_compile_error", "error_cases_still_compile", "cli_error_runs",
		"error_cases_import_respelled", "protofile_selections", "protofile_include_adds_package_files", "protofile_package_less_target_with_package_less_sibling",
		"protofile_same_package_in_another_module", "protofile_cli_builds", "cli_images_json", "cli_images_txtpb", "cli_images_yaml",
		"options_decl_depth_0", "options_decl_depth_3", "options_decl_under_non_first_message", "options_text_custom_option_values_expected",
		"bystander_selections_targeting_the_empty_module", "bystander_not_targeted_by_module_dir_input", "bystander_not_targeted_by_path",
		"bystander_not_targeted_by_file_reference", "bystander_cli_builds", "bystander_cli_builds_copy_to_memory", "bystander_worlds_v1", "bystander_worlds_listed_first",
		"cli_error_runs_copy_to_memory", "cli_error_runs_copy_to_memory_relative_dir", "cli_error_runs_error_format_json", "cli_error_runs_error_format_msvs",
		"cli_error_runs_error_format_junit", "cli_error_runs_error_format_github-actions", "cli_images_copy_to_memory",
		"referr_api_builds", "referr_cli_runs", "referr_api_images", "referr_cli_images", "referr_api_reference_targets_do_not_compile",
		"referr_api_builds_with_package_files_over_a_broken_header", "referr_api_diagnostics_in_a_file_outside_the_reference_build",
		"referr_cli_diagnostics_in_a_file_outside_the_reference_build", "referr_api_diagnostics_where_the_path_given_differs_from_the_module_path",
		"referr_cli_diagnostics_where_the_path_given_differs_from_the_module_path", "referr_cli_diagnostics_accepted_relative_dir",
	} {
		if rn.cnt[k] == 0 && !r.Expired() {
			r.Incomplete("vacuous: counter " + k + " is zero")
		}
	}
}
