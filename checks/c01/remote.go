package c01

import (
	"bytes"
	"fmt"
	"time"

	"github.com/bufbuild/buf/private/bufpkg/bufconfig"
	"github.com/bufbuild/buf/private/bufpkg/bufmodule"
	"github.com/bufbuild/buf/private/bufpkg/bufmodule/bufmoduletesting"
	"github.com/bufbuild/buf/private/bufpkg/bufparse"
	"github.com/bufbuild/bufverif/internal/bufx"
	"github.com/google/uuid"
)

// Remote phase (owner name/commit clause): module mb is not part of the workspace but a dependency pinned in buf.lock and
// served by an in-process provider at a fixed commit. Its files can only ever be imports; each must carry the
// dependency's name and commit, the files of the local module carry the local name and no commit.

var remoteCommit = uuid.MustParse("0c010c01-0000-4000-8000-0000000000b1")

const remoteCommitDashless = "0c010c010000400080000000000000b1"

func (rn *runner) runRemotePhase() {
	r := rn.r
	var specs []*Spec
	for n := 2; n <= 3; n++ {
		for gi, k := range graphs(n, []int{kPlain, kPublic}) {
			for mask := 1; mask < (1<<n)-1; mask++ {
				mod := make([]int, n)
				for i := 0; i < n; i++ {
					if mask&(1<<i) != 0 {
						mod[i] = 1
					}
				}
				ok := true
				for i := 0; i < n; i++ {
					for j := 0; j < n; j++ {
						if k[i][j] != kNone && mod[i] == 1 && mod[j] == 0 {
							ok = false // a registry module cannot import from the local workspace
						}
					}
				}
				if !ok {
					continue
				}
				s := &Spec{N: n, Kind: k, Mod: mod, ModDirs: []string{"ma", "mb"}, Shadow: -1}
				decorate(s, []int{1, 6, 11, 12}[(gi+mask)%4])
				specs = append(specs, s)
			}
		}
	}
	r.Set("remote_phase_worlds", len(specs))
	r.ParallelFor(len(specs), 0, func(i int) {
		s := specs[i]
		cnt := counters{}
		defer rn.merge(cnt)
		w, directFor, ok := rn.prepare(s)
		if !ok {
			return
		}
		// split the rendered world: module 0 stays on disk, module 1 goes to the provider
		remoteData := map[string][]byte{}
		files := map[string]string{}
		for _, f := range w.Files {
			if f.Module == 1 {
				remoteData[f.Path] = []byte(f.Text)
			} else {
				files[f.Ext] = f.Text
			}
		}
		omni, err := bufmoduletesting.NewOmniProvider(bufmoduletesting.ModuleData{
			Name: modName("mb"), CommitID: remoteCommit, CreateTime: time.Unix(1700000000, 0), PathToData: remoteData,
		})
		if err != nil {
			r.Incomplete("remote: provider: " + err.Error())
			return
		}
		fn, err := bufparse.ParseFullName(modName("mb"))
		if err != nil {
			r.Incomplete("remote: " + err.Error())
			return
		}
		key, err := bufmodule.ModuleToModuleKey(omni.GetModuleForFullName(fn), bufmodule.DigestTypeB5)
		if err != nil {
			r.Incomplete("remote: key: " + err.Error())
			return
		}
		lf, err := bufconfig.NewBufLockFile(bufconfig.FileVersionV2, []bufmodule.ModuleKey{key}, nil)
		if err != nil {
			r.Incomplete("remote: lock: " + err.Error())
			return
		}
		var lock bytes.Buffer
		if err := bufconfig.WriteBufLockFile(&lock, lf); err != nil {
			r.Incomplete("remote: lock: " + err.Error())
			return
		}
		files["buf.yaml"] = "version: v2\nmodules:\n  - path: ma\n    name: " + modName("ma") + "\ndeps:\n  - " + modName("mb") + "\n"
		files["buf.lock"] = lock.String()

		// the reference view: one local module; the dependency's files exist but are never targeted
		local := &World{ModDirs: []string{"ma"}, ModNames: w.ModNames}
		for _, f := range w.Files {
			if f.Module == 0 {
				local.Files = append(local.Files, f)
			}
		}
		providers := bufx.Providers{Graph: omni, ModuleData: omni, Commit: omni}
		mode := selSingles
		if r.Quick() && s.N > 2 {
			mode = selSub
		}
		for _, sel := range selections(local, mode, false) {
			sel := sel
			r.Eval(1)
			cnt.add("remote_builds", 1)
			mkCase := func() any {
				return Case{Phase: "remote", Spec: s, Selection: &sel, Files: files, Note: "module mb is served by the provider at commit " + remoteCommit.String()}
			}
			targets := refTargets(local, sel)
			ws, err := bufx.Workspace(rn.ctx, bufx.MemBucket(files), sel.SubDir, sel.Paths, sel.Excludes, providers)
			var obs []obsFile
			if err == nil {
				image, berr := bufx.BuildWorkspaceImage(rn.ctx, ws)
				err = berr
				if err == nil {
					obs = observeImage(image)
				}
			}
			if err != nil {
				switch {
				case len(targets) == 0:
					cnt.add("outcome_error_no_targets", 1)
				case selectionMayBeRejected(local, sel):
					cnt.add("outcome_selection_rejected", 1)
				default:
					r.Violate("api/build/unexpected-error/"+normErr(err), fmt.Sprintf("remote %s: reference targets %v compile directly, buf returned: %v", sel, targets, err), mkCase())
				}
				continue
			}
			if len(targets) == 0 {
				r.Violate("api/build/image-without-targets", fmt.Sprintf("remote %s: nothing targeted but an image was built", sel), mkCase())
				continue
			}
			direct := directFor(targets)
			if direct == nil {
				continue
			}
			exp := &expectation{world: w, targets: targets, direct: direct, remote: map[int]string{1: remoteCommit.String()}}
			vs := checkImage("api", exp, obs, cnt)
			report(r, vs, mkCase())
			for _, o := range obs {
				if o.Commit != "" {
					cnt.add("clause_owner_files_with_commit", 1)
					r.Distinct("remote|" + specKey(s) + "|" + sel.String())
					break
				}
			}
		}
	})
}
