package c01

import (
	"context"
	"fmt"
	"io/fs"
	"strings"
	"sync/atomic"
	"syscall"

	"github.com/bufbuild/buf/private/pkg/storage"
	"github.com/bufbuild/bufverif/internal/bufx"
)

// Fault phase ("... unless the workspace supplies them", "each file's descriptor ... is what the compiler produces for
// that source text", "a workspace that does not compile yields no image"): a workspace that supplies its own copies of
// well-known types is built while ONE file of the bucket cannot be read: Stat, Get or the first Read of that path fails
// with an error that is NOT fs.ErrNotExist (EIO, EACCES). Whatever buf does with such an error, it must never turn it
// into a different image: the outcome is either an error or an image that passes the ordinary image oracle for the
// fault-free texts (e.g. because the unreadable file was not needed). In particular an unreadable workspace copy of a
// well-known type must not be replaced silently by the built-in one, and an unreadable file must not be dropped.

// FaultPlan is one injected read fault.
type FaultPlan struct {
	Path string `json:"path"` // bucket path (relative to the workspace root)
	Op   string `json:"op"`   // stat | get | read (every Read of an opened object fails)
	Err  string `json:"err"`  // eio | eacces
	Mode string `json:"mode"` // always | first (only the first matching call / the first opened object fails)
}

func (p FaultPlan) String() string { return fmt.Sprintf("%s(%s)=%s/%s", p.Op, p.Path, p.Err, p.Mode) }

var (
	faultOps   = []string{"stat", "get", "read"}
	faultErrs  = []string{"eio", "eacces"}
	faultModes = []string{"always", "first"}
)

func (p FaultPlan) error(op string) error {
	if p.Err == "eacces" {
		return &fs.PathError{Op: op, Path: p.Path, Err: fs.ErrPermission}
	}
	return &fs.PathError{Op: op, Path: p.Path, Err: syscall.EIO}
}

// faultBucket is a read bucket in which one operation on one path fails.
type faultBucket struct {
	storage.ReadBucket
	plan  FaultPlan
	seen  atomic.Int64 // matching calls
	fired atomic.Int64 // failed calls
}

func (b *faultBucket) hit(op, path string) bool {
	if op != b.plan.Op || path != b.plan.Path {
		return false
	}
	n := b.seen.Add(1)
	if b.plan.Mode == "first" && n > 1 {
		return false
	}
	b.fired.Add(1)
	return true
}

func (b *faultBucket) Stat(ctx context.Context, path string) (storage.ObjectInfo, error) {
	if b.hit("stat", path) {
		return nil, b.plan.error("stat")
	}
	return b.ReadBucket.Stat(ctx, path)
}

func (b *faultBucket) Get(ctx context.Context, path string) (storage.ReadObjectCloser, error) {
	if b.hit("get", path) {
		return nil, b.plan.error("open")
	}
	obj, err := b.ReadBucket.Get(ctx, path)
	if err != nil {
		return nil, err
	}
	if b.plan.Op == "read" && path == b.plan.Path {
		return &faultObject{ReadObjectCloser: obj, b: b}, nil
	}
	return obj, nil
}

// faultObject: an object whose open succeeded but whose content cannot be read: every Read fails (a reader that drops
// the error of one Read, like bufio's Peek inside the compiler's lexer, sees it again on the next one).
type faultObject struct {
	storage.ReadObjectCloser
	b       *faultBucket
	decided bool
	failing bool
}

func (o *faultObject) Read(p []byte) (int, error) {
	if !o.decided {
		o.decided = true
		o.failing = o.b.hit("read", o.b.plan.Path)
	}
	if o.failing {
		return 0, o.b.plan.error("read")
	}
	return o.ReadObjectCloser.Read(p)
}

// faultRole: the structural role of the unreadable file under a selection.
func faultRole(w *World, path string, targets []string, closure []string) string {
	for _, f := range w.Files {
		if f.Ext != path {
			continue
		}
		if isWKTPath(f.Path) {
			return "workspace-wkt"
		}
		for _, t := range targets {
			if t == f.Path {
				return "target-file"
			}
		}
		for _, c := range closure {
			if c == f.Path {
				return "imported-file"
			}
		}
		return "unneeded-file"
	}
	return "config-file"
}

// judgeFault builds one (world, selection) with one injected fault and returns the violation, if any.
// Violations the fault-free build of the same selection shows too (control) are not the fault's doing and are skipped.
func judgeFault(ctx context.Context, w *World, files map[string]string, sel Selection, plan FaultPlan, targets []string, direct *Direct, control map[string]bool) (v *violation, fired bool, built bool) {
	fb := &faultBucket{ReadBucket: bufx.MemBucket(files), plan: plan}
	ws, err := bufx.Workspace(ctx, fb, sel.SubDir, sel.Paths, sel.Excludes, bufx.NopProviders)
	var obs []obsFile
	if err == nil {
		image, berr := bufx.BuildWorkspaceImage(ctx, ws)
		err = berr
		if err == nil {
			obs = observeImage(image)
		}
	}
	fired = fb.fired.Load() > 0
	if err != nil {
		return nil, fired, false
	}
	if !fired {
		return nil, false, true // the build never touched the faulty operation: it is the control build again
	}
	vs := checkImage("api", &expectation{world: w, targets: targets, direct: direct}, obs, counters{})
	for _, x := range vs {
		if strings.Contains(x.sig, "/harness/") || control[x.sig] {
			continue
		}
		role := faultRole(w, plan.Path, targets, direct.closure(targets))
		return &violation{
			sig: "api/fault/" + role + "/" + strings.TrimPrefix(x.sig, "api/"),
			what: fmt.Sprintf("%s with read fault %s (%s; the fault was hit): an image was built that is not the compilation of the workspace's texts: %s",
				sel, plan, role, x.what),
		}, fired, true
	}
	return nil, fired, true
}

func (rn *runner) runFaultPhase() {
	r := rn.r
	quick := r.Quick()
	// Worlds: the shadow worlds (DAGs on <=2 files x assignment x decoration x which module supplies the WKT copies); the
	// shadowing module supplies any.proto AND timestamp.proto here, so that every WKT import of the decorations except
	// descriptor.proto resolves to a workspace copy.
	var specs []*Spec
	for n := 1; n <= 2; n++ {
		mods, dirs := assignments(n)
		for _, k := range graphs(n, []int{kPlain, kPublic}) {
			for a := range mods {
				for di, d := range []int{4, 9, 2, 15} {
					for sh := range dirs[a] {
						if quick && n == 2 && (di+a+sh)%2 == 1 {
							continue // quick: half of the two-file worlds (every graph, assignment and decoration still occurs)
						}
						s := &Spec{N: n, Kind: k, Mod: mods[a], ModDirs: dirs[a], Shadow: sh, ShadowWkts: shadowAny | shadowTimestamp}
						decorate(s, d)
						specs = append(specs, s)
					}
				}
			}
		}
	}
	r.Set("fault_phase_worlds", len(specs))
	r.ParallelFor(len(specs), 0, func(i int) {
		s := specs[i]
		w, directFor, ok := rn.prepare(s)
		if !ok {
			return
		}
		cnt := counters{}
		defer rn.merge(cnt)
		files := w.BucketFiles()
		// control: the same selections without a fault go through the ordinary oracle (signatures api/...)
		// selections: every input directory; thorough adds, for the input ".", every single --path / --exclude-path
		sels := subDirSelections(w)
		nSub := len(sels)
		if !quick {
			for _, x := range pathSelections(".", pathCandidates(w), 1, 1, true) {
				if len(x.Paths)+len(x.Excludes) == 1 {
					sels = append(sels, x)
				}
			}
		}
		control := rn.runWorld("fault", s, w, sels, directFor)
		paths := bufx.SortedKeys(files)
		caseNo := 0
		for si, sel := range sels {
			sel := sel
			reduced := quick || si >= nSub // persistent faults only, the two error values alternate
			targets := refTargets(w, sel)
			if len(targets) == 0 || selectionMayBeRejected(w, sel) {
				continue
			}
			direct := directFor(targets)
			if direct == nil {
				continue
			}
			for _, p := range paths {
				for _, op := range faultOps {
					caseNo++
					for ei, e := range faultErrs {
						for mi, mode := range faultModes {
							if reduced && (mi > 0 || ei != caseNo%len(faultErrs)) {
								continue
							}
							plan := FaultPlan{Path: p, Op: op, Err: e, Mode: mode}
							r.Eval(1)
							cnt.add("fault_builds", 1)
							v, fired, built := judgeFault(rn.ctx, w, files, sel, plan, targets, direct, control[sel.String()])
							role := faultRole(w, p, targets, direct.closure(targets))
							switch {
							case !built && fired:
								cnt.add("fault_outcome_error", 1)
								cnt.add("fault_outcome_error_"+role, 1)
							case !built:
								cnt.add("fault_outcome_error_fault_not_reached", 1)
							case fired:
								cnt.add("fault_outcome_image_although_fault_hit", 1)
								cnt.add("fault_outcome_image_although_fault_hit_"+role+"_"+op, 1)
							default:
								cnt.add("fault_outcome_image_fault_not_reached", 1)
							}
							if v != nil {
								r.Violate(v.sig, v.what, Case{Phase: "fault", Spec: s, Selection: &sel, Files: files, World: infoOf(w), Fault: &plan})
							}
							if fired {
								r.Distinct("fault|" + specKey(s) + "|" + sel.String() + "|" + plan.String())
							}
						}
					}
				}
			}
		}
	})
}
