package c01

import (
	"errors"
	"fmt"
	"os"
	"path/filepath"
	"regexp"
	"sort"
	"strconv"
	"strings"

	"github.com/bufbuild/buf/private/bufpkg/bufanalysis"
	"github.com/bufbuild/bufverif/internal/bufx"
)

// ---------------------------------------------------------------------------------------------
// Error clause: base workspaces x every token position x {delete, duplicate}.
// ---------------------------------------------------------------------------------------------

type base struct {
	name  string
	world *World
	sel   Selection
}

const baseRootProto = `syntax = "proto3";

package acme.root.v1;

import "google/protobuf/timestamp.proto";

option java_package = "com.acme.root.v1";

// Kind of a thing.
enum Kind {
  KIND_UNSPECIFIED = 0;
  KIND_A = 1;
}

// A thing.
message Thing {
  message Inner {
    string name = 1;
  }
  reserved 9, 12 to 14;
  reserved "old";
  Kind kind = 1;
  repeated Inner inner = 2;
  map<string, int64> counts = 3;
  oneof choice {
    string s = 4;
    bytes b = 5 [deprecated = true];
  }
  google.protobuf.Timestamp at = 6;
}

service ThingService {
  // Gets a thing.
  rpc GetThing(Thing) returns (stream Thing) {
    option idempotency_level = NO_SIDE_EFFECTS;
  }
}
`

const baseTwoF0 = `syntax = "proto3";

package pkg.f0;

import "x/y/f1.proto";
import "google/protobuf/any.proto";

message M0 {
  pkg.f1.M1 r1 = 1;
  pkg.f2.M2 t2 = 2; // through the public import of f1
  google.protobuf.Any w = 3;
}
`

const baseTwoF1 = `syntax = "proto2";

package pkg.f1;

import public "z/f2.proto";

message M1 {
  optional pkg.f2.M2 r2 = 1;
  optional int32 n = 2 [default = 7];
}
`

const baseTwoF2 = `package pkg.f2;

message M2 {
  optional string id = 1;
  enum E { E_ZERO = 0; }
  optional E e = 2;
}
`

const baseProto2Ext = `syntax = "proto2";

package acme.ext;

import "google/protobuf/descriptor.proto";

message Payload {
  optional int32 a = 1;
  optional string b = 2;
}

extend google.protobuf.FieldOptions {
  optional Payload note = 50001;
}

message Host {
  extensions 100 to 199;
  required string id = 1 [(note) = { a: 1 b: "x" }];
  optional group Legacy = 2 {
    optional bool flag = 3 [default = true];
  }
}

extend Host {
  optional double weight = 100 [default = 1.5];
}
`

const baseEditionsA = `edition = "2023";

package acme.ed;

import "acme/ed/b.proto";

option features.field_presence = IMPLICIT;

message A {
  int32 x = 1 [features.field_presence = EXPLICIT];
  B b = 2 [features.message_encoding = DELIMITED];
  repeated int32 r = 3 [features.repeated_field_encoding = EXPANDED];
}
`

const baseEditionsB = `edition = "2023";

package acme.ed;

message B {
  string s = 1;
  enum Closed {
    option features.enum_type = CLOSED;
    CLOSED_ONE = 1;
  }
  Closed c = 2;
}
`

const baseV1Svc = `syntax = "proto3";

package acme.v1;

import "dep/types.proto";

message Req { dep.Id id = 1; }
message Resp { repeated dep.Id ids = 1; }

service Svc {
  rpc Do(Req) returns (Resp);
}
`

const baseV1Types = `syntax = "proto3";

package dep;

message Id {
  string value = 1;
}
`

func bases() []base {
	twoYAML := "version: v2\nmodules:\n  - path: ma\n    name: buf.build/acme/ma\n  - path: mb\n    name: buf.build/acme/mb\n"
	two := func() *World {
		return &World{ModDirs: []string{"ma", "mb"}, ModNames: []string{"buf.build/acme/ma", "buf.build/acme/mb"}, BufYAML: twoYAML, Files: []File{
			{Path: "x/f0.proto", Module: 0, Ext: "ma/x/f0.proto", Text: baseTwoF0},
			{Path: "x/y/f1.proto", Module: 1, Ext: "mb/x/y/f1.proto", Text: baseTwoF1},
			{Path: "z/f2.proto", Module: 0, Ext: "ma/z/f2.proto", Text: baseTwoF2},
		}}
	}
	return []base{
		{name: "single-root-no-config", sel: Selection{SubDir: "."}, world: &World{ModDirs: []string{"."}, ModNames: []string{""}, Files: []File{
			{Path: "acme/root/v1/thing.proto", Module: 0, Ext: "acme/root/v1/thing.proto", Text: baseRootProto},
		}}},
		{name: "two-modules-v2", sel: Selection{SubDir: "."}, world: two()},
		{name: "proto2-extensions-module-dir", sel: Selection{SubDir: "."}, world: &World{ModDirs: []string{"proto"}, ModNames: []string{"buf.build/acme/ext"},
			BufYAML: "version: v2\nmodules:\n  - path: proto\n    name: buf.build/acme/ext\n", Files: []File{
				{Path: "acme/ext/ext.proto", Module: 0, Ext: "proto/acme/ext/ext.proto", Text: baseProto2Ext},
			}}},
		{name: "editions-2023", sel: Selection{SubDir: "."}, world: &World{ModDirs: []string{"."}, ModNames: []string{"buf.build/acme/ed"},
			BufYAML: "version: v2\nname: buf.build/acme/ed\n", Files: []File{
				{Path: "acme/ed/a.proto", Module: 0, Ext: "acme/ed/a.proto", Text: baseEditionsA},
				{Path: "acme/ed/b.proto", Module: 0, Ext: "acme/ed/b.proto", Text: baseEditionsB},
			}}},
		{name: "v1-workspace", sel: Selection{SubDir: "."}, world: &World{ModDirs: []string{"api", "vendor"}, ModNames: []string{"buf.build/acme/api", ""},
			Extra: map[string]string{
				"buf.work.yaml":   "version: v1\ndirectories:\n  - api\n  - vendor\n",
				"api/buf.yaml":    "version: v1\nname: buf.build/acme/api\n",
				"vendor/buf.yaml": "version: v1\n",
			}, Files: []File{
				{Path: "acme/v1/svc.proto", Module: 0, Ext: "api/acme/v1/svc.proto", Text: baseV1Svc},
				{Path: "dep/types.proto", Module: 1, Ext: "vendor/dep/types.proto", Text: baseV1Types},
			}}},
		// the input is module mb only: f2 (module ma) is a non-targeted import, f0 is not part of the build at all
		{name: "two-modules-v2-input-mb", sel: Selection{SubDir: "mb"}, world: two()},
	}
}

type posKey struct {
	Path string
	Line int
	Col  int
}

func (p posKey) String() string { return fmt.Sprintf("%s:%d:%d", p.Path, p.Line, p.Col) }

func sortedPos(m map[posKey]string) []string {
	var out []string
	for k := range m {
		out = append(out, k.String())
	}
	sort.Strings(out)
	return out
}

// apiAnnotations extracts (external path, line, column) -> message from a FileAnnotationSet error.
func apiAnnotations(err error) (map[posKey]string, bool) {
	var set bufanalysis.FileAnnotationSet
	if !errors.As(err, &set) {
		return nil, false
	}
	out := map[posKey]string{}
	for _, a := range set.FileAnnotations() {
		k := posKey{Line: a.StartLine(), Col: a.StartColumn()}
		if fi := a.FileInfo(); fi != nil {
			k.Path = fi.ExternalPath()
		}
		out[k] = a.Message()
	}
	return out, true
}

var reCLILine = regexp.MustCompile(`^(.+?):(\d+):(\d+):(.*)$`)

func cliAnnotations(stderr string) (map[posKey]string, []string) {
	out := map[posKey]string{}
	var other []string
	for _, line := range strings.Split(strings.TrimRight(stderr, "\n"), "\n") {
		if line == "" {
			continue
		}
		m := reCLILine.FindStringSubmatch(line)
		if m == nil {
			other = append(other, line)
			continue
		}
		l, _ := strconv.Atoi(m[2])
		c, _ := strconv.Atoi(m[3])
		out[posKey{Path: m[1], Line: l, Col: c}] = m[4]
	}
	return out, other
}

// expectedPositions maps the bare compiler's errors to the paths the user would see under extRoot.
func expectedPositions(w *World, d *Direct, extRoot string) (map[posKey]string, bool) {
	owner := map[string]File{}
	for _, f := range w.Files {
		owner[f.Path] = f
	}
	out := map[posKey]string{}
	for _, e := range d.Errors {
		f, ok := owner[e.File]
		if !ok || e.Line <= 0 {
			return nil, false
		}
		out[posKey{Path: joinDir(extRoot, f.Ext), Line: e.Line, Col: e.Col}] = e.Msg
	}
	return out, len(out) > 0
}

func samePositions(a, b map[posKey]string) bool {
	if len(a) != len(b) {
		return false
	}
	for k := range a {
		if _, ok := b[k]; !ok {
			return false
		}
	}
	return true
}

func writeWorld(dir string, files map[string]string) error {
	for p, text := range files {
		full := filepath.Join(dir, filepath.FromSlash(p))
		if err := os.MkdirAll(filepath.Dir(full), 0o755); err != nil {
			return err
		}
		if err := os.WriteFile(full, []byte(text), 0o644); err != nil {
			return err
		}
	}
	return nil
}

type errItem struct {
	b    base
	file int    // index into world.Files, -1 = unmutated base
	tok  int    // token index
	op   string // del | dup | respell/<spelling> (the token is an import path literal, alt replaces it)
	alt  string // respell: the new content of the string literal
}

// importSpellings: other ways to write the import path p that do not name a file for the compiler (an import path is
// compared literally: protoc and protocompile both reject these) but that a path-normalising storage layer would map
// back to the existing file p, plus two that name nothing at all.
func importSpellings(p string) [][2]string {
	out := [][2]string{
		{"dot-slash", "./" + p},
		{"trailing-slash", p + "/"},
		{"trailing-dot", p + "/."},
		{"leading-slash", "/" + p},
		{"missing-dir", "nope/" + p},
	}
	if i := strings.Index(p, "/"); i >= 0 {
		out = append(out,
			[2]string{"double-slash", p[:i] + "//" + p[i+1:]},
			[2]string{"dot-segment", p[:i] + "/./" + p[i+1:]},
			[2]string{"dotdot-round-trip", p[:i] + "/../" + p},
		)
		if j := strings.LastIndex(p, "/"); j != i {
			out = append(out, [2]string{"inner-dotdot-round-trip", p[:j] + "/../" + p[i+1:]})
		}
	}
	return out
}

// importLiteralTokens returns the indexes of the string literal tokens of import statements.
func importLiteralTokens(text string, toks []token) []int {
	var out []int
	word := func(i int) string { return text[toks[i].Start:toks[i].End] }
	for i := range toks {
		if c := text[toks[i].Start]; c != '"' && c != '\'' {
			continue
		}
		j := i - 1
		if j >= 0 && (word(j) == "public" || word(j) == "weak") {
			j--
		}
		if j >= 0 && word(j) == "import" && (j == 0 || word(j-1) == ";" || word(j-1) == "}") {
			out = append(out, i)
		}
	}
	return out
}

func (rn *runner) runErrorPhase(scratch string) {
	r := rn.r
	var items []errItem
	tokenCount, respellCount := 0, 0
	for _, b := range bases() {
		items = append(items, errItem{b: b, file: -1})
		for fi, f := range b.world.Files {
			toks := lex(f.Text)
			tokenCount += len(toks)
			for ti := range toks {
				for _, op := range []string{"del", "dup"} {
					items = append(items, errItem{b: b, file: fi, tok: ti, op: op})
				}
			}
			for _, ti := range importLiteralTokens(f.Text, toks) {
				lit := f.Text[toks[ti].Start+1 : toks[ti].End-1]
				for _, sp := range importSpellings(lit) {
					items = append(items, errItem{b: b, file: fi, tok: ti, op: "respell/" + sp[0], alt: sp[1]})
					respellCount++
				}
			}
		}
	}
	r.Set("error_phase_bases", len(bases()))
	r.Set("error_phase_token_positions", tokenCount)
	r.Set("error_phase_import_respellings", respellCount)
	r.Set("error_phase_cases", len(items))
	cwd, _ := os.Getwd()

	r.ParallelFor(len(items), 0, func(i int) {
		it := items[i]
		cnt := counters{}
		defer rn.merge(cnt)
		// build the mutated world
		w := &World{ModDirs: it.b.world.ModDirs, ModNames: it.b.world.ModNames, BufYAML: it.b.world.BufYAML, Extra: it.b.world.Extra}
		w.Files = append([]File(nil), it.b.world.Files...)
		note := it.b.name + " unmutated"
		sigRole := "base"
		if it.file >= 0 {
			f := w.Files[it.file]
			t := lex(f.Text)[it.tok]
			note = fmt.Sprintf("%s: %s token #%d %q of %s", it.b.name, it.op, it.tok, f.Text[t.Start:t.End], f.Ext)
			if it.alt != "" {
				note = fmt.Sprintf("%s: %s: import %s of %s rewritten to %q", it.b.name, it.op, f.Text[t.Start:t.End], f.Ext, it.alt)
				f.Text = f.Text[:t.Start] + "\"" + it.alt + "\"" + f.Text[t.End:]
			} else {
				f.Text = mutate(f.Text, t, it.op)
			}
			w.Files[it.file] = f
			sigRole = it.op
		}
		_ = sigRole
		files := w.BucketFiles()
		sel := it.b.sel
		mkCase := func() any { return Case{Phase: "errors", Selection: &sel, Files: files, World: infoOf(w), Note: note} }
		targets := refTargets(w, sel)
		direct := directCompile(w.Texts(), targets)
		r.Eval(1)

		// API observation
		ws, err := bufx.Workspace(rn.ctx, bufx.MemBucket(files), sel.SubDir, sel.Paths, sel.Excludes, bufx.NopProviders)
		var obs []obsFile
		if err == nil {
			image, berr := bufx.BuildWorkspaceImage(rn.ctx, ws)
			err = berr
			if err == nil {
				obs = observeImage(image)
			}
		}
		// CLI observation. Run A, default configuration: absolute directory for even cases, directory relative to the
		// process cwd for odd ones. Run B, configuration dimension: one setting changed (files copied to memory, or one of
		// the four other --error-format values) x directory form, the 10 combinations rotating over the cases (i/2: both
		// mutation operators of a token meet the same combination). Thorough: both forms in the default configuration and
		// the whole product of the 18 others.
		type cliRun struct {
			userDir string
			cfg     cliConfig
			res     bufx.CLIResult
		}
		var cliRuns []cliRun
		dir := filepath.Join(scratch, fmt.Sprintf("e%d", i))
		if werr := writeWorld(dir, files); werr != nil {
			r.Incomplete("scratch: " + werr.Error())
		} else {
			forms := []string{dir}
			if rel, rerr := filepath.Rel(cwd, dir); rerr == nil && cwd != "" {
				forms = append(forms, rel)
			}
			var plans []cliPlan
			if r.Quick() {
				others := otherCLIConfigs(false)
				plans = append(plans, cliPlan{form: i % 2}, others[(i/2)%len(others)])
			} else {
				plans = append(plans, cliPlan{form: 0}, cliPlan{form: 1})
				plans = append(plans, otherCLIConfigs(true)...)
			}
			for _, pl := range plans {
				if pl.form >= len(forms) {
					continue
				}
				form := forms[pl.form]
				input := filepath.ToSlash(filepath.Join(form, filepath.FromSlash(sel.SubDir)))
				args := append([]string{"build", input, "-o", "-#format=binpb"}, pl.cfg.args()...)
				cliRuns = append(cliRuns, cliRun{userDir: filepath.ToSlash(form), cfg: pl.cfg, res: bufx.RunCLI(rn.ctx, pl.cfg.env(), "", args...)})
				cnt.add("cli_error_phase_runs", 1)
			}
			os.RemoveAll(dir)
		}
		mkCaseRun := func(cr cliRun) any {
			c := mkCase().(Case)
			if cr.cfg != (cliConfig{}) {
				cfg := cr.cfg
				c.Config = &cfg
			}
			return c
		}
		// The runs in the default configuration come first and are the control: a kind of violation (the signature without
		// observation point, clause name and directory form) that they show is not reported again under the name of a
		// configuration - one defect, one signature; a configuration is only blamed for what it changes.
		controlKinds := map[string]bool{}
		emitFor := func(cr cliRun, prefix string) func(kind, what string) {
			return func(kind, what string) {
				bare := strings.TrimPrefix(strings.TrimPrefix(kind, "abs/"), "rel/")
				if cr.cfg == (cliConfig{}) {
					controlKinds[bare] = true
				} else if controlKinds[bare] {
					cnt.add("cli_config_violation_also_in_default_configuration", 1)
					return
				}
				report(r, []violation{{prefix + "/" + kind, what}}, mkCaseRun(cr))
			}
		}

		switch {
		case direct.OK:
			cnt.add("error_cases_still_compile", 1)
			exp := &expectation{world: w, targets: targets, direct: direct}
			if err != nil {
				r.Violate("api/build/unexpected-error/"+normErr(err), fmt.Sprintf("%s: the texts compile directly, buf returned: %v", note, err), mkCase())
			} else {
				report(r, checkImage("api", exp, obs, cnt), mkCase())
			}
			for _, cr := range cliRuns {
				pt := cr.cfg.point("binpb")
				emit := emitFor(cr, pt)
				if cr.res.ExitCode != 0 {
					emit("build/unexpected-exit", fmt.Sprintf("%s: the texts compile directly, `buf build %s` (%s) exit %d stderr %q", note, cr.userDir, cr.cfg, cr.res.ExitCode, cr.res.Stderr))
					continue
				}
				wire, derr := observeWire([]byte(cr.res.Stdout))
				if derr != nil {
					emit("build/undecodable-output", fmt.Sprintf("%s: %v", note, derr))
					continue
				}
				cnt.add("cli_images", 1)
				if cr.cfg.Mem {
					cnt.add("cli_images_copy_to_memory", 1)
				}
				for _, v := range checkImage(pt, exp, wire, cnt) {
					emit(strings.TrimPrefix(v.sig, pt+"/"), v.what)
				}
			}
		case direct.OtherErr != "":
			cnt.add("error_cases_unpositioned", 1)
		default:
			want, ok := expectedPositions(w, direct, "")
			if !ok {
				cnt.add("error_cases_unpositioned", 1)
				return
			}
			cnt.add("error_cases_compile_error", 1)
			if it.alt != "" {
				cnt.add("error_cases_import_respelled", 1)
			}
			r.SampleEvery(i, 211, mkCase)
			r.Distinct("errors|" + note)
			if len(want) > 1 {
				cnt.add("error_cases_multiple_positions", 1)
			}
			for k := range want {
				for _, f := range w.Files {
					if f.Ext == k.Path && f.Ext != f.Path {
						cnt.add("error_cases_external_path_differs_from_import_path", 1)
					}
				}
				if it.file >= 0 && k.Path != w.Files[it.file].Ext {
					cnt.add("error_cases_reported_in_other_file", 1)
				}
			}
			// API
			if err == nil {
				r.Violate("api/error/image-despite-compile-error", fmt.Sprintf("%s: the bare compiler fails at %v but buf built an image of %d files", note, sortedPos(want), len(obs)), mkCase())
			} else if got, isSet := apiAnnotations(err); !isSet {
				r.Violate("api/error/not-annotations/"+normErr(err), fmt.Sprintf("%s: the bare compiler fails at %v, buf returned a non-annotation error: %v", note, sortedPos(want), err), mkCase())
			} else if !samePositions(got, want) {
				r.Violate("api/error/"+classifyPosDiff(got, want), fmt.Sprintf("%s: annotations at %v, the bare compiler reports %v", note, sortedPos(got), sortedPos(want)), mkCase())
			}
			// CLI
			for _, cr := range cliRuns {
				cnt.add("cli_error_runs", 1)
				wantCLI, _ := expectedPositions(w, direct, cr.userDir)
				got, other := parseDiagnostics(cr.cfg.ErrFormat, cr.res.Stderr)
				form := "abs"
				if !filepath.IsAbs(cr.userDir) {
					form = "rel"
					cnt.add("cli_error_runs_relative_dir", 1)
				}
				if cr.cfg.Mem {
					cnt.add("cli_error_runs_copy_to_memory", 1)
					if form == "rel" {
						cnt.add("cli_error_runs_copy_to_memory_relative_dir", 1)
					}
				}
				if cr.cfg.ErrFormat != "" {
					cnt.add("cli_error_runs_error_format_"+cr.cfg.ErrFormat, 1)
				}
				// "cli/error" in the default configuration; "cli-mem/..." with the files copied to memory, ".../error-<format>/..."
				// with another diagnostics format
				emit := emitFor(cr, cr.cfg.point("binpb")+"/"+cr.cfg.errClause())
				switch {
				case cr.res.ExitCode == 0:
					emit("exit-0-despite-compile-error", fmt.Sprintf("%s: `buf build` (%s) exit 0", note, cr.cfg))
				case len(cr.res.Stdout) != 0:
					emit("output-despite-compile-error", fmt.Sprintf("%s: `buf build` (%s) wrote %d bytes of image and exit %d", note, cr.cfg, len(cr.res.Stdout), cr.res.ExitCode))
				case cr.res.ExitCode != 100 || len(other) > 0:
					emit("not-annotations", fmt.Sprintf("%s: `buf build %s` (%s) exit %d stderr %q; expected exit 100 and one diagnostic for each of %v", note, cr.userDir, cr.cfg, cr.res.ExitCode, cr.res.Stderr, sortedPos(wantCLI)))
				case !samePositions(got, wantCLI):
					emit(form+"/"+classifyPosDiff(got, wantCLI), fmt.Sprintf("%s: `buf build %s` (%s) printed %v, expected %v", note, cr.userDir, cr.cfg, sortedPos(got), sortedPos(wantCLI)))
				}
			}
		}
	})
}

// classifyPosDiff names the kind of disagreement between two position sets (for a stable signature).
func classifyPosDiff(got, want map[posKey]string) string {
	strip := func(m map[posKey]string) map[string]bool {
		o := map[string]bool{}
		for k := range m {
			o[fmt.Sprintf("%d:%d", k.Line, k.Col)] = true
		}
		return o
	}
	g, w := strip(got), strip(want)
	same := len(g) == len(w)
	for k := range g {
		if !w[k] {
			same = false
		}
	}
	if same {
		return "path-differs"
	}
	paths := func(m map[posKey]string) map[string]bool {
		o := map[string]bool{}
		for k := range m {
			o[k.Path] = true
		}
		return o
	}
	gp, wp := paths(got), paths(want)
	samePaths := len(gp) == len(wp)
	for k := range gp {
		if !wp[k] {
			samePaths = false
		}
	}
	switch {
	case samePaths && len(got) < len(want):
		return "position-missing"
	case samePaths && len(got) > len(want):
		return "position-extra"
	case samePaths:
		return "position-differs"
	}
	return "path-and-position-differ"
}
