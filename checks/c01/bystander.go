package c01

import (
	"fmt"
	"os"
	"path/filepath"
)

// Bystander phase (element shape dimension: a module of the workspace that has nothing to compile). The workspace has one
// more module, directory mc, that contains no .proto file (three content variants: a README only; nested non-proto files;
// files whose names look like proto files). buf refuses to build such a module ("had no .proto files"), so a selection
// that targets it as a whole (input = the workspace root or mc, no --path) may fail; every other choice of targets - a
// sibling module directory as the input, --path into a sibling module, a .proto file reference - leaves it a
// non-targeted module that contributes nothing, and the image must be exactly what it is without the bystander.
//
// Worlds: every DAG on <=2 files (plain/public) x every assignment to <=2 modules x position of the bystander in the
// workspace configuration {last, first} x configuration version {v2 buf.yaml, v1 buf.work.yaml + per-directory buf.yaml};
// the content variant and the decoration rotate. Selections: every input directory (root, module directories, mc), one
// --path or one --exclude-path over {every file, every directory, the non-proto files of mc and their directories} and
// every .proto file reference; API and CLI on every world (quick: path flags with the workspace root as the input only,
// the selections with an exclude through the API only), plus the input directories through the CLI with the files
// copied to memory.

func (rn *runner) bystanderSpecs() []*Spec {
	var specs []*Spec
	i := 0
	for n := 1; n <= 2; n++ {
		mods, dirs := assignments(n)
		for _, k := range graphs(n, []int{kPlain, kPublic}) {
			for a := range mods {
				for _, first := range []bool{false, true} {
					for _, v1 := range []bool{false, true} {
						if v1 && dirs[a][0] == "." {
							continue // a v1 workspace cannot list its own root as a directory
						}
						s := &Spec{N: n, Kind: k, Mod: mods[a], ModDirs: dirs[a], Shadow: -1,
							Bystander: 1 + i%3, BystanderFirst: first, V1: v1}
						decorate(s, protoFileDecors[i%len(protoFileDecors)])
						specs = append(specs, s)
						i++
					}
				}
			}
		}
	}
	return specs
}

func bystanderSelections(w *World, quick bool) []Selection {
	var sels []Selection
	if quick {
		sels = subDirSelections(w)
		for _, s := range pathSelections(".", pathCandidates(w), 1, 1, true) {
			if len(s.Paths)+len(s.Excludes) == 1 {
				sels = append(sels, s)
			}
		}
	} else {
		sels = selections(w, selPairs, false)
	}
	return append(sels, protoFileSelections(w)...)
}

func (rn *runner) runBystanderPhase(scratch string) {
	r := rn.r
	specs := rn.bystanderSpecs()
	r.Set("bystander_phase_worlds", len(specs))
	r.ParallelFor(len(specs), 0, func(i int) {
		s := specs[i]
		w, directFor, ok := rn.prepare(s)
		if !ok {
			return
		}
		cnt := counters{}
		defer rn.merge(cnt)
		sels := bystanderSelections(w, r.Quick())
		for _, sel := range sels {
			targets := refTargets(w, sel)
			switch {
			case targetsEmptyModule(w, sel):
				cnt.add("bystander_selections_targeting_the_empty_module", 1)
			case len(targets) > 0 && !selectionMayBeRejected(w, sel):
				// the clause this phase is about: the module without .proto files is not targeted, the build must succeed
				cnt.add("bystander_selections_empty_module_not_targeted", 1)
				switch {
				case sel.ProtoFile != "":
					cnt.add("bystander_not_targeted_by_file_reference", 1)
				case len(sel.Paths) > 0:
					cnt.add("bystander_not_targeted_by_path", 1)
				default:
					cnt.add("bystander_not_targeted_by_module_dir_input", 1)
				}
			}
		}
		cnt.add("bystander_worlds_"+bystanderNames[s.Bystander], 1)
		if s.V1 {
			cnt.add("bystander_worlds_v1", 1)
		}
		if s.BystanderFirst {
			cnt.add("bystander_worlds_listed_first", 1)
		}
		r.SampleEvery(i, 37, func() any {
			return Case{Phase: "bystander", Spec: s, Selection: &sels[0], Files: w.BucketFiles(), World: infoOf(w)}
		})
		rn.runWorld("bystander", s, w, sels, directFor)
		files := w.BucketFiles()
		dir := filepath.Join(scratch, fmt.Sprintf("b%d", i))
		if err := writeWorld(dir, files); err != nil {
			r.Incomplete("scratch: " + err.Error())
			return
		}
		defer os.RemoveAll(dir)
		control := map[string]map[string]bool{}
		for _, sel := range sels {
			if r.Quick() && len(sel.Excludes) > 0 {
				// quick: an exclude alone, with the workspace root as the input, always targets the module without .proto files
				// (either outcome is accepted): API only
				continue
			}
			cnt.add("bystander_cli_builds", 1)
			control[sel.String()] = rn.cliOne("bystander", s, specKey(s), w, files, dir, sel, "binpb", directFor, cnt)
		}
		// configuration dimension: the input directories once more with the files copied to memory (the only place where a
		// v1 workspace, whose module configuration files are read from the input bucket, meets that setting)
		for _, sel := range subDirSelections(w) {
			cnt.add("bystander_cli_builds_copy_to_memory", 1)
			rn.cliOneCfg("bystander", s, specKey(s), w, files, dir, sel, "binpb", cliConfig{Mem: true}, control[sel.String()], directFor, cnt)
		}
	})
}
