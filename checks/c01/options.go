package c01

import (
	"fmt"
	"os"
	"path/filepath"
	"strings"

	"google.golang.org/protobuf/proto"
	"google.golang.org/protobuf/reflect/protoreflect"
	"google.golang.org/protobuf/types/descriptorpb"
)

// Options phase (element shape: where a custom option is DECLARED; observation: every output encoding).
//
// "Each file's descriptor (including options) is what the compiler produces": a custom option is an extension of one of
// the descriptor option messages, and the extension may be declared at file level or inside any message at any depth.
// The binary encoding carries option values opaquely; the text encodings (`-o -#format=json|txtpb|yaml`) have to look
// every extension up again in the built image (by extendee + number), so where the extension lives matters there.
//
// The declaring file opts/def.proto has a complete binary tree of messages T{0,1} > U{0,1} > V{0,1}; a placement is a path
// into that tree (empty = file level; 15 placements; index 0 at a level = the first message of its parent, 1 = not the
// first). Dimensions: placement x extendee (FileOptions, MessageOptions, FieldOptions) x value (string, message literal,
// Any literal that names a message of the workspace) x where the option is used (declaring file itself, an importer in
// the same module, an importer in another module) x syntax of the declaring file x output encoding (API image, CLI
// binpb/json/txtpb/yaml). "Combined" worlds declare all 15 placements at once, three different extendees sharing each
// extension number.

type optDecl struct {
	place    []int // message index path, nil = file level
	extendee int   // oFile, oMessage, oField
	value    int   // vString, vMessage, vAny
	number   int
	name     string
}

const (
	oFile = iota
	oMessage
	oField
)

const (
	vString = iota
	vMessage
	vAny
)

var (
	optExtendeeNames = []string{"FileOptions", "MessageOptions", "FieldOptions"}
	optValueNames    = []string{"string", "message-literal", "any-literal"}
	optUserNames     = []string{"declaring-file", "importer-same-module", "importer-other-module"}
	optLevelNames    = []string{"T", "U", "V"}
)

// optPlacements: every path of length 0..3 over {0,1}, shortest first.
func optPlacements() [][]int {
	out := [][]int{nil}
	for depth := 1; depth <= 3; depth++ {
		for m := 0; m < 1<<depth; m++ {
			p := make([]int, depth)
			for i := range p {
				p[i] = (m >> (depth - 1 - i)) & 1
			}
			out = append(out, p)
		}
	}
	return out
}

func placeName(p []int) string {
	if len(p) == 0 {
		return "file-level"
	}
	var parts []string
	for i, x := range p {
		parts = append(parts, fmt.Sprintf("%s%d", optLevelNames[i], x))
	}
	return strings.Join(parts, ".")
}

func (d optDecl) fullName() string {
	n := "pkg.def."
	if len(d.place) > 0 {
		n += placeName(d.place) + "."
	}
	return n + d.name
}

func samePlace(a, b []int) bool {
	if len(a) != len(b) {
		return false
	}
	for i := range a {
		if a[i] != b[i] {
			return false
		}
	}
	return true
}

type optWorld struct {
	key    string
	decls  []optDecl
	user   int // index into optUserNames
	syntax int // sProto3, sProto2, sEditions
	sel    Selection
}

// render produces the world: opts/def.proto (+ use/user.proto).
func (ow *optWorld) render() *World {
	lbl := ""
	head := "syntax = \"proto3\";\n"
	switch ow.syntax {
	case sProto2:
		head, lbl = "syntax = \"proto2\";\n", "optional "
	case sEditions:
		head = "edition = \"2023\";\n"
	}
	needAny := false
	for _, d := range ow.decls {
		if d.value == vAny {
			needAny = true
		}
	}
	extends := func(b *strings.Builder, indent string, place []int) {
		for _, d := range ow.decls {
			if !samePlace(d.place, place) {
				continue
			}
			typ := "string"
			switch d.value {
			case vMessage:
				typ = "pkg.def.Payload"
			case vAny:
				typ = "google.protobuf.Any"
			}
			fmt.Fprintf(b, "%sextend google.protobuf.%s {\n%s  // Custom option %s.\n%s  %s%s %s = %d;\n%s}\n", indent, optExtendeeNames[d.extendee], indent, d.fullName(), indent, lbl, typ, d.name, d.number, indent)
		}
	}
	var tree func(b *strings.Builder, indent string, place []int)
	tree = func(b *strings.Builder, indent string, place []int) {
		depth := len(place)
		if depth == 3 {
			return
		}
		for i := 0; i < 2; i++ {
			child := append(append([]int{}, place...), i)
			fmt.Fprintf(b, "%smessage %s%d {\n", indent, optLevelNames[depth], i)
			extends(b, indent+"  ", child)
			tree(b, indent+"  ", child)
			fmt.Fprintf(b, "%s}\n", indent)
		}
	}
	value := func(d optDecl) string {
		switch d.value {
		case vMessage:
			return "{ a: 1 b: \"x\" }"
		case vAny:
			return "{ [type.googleapis.com/pkg.def.Payload] { a: 7 b: \"in any\" } }"
		}
		return fmt.Sprintf("%q", "value of "+d.name)
	}
	uses := func(b *strings.Builder, fieldLbl string, fileLevel bool) {
		if fileLevel {
			for _, d := range ow.decls {
				if d.extendee == oFile {
					fmt.Fprintf(b, "option (%s) = %s;\n", d.fullName(), value(d))
				}
			}
			return
		}
		b.WriteString("\n// The message that carries the custom options.\nmessage Subject {\n")
		for _, d := range ow.decls {
			if d.extendee == oMessage {
				fmt.Fprintf(b, "  option (%s) = %s;\n", d.fullName(), value(d))
			}
		}
		var fo []string
		for _, d := range ow.decls {
			if d.extendee == oField {
				fo = append(fo, fmt.Sprintf("(%s) = %s", d.fullName(), value(d)))
			}
		}
		if len(fo) > 0 {
			fmt.Fprintf(b, "  %sstring f = 1 [\n    %s\n  ];\n", fieldLbl, strings.Join(fo, ",\n    "))
		} else {
			fmt.Fprintf(b, "  %sstring f = 1;\n", fieldLbl)
		}
		b.WriteString("}\n")
	}

	var def strings.Builder
	def.WriteString("// Declares the custom options.\n" + head + "\npackage pkg.def;\n\nimport \"google/protobuf/descriptor.proto\";\n")
	if needAny {
		def.WriteString("import \"google/protobuf/any.proto\";\n")
	}
	def.WriteString("\n")
	if ow.user == 0 {
		uses(&def, lbl, true)
	}
	extends(&def, "", nil)
	tree(&def, "", nil)
	fmt.Fprintf(&def, "\n// Payload of the message-typed options.\nmessage Payload {\n  %sint32 a = 1;\n  %sstring b = 2;\n}\n", lbl, lbl)
	if ow.user == 0 {
		uses(&def, lbl, false)
	}

	w := &World{ModDirs: []string{"ma", "mb"}, ModNames: []string{modName("ma"), modName("mb")},
		BufYAML: "version: v2\nmodules:\n  - path: ma\n    name: " + modName("ma") + "\n  - path: mb\n    name: " + modName("mb") + "\n"}
	w.Files = append(w.Files, File{Path: "opts/def.proto", Module: 0, Ext: "ma/opts/def.proto", Text: def.String()})
	// module mb is never empty
	w.Files = append(w.Files, File{Path: "other/o.proto", Module: 1, Ext: "mb/other/o.proto", Text: "syntax = \"proto3\";\n\npackage pkg.other;\n\nmessage Other {\n  int32 id = 1;\n}\n"})
	if ow.user != 0 {
		var u strings.Builder
		u.WriteString("// Uses the custom options of opts/def.proto.\nsyntax = \"proto3\";\n\npackage pkg.use;\n\nimport \"opts/def.proto\";\n\n")
		uses(&u, "", true)
		uses(&u, "", false)
		mod := ow.user - 1
		w.Files = append(w.Files, File{Path: "use/user.proto", Module: mod, Ext: w.ModDirs[mod] + "/use/user.proto", Text: u.String()})
	}
	return w
}

func optWorlds(quick bool) []*optWorld {
	var out []*optWorld
	places := optPlacements()
	syntaxes := []int{sProto3, sProto2, sEditions}
	selFor := func(user, i int) Selection {
		if user == 2 && i%2 == 1 {
			return Selection{SubDir: "mb"} // the declaring module is not targeted: opts/def.proto is an import
		}
		return Selection{SubDir: "."}
	}
	for pi, p := range places {
		for user := 0; user < 3; user++ {
			for e := 0; e < 3; e++ {
				for v := 0; v < 3; v++ {
					if quick && (e != (pi+user)%3 || v != (pi+2*user)%3) {
						continue // quick: extendee and value rotate, every (placement, user) pair occurs
					}
					ow := &optWorld{user: user, syntax: syntaxes[(pi+user+e+v)%3], sel: selFor(user, pi),
						decls: []optDecl{{place: p, extendee: e, value: v, number: 50001 + pi, name: fmt.Sprintf("e%d", pi)}}}
					ow.key = fmt.Sprintf("single|%s|%s|%s|%s|%s", placeName(p), optExtendeeNames[e], optValueNames[v], optUserNames[user], syntaxNames[ow.syntax])
					out = append(out, ow)
				}
			}
		}
	}
	for user := 0; user < 3; user++ {
		for si, syn := range syntaxes {
			ow := &optWorld{user: user, syntax: syn, sel: selFor(user, si)}
			for pi, p := range places {
				// three consecutive placements share one number, with three different extendees
				ow.decls = append(ow.decls, optDecl{place: p, extendee: (pi + si) % 3, value: (pi/3 + user) % 3, number: 50001 + pi/3, name: fmt.Sprintf("e%d", pi)})
			}
			ow.key = fmt.Sprintf("combined|%s|%s", optUserNames[user], syntaxNames[syn])
			out = append(out, ow)
		}
	}
	return out
}

// countCustomOptions counts the extension fields that are set (typed, i.e. known to the resolver the descriptor was read
// with) in the options of a file, its messages and their fields.
func countCustomOptions(fd *descriptorpb.FileDescriptorProto) int {
	n := 0
	count := func(m proto.Message) {
		if m == nil || !m.ProtoReflect().IsValid() {
			return
		}
		m.ProtoReflect().Range(func(f protoreflect.FieldDescriptor, _ protoreflect.Value) bool {
			if f.IsExtension() {
				n++
			}
			return true
		})
	}
	count(fd.GetOptions())
	var msgs func(ms []*descriptorpb.DescriptorProto)
	msgs = func(ms []*descriptorpb.DescriptorProto) {
		for _, m := range ms {
			count(m.GetOptions())
			for _, f := range m.GetField() {
				count(f.GetOptions())
			}
			msgs(m.GetNestedType())
		}
	}
	msgs(fd.GetMessageType())
	return n
}

func (rn *runner) runOptionsPhase(scratch string) {
	r := rn.r
	worlds := optWorlds(r.Quick())
	r.Set("options_phase_worlds", len(worlds))
	r.Set("options_phase_placements", len(optPlacements()))
	r.ParallelFor(len(worlds), 0, func(i int) {
		ow := worlds[i]
		cnt := counters{}
		defer rn.merge(cnt)
		w := ow.render()
		files := w.BucketFiles()
		sel := ow.sel
		targets := refTargets(w, sel)
		direct := directCompile(w.Texts(), targets)
		if !direct.OK {
			r.Incomplete(fmt.Sprintf("harness: options world %s does not compile directly: %+v %s", ow.key, direct.Errors, direct.OtherErr))
			return
		}
		directFor := func([]string) *Direct { return direct }
		mkCase := func() any {
			return Case{Phase: "options", Selection: &sel, Files: files, World: infoOf(w), Note: ow.key}
		}
		r.SampleEvery(i, 37, mkCase)
		// how many custom option values the reference side sees (typed through the reference resolver)
		wantOptions := 0
		if types, err := direct.types(); err == nil {
			for _, p := range direct.Protos {
				b, _ := proto.Marshal(p)
				q := &descriptorpb.FileDescriptorProto{}
				if (proto.UnmarshalOptions{Resolver: types}).Unmarshal(b, q) == nil {
					wantOptions += countCustomOptions(q)
				}
			}
		}
		if wantOptions != len(ow.decls) {
			r.Incomplete(fmt.Sprintf("harness: options world %s: the reference resolver sees %d custom option values, the generator wrote %d", ow.key, wantOptions, len(ow.decls)))
			return
		}
		for _, d := range ow.decls {
			cnt.add("options_decl_depth_"+fmt.Sprint(len(d.place)), 1)
			for _, x := range d.place {
				if x != 0 {
					cnt.add("options_decl_under_non_first_message", 1)
					break
				}
			}
		}

		// API
		r.Eval(1)
		cnt.add("api_builds", 1)
		obs, err := buildSelection(rn.ctx, files, sel)
		if err != nil {
			r.Violate("api/build/unexpected-error/"+normErr(err), fmt.Sprintf("options %s %s: the texts compile directly, buf returned: %v", ow.key, sel, err), mkCase())
		} else {
			cnt.add("outcome_image", 1)
			report(r, checkImage("api", &expectation{world: w, targets: targets, direct: direct}, obs, cnt), mkCase())
			r.Distinct("options|" + ow.key + "|" + sel.String())
		}

		// CLI, every encoding
		dir := filepath.Join(scratch, fmt.Sprintf("o%d", i))
		if err := writeWorld(dir, files); err != nil {
			r.Incomplete("scratch: " + err.Error())
			return
		}
		defer os.RemoveAll(dir)
		for _, format := range append([]string{"binpb"}, textFormats...) {
			before := cnt["cli_images"]
			rn.cliOne("options", nil, ow.key, w, files, dir, sel, format, directFor, cnt)
			if cnt["cli_images"] > before && format != "binpb" {
				cnt.add("options_text_custom_option_values_expected", wantOptions)
			}
		}
	})
}
