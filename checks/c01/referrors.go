package c01

import (
	"context"
	"fmt"
	"os"
	"path/filepath"
	"sort"
	"strings"

	"github.com/bufbuild/bufverif/internal/bufx"
)

// Referrors phase (round 4): the INPUT KIND of the planted-compile-error cases. The errors phase plants every single-token
// error into workspaces that are built from a directory; there every diagnostic comes out of the compiler. With a .proto
// file reference (`buf build <file>[#include_package_files=true]`) buf reads the workspace a second way before it
// compiles anything: to decide which files belong to the package of the referenced file it scans the package / import
// statements of the other files, and a file it cannot scan ends the build right there, with diagnostics produced by that
// pre-pass and not by the compiler. Those diagnostics are held to the same clause: "positioned at the offending
// file:line:column using the path the user gave".
//
// Space: base workspaces with a configuration file (a file reference needs one to find the module root) x every token of
// every file x {delete, duplicate} x every file as the referenced file x include_package_files in {false, true}; API and
// CLI (absolute / process-relative form of the scratch directory).
//
// Oracle. T = reference targets of the file reference over the mutated texts (refProtoFileTargets), P = error positions of
// the bare compiler for T, Q = union of the error positions of the bare compiler for every file of the workspace compiled
// on its own ("the places where this workspace does not compile"), all mapped to the path the user would see.
//   - P non-empty: no image; diagnostics; their positions equal P, or are a non-empty subset of Q (the build may stop at
//     the first file it cannot read, which need not be the one the compiler would complain about first).
//   - P empty, include_package_files=false: the file and its imports compile, nothing else is needed: the image oracle.
//   - P empty, include_package_files=true: an image (image oracle), or diagnostics that are a non-empty subset of Q: the
//     package of every file of the module has to be known to decide what is targeted, so a file whose header cannot be
//     read may end the build.
// A diagnostic whose (line, column) is a position of Q but whose path is not the path the user gave is `path-differs`.

const basePkgA = `syntax = "proto3";

package acme.a;

import "acme/b/b.proto";
import "acme/a/a2.proto";

message A {
  acme.b.B b = 1;
  A2 a2 = 2;
}
`

const basePkgA2 = `syntax = "proto3";

package acme.a;

message A2 {
  string s = 1;
}
`

const basePkgB = `syntax = "proto2";

package acme.b;

import public "google/protobuf/any.proto";

message B {
  optional google.protobuf.Any any = 1;
}
`

// not imported by anybody, own package, no syntax statement
const basePkgC = `package acme.c;

message C {
  optional string id = 1;
}
`

// module extra: continues package acme.a in another module
const basePkgA3 = `syntax = "proto3";

package acme.a;

import "acme/a/a2.proto";

message A3 {
  A2 a = 1;
}
`

func refErrBases() []base {
	var out []base
	for _, b := range bases() {
		// a file reference needs a buf.yaml / buf.work.yaml above the file (without one the directory of the file becomes the
		// module root and nothing can be imported); a workspace of one file has no other file to look at
		if (b.world.BufYAML == "" && len(b.world.Extra) == 0) || len(b.world.Files) < 2 || b.sel.SubDir != "." {
			continue
		}
		out = append(out, b)
	}
	out = append(out, base{name: "package-files-module-dirs", sel: Selection{SubDir: "."}, world: &World{
		ModDirs: []string{"proto", "extra"}, ModNames: []string{"buf.build/acme/pkgfiles", ""},
		BufYAML: "version: v2\nmodules:\n  - path: proto\n    name: buf.build/acme/pkgfiles\n  - path: extra\n",
		Files: []File{
			{Path: "acme/a/a.proto", Module: 0, Ext: "proto/acme/a/a.proto", Text: basePkgA},
			{Path: "acme/a/a2.proto", Module: 0, Ext: "proto/acme/a/a2.proto", Text: basePkgA2},
			{Path: "acme/b/b.proto", Module: 0, Ext: "proto/acme/b/b.proto", Text: basePkgB},
			{Path: "acme/c/c.proto", Module: 0, Ext: "proto/acme/c/c.proto", Text: basePkgC},
			{Path: "acme/a/a3.proto", Module: 1, Ext: "extra/acme/a/a3.proto", Text: basePkgA3},
		}}})
	return out
}

// inHeaderStatement: is token ti part of a syntax / edition / package / import statement (counter only).
func inHeaderStatement(text string, toks []token, ti int) bool {
	word := func(i int) string { return text[toks[i].Start:toks[i].End] }
	depth := 0
	start := 0
	for i := 0; i <= ti && i < len(toks); i++ {
		switch word(i) {
		case "{":
			depth++
		case "}":
			depth--
			start = i + 1
		case ";":
			if i < ti {
				start = i + 1
			}
		}
	}
	if depth != 0 || start >= len(toks) || start > ti {
		return false
	}
	switch word(start) {
	case "syntax", "edition", "package", "import":
		return true
	}
	return false
}

// refErrWorld is one mutated workspace with everything the oracle needs, computed once for all selections.
type refErrWorld struct {
	w     *World
	files map[string]string
	note  string
	q     []posKey // Q with workspace-relative paths
	memo  map[string]*Direct
}

func newRefErrWorld(w *World, note string) *refErrWorld {
	rw := &refErrWorld{w: w, files: w.BucketFiles(), note: note, memo: map[string]*Direct{}}
	seen := map[posKey]bool{}
	for _, f := range w.Files {
		d := rw.compile([]string{f.Path})
		if d.OK || d.OtherErr != "" {
			continue
		}
		if pos, ok := expectedPositions(w, d, ""); ok {
			for k := range pos {
				if !seen[k] {
					seen[k] = true
					rw.q = append(rw.q, k)
				}
			}
		}
	}
	sort.Slice(rw.q, func(i, j int) bool { return rw.q[i].String() < rw.q[j].String() })
	return rw
}

func (rw *refErrWorld) compile(names []string) *Direct {
	key := strings.Join(names, "\x00")
	if d, ok := rw.memo[key]; ok {
		return d
	}
	d := directCompile(rw.w.Texts(), names)
	rw.memo[key] = d
	return d
}

// directFor is the memoised compiler of the image oracle (nil = does not compile).
func (rw *refErrWorld) directFor(names []string) *Direct {
	if d := rw.compile(names); d.OK {
		return d
	}
	return nil
}

func (rw *refErrWorld) qUnder(root string) map[posKey]string {
	out := map[posKey]string{}
	for _, k := range rw.q {
		out[posKey{Path: joinDir(root, k.Path), Line: k.Line, Col: k.Col}] = ""
	}
	return out
}

func subsetPositions(a, b map[posKey]string) bool {
	for k := range a {
		if _, ok := b[k]; !ok {
			return false
		}
	}
	return true
}

func stripPaths(m map[posKey]string) map[posKey]string {
	out := map[posKey]string{}
	for k := range m {
		out[posKey{Line: k.Line}] = ""
	}
	return out
}

// lines drops the columns: the pre-pass is a scanner of its own, it names the same statement as the compiler but not always
// the same token of it (`package a.;`: the scanner points at the period, the parser at the semicolon) and it may report
// several problems of one statement where the parser stops at the first.
func lines(m map[posKey]string) map[posKey]string {
	out := map[posKey]string{}
	for k := range m {
		out[posKey{Path: k.Path, Line: k.Line}] = ""
	}
	return out
}

// refErrVerdict of a build that FAILED with positioned diagnostics got. want = P under the same root (nil: the reference
// targets compile), q = Q under the same root. kind "" = accepted; viaQ: accepted because the positions are places where
// the workspace does not compile, although they are not the compiler's positions for the reference targets.
func refErrVerdict(got, want, q map[posKey]string, includePkg bool) (kind string, viaQ bool) {
	if want != nil && samePositions(got, want) {
		return "", false
	}
	inQ := len(got) > 0 && subsetPositions(lines(got), lines(q))
	inQModuloPath := len(got) > 0 && subsetPositions(stripPaths(got), stripPaths(q))
	switch {
	case want != nil && inQ:
		return "", true
	case want != nil && inQModuloPath:
		return "path-differs", false
	case want != nil:
		return classifyPosDiff(got, want), false
	case includePkg && inQ:
		return "", true
	case includePkg && inQModuloPath:
		return "path-differs", false
	}
	return "unexpected-error", false
}

// judgeRefErrAPI builds one file reference over a mutated workspace through the API and judges it.
func (rw *refErrWorld) judgeAPI(ctx context.Context, rn *runner, sel Selection, cnt counters) []violation {
	targets := refTargets(rw.w, sel)
	direct := rw.compile(targets)
	if !direct.OK && direct.OtherErr != "" {
		cnt.add("referr_unpositioned", 1)
		return nil
	}
	var want map[posKey]string
	if !direct.OK {
		var ok bool
		if want, ok = expectedPositions(rw.w, direct, ""); !ok {
			cnt.add("referr_unpositioned", 1)
			return nil
		}
		cnt.add("referr_api_reference_targets_do_not_compile", 1)
	}
	obs, err := buildSelection(ctx, rw.files, sel)
	what := func(s string) string { return fmt.Sprintf("%s, %s: %s", rw.note, sel, s) }
	if err == nil {
		if want != nil {
			return []violation{{"api/error/image-despite-compile-error", what(fmt.Sprintf("the bare compiler fails at %v but buf built an image of %d files", sortedPos(want), len(obs)))}}
		}
		cnt.add("referr_api_images", 1)
		exp := &expectation{world: rw.w, targets: targets, direct: direct}
		return rn.protoFileAlternative("api", exp, sel, obs, checkImage("api", exp, obs, cnt), rw.directFor, cnt)
	}
	got, isSet := apiAnnotations(err)
	if !isSet {
		if want == nil {
			return []violation{{"api/build/unexpected-error/" + normErr(err), what(fmt.Sprintf("reference targets %v compile directly, buf returned: %v", targets, err))}}
		}
		return []violation{{"api/error/not-annotations/" + normErr(err), what(fmt.Sprintf("the bare compiler fails at %v, buf returned a non-annotation error: %v", sortedPos(want), err))}}
	}
	q := rw.qUnder("")
	kind, viaQ := refErrVerdict(got, want, q, sel.IncludePkg)
	rw.countOutcome("api", cnt, got, want, viaQ, kind, "")
	switch kind {
	case "":
		return nil
	case "unexpected-error":
		return []violation{{"api/build/unexpected-error/" + normErr(err), what(fmt.Sprintf("reference targets %v compile directly and nothing else is needed, buf reported %v", targets, sortedPos(got)))}}
	}
	return []violation{{"api/error/" + kind, what(fmt.Sprintf("annotations at %v; the bare compiler reports %v for the reference targets %v; the workspace does not compile at %v", sortedPos(got), sortedPos(want), targets, sortedPos(q)))}}
}

// countOutcome keeps the non-vacuity counters of the phase.
func (rw *refErrWorld) countOutcome(point string, cnt counters, got, want map[posKey]string, viaQ bool, kind, root string) {
	if kind != "" {
		return
	}
	cnt.add("referr_"+point+"_diagnostics_accepted", 1)
	if viaQ && want != nil {
		cnt.add("referr_"+point+"_diagnostics_not_the_compilers_for_the_reference_targets", 1)
	}
	if viaQ && !subsetPositions(got, rw.qUnder(root)) {
		cnt.add("referr_"+point+"_diagnostics_on_a_line_of_the_compiler_but_another_column", 1)
	}
	if viaQ && want == nil {
		cnt.add("referr_"+point+"_diagnostics_in_a_file_outside_the_reference_build", 1)
	}
	for k := range got {
		for _, f := range rw.w.Files {
			if joinDir(root, f.Ext) == k.Path && k.Path != f.Path {
				cnt.add("referr_"+point+"_diagnostics_where_the_path_given_differs_from_the_module_path", 1)
			}
		}
	}
}

// judgeCLI runs `buf build <dir as given>/<file>[#include_package_files=true]` on the world written to dir.
func (rw *refErrWorld) judgeCLI(ctx context.Context, rn *runner, userDir string, sel Selection, cfg cliConfig, cnt counters) []violation {
	targets := refTargets(rw.w, sel)
	direct := rw.compile(targets)
	if !direct.OK && direct.OtherErr != "" {
		return nil
	}
	var want map[posKey]string
	if !direct.OK {
		var ok bool
		if want, ok = expectedPositions(rw.w, direct, userDir); !ok {
			return nil
		}
	}
	form := "abs"
	if !filepath.IsAbs(userDir) {
		form = "rel"
	}
	point := cfg.point("binpb")
	res := bufx.RunCLI(ctx, cfg.env(), "", append(cliArgs(filepath.FromSlash(userDir), sel, "binpb"), cfg.args()...)...)
	what := func(s string) string {
		return fmt.Sprintf("%s, %s: `buf build` (%s, %s directory) %s", rw.note, sel, cfg, form, s)
	}
	if res.ExitCode == 0 {
		if want != nil {
			return []violation{{point + "/" + cfg.errClause() + "/exit-0-despite-compile-error", what(fmt.Sprintf("exit 0, the bare compiler fails at %v", sortedPos(want)))}}
		}
		wire, derr := observeWire([]byte(res.Stdout))
		if derr != nil {
			return []violation{{point + "/build/undecodable-output", what(derr.Error())}}
		}
		cnt.add("referr_cli_images", 1)
		exp := &expectation{world: rw.w, targets: targets, direct: direct}
		return rn.protoFileAlternative(point, exp, sel, wire, checkImage(point, exp, wire, cnt), rw.directFor, cnt)
	}
	pre := point + "/" + cfg.errClause()
	if len(res.Stdout) != 0 {
		return []violation{{pre + "/output-despite-compile-error", what(fmt.Sprintf("wrote %d bytes of image and exit %d", len(res.Stdout), res.ExitCode))}}
	}
	got, other := parseDiagnostics(cfg.ErrFormat, res.Stderr)
	if res.ExitCode != 100 || len(other) > 0 {
		if want == nil {
			return []violation{{point + "/build/unexpected-exit", what(fmt.Sprintf("reference targets %v compile directly, exit %d stderr %q", targets, res.ExitCode, res.Stderr))}}
		}
		return []violation{{pre + "/not-annotations", what(fmt.Sprintf("exit %d stderr %q; expected exit 100 and diagnostics at %v", res.ExitCode, res.Stderr, sortedPos(want)))}}
	}
	q := rw.qUnder(userDir)
	kind, viaQ := refErrVerdict(got, want, q, sel.IncludePkg)
	rw.countOutcome("cli", cnt, got, want, viaQ, kind, userDir)
	if form == "rel" && kind == "" {
		cnt.add("referr_cli_diagnostics_accepted_relative_dir", 1)
	}
	switch kind {
	case "":
		return nil
	case "unexpected-error":
		return []violation{{point + "/build/unexpected-exit", what(fmt.Sprintf("reference targets %v compile directly and nothing else is needed, exit %d stderr %q", targets, res.ExitCode, res.Stderr))}}
	}
	return []violation{{pre + "/" + form + "/" + kind, what(fmt.Sprintf("printed %v; the bare compiler reports %v for the reference targets %v; the workspace does not compile at %v", sortedPos(got), sortedPos(want), targets, sortedPos(q)))}}
}

type refErrItem struct {
	b    base
	file int
	tok  int
	op   int // 0 del, 1 dup
}

func (it refErrItem) mutated() (*World, string) {
	w := &World{ModDirs: it.b.world.ModDirs, ModNames: it.b.world.ModNames, BufYAML: it.b.world.BufYAML, Extra: it.b.world.Extra}
	w.Files = append([]File(nil), it.b.world.Files...)
	f := w.Files[it.file]
	t := lex(f.Text)[it.tok]
	op := []string{"del", "dup"}[it.op]
	note := fmt.Sprintf("%s: %s token #%d %q of %s", it.b.name, op, it.tok, f.Text[t.Start:t.End], f.Ext)
	f.Text = mutate(f.Text, t, op)
	w.Files[it.file] = f
	return w, note
}

func (rn *runner) runRefErrorPhase(scratch string) {
	r := rn.r
	var items []refErrItem
	bs := refErrBases()
	tokenCount := 0
	for _, b := range bs {
		for fi, f := range b.world.Files {
			toks := lex(f.Text)
			tokenCount += len(toks)
			for ti := range toks {
				for op := 0; op < 2; op++ {
					items = append(items, refErrItem{b: b, file: fi, tok: ti, op: op})
				}
			}
		}
	}
	r.Set("referr_phase_bases", len(bs))
	r.Set("referr_phase_token_positions", tokenCount)
	r.Set("referr_phase_mutated_workspaces", len(items))
	cwd, _ := os.Getwd()

	r.ParallelFor(len(items), 0, func(i int) {
		it := items[i]
		cnt := counters{}
		defer rn.merge(cnt)
		w, note := it.mutated()
		rw := newRefErrWorld(w, note)
		header := inHeaderStatement(it.b.world.Files[it.file].Text, lex(it.b.world.Files[it.file].Text), it.tok)
		if header {
			cnt.add("referr_mutations_of_a_syntax_package_or_import_statement", 1)
		}
		if len(rw.q) > 0 {
			cnt.add("referr_workspaces_that_do_not_compile", 1)
		}
		sels := protoFileSelections(w)
		mk := func(sel Selection, cfg cliConfig, cli bool) any {
			s := sel
			c := Case{Phase: "referrors", Selection: &s, Files: rw.files, World: infoOf(w), Note: note}
			if cli {
				c.Format = "binpb"
			}
			if cfg != (cliConfig{}) {
				c.Config = &cfg
			}
			return c
		}
		r.SampleEvery(i, 397, func() any { return mk(sels[len(sels)-1], cliConfig{}, false) })

		// API: every file x include_package_files
		for _, sel := range sels {
			r.Eval(1)
			cnt.add("referr_api_builds", 1)
			if sel.IncludePkg && header {
				cnt.add("referr_api_builds_with_package_files_over_a_broken_header", 1)
			}
			vs := rw.judgeAPI(rn.ctx, rn, sel, cnt)
			report(r, vs, mk(sel, cliConfig{}, false))
			if len(rw.q) > 0 {
				r.Distinct("referrors|" + note + "|" + sel.String())
			}
		}

		// CLI. Quick: two of the selections (the referenced file rotates with the token; one run with include_package_files,
		// one without), the directory form alternates with token + operator (both operators of a token meet both forms).
		// Thorough: every selection in both forms, plus one run with the files copied to memory.
		dir := filepath.Join(scratch, fmt.Sprintf("r%d", i))
		if werr := writeWorld(dir, rw.files); werr != nil {
			r.Incomplete("scratch: " + werr.Error())
			return
		}
		defer os.RemoveAll(dir)
		forms := []string{filepath.ToSlash(dir)}
		if rel, rerr := filepath.Rel(cwd, dir); rerr == nil && cwd != "" {
			forms = append(forms, filepath.ToSlash(rel))
		}
		type plan struct {
			sel  Selection
			form int
			cfg  cliConfig
		}
		var plans []plan
		nf := len(sels) / 2 // sels = file0/false, file0/true, file1/false, ...
		if r.Quick() {
			form := (it.tok + it.op) % 2
			plans = append(plans,
				plan{sel: sels[2*((it.tok+it.file)%nf)+1], form: form},
				plan{sel: sels[2*((it.tok+it.file+1)%nf)], form: 1 - form})
		} else {
			for si, sel := range sels {
				plans = append(plans, plan{sel: sel, form: 0}, plan{sel: sel, form: 1})
				plans = append(plans, plan{sel: sel, form: (si + it.tok) % 2, cfg: cliConfig{Mem: true}})
			}
		}
		for _, pl := range plans {
			if pl.form >= len(forms) {
				continue
			}
			r.Eval(1)
			cnt.add("referr_cli_runs", 1)
			if pl.cfg.Mem {
				cnt.add("referr_cli_runs_copy_to_memory", 1)
			}
			vs := rw.judgeCLI(rn.ctx, rn, forms[pl.form], pl.sel, pl.cfg, cnt)
			report(r, vs, mk(pl.sel, pl.cfg, true))
		}
	})
}
