package c18

import (
	"context"
	"fmt"
	"strings"

	"github.com/bufbuild/buf/private/gen/data/datawkt"
	"github.com/bufbuild/buf/private/pkg/storage"
)

// Round-2 fixtures. Two dimensions the first four images did not vary:
//
//  1. (well-known type?) x (import or target?) per file. A-D only have WKTs as imports and everything
//     else as target. E-wkt-target vendors the real google/protobuf/timestamp.proto (so it is a TARGET file
//     of a named module) next to a non-WKT file that merely lives under google/protobuf/; F-imports is the
//     same source narrowed to one target path, so that a non-WKT file, the vendored WKT and a built-in WKT
//     are all imports.
//  2. the SHAPE of a field's option list: which sibling options stand next to jstype (none, scalar custom,
//     message-typed custom option written through a sub-field / a nested sub-field / a repeated sub-field,
//     aggregate literal, repeated custom option, repeated message option, deprecated, the pseudo-options
//     default and json_name), every non-conflicting pair of them, the position of jstype in the list, the
//     pre-set jstype value, and where the field sits (message, nested message x2, group, oneof, extension at
//     file level and inside messages). G-fieldshapes enumerates that product as generated proto source.

func wktSource(path string) string {
	data, err := storage.ReadPath(context.Background(), datawkt.ReadBucket, path)
	if err != nil {
		panic("c18: datawkt has no " + path + ": " + err.Error())
	}
	return string(data)
}

const customUnderWKTDir = "google/protobuf/custom.proto" // not a well-known type, only a neighbour of them

func wktTargetFiles() map[string]string {
	return map[string]string{
		"buf.yaml": "version: v2\nmodules:\n  - path: .\n    name: " + moduleOne + "\n",
		"acme/one/v1/one.proto": `syntax = "proto3";
package acme.one.v1;
import "acme/one/v1/dep.proto";
import "google/protobuf/custom.proto";
import "google/protobuf/duration.proto";
import "google/protobuf/timestamp.proto";
option go_package = "example.com/e;epb";
message One {
  int64 a = 1;
  int64 b = 2 [jstype = JS_NUMBER];
  Dep dep = 3;
  google.protobuf.Timestamp t = 4;
  google.protobuf.Duration d = 5;
  acme.gp.v1.Custom c = 6;
}
`,
		"acme/one/v1/dep.proto": `syntax = "proto3";
package acme.one.v1;
option java_package = "e.dep";
option objc_class_prefix = "AOX";
message Dep { uint64 u = 1 [jstype = JS_STRING]; sint64 s = 2; }
`,
		// the vendored copy is byte-identical to the file shipped with buf
		"google/protobuf/timestamp.proto": wktSource("google/protobuf/timestamp.proto"),
		customUnderWKTDir: `syntax = "proto3";
package acme.gp.v1;
option csharp_namespace = "E.Custom";
message Custom { int64 x = 1 [jstype = JS_NUMBER]; fixed64 y = 2; }
`,
	}
}

func wktTargetLits() map[string]fileLit {
	return map[string]fileLit{
		"acme/one/v1/one.proto": {Module: moduleOne, Package: "acme.one.v1", GoSuffix: ";onev1", Defaults: oneV1Defaults("OneProto")},
		"acme/one/v1/dep.proto": {Module: moduleOne, Package: "acme.one.v1", GoSuffix: ";onev1", Defaults: oneV1Defaults("DepProto")},
		customUnderWKTDir: {Module: moduleOne, Package: "acme.gp.v1", GoSuffix: ";gpv1",
			Defaults: defaultsFor("com.acme.gp.v1", "CustomProto", "AGX", "Acme.Gp.V1", `Acme\Gp\V1`, "Acme::Gp::V1")},
		"google/protobuf/timestamp.proto": {Module: moduleOne, WKT: true}, // vendored: belongs to the module
		"google/protobuf/duration.proto":  wktLit,                         // built in: import without a module
	}
}

func round2ImageSpecs() []imageSpec {
	return []imageSpec{
		{
			Name:  "E-wkt-target",
			Files: wktTargetFiles(),
			Lits:  wktTargetLits(),
			Imports: map[string]bool{
				"google/protobuf/duration.proto": true,
			},
		},
		{
			Name:      "F-imports",
			Files:     wktTargetFiles(),
			Lits:      wktTargetLits(),
			OnlyPaths: []string{pathFile},
			// import-ness is decided per file, not per option: all families at once, jstype, v1, managed off, and
			// three families on their own (value+prefix+suffix, value+prefix, bool)
			Blocks: map[string]bool{"cross": true, "off": true, "v1": true, jstype: true, "java_package": true, "go_package": true, "java_multiple_files": true},
			Imports: map[string]bool{
				"acme/one/v1/dep.proto":           true,
				customUnderWKTDir:                 true,
				"google/protobuf/duration.proto":  true,
				"google/protobuf/timestamp.proto": true,
			},
		},
		fieldShapesSpec(),
	}
}

// ---------- G-fieldshapes ----------

// sibling is one entry of a field's bracket list other than jstype.
type sibling struct {
	Name string
	Text string
	// Depth is the number of source-path elements the entry's location has after the FieldOptions tag 8
	// (0 = the entry is not a FieldOptions field at all: default and json_name live on the field itself).
	Depth int
	// Meta is set for the entries that write (part of) the message-typed option (f_meta); an aggregate literal
	// and a sub-field assignment of the same option cannot be combined.
	Meta, Aggregate bool
}

var siblingAlphabet = []sibling{
	{Name: "tag", Text: `(f_tag) = "x"`, Depth: 1},
	{Name: "sub", Text: `(f_meta).owner = "x"`, Depth: 2, Meta: true},
	{Name: "sub2", Text: `(f_meta).inner.x = 1`, Depth: 3, Meta: true},
	{Name: "subrep", Text: `(f_meta).nums = 1`, Depth: 3, Meta: true},
	{Name: "agg", Text: `(f_meta) = {owner: "x"}`, Depth: 1, Meta: true, Aggregate: true},
	{Name: "rep", Text: `(f_rep) = 1`, Depth: 2},
	{Name: "repmsg", Text: `(f_metas) = {owner: "x"}`, Depth: 2},
	{Name: "dep", Text: `deprecated = true`, Depth: 1},
	{Name: "def", Text: `default = 5`},
	{Name: "json", Text: `json_name = "j{N}"`}, // {N}: the field's serial number (JSON names must be unique)
}

var int64TypeNames = []string{"int64", "uint64", "sint64", "fixed64", "sfixed64"}

// shapeLists: the bracket lists enumerated for the fields of message One: jstype alone; next to every single
// sibling (jstype absent / pre-set to JS_NUMBER or JS_STRING, before and after the sibling); and next to every
// non-conflicting pair of siblings of which at least one has a location two or more elements below FieldOptions
// (jstype = JS_NUMBER first, in the middle, last).
func shapeLists() [][]string {
	var out [][]string
	place := func(texts []string, v string) {
		for pos := 0; pos <= len(texts); pos++ {
			l := append([]string(nil), texts[:pos]...)
			l = append(l, "jstype = "+v)
			l = append(l, texts[pos:]...)
			out = append(out, l)
		}
	}
	// JS_NUMBER is never the managed value in the quick tier (always swept when a rule applies); JS_STRING sometimes
	// is (then nothing may be swept)
	place(nil, "JS_NUMBER")
	place(nil, "JS_STRING")
	for _, s := range siblingAlphabet {
		out = append(out, []string{s.Text}) // no jstype: nothing to sweep, managed mode may add one
		place([]string{s.Text}, "JS_NUMBER")
		place([]string{s.Text}, "JS_STRING")
	}
	for i, s := range siblingAlphabet {
		for _, t := range siblingAlphabet[i+1:] {
			if s.Meta && t.Meta && (s.Aggregate || t.Aggregate) {
				continue
			}
			if s.Depth < 2 && t.Depth < 2 {
				continue
			}
			place([]string{s.Text, t.Text}, "JS_NUMBER")
		}
	}
	return out
}

// singleLists: jstype last after each single sibling (and alone); used at the other field positions.
func singleLists(extension bool) [][]string {
	out := [][]string{{"jstype = JS_NUMBER"}}
	for _, s := range siblingAlphabet {
		if extension && s.Name == "json" {
			continue // json_name is not allowed on extension fields
		}
		out = append(out, []string{s.Text, "jstype = JS_NUMBER"})
	}
	return out
}

func fieldShapesSource() string {
	var sb strings.Builder
	n := 0
	field := func(indent, label, name string, num int, list []string) {
		n++
		fmt.Fprintf(&sb, "%s%s%s %s = %d", indent, label, int64TypeNames[n%len(int64TypeNames)], name, num)
		if len(list) > 0 {
			sb.WriteString(" [" + strings.ReplaceAll(strings.Join(list, ", "), "{N}", fmt.Sprint(n)) + "]")
		}
		sb.WriteString(";\n")
	}
	sb.WriteString(`syntax = "proto2";
package acme.one.v1;
import "acme/one/v1/options.proto";
option java_package = "g.shapes";
option (x_meta).owner = "file";
// an enum, a service, a oneof, an extension range and message options: option locations that are not field options
enum Kind {
  option deprecated = true;
  KIND_ZERO = 0 [deprecated = true, (v_meta).owner = "x"];
  KIND_ONE = 1 [(v_meta).inner.x = 1];
}
message One {
  option (m_meta).owner = "m";
  option deprecated = false;
  optional int64 a = 1 [(f_meta).owner = "x", jstype = JS_NUMBER];
  optional int64 b = 2 [jstype = JS_NUMBER, (f_meta).inner.x = 1];
`)
	num := 2
	for i, l := range shapeLists() {
		num++
		field("  ", "optional ", fmt.Sprintf("s%d", i), num, l)
	}
	sb.WriteString("  oneof choice {\n    option (o_meta).owner = \"o\";\n")
	for i, l := range singleLists(false) {
		num++
		field("    ", "", fmt.Sprintf("o%d", i), num, l)
	}
	sb.WriteString("  }\n")
	num++
	fmt.Fprintf(&sb, "  optional group Grp = %d {\n", num)
	for i, l := range singleLists(false) {
		field("    ", "optional ", fmt.Sprintf("g%d", i), i+1, l)
	}
	sb.WriteString("  }\n  message Nested {\n")
	for i, l := range singleLists(false) {
		field("    ", "optional ", fmt.Sprintf("n%d", i), i+1, l)
	}
	sb.WriteString("    message Deeper {\n")
	for i, l := range singleLists(false) {
		field("      ", "optional ", fmt.Sprintf("d%d", i), i+1, l)
	}
	sb.WriteString("      extend One {\n")
	for i, l := range singleLists(true) {
		field("        ", "optional ", fmt.Sprintf("deep_ext%d", i), 1100+i, l)
	}
	sb.WriteString("      }\n    }\n  }\n  extend One {\n")
	for i, l := range singleLists(true) {
		field("    ", "optional ", fmt.Sprintf("msg_ext%d", i), 1200+i, l)
	}
	sb.WriteString("  }\n  extensions 1000 to 1999 [(r_meta).owner = \"r\"];\n}\nextend One {\n")
	for i, l := range singleLists(true) {
		field("  ", "optional ", fmt.Sprintf("top_ext%d", i), 1300+i, l)
	}
	sb.WriteString(`}
service Svc {
  option deprecated = true;
  rpc Get(One) returns (One) {
    option deprecated = true;
    option idempotency_level = IDEMPOTENT;
    option (t_meta).owner = "rpc";
  }
}
`)
	return sb.String()
}

func fieldShapesSpec() imageSpec {
	return imageSpec{
		Name: "G-fieldshapes",
		Files: map[string]string{
			"buf.yaml": "version: v2\nmodules:\n  - path: .\n    name: " + moduleOne + "\n",
			"acme/one/v1/options.proto": `syntax = "proto2";
package acme.one.v1;
import "google/protobuf/descriptor.proto";
message Meta {
  optional string owner = 1;
  optional Inner inner = 2;
  repeated int32 nums = 3;
  message Inner { optional int32 x = 1; }
}
extend google.protobuf.FieldOptions {
  optional string f_tag = 50001;
  optional Meta f_meta = 50002;
  repeated int32 f_rep = 50003;
  repeated Meta f_metas = 50004;
}
extend google.protobuf.FileOptions { optional Meta x_meta = 50002; }
extend google.protobuf.MessageOptions { optional Meta m_meta = 50002; }
extend google.protobuf.EnumValueOptions { optional Meta v_meta = 50002; }
extend google.protobuf.OneofOptions { optional Meta o_meta = 50002; }
extend google.protobuf.ExtensionRangeOptions { optional Meta r_meta = 50002; }
extend google.protobuf.MethodOptions { optional Meta t_meta = 50002; }
`,
			"acme/one/v1/one.proto": fieldShapesSource(),
		},
		StripSCIOf: []string{"google/protobuf/descriptor.proto"},
		Lits: map[string]fileLit{
			"acme/one/v1/one.proto":            {Module: moduleOne, Package: "acme.one.v1", GoSuffix: ";onev1", Defaults: oneV1Defaults("OneProto")},
			"acme/one/v1/options.proto":        {Module: moduleOne, Package: "acme.one.v1", GoSuffix: ";onev1", Defaults: oneV1Defaults("OptionsProto")},
			"google/protobuf/descriptor.proto": wktLit,
		},
		// the file-option families say nothing new about field option lists: jstype rules, every family at once
		// (sweep triggered by file options only / by both) and the v1 forms (file options only). Managed mode off
		// is checked once by the whole-image comparison at the end of the run.
		Blocks: map[string]bool{jstype: true, "cross": true, "v1": true},
	}
}
