package c18

import (
	"context"
	"testing"

	"github.com/bufbuild/buf/private/bufpkg/bufimage/bufimagemodify"
	"github.com/bufbuild/bufverif/internal/bufx"
)

// Ten-line reproductions of the two findings in FINDINGS.md, independent of the check's machinery.
// They only log what they observe (run: go test -tags verif -run Finding -v ./checks/c18).

const findingProto = `syntax = "proto2";
package acme.one.v1;
message One {
  optional int64 a = 1;
  optional int64 d = 4 [default = 5];
}
`

func TestFindingF9FieldOptionsRootRemoved(t *testing.T) {
	img, err := bufx.BuildImage(context.Background(), map[string]string{"acme/one/v1/one.proto": findingProto})
	if err != nil {
		t.Fatal(err)
	}
	managed, err := parseManaged("version: v2\nmanaged:\n  enabled: true\nplugins:\n  - local: x\n    out: gen\n")
	if err != nil {
		t.Fatal(err)
	}
	has := func() bool {
		for _, l := range img.Files()[0].FileDescriptorProto().SourceCodeInfo.Location {
			if pathKey(l.Path) == "4,0,2,1,8" {
				return true
			}
		}
		return false
	}
	before := has()
	if err := bufimagemodify.Modify(img, managed); err != nil {
		t.Fatal(err)
	}
	t.Logf("location [4 0 2 1 8] (the `[default = 5]` brackets of field d, whose options were not rewritten): before=%v after=%v; F9 reproduced: %v", before, has(), before && !has())
}

func TestFindingF10FieldOnlyDisableRule(t *testing.T) {
	img, err := bufx.BuildImage(context.Background(), map[string]string{"acme/one/v1/one.proto": findingProto})
	if err != nil {
		t.Fatal(err)
	}
	managed, err := parseManaged("version: v2\nmanaged:\n  enabled: true\n  disable:\n    - field: acme.one.v1.One.a\nplugins:\n  - local: x\n    out: gen\n")
	if err != nil {
		t.Fatal(err)
	}
	if err := bufimagemodify.Modify(img, managed); err != nil {
		t.Fatal(err)
	}
	opts := img.Files()[0].FileDescriptorProto().GetOptions()
	t.Logf("file options after managed mode with only `disable: [{field: acme.one.v1.One.a}]`: %v; F10 reproduced: %v", opts, opts.GetJavaPackage() == "")
}
