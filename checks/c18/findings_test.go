package c18

import (
	"context"
	"testing"

	"github.com/bufbuild/buf/private/bufpkg/bufimage/bufimagemodify"
	"github.com/bufbuild/bufverif/internal/bufx"
)

// Ten-line reproductions of the two genuine defects the check reports on the pinned tree, independent of
// the check's machinery. They only log what they observe
// (run: go test -tags verif -run Finding -v ./checks/c18).
//
// F9, signature srcinfo/extra-removed/field-options-root-without-option-locations:
// internal/marksweeper.go removeLocationsFromSourceCodeInfo removes every FieldOptions location
// (path ...,<field>,8) that has no *kept* descendant, also when it never had one: the brackets of
// `[default = 5]` / `[json_name = "x"]` have a ...,8 location but their children live under ...,7 / ...,10.
// So in every file with at least one rewritten option, the source info of fields nobody rewrote is removed
// ("Source-info entries are removed exactly for the options that were rewritten").
// Fix: only remove a root that has lost a descendant (count removed descendants in the trie too).
//
// F10, signature disable/field-only-rule-exempts-file-options:
// override.go isFileOptionDisabledForFile does not skip disable rules that name a field, so
// `disable: [{field: pkg.Msg.f}]` (no option, no path, no module) switches off every governed file option of
// every file, overrides included, while modifyJsType reads the same rule as "exempt that one field".
// Fix: `if disableRule.FieldOption() != Unspecified || disableRule.FieldName() != "" { continue }`.

const findingProto = `syntax = "proto2";
package acme.one.v1;
message One {
  optional int64 a = 1;
  optional int64 d = 4 [default = 5];
}
`

func TestFindingF9FieldOptionsRootRemoved(t *testing.T) {
	img, err := bufx.BuildImage(context.Background(), map[string]string{"acme/one/v1/one.proto": findingProto})
	if err != nil {
		t.Fatal(err)
	}
	managed, err := parseManaged("version: v2\nmanaged:\n  enabled: true\nplugins:\n  - local: x\n    out: gen\n")
	if err != nil {
		t.Fatal(err)
	}
	has := func() bool {
		for _, l := range img.Files()[0].FileDescriptorProto().SourceCodeInfo.Location {
			if pathKey(l.Path) == "4,0,2,1,8" {
				return true
			}
		}
		return false
	}
	before := has()
	if err := bufimagemodify.Modify(img, managed); err != nil {
		t.Fatal(err)
	}
	t.Logf("location [4 0 2 1 8] (the `[default = 5]` brackets of field d, whose options were not rewritten): before=%v after=%v; F9 reproduced: %v", before, has(), before && !has())
}

func TestFindingF10FieldOnlyDisableRule(t *testing.T) {
	img, err := bufx.BuildImage(context.Background(), map[string]string{"acme/one/v1/one.proto": findingProto})
	if err != nil {
		t.Fatal(err)
	}
	managed, err := parseManaged("version: v2\nmanaged:\n  enabled: true\n  disable:\n    - field: acme.one.v1.One.a\nplugins:\n  - local: x\n    out: gen\n")
	if err != nil {
		t.Fatal(err)
	}
	if err := bufimagemodify.Modify(img, managed); err != nil {
		t.Fatal(err)
	}
	opts := img.Files()[0].FileDescriptorProto().GetOptions()
	t.Logf("file options after managed mode with only `disable: [{field: acme.one.v1.One.a}]`: %v; F10 reproduced: %v", opts, opts.GetJavaPackage() == "")
}
