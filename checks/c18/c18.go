// Package c18: managed mode rewrites only what it governs.
//
// Bounded-exhaustive exploration of bufimagemodify.Modify on 4 fixture images x every managed
// configuration of an explicitly bounded space, each configuration written as buf.gen.yaml text (v2, and a
// v1 space of its own) and parsed by bufconfig.ReadBufGenYAMLFile. The oracle is the hand-written reference
// model in model.go (who is exempt, which override wins, how prefix/suffix compose), the frame condition
// (after reverting the governed options the descriptor must equal the input) and a source-info model
// (exactly the locations of the rewritten options and their emptied parents disappear).
package c18

import (
	"context"
	"fmt"
	"os"
	"runtime/pprof"
	"strings"
	"time"

	"github.com/bufbuild/buf/private/bufpkg/bufconfig"
	"github.com/bufbuild/buf/private/bufpkg/bufimage"
	"github.com/bufbuild/buf/private/bufpkg/bufimage/bufimagemodify"
	"github.com/bufbuild/bufverif/internal/enum"
	"github.com/bufbuild/bufverif/internal/evid"
	"google.golang.org/protobuf/proto"
)

func init() {
	evid.Register(&evid.Check{ID: "C18", Level: "exploration", Run: run, QuickBudget: 300 * time.Second, ThoroughBudget: 14 * time.Minute})
}

type scope struct{ Path, Module string }

// scopes of override rules and of scope-only disable rules. The quick tier leaves module two to the
// cross-family block; the thorough tier adds a path+module scope and ".".
func scopes(quick bool) []scope {
	if quick {
		return []scope{{}, {Path: pathDir}, {Path: pathFile}, {Module: moduleOne}, {Path: pathWKT}}
	}
	return []scope{{}, {Path: pathDir}, {Path: pathFile}, {Module: moduleOne}, {Module: moduleTwo}, {Path: pathWKT}, {Path: pathFile, Module: moduleOne}, {Path: "."}}
}

// crossScopes are used by the cross-family block in both tiers.
func crossScopes() []scope {
	return []scope{{}, {Path: pathDir}, {Path: pathFile}, {Module: moduleOne}, {Module: moduleTwo}, {Path: pathWKT}}
}

// tmpl is an override rule whose string value depends on its position in the sequence, so that two rules
// for the same option never carry the same value and "which one won" is observable.
type tmpl struct {
	Opt   string // file option name, or jstype
	Scope scope
	Field string
	Fixed string // bool / enum value ("" = positional string value)
}

var stringValueFormat = map[string]string{
	"java_package":                  "ov%d.pkg",
	"java_package_prefix":           "pre%d",
	"java_package_suffix":           "suf%d",
	"java_outer_classname":          "Ov%dOuter",
	"go_package":                    "example.com/ov%d;ovpb",
	"go_package_prefix":             "example.com/gp%d",
	"objc_class_prefix":             "OV%d",
	"csharp_namespace":              "Ov%d.Ns",
	"csharp_namespace_prefix":       "Pre%d",
	"php_namespace":                 `Ov%d\Ns`,
	"php_metadata_namespace":        `Ov%d\Meta`,
	"php_metadata_namespace_suffix": "Suf%d",
	"ruby_package":                  "Ov%d::Ns",
	"ruby_package_suffix":           "Suf%d",
}

func (t tmpl) at(pos int) Override {
	o := Override{Path: t.Scope.Path, Module: t.Scope.Module, Field: t.Field}
	if t.Opt == jstype {
		o.FieldOption, o.Value = jstype, t.Fixed
		return o
	}
	o.FileOption = t.Opt
	if t.Fixed != "" {
		o.Value = t.Fixed
		o.Bool = t.Fixed == "true" || t.Fixed == "false"
		return o
	}
	o.Value = fmt.Sprintf(stringValueFormat[t.Opt], pos)
	return o
}

// block is one sub-space: every override sequence over Tmpls of length <= 2 x every set of <= 2 disables,
// plus (Seqs3 non-empty) every sequence of length 3 x every set of <= 1 disables.
type block struct {
	Name     string
	Tmpls    []tmpl
	Seqs     [][]int
	Disables []Disable
	Sets     [][]int
	Seqs3    [][]int
	Sets1    [][]int
}

func (b *block) size() int { return len(b.Seqs)*len(b.Sets) + len(b.Seqs3)*len(b.Sets1) }

func (b *block) config(i int) Config {
	var seq, set []int
	if n := len(b.Seqs) * len(b.Sets); i < n {
		seq, set = b.Seqs[i/len(b.Sets)], b.Sets[i%len(b.Sets)]
	} else {
		i -= n
		seq, set = b.Seqs3[i/len(b.Sets1)], b.Sets1[i%len(b.Sets1)]
	}
	c := Config{Enabled: true}
	for pos, ti := range seq {
		c.Overrides = append(c.Overrides, b.Tmpls[ti].at(pos+1))
	}
	for _, di := range set {
		c.Disables = append(c.Disables, b.Disables[di])
	}
	return c
}

func scopeDisables(sc []scope) []Disable {
	var out []Disable
	for _, s := range sc {
		if s.Path == "" && s.Module == "" {
			continue // an empty disable rule is rejected by buf
		}
		out = append(out, Disable{Path: s.Path, Module: s.Module})
	}
	return out
}

func familyBlocks(quick bool) []*block {
	sc := scopes(quick)
	var blocks []*block
	for i := range families {
		fam := &families[i]
		b := &block{Name: fam.Value}
		var fixed []string
		switch fam.Kind {
		case kindBool:
			fixed = []string{"true", "false"}
		case kindEnum:
			fixed = []string{"CODE_SIZE", "SPEED"}
			if !quick {
				fixed = append(fixed, "LITE_RUNTIME")
			}
		default:
			fixed = []string{""}
		}
		for _, opt := range []string{fam.Value, fam.Prefix, fam.Suffix} {
			if opt == "" {
				continue
			}
			for _, s := range sc {
				for _, v := range fixed {
					b.Tmpls = append(b.Tmpls, tmpl{Opt: opt, Scope: s, Fixed: v})
				}
			}
		}
		b.Seqs = enum.Sequences(len(b.Tmpls), 0, 2)
		if !quick && (fam.Prefix != "" || fam.Suffix != "") {
			// value/prefix/suffix interplay: length-3 sequences (without the two extra thorough scopes for the
			// 3-option family, to keep them affordable; Tmpls keeps its order, so indexes < len stay valid)
			n := len(b.Tmpls)
			if fam.Prefix != "" && fam.Suffix != "" {
				var keep, extra []tmpl
				for _, t := range b.Tmpls {
					if t.Scope.Path == "." || (t.Scope.Path != "" && t.Scope.Module != "") {
						extra = append(extra, t)
					} else {
						keep = append(keep, t)
					}
				}
				b.Tmpls = append(keep, extra...)
				n = len(keep)
			}
			b.Seqs3 = enum.Sequences(n, 3, 3)
		}
		// disable rules that can matter to this family, plus three that must not
		b.Disables = scopeDisables(sc)
		for _, opt := range []string{fam.Value, fam.Prefix, fam.Suffix} {
			if opt != "" {
				b.Disables = append(b.Disables, Disable{FileOption: opt})
			}
		}
		b.Disables = append(b.Disables,
			Disable{FileOption: fam.Value, Module: moduleOne},
			Disable{FileOption: fam.Value, Path: pathFile},
		)
		if fam.Prefix != "" {
			b.Disables = append(b.Disables, Disable{FileOption: fam.Prefix, Module: moduleOne})
		}
		other := "java_multiple_files"
		if fam.Value == other {
			other = "go_package"
		}
		b.Disables = append(b.Disables, Disable{FileOption: other}, Disable{FieldOption: jstype}, Disable{Field: fieldA})
		b.Sets = enum.Subsets(len(b.Disables), 0, 2)
		b.Sets1 = enum.Subsets(len(b.Disables), 0, 1)
		blocks = append(blocks, b)
	}
	// jstype
	jb := &block{Name: jstype}
	values := []string{"JS_STRING", "JS_NORMAL"}
	if !quick {
		values = append(values, "JS_NUMBER")
	}
	for _, v := range values {
		for _, s := range sc {
			jb.Tmpls = append(jb.Tmpls, tmpl{Opt: jstype, Scope: s, Fixed: v})
		}
		jb.Tmpls = append(jb.Tmpls,
			tmpl{Opt: jstype, Field: fieldA, Fixed: v},
			tmpl{Opt: jstype, Field: fieldB, Fixed: v},
			tmpl{Opt: jstype, Field: fieldA, Scope: scope{Path: pathFile}, Fixed: v},
		)
	}
	jb.Seqs = enum.Sequences(len(jb.Tmpls), 0, 2)
	jb.Disables = append(scopeDisables(sc),
		Disable{FieldOption: jstype},
		Disable{FieldOption: jstype, Field: fieldA},
		Disable{FieldOption: jstype, Field: fieldB},
		Disable{FieldOption: jstype, Path: pathFile},
		Disable{FieldOption: jstype, Module: moduleOne},
		Disable{FieldOption: jstype, Field: fieldA, Module: moduleTwo},
		Disable{Field: fieldA},
		Disable{Field: fieldA, Path: pathFile},
		Disable{FileOption: "java_package"},
	)
	jb.Sets = enum.Subsets(len(jb.Disables), 0, 2)
	blocks = append(blocks, jb)
	return blocks
}

// allDisables is the union alphabet used by the cross-family block.
func allDisables(quick bool) []Disable {
	out := scopeDisables(crossScopes())
	for i := range families {
		for _, opt := range []string{families[i].Value, families[i].Prefix, families[i].Suffix} {
			if opt != "" {
				out = append(out, Disable{FileOption: opt})
			}
		}
		out = append(out, Disable{FileOption: families[i].Value, Module: moduleOne})
	}
	out = append(out,
		Disable{FieldOption: jstype},
		Disable{FieldOption: jstype, Field: fieldA},
		Disable{FieldOption: jstype, Path: pathFile},
		Disable{Field: fieldA},
	)
	return out
}

// crossConfigs: every governed option key overridden at once (same scope), in table order and reversed,
// x every set of <= 2 disables over the union alphabet. These are the configurations where rules of
// different families meet.
func crossConfigs(quick bool) []Config {
	var lists [][]Override
	lists = append(lists, nil)
	for _, s := range crossScopes() {
		var l []Override
		pos := 1
		for i := range families {
			fam := &families[i]
			for _, opt := range []string{fam.Value, fam.Prefix, fam.Suffix} {
				if opt == "" {
					continue
				}
				t := tmpl{Opt: opt, Scope: s}
				switch fam.Kind {
				case kindBool:
					t.Fixed = map[string]string{"java_multiple_files": "false", "java_string_check_utf8": "true", "cc_enable_arenas": "false"}[opt]
				case kindEnum:
					t.Fixed = "LITE_RUNTIME"
				}
				l = append(l, t.at(pos))
			}
		}
		l = append(l, tmpl{Opt: jstype, Scope: s, Fixed: "JS_STRING"}.at(pos))
		lists = append(lists, l)
		rev := make([]Override, len(l))
		for i := range l {
			rev[len(l)-1-i] = l[i]
		}
		lists = append(lists, rev)
	}
	dis := allDisables(quick)
	var out []Config
	for _, l := range lists {
		for _, set := range enum.Subsets(len(dis), 0, 2) {
			c := Config{Enabled: true, Overrides: l}
			for _, di := range set {
				c.Disables = append(c.Disables, dis[di])
			}
			out = append(out, c)
		}
	}
	return out
}

// v1Configs enumerates the v1 space: per option block every shape of {default, except, override} crossed
// with a per-file override of the same option, plus all blocks at once.
func v1Configs() []V1Config {
	var out []V1Config
	half := "acme/one/v1/half.proto"
	perFile := func(opt string, vals ...string) []map[string]map[string]string {
		res := []map[string]map[string]string{nil}
		for _, v := range vals {
			res = append(res, map[string]map[string]string{opt: {pathFile: v}})
		}
		res = append(res, map[string]map[string]string{opt: {pathFile: vals[0], half: vals[len(vals)-1]}})
		return res
	}
	// bool options
	for _, opt := range []string{"cc_enable_arenas", "java_multiple_files", "java_string_check_utf8"} {
		for _, v := range []string{"", "true", "false"} {
			for _, pf := range perFile(opt, "true", "false") {
				c := V1Config{Enabled: true, PerFile: pf}
				switch opt {
				case "cc_enable_arenas":
					c.CcEnableArenas = v
				case "java_multiple_files":
					c.JavaMultipleFiles = v
				default:
					c.JavaStringCheckUtf8 = v
				}
				out = append(out, c)
			}
		}
	}
	shapes := func(d, o1, o2 string, needDefault bool) []V1Option {
		s := []V1Option{
			{Default: d},
			{Default: d, Except: []string{moduleOne}},
			{Default: d, Except: []string{moduleTwo}},
			{Default: d, Override: map[string]string{moduleOne: o1}},
			{Default: d, Override: map[string]string{moduleOne: o1, moduleTwo: o2}},
			{Default: d, Except: []string{moduleTwo}, Override: map[string]string{moduleOne: o1}},
			{Default: d, Except: []string{moduleOne, moduleTwo}},
		}
		if !needDefault {
			s = append(s,
				V1Option{Except: []string{moduleOne}},
				V1Option{Override: map[string]string{moduleOne: o1}},
				V1Option{Except: []string{moduleTwo}, Override: map[string]string{moduleOne: o1}},
			)
		}
		return s
	}
	for _, sh := range shapes("pre1", "pre2", "pre3", true) {
		for _, pf := range perFile("java_package", "ov.file") {
			out = append(out, V1Config{Enabled: true, JavaPackagePrefix: sh, PerFile: pf})
		}
	}
	out = append(out, V1Config{Enabled: true, JavaPackagePrefix: V1Option{Default: "plain"}, JavaPackagePlain: true})
	for _, sh := range shapes("example.com/gp1", "example.com/gp2", "example.com/gp3", true) {
		for _, pf := range perFile("go_package", "example.com/file;filepb") {
			out = append(out, V1Config{Enabled: true, GoPackagePrefix: sh, PerFile: pf})
		}
	}
	for _, sh := range shapes("CODE_SIZE", "LITE_RUNTIME", "SPEED", true) {
		for _, pf := range perFile("optimize_for", "SPEED", "LITE_RUNTIME") {
			out = append(out, V1Config{Enabled: true, OptimizeFor: sh, PerFile: pf})
		}
	}
	out = append(out, V1Config{Enabled: true, OptimizeFor: V1Option{Default: "LITE_RUNTIME"}, OptimizeForPlain: true})
	for _, sh := range shapes("OV1", "OV2", "OV3", false) {
		for _, pf := range perFile("objc_class_prefix", "OVF") {
			out = append(out, V1Config{Enabled: true, ObjcClassPrefix: sh, PerFile: pf})
		}
	}
	noDefault := func(o1, o2 string) []V1Option {
		return []V1Option{
			{Except: []string{moduleOne}},
			{Override: map[string]string{moduleOne: o1}},
			{Override: map[string]string{moduleOne: o1, moduleTwo: o2}},
			{Except: []string{moduleTwo}, Override: map[string]string{moduleOne: o1}},
		}
	}
	for _, sh := range noDefault("Ov1.Ns", "Ov2.Ns") {
		for _, pf := range perFile("csharp_namespace", "File.Ns") {
			out = append(out, V1Config{Enabled: true, CsharpNamespace: sh, PerFile: pf})
		}
	}
	for _, sh := range noDefault("Ov1::Ns", "Ov2::Ns") {
		for _, pf := range perFile("ruby_package", "File::Ns") {
			out = append(out, V1Config{Enabled: true, RubyPackage: sh, PerFile: pf})
		}
	}
	// options that only exist as per-file overrides in v1
	for opt, v := range map[string]string{"java_outer_classname": "FileOuter", "php_namespace": `File\Ns`, "php_metadata_namespace": `File\Meta`} {
		for _, pf := range perFile(opt, v)[1:] {
			out = append(out, V1Config{Enabled: true, PerFile: pf})
		}
	}
	// everything at once
	for k := 0; k < 7; k++ {
		for _, withFiles := range []bool{false, true} {
			for _, enabled := range []bool{true, false} {
				c := V1Config{
					Enabled:             enabled,
					CcEnableArenas:      []string{"false", "true", ""}[k%3],
					JavaMultipleFiles:   []string{"false", "", "true"}[k%3],
					JavaStringCheckUtf8: []string{"true", "false", ""}[k%3],
					JavaPackagePrefix:   shapes("pre1", "pre2", "pre3", true)[k%7],
					GoPackagePrefix:     shapes("example.com/gp1", "example.com/gp2", "example.com/gp3", true)[(k+1)%7],
					OptimizeFor:         shapes("CODE_SIZE", "LITE_RUNTIME", "SPEED", true)[(k+2)%7],
					ObjcClassPrefix:     shapes("OV1", "OV2", "OV3", false)[(k+3)%10],
					CsharpNamespace:     noDefault("Ov1.Ns", "Ov2.Ns")[k%4],
					RubyPackage:         noDefault("Ov1::Ns", "Ov2::Ns")[(k+1)%4],
				}
				if withFiles {
					c.PerFile = map[string]map[string]string{
						"java_package":         {pathFile: "ov.file"},
						"go_package":           {pathFile: "example.com/file;filepb"},
						"optimize_for":         {pathFile: "SPEED"},
						"cc_enable_arenas":     {pathFile: "true", half: "false"},
						"java_outer_classname": {half: "FileOuter"},
						"csharp_namespace":     {pathFile: "File.Ns"},
					}
				}
				out = append(out, c)
			}
		}
	}
	return out
}

func gcd(a, b int) int {
	for b != 0 {
		a, b = b, a%b
	}
	return a
}

func parseManaged(text string) (bufconfig.GenerateManagedConfig, error) {
	f, err := bufconfig.ReadBufGenYAMLFile(strings.NewReader(text))
	if err != nil {
		return nil, err
	}
	return f.GenerateConfig().GenerateManagedConfig(), nil
}

type runner struct {
	r       *evid.Run
	ck      *checker
	masters []*master
}

// runCase applies one configuration (given as text + its abstract meaning) to every image.
func (x *runner) runCase(idx int, block, form, text string, cfg Config) {
	managed, err := parseManaged(text)
	if err != nil {
		x.ck.st.parseErrors.Add(1)
		x.r.Incomplete(fmt.Sprintf("harness: generated %s configuration rejected by buf: %v\n%s", form, err, text))
		return
	}
	for _, m := range x.masters {
		if !m.Spec.runsIn(block) {
			continue
		}
		img, err := bufimage.CloneImage(m.Image)
		if err != nil {
			x.r.Incomplete("harness: CloneImage: " + err.Error())
			return
		}
		ci := caseInfo{Image: m.Spec.Name, Form: form, Config: text}
		x.r.Eval(1)
		x.ck.st.cases.Add(1)
		if form == "v1" {
			x.ck.st.casesV1.Add(1)
		} else {
			x.ck.st.casesV2.Add(1)
		}
		if !cfg.Enabled {
			x.ck.st.casesManagedOff.Add(1)
		}
		if err := bufimagemodify.Modify(img, managed); err != nil {
			x.r.Violate("modify/error", fmt.Sprintf("Modify returned an error for a valid configuration: %v", err), ci)
			continue
		}
		nontrivial := false
		files := img.Files()
		if len(files) != len(m.Files) {
			x.r.Violate("frame/file-set-changed", fmt.Sprintf("%d files before, %d after", len(m.Files), len(files)), ci)
			continue
		}
		for i, f := range files {
			mf := m.Files[i]
			if f.Path() != mf.Path {
				x.r.Violate("frame/file-set-changed", fmt.Sprintf("file %d is %s, was %s", i, f.Path(), mf.Path), ci)
				break
			}
			orig := m.Image.Files()[i]
			if f.IsImport() != orig.IsImport() || f.IsSyntaxUnspecified() != orig.IsSyntaxUnspecified() || f.ExternalPath() != orig.ExternalPath() ||
				(f.FullName() == nil) != (orig.FullName() == nil) || (f.FullName() != nil && f.FullName().String() != orig.FullName().String()) {
				x.r.Violate("frame/image-file-metadata-changed", "image file metadata of "+f.Path()+" differs from the input", ci)
			}
			if x.ck.checkFile(ci, m, mf, f.FileDescriptorProto(), cfg) {
				nontrivial = true
			}
		}
		if nontrivial {
			x.r.Distinct(m.Spec.Name + "\x00" + text)
		}
		x.r.SampleEvery(idx, 7919, func() any {
			return map[string]any{"image": m.Spec.Name, "form": form, "buf_gen_yaml": text, "nontrivial": nontrivial}
		})
	}
}

func run(r *evid.Run) {
	ctx := context.Background()
	quick := r.Quick()
	r.Rule("case = (fixture image, managed configuration text). 7 fixture images: A-D (plain / pre-set / custom options / two modules with imported well-known types), E (a vendored well-known type as TARGET file, a non-WKT file below google/protobuf/), F (same source narrowed to one target: non-WKT file, vendored WKT and built-in WKT as IMPORTS), G (generated: every field option list over 10 sibling shapes - scalar/sub-field/nested sub-field/repeated sub-field/aggregate/repeated/repeated message custom options, deprecated, default, json_name - alone and in pairs x pre-set jstype value x jstype position, at 8 field positions; jstype, cross and v1 blocks only). v2 space: per governed option family every override sequence of length <=2 (thorough: <=3 for families with prefix/suffix) over {option, option_prefix, option_suffix} x scopes {all, dir, file, module one, module two, WKT dir} (x both bool values / 2-3 enum values; jstype also by field and field+path), crossed with every set of <=2 disable rules over the family-relevant alphabet {path, module, file_option value/prefix/suffix, file_option+module, file_option+path, an unrelated file_option, field_option jstype, field}; plus a cross-family space (every governed key overridden at once in both orders x every set of <=2 disables over the union alphabet), the same with managed mode off, and a v1 space ({default, except, override} shapes x per-file overrides per option, and all options at once). A case is distinct non-trivial when at least one governed option was rewritten or an exemption (disable rule, WKT, non-64-bit field) suppressed a rewrite; key = image + configuration text.")
	r.Assume("override values are non-empty strings; empty-string overrides are not enumerated")
	r.Assume("the documented default values of managed mode for the fixture files are written down by hand in images.go and also compared with the rule-free run")
	r.Assume("v1beta1 buf.gen.yaml and ModifyPreserveExisting (not used by the CLI) are out of scope; `buf generate` with a recording plugin is not run here")
	r.Assume("a disable rule that names only a field exempts that field's options, not file options (bufconfig.ManagedDisableRule doc: FieldName is 'the field to disable managed mode for')")

	if pf := os.Getenv("VERIF_C18_PPROF"); pf != "" {
		if f, err := os.Create(pf); err == nil {
			_ = pprof.StartCPUProfile(f)
			defer pprof.StopCPUProfile()
		}
	}
	x := &runner{r: r, ck: &checker{r: r, st: &stats{}}}
	onlyImages := map[string]bool{}
	if only := os.Getenv("VERIF_C18_IMAGES"); only != "" {
		// debugging aid (mutant runs, cost measurements): run only the named images; the run is reported as incomplete
		for _, n := range strings.Split(only, ",") {
			onlyImages[n] = true
		}
		r.Incomplete("VERIF_C18_IMAGES=" + only + ": only these images were run")
	}
	for _, spec := range imageSpecs() {
		if len(onlyImages) > 0 && !onlyImages[spec.Name] {
			continue
		}
		m, err := buildMaster(ctx, spec)
		if err != nil {
			r.Incomplete("harness: " + err.Error())
			return
		}
		x.masters = append(x.masters, m)
	}
	// ---- baseline: the rule-free configuration, and the hand-written defaults
	base := Config{Enabled: true}
	baseManaged, err := parseManaged(base.RenderV2())
	if err != nil {
		r.Incomplete("harness: baseline config: " + err.Error())
		return
	}
	literalChecked := 0
	for _, m := range x.masters {
		img, err := bufimage.CloneImage(m.Image)
		if err == nil {
			err = bufimagemodify.Modify(img, baseManaged)
		}
		if err != nil {
			r.Incomplete("harness: baseline run: " + err.Error())
			return
		}
		for i, f := range img.Files() {
			mf := m.Files[i]
			states := map[string]optState{}
			for j := range families {
				fam := &families[j]
				states[fam.Value] = fileOptState(f.FileDescriptorProto(), fam)
				before := fileOptState(mf.Desc, fam)
				ci := caseInfo{Image: m.Spec.Name, Form: "v2", Config: base.RenderV2(), File: mf.Path, Option: fam.Value, Before: before, After: states[fam.Value]}
				if mf.Lit.WKT {
					continue
				}
				want, has := mf.Lit.Defaults[fam.Value]
				if fam.Kind != kindString {
					want, has = fam.DefaultLiteral, true
				}
				literalChecked++
				if has && states[fam.Value].Value != want {
					ci.Expect = want
					r.Violate("default-literal/"+fam.Value, fmt.Sprintf("rule-free managed mode gives %s=%q for %s; documented default is %q", fam.Value, states[fam.Value].Value, mf.Path, want), ci)
				}
				if !has && states[fam.Value] != before {
					r.Violate("default-literal/"+fam.Value, fmt.Sprintf("rule-free managed mode changed %s of %s to %+v; no default is documented for it", fam.Value, mf.Path, states[fam.Value]), ci)
				}
			}
			m.Baseline[mf.Path] = states
		}
	}
	r.Set("default_literals_checked", literalChecked)

	// ---- the work list
	blocks := familyBlocks(quick)
	cross := crossConfigs(quick)
	v1 := v1Configs()
	crossOff := cross
	if only := os.Getenv("VERIF_C18_BLOCKS"); only != "" {
		// debugging aid (mutant runs): restrict the run to some blocks; the run is then reported as incomplete
		want := map[string]bool{}
		for _, n := range strings.Split(only, ",") {
			want[n] = true
		}
		var kept []*block
		for _, b := range blocks {
			if want[b.Name] {
				kept = append(kept, b)
			}
		}
		blocks = kept
		if !want["cross"] {
			cross = nil
		}
		if !want["off"] {
			crossOff = nil
		}
		if !want["v1"] {
			v1 = nil
		}
		r.Incomplete("VERIF_C18_BLOCKS=" + only + ": only these blocks were run")
	}
	offsets := make([]int, len(blocks)+1)
	blockSizes := map[string]int{}
	for i, b := range blocks {
		offsets[i+1] = offsets[i] + b.size()
		blockSizes[b.Name] = b.size()
	}
	nFamily := offsets[len(blocks)]
	total := nFamily + len(cross) + len(crossOff) + len(v1)
	r.Set("configs_family_blocks", nFamily)
	r.Set("configs_per_family_block", blockSizes)
	r.Set("configs_cross_family", len(cross))
	r.Set("configs_managed_off", len(crossOff))
	r.Set("configs_v1", len(v1))
	r.Set("images", len(x.masters))
	imageFacts := map[string]any{}
	for _, m := range x.masters {
		fields, fieldsWithDeepOnly, locs, targets, imports := 0, 0, 0, []string{}, []string{}
		for _, mf := range m.Files {
			if mf.IsImport {
				imports = append(imports, mf.Path)
			} else {
				targets = append(targets, mf.Path)
			}
			if mf.Lit.WKT && mf.Lit.Module == "" {
				continue
			}
			fields += len(mf.Fields)
			locs += len(mf.LocKeys)
			for _, fl := range mf.FieldLocs {
				if len(fl.JSType) > 0 && fl.MinOtherDepth >= 2 {
					fieldsWithDeepOnly++
				}
			}
		}
		blocksOfImage := "all"
		if m.Spec.Blocks != nil {
			blocksOfImage = strings.Join(sortedKeys(m.Spec.Blocks), ",")
		}
		imageFacts[m.Spec.Name] = map[string]any{"targets": targets, "imports": imports, "fields": fields, "source_locations": locs,
			"fields_with_jstype_and_only_deep_sibling_locations": fieldsWithDeepOnly, "blocks": blocksOfImage}
	}
	r.Set("image_facts", imageFacts)

	// visit the work list with a stride coprime to its length, so that a run cut by the deadline has seen a
	// slice of every block instead of only the first blocks
	stride := 7919
	for gcd(stride, total) != 1 {
		stride++
	}
	r.ParallelFor(total, 0, func(k int) {
		i := int(int64(k) * int64(stride) % int64(total))
		switch {
		case i < nFamily:
			bi := 0
			for offsets[bi+1] <= i {
				bi++
			}
			cfg := blocks[bi].config(i - offsets[bi])
			x.runCase(i, blocks[bi].Name, "v2", cfg.RenderV2(), cfg)
		case i < nFamily+len(cross):
			cfg := cross[i-nFamily]
			x.runCase(i, "cross", "v2", cfg.RenderV2(), cfg)
		case i < nFamily+len(cross)+len(crossOff):
			cfg := crossOff[i-nFamily-len(cross)]
			cfg.Enabled = false
			x.runCase(i, "off", "v2", cfg.RenderV2(), cfg)
		default:
			v := v1[i-nFamily-len(cross)-len(crossOff)]
			x.runCase(i, "v1", "v1", v.RenderV1(), v.ToConfig())
		}
	})

	// managed off: the whole image proto is equal too (one direct check per image, outside the loop)
	for _, m := range x.masters {
		off := Config{Enabled: false, Overrides: []Override{{FileOption: "java_package", Value: "x.y"}}, Disables: []Disable{{Path: pathDir}}}
		managed, err := parseManaged(off.RenderV2())
		if err != nil {
			r.Incomplete("harness: " + err.Error())
			continue
		}
		img, _ := bufimage.CloneImage(m.Image)
		beforeProto, err1 := bufimage.ImageToProtoImage(m.Image)
		if err := bufimagemodify.Modify(img, managed); err != nil {
			r.Violate("modify/error", err.Error(), caseInfo{Image: m.Spec.Name, Config: off.RenderV2()})
			continue
		}
		afterProto, err2 := bufimage.ImageToProtoImage(img)
		if err1 != nil || err2 != nil {
			r.Incomplete("harness: ImageToProtoImage failed")
			continue
		}
		r.Eval(1)
		if !proto.Equal(beforeProto, afterProto) {
			r.Violate("managed-off/image-changed", "managed mode disabled but the image proto differs", caseInfo{Image: m.Spec.Name, Config: off.RenderV2()})
		}
	}

	st := x.ck.st
	cov := map[string]int64{
		"cases":                                  st.cases.Load(),
		"cases_v2":                               st.casesV2.Load(),
		"cases_v1":                               st.casesV1.Load(),
		"cases_managed_off":                      st.casesManagedOff.Load(),
		"file_options_rewritten":                 st.fileOptRewritten.Load(),
		"jstype_rewritten":                       st.jstypeRewritten.Load(),
		"rewritten_to_default":                   st.byDefault.Load(),
		"rewritten_to_last_override":             st.byOverride.Load(),
		"rewritten_to_prefix_suffix_composition": st.byAffix.Load(),
		"several_overrides_match_last_differs":   st.lastOverrideWins.Load(),
		"rewrite_suppressed_by_disable_rule":     st.disableSuppressed.Load(),
		"rewrite_suppressed_because_wkt":         st.wktProtected.Load(),
		"jstype_skipped_not_64bit":               st.not64Skipped.Load(),
		"input_already_has_managed_value":        st.alreadyEqualKept.Load(),
		"srcinfo_option_locations_removed":       st.sciOptionLocRemoved.Load(),
		"srcinfo_option_statements_removed":      st.sciStatementRemoved.Load(),
		"srcinfo_field_option_roots_removed":     st.sciFieldRootRemoved.Load(),
		"srcinfo_field_option_roots_kept":        st.sciRootKept.Load(),
		"srcinfo_files_with_nothing_to_remove":   st.sciFilesUntouched.Load(),
		"frame_file_comparisons":                 st.frameFilesCompared.Load(),
		"config_parse_errors":                    st.parseErrors.Load(),
		// round 2
		"wkt_target_file_in_scope_of_a_rule":                st.wktTargetProtected.Load(),
		"wkt_import_file_in_scope_of_a_rule":                st.wktImportProtected.Load(),
		"options_rewritten_in_non_wkt_import_files":         st.importFileRewritten.Load(),
		"options_rewritten_in_non_wkt_file_under_wkt_dir":   st.underWKTDirRewritten.Load(),
		"srcinfo_root_kept_nearest_sibling_1_below_options": st.sciRootKeptDepth[1].Load(),
		"srcinfo_root_kept_nearest_sibling_2_below_options": st.sciRootKeptDepth[2].Load(),
		"srcinfo_root_kept_nearest_sibling_3_below_options": st.sciRootKeptDepth[3].Load(),
		"srcinfo_root_kept_only_deep_siblings_left":         st.sciRootKeptDeepOnly.Load(),
		"srcinfo_root_removed_only_pseudo_options_left":     st.sciRootPseudoOnly.Load(),
	}
	r.Set("clauses", cov)
	for _, k := range []string{"rewritten_to_default", "rewritten_to_last_override", "rewritten_to_prefix_suffix_composition", "several_overrides_match_last_differs",
		"rewrite_suppressed_by_disable_rule", "rewrite_suppressed_because_wkt", "jstype_rewritten", "jstype_skipped_not_64bit", "input_already_has_managed_value",
		"srcinfo_option_locations_removed", "srcinfo_field_option_roots_removed", "srcinfo_field_option_roots_kept", "cases_v1", "cases_managed_off",
		"wkt_target_file_in_scope_of_a_rule", "wkt_import_file_in_scope_of_a_rule", "options_rewritten_in_non_wkt_import_files",
		"options_rewritten_in_non_wkt_file_under_wkt_dir", "srcinfo_root_kept_nearest_sibling_1_below_options",
		"srcinfo_root_kept_nearest_sibling_2_below_options", "srcinfo_root_kept_nearest_sibling_3_below_options",
		"srcinfo_root_kept_only_deep_siblings_left", "srcinfo_root_removed_only_pseudo_options_left"} {
		if cov[k] == 0 && !r.Expired() {
			r.Incomplete("clause never exercised: " + k)
		}
	}
}
