// Package c18 is the check for property C18 (see DESIGN.md section 3).
package c18
