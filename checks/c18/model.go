package c18

import (
	"fmt"
	"sort"
	"strings"
)

// ---------- abstract configuration (what the enumerator produces; rendered to YAML text for buf) ----------

// Disable is one `managed.disable` rule.
type Disable struct {
	Path        string `json:"path,omitempty"`
	Module      string `json:"module,omitempty"`
	Field       string `json:"field,omitempty"`
	FileOption  string `json:"file_option,omitempty"`
	FieldOption string `json:"field_option,omitempty"`
}

// Override is one `managed.override` rule. Value is the YAML scalar as text; Bool says it is rendered unquoted.
type Override struct {
	Path        string `json:"path,omitempty"`
	Module      string `json:"module,omitempty"`
	Field       string `json:"field,omitempty"`
	FileOption  string `json:"file_option,omitempty"`
	FieldOption string `json:"field_option,omitempty"`
	Value       string `json:"value"`
	Bool        bool   `json:"bool,omitempty"`
}

// Config is an abstract managed-mode configuration in v2 terms: disables are a set, overrides are ordered
// ("if multiple overrides for the same option apply to a file or field, the last rule takes effect";
// "disable ... takes precedence over overrides").
type Config struct {
	Enabled   bool       `json:"enabled"`
	Disables  []Disable  `json:"disable,omitempty"`
	Overrides []Override `json:"override,omitempty"`
}

func yq(s string) string { // YAML double-quoted scalar
	return `"` + strings.ReplaceAll(strings.ReplaceAll(s, `\`, `\\`), `"`, `\"`) + `"`
}

// RenderV2 writes the config as buf.gen.yaml v2 text.
func (c Config) RenderV2() string {
	var sb strings.Builder
	sb.WriteString("version: v2\nmanaged:\n")
	fmt.Fprintf(&sb, "  enabled: %v\n", c.Enabled)
	kv := func(first *bool, k, v string) {
		if v == "" {
			return
		}
		if *first {
			sb.WriteString("    - ")
			*first = false
		} else {
			sb.WriteString("      ")
		}
		sb.WriteString(k + ": " + v + "\n")
	}
	if len(c.Disables) > 0 {
		sb.WriteString("  disable:\n")
		for _, d := range c.Disables {
			first := true
			kv(&first, "file_option", d.FileOption)
			kv(&first, "field_option", d.FieldOption)
			kv(&first, "module", d.Module)
			kv(&first, "path", d.Path)
			kv(&first, "field", d.Field)
		}
	}
	if len(c.Overrides) > 0 {
		sb.WriteString("  override:\n")
		for _, o := range c.Overrides {
			first := true
			kv(&first, "file_option", o.FileOption)
			kv(&first, "field_option", o.FieldOption)
			kv(&first, "module", o.Module)
			kv(&first, "path", o.Path)
			kv(&first, "field", o.Field)
			if o.Bool {
				kv(&first, "value", o.Value)
			} else {
				kv(&first, "value", yq(o.Value))
			}
		}
	}
	sb.WriteString("plugins:\n  - local: protoc-gen-verif\n    out: gen\n")
	return sb.String()
}

// ---------- governed options ----------

type optKind int

const (
	kindString optKind = iota
	kindBool
	kindEnum
)

// family is one governed file option with its optional prefix/suffix pseudo-options.
type family struct {
	Value  string // option name, also the FileOptions field name
	Prefix string // "" if none
	Suffix string
	Num    int32 // FileOptions field number = source path [8, Num]
	Kind   optKind
	// DefaultPrefix is the documented default prefix (java_package: "com"); for every other family the
	// default, if any, is a whole value.
	DefaultPrefix string
	// DefaultLiteral is the documented default for bool/enum families ("" = string family).
	DefaultLiteral string
	// ProtoDefault is what descriptor.proto declares for an unset bool/enum option.
	ProtoDefault string
}

var families = []family{
	{Value: "java_package", Prefix: "java_package_prefix", Suffix: "java_package_suffix", Num: 1, DefaultPrefix: "com"},
	{Value: "java_outer_classname", Num: 8},
	{Value: "java_multiple_files", Num: 10, Kind: kindBool, DefaultLiteral: "true", ProtoDefault: "false"},
	{Value: "java_string_check_utf8", Num: 27, Kind: kindBool, DefaultLiteral: "false", ProtoDefault: "false"},
	{Value: "optimize_for", Num: 9, Kind: kindEnum, DefaultLiteral: "SPEED", ProtoDefault: "SPEED"},
	{Value: "go_package", Prefix: "go_package_prefix", Num: 11},
	{Value: "cc_enable_arenas", Num: 31, Kind: kindBool, DefaultLiteral: "true", ProtoDefault: "true"},
	{Value: "objc_class_prefix", Num: 36},
	{Value: "csharp_namespace", Prefix: "csharp_namespace_prefix", Num: 37},
	{Value: "php_namespace", Num: 41},
	{Value: "php_metadata_namespace", Suffix: "php_metadata_namespace_suffix", Num: 44},
	{Value: "ruby_package", Suffix: "ruby_package_suffix", Num: 45},
}

func familyOf(option string) *family {
	for i := range families {
		f := &families[i]
		if option == f.Value || (f.Prefix != "" && option == f.Prefix) || (f.Suffix != "" && option == f.Suffix) {
			return f
		}
	}
	return nil
}

const jstype = "jstype"

// ---------- the reference model ----------

// optState is the observable state of one option: presence and effective value (as text).
type optState struct {
	Present bool   `json:"present"`
	Value   string `json:"value"` // for unset bool/enum options: the descriptor.proto default
}

// expect is the model's verdict for one option of one file/field.
type expect struct {
	Unchanged bool   // the option must be exactly as in the input
	Value     string // otherwise its effective value must be this
	Why       string // disabled | wkt | no-rule | override | default | affix | not-64bit | empty-result
	// Earlier is the value a "first matching override wins" implementation would have picked (diagnostics only).
	Earlier string
	// Matching is the number of override rules of this family that matched the file.
	Matching int
}

func scopeMatches(rulePath, ruleModule string, filePath string, lit fileLit) bool {
	if rulePath != "" && rulePath != "." && rulePath != filePath && !strings.HasPrefix(filePath, rulePath+"/") {
		return false
	}
	if ruleModule != "" && ruleModule != lit.Module {
		return false
	}
	return true
}

// fileOptionDisabled: a disable rule exempts file option `opt` of a file iff it names no field and no field
// option, names either no file option or this one, and its path/module scope contains the file.
func fileOptionDisabled(c Config, opt, filePath string, lit fileLit) bool {
	for _, d := range c.Disables {
		if d.Field != "" || d.FieldOption != "" {
			continue // a rule about a field / a field option says nothing about file options
		}
		if d.FileOption != "" && d.FileOption != opt {
			continue
		}
		if scopeMatches(d.Path, d.Module, filePath, lit) {
			return true
		}
	}
	return false
}

// modelFileOption computes what managed mode must do to one governed file option of one file.
// baseline gives the default value differentially (state of the option after the rule-free run on the same image).
func modelFileOption(c Config, fam *family, filePath string, lit fileLit, baseline map[string]optState) expect {
	if lit.WKT {
		return expect{Unchanged: true, Why: "wkt"}
	}
	if fileOptionDisabled(c, fam.Value, filePath, lit) {
		return expect{Unchanged: true, Why: "disabled"}
	}
	if fam.Kind != kindString {
		e := expect{Value: fam.DefaultLiteral, Why: "default"}
		for _, o := range c.Overrides {
			if o.FileOption == fam.Value && scopeMatches(o.Path, o.Module, filePath, lit) {
				if e.Matching == 0 {
					e.Earlier = o.Value
				}
				e.Matching++
				e.Value, e.Why = o.Value, "override"
			}
		}
		return e
	}
	usePrefix := fam.Prefix != "" && !fileOptionDisabled(c, fam.Prefix, filePath, lit)
	useSuffix := fam.Suffix != "" && !fileOptionDisabled(c, fam.Suffix, filePath, lit)
	// the overrides of this family that apply to the file, in configuration order
	type hit struct{ kind, value string }
	var hits []hit
	for _, o := range c.Overrides {
		if o.FileOption == "" || !scopeMatches(o.Path, o.Module, filePath, lit) {
			continue
		}
		switch {
		case o.FileOption == fam.Value:
			hits = append(hits, hit{"value", o.Value})
		case usePrefix && o.FileOption == fam.Prefix:
			hits = append(hits, hit{"prefix", o.Value})
		case useSuffix && o.FileOption == fam.Suffix:
			hits = append(hits, hit{"suffix", o.Value})
		}
	}
	lastValue := -1
	for i, h := range hits {
		if h.kind == "value" {
			lastValue = i
		}
	}
	// a whole-value override replaces everything before it; prefix and suffix overrides after it replace the
	// value and combine with each other (last prefix + last suffix)
	var prefix, suffix *string
	for i := lastValue + 1; i < len(hits); i++ {
		v := hits[i].value
		if hits[i].kind == "prefix" {
			prefix = &v
		} else {
			suffix = &v
		}
	}
	e := expect{Matching: len(hits)}
	if len(hits) > 0 {
		e.Earlier = hits[0].kind + ":" + hits[0].value
	}
	if prefix == nil && suffix == nil {
		if lastValue >= 0 {
			e.Value, e.Why = hits[lastValue].value, "override"
			return e
		}
		if fam.DefaultPrefix != "" && !usePrefix {
			// the only default of this family is its prefix, and the prefix is exempted: nothing governs the option
			return expect{Unchanged: true, Why: "no-rule"}
		}
		b := baseline[fam.Value]
		if !b.Present {
			return expect{Unchanged: true, Why: "no-rule"}
		}
		e.Value, e.Why = b.Value, "default"
		return e
	}
	p, s := "", ""
	if prefix != nil {
		p = *prefix
	} else if lastValue < 0 && usePrefix {
		p = fam.DefaultPrefix
	}
	if suffix != nil {
		s = *suffix
	}
	v := affixValue(fam, filePath, lit, baseline, p, s)
	if v == "" {
		return expect{Unchanged: true, Why: "empty-result", Matching: len(hits)}
	}
	e.Value, e.Why = v, "affix"
	return e
}

// affixValue is the documented composition of a prefix/suffix with the package-derived part.
func affixValue(fam *family, filePath string, lit fileLit, baseline map[string]optState, prefix, suffix string) string {
	switch fam.Value {
	case "java_package":
		if lit.Package == "" {
			return ""
		}
		parts := []string{}
		for _, x := range []string{prefix, lit.Package, suffix} {
			if x != "" {
				parts = append(parts, x)
			}
		}
		return strings.Join(parts, ".")
	case "go_package":
		if prefix == "" {
			return ""
		}
		dir := ""
		if i := strings.LastIndex(filePath, "/"); i >= 0 {
			dir = filePath[:i]
		}
		v := prefix
		if dir != "" {
			v += "/" + dir
		}
		return v + lit.GoSuffix
	case "csharp_namespace":
		if lit.Package == "" {
			return ""
		}
		return prefix + "." + lit.Defaults["csharp_namespace"]
	case "php_metadata_namespace":
		if lit.Package == "" {
			return ""
		}
		return lit.Defaults["php_namespace"] + `\` + suffix
	case "ruby_package":
		if lit.Package == "" {
			return ""
		}
		return lit.Defaults["ruby_package"] + "::" + suffix
	}
	return ""
}

// modelJSType computes what managed mode must do to the jstype option of one field.
func modelJSType(c Config, filePath string, lit fileLit, f fieldInfo) expect {
	if lit.WKT {
		return expect{Unchanged: true, Why: "wkt"}
	}
	if !f.Is64 {
		return expect{Unchanged: true, Why: "not-64bit"}
	}
	for _, d := range c.Disables {
		optionApplies := d.FieldOption == jstype || (d.FieldOption == "" && d.FileOption == "")
		if optionApplies && scopeMatches(d.Path, d.Module, filePath, lit) && (d.Field == "" || d.Field == f.FullName) {
			return expect{Unchanged: true, Why: "disabled"}
		}
	}
	e := expect{Unchanged: true, Why: "no-rule"}
	for _, o := range c.Overrides {
		if o.FieldOption == jstype && scopeMatches(o.Path, o.Module, filePath, lit) && (o.Field == "" || o.Field == f.FullName) {
			if e.Matching == 0 {
				e.Earlier = o.Value
			}
			e.Matching++
			e.Unchanged, e.Value, e.Why = false, o.Value, "override"
		}
	}
	return e
}

// ---------- buf.gen.yaml v1 ----------

// V1Config is an abstract v1 `managed:` section. Its documented meaning: per option, `default` applies to all
// files, `override` (by module) beats `default`, the top-level per-file `override` beats both, and a module
// listed in `except` is not touched for that option at all.
type V1Config struct {
	Enabled             bool
	CcEnableArenas      string // "", "true", "false"
	JavaMultipleFiles   string
	JavaStringCheckUtf8 string
	JavaPackagePrefix   V1Option
	JavaPackagePlain    bool // render java_package_prefix as a plain string (Default only)
	CsharpNamespace     V1Option
	OptimizeFor         V1Option
	OptimizeForPlain    bool
	GoPackagePrefix     V1Option
	ObjcClassPrefix     V1Option
	RubyPackage         V1Option
	// PerFile maps an option key (upper case in the file) -> file path -> value text
	PerFile map[string]map[string]string
}

// V1Option is one `{default, except, override}` block.
type V1Option struct {
	Default  string
	Except   []string
	Override map[string]string
}

func (o V1Option) empty() bool { return o.Default == "" && len(o.Except) == 0 && len(o.Override) == 0 }

func sortedKeys[V any](m map[string]V) []string {
	k := make([]string, 0, len(m))
	for x := range m {
		k = append(k, x)
	}
	sort.Strings(k)
	return k
}

// RenderV1 writes buf.gen.yaml v1 text. Map entries are written in REVERSE key order so that nothing
// depends on the order of the text.
func (c V1Config) RenderV1() string {
	var sb strings.Builder
	sb.WriteString("version: v1\nmanaged:\n")
	fmt.Fprintf(&sb, "  enabled: %v\n", c.Enabled)
	scalar := func(k, v string) {
		if v != "" {
			fmt.Fprintf(&sb, "  %s: %s\n", k, v)
		}
	}
	rev := func(keys []string) []string {
		out := append([]string(nil), keys...)
		sort.Sort(sort.Reverse(sort.StringSlice(out)))
		return out
	}
	block := func(k string, o V1Option, plain bool) {
		if o.empty() {
			return
		}
		if plain {
			fmt.Fprintf(&sb, "  %s: %s\n", k, yq(o.Default))
			return
		}
		fmt.Fprintf(&sb, "  %s:\n", k)
		if o.Default != "" {
			fmt.Fprintf(&sb, "    default: %s\n", yq(o.Default))
		}
		if len(o.Except) > 0 {
			sb.WriteString("    except:\n")
			for _, m := range o.Except {
				fmt.Fprintf(&sb, "      - %s\n", m)
			}
		}
		if len(o.Override) > 0 {
			sb.WriteString("    override:\n")
			for _, m := range rev(sortedKeys(o.Override)) {
				fmt.Fprintf(&sb, "      %s: %s\n", m, yq(o.Override[m]))
			}
		}
	}
	// per-file overrides first in the text, although they have the highest precedence
	if len(c.PerFile) > 0 {
		sb.WriteString("  override:\n")
		for _, opt := range rev(sortedKeys(c.PerFile)) {
			fmt.Fprintf(&sb, "    %s:\n", strings.ToUpper(opt))
			for _, p := range rev(sortedKeys(c.PerFile[opt])) {
				fmt.Fprintf(&sb, "      %s: %s\n", p, yq(c.PerFile[opt][p]))
			}
		}
	}
	block("ruby_package", c.RubyPackage, false)
	block("objc_class_prefix", c.ObjcClassPrefix, false)
	block("go_package_prefix", c.GoPackagePrefix, false)
	block("optimize_for", c.OptimizeFor, c.OptimizeForPlain)
	block("csharp_namespace", c.CsharpNamespace, false)
	block("java_package_prefix", c.JavaPackagePrefix, c.JavaPackagePlain)
	scalar("java_string_check_utf8", c.JavaStringCheckUtf8)
	scalar("java_multiple_files", c.JavaMultipleFiles)
	scalar("cc_enable_arenas", c.CcEnableArenas)
	sb.WriteString("plugins:\n  - plugin: verif\n    out: gen\n")
	return sb.String()
}

// ToConfig states the meaning of a v1 section in terms of ordered rules: lowest precedence first
// (defaults, then per-module overrides, then per-file overrides); `except` becomes a disable rule of the
// governed option for that module.
func (c V1Config) ToConfig() Config {
	out := Config{Enabled: c.Enabled}
	isBool := map[string]bool{"cc_enable_arenas": true, "java_multiple_files": true, "java_string_check_utf8": true}
	var defaults, perModule, perFile []Override
	addBool := func(opt, v string) {
		if v != "" {
			defaults = append(defaults, Override{FileOption: opt, Value: v, Bool: true})
		}
	}
	addBool("cc_enable_arenas", c.CcEnableArenas)
	addBool("java_multiple_files", c.JavaMultipleFiles)
	addBool("java_string_check_utf8", c.JavaStringCheckUtf8)
	addBlock := func(exceptOpt, overrideOpt string, o V1Option) {
		if o.Default != "" {
			defaults = append(defaults, Override{FileOption: overrideOpt, Value: o.Default})
		}
		for _, m := range o.Except {
			out.Disables = append(out.Disables, Disable{Module: m, FileOption: exceptOpt})
		}
		for _, m := range sortedKeys(o.Override) {
			perModule = append(perModule, Override{Module: m, FileOption: overrideOpt, Value: o.Override[m]})
		}
	}
	addBlock("java_package", "java_package_prefix", c.JavaPackagePrefix)
	addBlock("csharp_namespace", "csharp_namespace", c.CsharpNamespace)
	addBlock("optimize_for", "optimize_for", c.OptimizeFor)
	addBlock("go_package", "go_package_prefix", c.GoPackagePrefix)
	addBlock("objc_class_prefix", "objc_class_prefix", c.ObjcClassPrefix)
	addBlock("ruby_package", "ruby_package", c.RubyPackage)
	for _, opt := range sortedKeys(c.PerFile) {
		for _, p := range sortedKeys(c.PerFile[opt]) {
			perFile = append(perFile, Override{Path: p, FileOption: opt, Value: c.PerFile[opt][p], Bool: isBool[opt]})
		}
	}
	out.Overrides = append(append(defaults, perModule...), perFile...)
	return out
}
