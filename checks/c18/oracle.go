package c18

import (
	"fmt"
	"slices"
	"strings"
	"sync/atomic"

	"github.com/bufbuild/bufverif/internal/evid"
	"google.golang.org/protobuf/proto"
	"google.golang.org/protobuf/reflect/protoreflect"
	"google.golang.org/protobuf/types/descriptorpb"
)

var (
	fileOptionsDesc  = (&descriptorpb.FileOptions{}).ProtoReflect().Descriptor()
	fieldOptionsDesc = (&descriptorpb.FieldOptions{}).ProtoReflect().Descriptor()
	jstypeField      = fieldOptionsDesc.Fields().ByNumber(6)
)

func valueText(fd protoreflect.FieldDescriptor, v protoreflect.Value) string {
	switch fd.Kind() {
	case protoreflect.BoolKind:
		if v.Bool() {
			return "true"
		}
		return "false"
	case protoreflect.EnumKind:
		if ev := fd.Enum().Values().ByNumber(v.Enum()); ev != nil {
			return string(ev.Name())
		}
		return fmt.Sprintf("%d", v.Enum())
	default:
		return v.String()
	}
}

func textValue(fd protoreflect.FieldDescriptor, s string) protoreflect.Value {
	switch fd.Kind() {
	case protoreflect.BoolKind:
		return protoreflect.ValueOfBool(s == "true")
	case protoreflect.EnumKind:
		if ev := fd.Enum().Values().ByName(protoreflect.Name(s)); ev != nil {
			return protoreflect.ValueOfEnum(ev.Number())
		}
		return protoreflect.ValueOfEnum(0)
	default:
		return protoreflect.ValueOfString(s)
	}
}

func fileOptState(fd *descriptorpb.FileDescriptorProto, fam *family) optState {
	f := fileOptionsDesc.Fields().ByNumber(protoreflect.FieldNumber(fam.Num))
	m := fd.GetOptions().ProtoReflect()
	return optState{Present: fd.Options != nil && m.Has(f), Value: valueText(f, m.Get(f))}
}

func setFileOptState(fd *descriptorpb.FileDescriptorProto, fam *family, st optState) {
	f := fileOptionsDesc.Fields().ByNumber(protoreflect.FieldNumber(fam.Num))
	if !st.Present {
		if fd.Options != nil {
			fd.Options.ProtoReflect().Clear(f)
		}
		return
	}
	if fd.Options == nil {
		fd.Options = &descriptorpb.FileOptions{}
	}
	fd.Options.ProtoReflect().Set(f, textValue(f, st.Value))
}

func jstypeState(f *descriptorpb.FieldDescriptorProto) optState {
	m := f.GetOptions().ProtoReflect()
	return optState{Present: f.Options != nil && m.Has(jstypeField), Value: valueText(jstypeField, m.Get(jstypeField))}
}

func setJSTypeState(f *descriptorpb.FieldDescriptorProto, st optState) {
	if !st.Present {
		if f.Options != nil {
			f.Options.ProtoReflect().Clear(jstypeField)
		}
		return
	}
	if f.Options == nil {
		f.Options = &descriptorpb.FieldOptions{}
	}
	f.Options.ProtoReflect().Set(jstypeField, textValue(jstypeField, st.Value))
}

// stats are the per-clause coverage counters (non-vacuity).
type stats struct {
	cases, casesV1, casesV2, casesManagedOff                                   atomic.Int64
	fileOptRewritten, jstypeRewritten                                          atomic.Int64
	byDefault, byOverride, byAffix                                             atomic.Int64
	lastOverrideWins                                                           atomic.Int64 // >=2 matching overrides and the first would have given another value
	disableSuppressed                                                          atomic.Int64 // option exempted by a disable rule that would otherwise have been rewritten
	wktProtected                                                               atomic.Int64 // option of a WKT file that would have been rewritten were the file not a WKT
	alreadyEqualKept                                                           atomic.Int64 // governed option whose input already has the managed value (must keep its source info)
	not64Skipped                                                               atomic.Int64 // jstype override matching a field that is not a 64-bit integer
	sciOptionLocRemoved, sciStatementRemoved, sciFieldRootRemoved, sciRootKept atomic.Int64
	sciFilesUntouched                                                          atomic.Int64
	// round 2: (WKT?) x (import?) and the shape of the option list left behind by a swept jstype
	wktTargetProtected, wktImportProtected atomic.Int64    // a rule applied to a WKT file that is a target / an import
	importFileRewritten                    atomic.Int64    // governed option rewritten in a non-WKT import file
	underWKTDirRewritten                   atomic.Int64    // governed option rewritten in a non-WKT file below google/protobuf/
	sciRootKeptDepth                       [4]atomic.Int64 // root kept; shallowest surviving sibling is 1, 2, >=3 path elements below FieldOptions
	sciRootKeptDeepOnly                    atomic.Int64    // root kept and EVERY surviving sibling location is >=2 elements below FieldOptions
	sciRootPseudoOnly                      atomic.Int64    // jstype swept from a list whose other entries are default/json_name only (root goes)
	frameFilesCompared                     atomic.Int64
	parseErrors                            atomic.Int64
}

// caseInfo identifies a case in a violation record.
type caseInfo struct {
	Image   string `json:"image"`
	Form    string `json:"form"` // v1 | v2
	Config  string `json:"buf_gen_yaml"`
	File    string `json:"file,omitempty"`
	Option  string `json:"option,omitempty"`
	Field   string `json:"field,omitempty"`
	Before  any    `json:"before,omitempty"`
	After   any    `json:"after,omitempty"`
	Expect  any    `json:"expected,omitempty"`
	Details string `json:"details,omitempty"`
}

type checker struct {
	r  *evid.Run
	st *stats
}

// fieldOnlyRuleInScope: a disable rule that names a field but no option, whose path/module scope contains the file.
func fieldOnlyRuleInScope(c Config, filePath string, lit fileLit) bool {
	for _, d := range c.Disables {
		if d.Field != "" && d.FileOption == "" && d.FieldOption == "" && scopeMatches(d.Path, d.Module, filePath, lit) {
			return true
		}
	}
	return false
}

func describeExpect(e expect) string {
	if e.Unchanged {
		return "unchanged (" + e.Why + ")"
	}
	return fmt.Sprintf("%q (%s)", e.Value, e.Why)
}

// judge compares one option's before/after states with the model. It returns whether the option was rewritten.
func (ck *checker) judge(ci caseInfo, optName string, before, got optState, e expect, baselineValue string, fieldOnlyRule bool) bool {
	rewritten := before != got
	ci.Option, ci.Before, ci.After, ci.Expect = optName, before, got, describeExpect(e)
	if e.Unchanged {
		if rewritten {
			ck.r.Violate("value/"+optName+"/changed-though-"+e.Why,
				fmt.Sprintf("%s of %s %s was changed from %+v to %+v although the model says it must be left as in the input (%s)", optName, ci.File, ci.Field, before, got, e.Why), ci)
		}
		return rewritten
	}
	if got.Value != e.Value {
		actual := "other-value"
		switch {
		case !rewritten:
			actual = "not-modified"
		case e.Matching >= 2 && e.Earlier != "" && strings.HasSuffix(e.Earlier, got.Value):
			actual = "earlier-override-won"
		case got.Value == baselineValue:
			actual = "default-applied"
		}
		sig := "value/" + optName + "/expected-" + e.Why + "/" + actual
		if actual == "not-modified" && fieldOnlyRule && optName != jstype {
			// one defect, whatever the option: keep one signature
			sig = "disable/field-only-rule-exempts-file-options"
		}
		ck.r.Violate(sig, fmt.Sprintf("%s of %s %s is %+v after managed mode (was %+v); expected effective value %q by %s", optName, ci.File, ci.Field, got, before, e.Value, e.Why), ci)
		return rewritten
	}
	if rewritten && !got.Present {
		ck.r.Violate("value/"+optName+"/presence-dropped", fmt.Sprintf("%s of %s %s was explicitly set (%+v) and is now unset", optName, ci.File, ci.Field, before), ci)
	}
	switch e.Why {
	case "default":
		if rewritten {
			ck.st.byDefault.Add(1)
		}
	case "override":
		if rewritten {
			ck.st.byOverride.Add(1)
		}
	case "affix":
		if rewritten {
			ck.st.byAffix.Add(1)
		}
	}
	if !rewritten && before.Present {
		ck.st.alreadyEqualKept.Add(1)
	}
	if e.Matching >= 2 && e.Earlier != "" && !strings.HasSuffix(e.Earlier, e.Value) {
		ck.st.lastOverrideWins.Add(1)
	}
	return rewritten
}

func withoutDisables(c Config) Config { c.Disables = nil; return c }

// checkFile checks one file of one case. `after` belongs to the case and is mutated (reverted) by the check.
// It returns whether the case was non-trivial for this file.
func (ck *checker) checkFile(ci caseInfo, m *master, mf *masterFile, after *descriptorpb.FileDescriptorProto, cfg Config) bool {
	ci.File = mf.Path
	if !cfg.Enabled {
		if !proto.Equal(mf.Desc, after) {
			ck.r.Violate("managed-off/file-changed", "managed mode is disabled but the file descriptor differs from the input: "+firstDiff(mf.Desc, after), ci)
		}
		return false
	}
	if mf.Lit.WKT {
		// well-known types: nothing at all may change (the model's verdict for every option is "unchanged")
		if !proto.Equal(mf.Desc, after) {
			ci.Details = firstDiff(mf.Desc, after)
			ck.r.Violate("frame/wkt-file-changed", "a well-known-type file differs from the input: "+ci.Details, ci)
		}
		for _, o := range cfg.Overrides {
			if scopeMatches(o.Path, o.Module, mf.Path, fileLit{Module: mf.Lit.Module}) {
				ck.st.wktProtected.Add(1)
				if mf.IsImport {
					ck.st.wktImportProtected.Add(1)
				} else {
					ck.st.wktTargetProtected.Add(1)
				}
				return true
			}
		}
		return false
	}
	nontrivial := false
	baseline := m.Baseline[mf.Path]
	fieldOnly := fieldOnlyRuleInScope(cfg, mf.Path, mf.Lit)
	noDis := withoutDisables(cfg)
	// ---- governed file options
	rewrittenNums := map[int32]bool{}
	for i := range families {
		fam := &families[i]
		before, got := fileOptState(mf.Desc, fam), fileOptState(after, fam)
		e := modelFileOption(cfg, fam, mf.Path, mf.Lit, baseline)
		if ck.judge(ci, fam.Value, before, got, e, baseline[fam.Value].Value, fieldOnly) {
			rewrittenNums[fam.Num] = true
			ck.st.fileOptRewritten.Add(1)
			if mf.IsImport {
				ck.st.importFileRewritten.Add(1)
			}
			if strings.HasPrefix(mf.Path, pathWKT+"/") {
				ck.st.underWKTDirRewritten.Add(1)
			}
			nontrivial = true
			setFileOptState(after, fam, before) // revert, so that the frame comparison below sees only non-governed differences
		}
		if e.Unchanged && (e.Why == "disabled" || e.Why == "wkt") {
			// would the option have been rewritten without the exemption? (coverage only)
			var e2 expect
			if e.Why == "wkt" {
				lit := mf.Lit
				lit.WKT = false
				e2 = modelFileOption(cfg, fam, mf.Path, lit, baseline)
			} else {
				e2 = modelFileOption(noDis, fam, mf.Path, mf.Lit, baseline)
			}
			if !e2.Unchanged && e2.Value != before.Value {
				if e.Why == "wkt" {
					ck.st.wktProtected.Add(1)
				} else {
					ck.st.disableSuppressed.Add(1)
				}
				nontrivial = true
			}
		}
	}
	if mf.Desc.Options == nil && after.Options != nil && len(rewrittenNums) > 0 && proto.Size(after.Options) == 0 {
		after.Options = nil // the options message was created only to hold governed options
	}
	// ---- jstype of every field
	afterFields := collectFields(after)
	var rewrittenFields []int
	if len(afterFields) != len(mf.Fields) {
		ck.r.Violate("frame/field-set-changed", fmt.Sprintf("%s: %d fields before, %d after", mf.Path, len(mf.Fields), len(afterFields)), ci)
	} else {
		beforeFields := mf.FieldPtrs
		for i, info := range mf.Fields {
			if afterFields[i].GetName() != beforeFields[i].GetName() {
				ck.r.Violate("frame/field-set-changed", fmt.Sprintf("%s: field %d is %s, was %s", mf.Path, i, afterFields[i].GetName(), info.FullName), ci)
				break
			}
			before, got := jstypeState(beforeFields[i]), jstypeState(afterFields[i])
			e := modelJSType(cfg, mf.Path, mf.Lit, info)
			fci := ci
			fci.Field = info.FullName
			if ck.judge(fci, jstype, before, got, e, "", false) {
				ck.st.jstypeRewritten.Add(1)
				nontrivial = true
				rewrittenFields = append(rewrittenFields, i)
				if mf.IsImport {
					ck.st.importFileRewritten.Add(1)
				}
				setJSTypeState(afterFields[i], before)
				if beforeFields[i].Options == nil && afterFields[i].Options != nil && proto.Size(afterFields[i].Options) == 0 {
					afterFields[i].Options = nil
				}
			}
			if e.Unchanged && e.Why != "no-rule" {
				// would the option have been rewritten without the exemption? (coverage only)
				lit, inf, c2 := mf.Lit, info, cfg
				switch e.Why {
				case "wkt":
					lit.WKT = false
				case "not-64bit":
					inf.Is64 = true
				case "disabled":
					c2 = noDis
				}
				if e2 := modelJSType(c2, mf.Path, lit, inf); !e2.Unchanged && (!before.Present || e2.Value != before.Value) {
					switch e.Why {
					case "wkt":
						ck.st.wktProtected.Add(1)
					case "disabled":
						ck.st.disableSuppressed.Add(1)
					case "not-64bit":
						ck.st.not64Skipped.Add(1)
					}
					nontrivial = true
				}
			}
		}
	}
	// ---- frame: with the governed options reverted, everything but source info must equal the input
	afterSCI := after.SourceCodeInfo
	after.SourceCodeInfo = nil
	ck.st.frameFilesCompared.Add(1)
	if !proto.Equal(mf.NoSCI, after) {
		ci2 := ci
		ci2.Details = firstDiff(mf.NoSCI, after)
		sig := "frame/non-governed-change"
		if mf.Lit.WKT {
			sig = "frame/wkt-file-changed"
		}
		ck.r.Violate(sig, "something other than a governed option differs from the input: "+ci2.Details, ci2)
	}
	// ---- source info
	ck.checkSCI(ci, mf, afterSCI, rewrittenNums, rewrittenFields)
	return nontrivial
}

// firstDiff names the first top-level field of two messages that differs (for the record only).
func firstDiff(a, b proto.Message) string {
	ra, rb := a.ProtoReflect(), b.ProtoReflect()
	fields := ra.Descriptor().Fields()
	for i := 0; i < fields.Len(); i++ {
		f := fields.Get(i)
		ca, cb := proto.Clone(a), proto.Clone(b)
		// compare the messages reduced to this one field
		reduce := func(m protoreflect.Message) {
			m.Range(func(fd protoreflect.FieldDescriptor, _ protoreflect.Value) bool {
				if fd.Number() != f.Number() {
					m.Clear(fd)
				}
				return true
			})
			m.SetUnknown(nil)
		}
		reduce(ca.ProtoReflect())
		reduce(cb.ProtoReflect())
		if !proto.Equal(ca, cb) {
			if f.Message() != nil && !f.IsList() && !f.IsMap() && ra.Has(f) && rb.Has(f) {
				// a singular sub-message (the options): name the differing field inside it
				return fmt.Sprintf("field %s: %s", f.Name(), firstDiff(ra.Get(f).Message().Interface(), rb.Get(f).Message().Interface()))
			}
			sa, sb := fmt.Sprint(ra.Get(f).Interface()), fmt.Sprint(rb.Get(f).Interface())
			if len(sa) > 300 {
				sa = sa[:300] + "…"
			}
			if len(sb) > 300 {
				sb = sb[:300] + "…"
			}
			return fmt.Sprintf("field %s: before=%s after=%s", f.Name(), sa, sb)
		}
	}
	if !slices.Equal(ra.GetUnknown(), rb.GetUnknown()) {
		return "unknown fields differ"
	}
	return "no top-level difference found"
}

func sameLocation(a, b *descriptorpb.SourceCodeInfo_Location) bool {
	return slices.Equal(a.Path, b.Path) && slices.Equal(a.Span, b.Span) &&
		a.GetLeadingComments() == b.GetLeadingComments() && (a.LeadingComments == nil) == (b.LeadingComments == nil) &&
		a.GetTrailingComments() == b.GetTrailingComments() && (a.TrailingComments == nil) == (b.TrailingComments == nil) &&
		slices.Equal(a.LeadingDetachedComments, b.LeadingDetachedComments) && len(a.ProtoReflect().GetUnknown()) == 0 && len(b.ProtoReflect().GetUnknown()) == 0
}

// role names the structural role of a source location of the input (for signatures).
func (mf *masterFile) role(i int) string {
	p := mf.Desc.SourceCodeInfo.Location[i].Path
	key := mf.LocKeys[i]
	if len(p) == 1 && p[0] == 8 {
		return "file-option-statement"
	}
	if len(p) >= 2 && p[0] == 8 {
		for j := range families {
			if families[j].Num == p[1] && len(p) == 2 {
				return "file-option:" + families[j].Value
			}
		}
		return "file-option:not-governed"
	}
	for _, f := range mf.Fields {
		root := pathKey(f.Path) + ",8"
		if key == root {
			for _, k := range mf.LocKeys {
				if strings.HasPrefix(k, root+",") {
					return "field-options-root"
				}
			}
			return "field-options-root-without-option-locations"
		}
		if strings.HasPrefix(key, root+",") {
			if key == root+",6" {
				return "field-option:jstype"
			}
			return "field-option:not-governed"
		}
	}
	return "not-an-option"
}

// checkSCI: the locations removed from the file's SourceCodeInfo must be exactly those of the rewritten
// options: `[8,N]` plus the `[8]` of its `option` statement for a file option; `<field>,8,6` for jstype, plus
// `<field>,8` when the removal leaves the field's option list without any location.
func (ck *checker) checkSCI(ci caseInfo, mf *masterFile, after *descriptorpb.SourceCodeInfo, rewrittenNums map[int32]bool, rewrittenFields []int) {
	before := mf.Desc.SourceCodeInfo
	if before == nil {
		if after != nil {
			ck.r.Violate("srcinfo/created", mf.Path+": the input has no SourceCodeInfo, the output has", ci)
		}
		return
	}
	if after == nil {
		ck.r.Violate("srcinfo/dropped", mf.Path+": SourceCodeInfo removed entirely", ci)
		return
	}
	expected := map[int]bool{}
	for i, l := range before.Location {
		if len(l.Path) == 2 && l.Path[0] == 8 && rewrittenNums[l.Path[1]] {
			expected[i] = true
			expected[mf.parentOf[i]] = true
			ck.st.sciOptionLocRemoved.Add(1)
			ck.st.sciStatementRemoved.Add(1)
		}
	}
	for _, fi := range rewrittenFields {
		fl := &mf.FieldLocs[fi]
		if len(fl.JSType) == 0 {
			continue // jstype was not written in the source: nothing of this field has a location to lose
		}
		for _, i := range fl.JSType {
			expected[i] = true
			ck.st.sciOptionLocRemoved.Add(1)
		}
		// the `[...]` location goes iff no option location below it is left (Other never holds a removed one:
		// the only governed field option is jstype)
		if len(fl.Other) > 0 {
			ck.st.sciRootKept.Add(int64(len(fl.Root)))
			d := fl.MinOtherDepth
			if d > 3 {
				d = 3
			}
			ck.st.sciRootKeptDepth[d].Add(1)
			if fl.MinOtherDepth >= 2 {
				ck.st.sciRootKeptDeepOnly.Add(1)
			}
		} else {
			for _, i := range fl.Root {
				expected[i] = true
				ck.st.sciFieldRootRemoved.Add(1)
			}
			if fl.Pseudo {
				ck.st.sciRootPseudoOnly.Add(1)
			}
		}
	}
	if len(expected) == 0 {
		ck.st.sciFilesUntouched.Add(1)
	}
	// which input locations are gone: the output must be a subsequence of the input
	actual := map[int]bool{}
	j := 0
	for i, l := range before.Location {
		if j < len(after.Location) && sameLocation(l, after.Location[j]) {
			j++
		} else {
			actual[i] = true
		}
	}
	if j != len(after.Location) {
		ci.Details = fmt.Sprintf("output location %d (path %v span %v) is not an input location in input order", j, after.Location[j].Path, after.Location[j].Span)
		ck.r.Violate("srcinfo/not-a-subsequence", mf.Path+": the output locations are not a subsequence of the input locations: "+ci.Details, ci)
		return
	}
	for i := range before.Location {
		if actual[i] == expected[i] {
			continue
		}
		l := before.Location[i]
		ci2 := ci
		if actual[i] {
			ci2.Details = fmt.Sprintf("location #%d path %v span %v was removed; rewritten file options %v, rewritten fields %v", i, l.Path, l.Span, sortedNums(rewrittenNums), mf.fieldNames(rewrittenFields))
			ck.r.Violate("srcinfo/extra-removed/"+mf.role(i), mf.Path+": a source location was removed that does not belong to a rewritten option: "+ci2.Details, ci2)
		} else {
			ci2.Details = fmt.Sprintf("location #%d path %v span %v was kept; rewritten file options %v, rewritten fields %v", i, l.Path, l.Span, sortedNums(rewrittenNums), mf.fieldNames(rewrittenFields))
			ck.r.Violate("srcinfo/not-removed/"+mf.role(i), mf.Path+": the source location of a rewritten option (or its emptied parent) was kept: "+ci2.Details, ci2)
		}
	}
}

func (mf *masterFile) fieldNames(idx []int) []string {
	out := make([]string, 0, len(idx))
	for n, i := range idx {
		if n == 8 {
			out = append(out, fmt.Sprintf("... %d more", len(idx)-n))
			break
		}
		out = append(out, mf.Fields[i].FullName)
	}
	return out
}

func sortedNums(m map[int32]bool) []int32 {
	var out []int32
	for n := range m {
		out = append(out, n)
	}
	slices.Sort(out)
	return out
}
