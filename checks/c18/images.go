package c18

import (
	"context"
	"fmt"
	"strings"

	"github.com/bufbuild/buf/private/bufpkg/bufimage"
	"github.com/bufbuild/bufverif/internal/bufx"
	"google.golang.org/protobuf/proto"
	"google.golang.org/protobuf/types/descriptorpb"
)

// Names used by rule alphabets; every fixture image has acme/one/v1/one.proto with message
// acme.one.v1.One and int64 fields a and b, so the same rule text is meaningful on every image.
const (
	moduleOne = "buf.build/acme/one"
	moduleTwo = "buf.build/acme/two"
	pathDir   = "acme/one/v1"           // directory; acme/one/v1x is the prefix trap next to it
	pathFile  = "acme/one/v1/one.proto" // exact file
	pathWKT   = "google/protobuf"       // directory of the well-known types
	fieldA    = "acme.one.v1.One.a"
	fieldB    = "acme.one.v1.One.b"
)

// fileLit is what the harness author knows about a fixture file, written down by hand
// (never computed by buf): identity used for rule matching and the documented managed-mode defaults.
type fileLit struct {
	Module   string            // module full name as written in the fixture's buf.yaml ("" = unnamed)
	Package  string            // proto package
	WKT      bool              // google/protobuf/*.proto shipped with buf
	GoSuffix string            // ";<name><version>" part managed mode appends to go_package for versioned packages
	Defaults map[string]string // documented defaults under `managed: {enabled: true}` (options absent here are not modified by default)
}

type imageSpec struct {
	Name       string
	Files      map[string]string
	NoSrcInfo  bool
	Lits       map[string]fileLit // by image path
	StripSCIOf []string           // imports whose source info is dropped from the fixture to keep cloning cheap
	// OnlyPaths, if set, narrows the built image with bufimage.ImageWithOnlyPaths: the named files stay
	// targets, every other file that is still needed becomes an import (what `buf generate --path` does).
	OnlyPaths []string
	// Blocks, if set, restricts the image to the named configuration blocks (family name, cross, off, v1).
	Blocks map[string]bool
	// Imports lists, by hand, the files that must be imports of the built image (harness sanity).
	Imports map[string]bool
}

func (s *imageSpec) runsIn(block string) bool { return s.Blocks == nil || s.Blocks[block] }

// wktPaths: the well-known-type files used by the fixtures, written down by hand.
var wktPaths = map[string]bool{
	"google/protobuf/descriptor.proto": true,
	"google/protobuf/timestamp.proto":  true,
	"google/protobuf/duration.proto":   true,
}

func defaultsFor(pkgJava, outer, objc, csharp, php, ruby string) map[string]string {
	m := map[string]string{
		"java_outer_classname": outer,
		"java_multiple_files":  "true",
	}
	if pkgJava != "" {
		m["java_package"] = pkgJava
		m["objc_class_prefix"] = objc
		m["csharp_namespace"] = csharp
		m["php_namespace"] = php
		m["php_metadata_namespace"] = php + `\GPBMetadata`
		m["ruby_package"] = ruby
	}
	return m
}

var oneV1Defaults = func(outer string) map[string]string {
	return defaultsFor("com.acme.one.v1", outer, "AOX", "Acme.One.V1", `Acme\One\V1`, "Acme::One::V1")
}

var wktLit = fileLit{WKT: true}

func imageSpecs() []imageSpec {
	return append([]imageSpec{
		{
			Name:      "A-plain",
			NoSrcInfo: true,
			Files: map[string]string{
				"acme/one/v1/one.proto": `syntax = "proto3";
package acme.one.v1;
message One {
  int64 a = 1;
  int64 b = 2;
  string name = 3;
  uint64 n = 4;
  message Inner { sfixed64 x = 1; int32 small = 2; }
  oneof o { fixed64 f = 5; sint64 s = 6; }
  map<int64, string> m = 7;
  Inner inner = 8;
}
`,
				"nopkg.proto": `syntax = "proto3";
message Bare { int64 q = 1; int32 small = 2; }
`,
			},
			Lits: map[string]fileLit{
				"acme/one/v1/one.proto": {Package: "acme.one.v1", GoSuffix: ";onev1", Defaults: oneV1Defaults("OneProto")},
				"nopkg.proto":           {Defaults: defaultsFor("", "NopkgProto", "", "", "", "")},
			},
		},
		{
			Name: "B-preset",
			Files: map[string]string{
				"buf.yaml": "version: v2\nmodules:\n  - path: .\n    name: " + moduleOne + "\n",
				"acme/one/v1/one.proto": `syntax = "proto2";
package acme.one.v1;
// every governed option is pre-set to a value managed mode would not choose
option java_package = "pre.set";
option java_outer_classname = "PreOuter";
option java_multiple_files = false;
option java_string_check_utf8 = true;
option optimize_for = CODE_SIZE;
option go_package = "example.com/pre;prepb";
option cc_enable_arenas = false;
option objc_class_prefix = "PRE";
option csharp_namespace = "Pre.Set";
option php_namespace = "Pre\\Set";
option php_metadata_namespace = "Pre\\Meta";
option ruby_package = "Pre::Set";
// not governed by managed mode
option deprecated = false;
option php_class_prefix = "Keep";
message One {
  optional int64 a = 1 [jstype = JS_NUMBER];
  optional int64 b = 2 [jstype = JS_STRING, deprecated = true];
  optional int64 c = 3 [deprecated = true];
  optional int64 d = 4 [default = 5];
  optional int64 e = 5 [json_name = "ee"];
  optional string s = 6 [ctype = CORD];
  optional int64 g = 7;
  optional int64 h = 8 [default = 6, jstype = JS_NUMBER];
}
`,
				"acme/one/v1/half.proto": `syntax = "proto3";
package acme.one.v1;
// pre-set to exactly what managed mode chooses by default: nothing to rewrite
option java_package = "com.acme.one.v1";
option java_multiple_files = true;
option cc_enable_arenas = true;
option optimize_for = SPEED;
option java_string_check_utf8 = false;
option java_outer_classname = "HalfProto";
option objc_class_prefix = "AOX";
option csharp_namespace = "Acme.One.V1";
option ruby_package = "Acme::One::V1";
message Half { int64 h = 1 [jstype = JS_STRING]; int64 i = 2 [jstype = JS_NORMAL]; }
`,
			},
			Lits: map[string]fileLit{
				"acme/one/v1/one.proto":  {Module: moduleOne, Package: "acme.one.v1", GoSuffix: ";onev1", Defaults: oneV1Defaults("OneProto")},
				"acme/one/v1/half.proto": {Module: moduleOne, Package: "acme.one.v1", GoSuffix: ";onev1", Defaults: oneV1Defaults("HalfProto")},
			},
		},
		{
			Name: "C-custom",
			Files: map[string]string{
				"buf.yaml": "version: v2\nmodules:\n  - path: .\n    name: " + moduleTwo + "\n",
				"acme/one/v1/options.proto": `syntax = "proto2";
package acme.one.v1;
import "google/protobuf/descriptor.proto";
message FileMsg { optional int32 a = 1; optional string b = 2; }
extend google.protobuf.FileOptions {
  optional string file_tag = 50001;
  optional FileMsg file_msg = 50002;
}
extend google.protobuf.MessageOptions { optional string msg_tag = 50001; }
extend google.protobuf.FieldOptions {
  optional string field_tag = 50001;
  optional int64 field_num = 50002;
}
`,
				"acme/one/v1/one.proto": `syntax = "proto2";
package acme.one.v1;
import "acme/one/v1/options.proto";
// leading comment of a custom option
option (file_tag) = "t";
// leading comment of java_package
option java_package = "custom.pkg"; // trailing comment of java_package
option (file_msg).a = 1;
option go_package = "example.com/custom";
option (file_msg).b = "x";
option java_multiple_files = true;
message One {
  option (msg_tag) = "m";
  optional int64 a = 1 [(field_tag) = "x", jstype = JS_NORMAL];
  optional int64 b = 2 [(field_tag) = "y"];
  optional int64 c = 3 [jstype = JS_STRING];
  optional int64 d = 4 [default = 7];
  optional int32 small = 5 [(field_num) = 9];
  message Nested {
    optional uint64 deep = 1 [jstype = JS_NUMBER, (field_num) = 3];
    extend One { optional fixed64 nested_ext = 101 [jstype = JS_STRING]; }
  }
  extensions 100 to 200;
}
extend One { optional int64 top_ext = 100 [jstype = JS_NUMBER]; }
`,
			},
			StripSCIOf: []string{"google/protobuf/descriptor.proto"},
			Lits: map[string]fileLit{
				"acme/one/v1/one.proto":            {Module: moduleTwo, Package: "acme.one.v1", GoSuffix: ";onev1", Defaults: oneV1Defaults("OneProto")},
				"acme/one/v1/options.proto":        {Module: moduleTwo, Package: "acme.one.v1", GoSuffix: ";onev1", Defaults: oneV1Defaults("OptionsProto")},
				"google/protobuf/descriptor.proto": wktLit,
			},
		},
		{
			Name: "D-wkt-modules",
			Files: map[string]string{
				"buf.yaml": "version: v2\nmodules:\n  - path: one\n    name: " + moduleOne + "\n  - path: two\n    name: " + moduleTwo + "\n",
				"one/acme/one/v1/one.proto": `syntax = "proto3";
package acme.one.v1;
import "google/protobuf/timestamp.proto";
option java_package = "d.one";
message One {
  int64 a = 1;
  int64 b = 2 [jstype = JS_STRING];
  google.protobuf.Timestamp t = 3;
}
`,
				"one/acme/one/v1x/trap.proto": `syntax = "proto3";
package acme.one.v1x;
option java_package = "d.trap";
message Trap { int64 a = 1 [jstype = JS_NUMBER]; }
`,
				"two/acme/two/v1/two.proto": `syntax = "proto3";
package acme.two.v1;
import "acme/one/v1/one.proto";
import "google/protobuf/duration.proto";
option csharp_namespace = "D.Two";
message Two {
  acme.one.v1.One one = 1;
  uint64 u = 2;
  google.protobuf.Duration d = 3;
}
`,
			},
			Lits: map[string]fileLit{
				"acme/one/v1/one.proto": {Module: moduleOne, Package: "acme.one.v1", GoSuffix: ";onev1", Defaults: oneV1Defaults("OneProto")},
				"acme/one/v1x/trap.proto": {Module: moduleOne, Package: "acme.one.v1x", GoSuffix: "",
					Defaults: defaultsFor("com.acme.one.v1x", "TrapProto", "AOV", "Acme.One.V1x", `Acme\One\V1x`, "Acme::One::V1x")},
				"acme/two/v1/two.proto": {Module: moduleTwo, Package: "acme.two.v1", GoSuffix: ";twov1",
					Defaults: defaultsFor("com.acme.two.v1", "TwoProto", "ATX", "Acme.Two.V1", `Acme\Two\V1`, "Acme::Two::V1")},
				"google/protobuf/timestamp.proto": wktLit,
				"google/protobuf/duration.proto":  wktLit,
			},
		},
	}, round2ImageSpecs()...)
}

// fieldInfo is one FieldDescriptorProto position found by the harness's own walker.
type fieldInfo struct {
	FullName string
	Path     []int32 // source path of the FieldDescriptorProto
	Is64     bool    // jstype is only defined for the 64-bit integer types (descriptor.proto)
}

// fieldLocs indexes the source locations below one field's FieldOptions (path <field>,8).
type fieldLocs struct {
	Root   []int // locations with path <field>,8
	JSType []int // locations with path <field>,8,6
	Other  []int // every other location strictly below <field>,8
	// MaxOtherDepth is the largest number of path elements after the 8 among Other (0 = none)
	MinOtherDepth, MaxOtherDepth int
	// Pseudo: the bracket list also holds default= or json_name=, which are not FieldOptions fields
	Pseudo bool
}

// masterFile is the immutable "before" state of one image file.
type masterFile struct {
	Path   string
	Lit    fileLit
	Desc   *descriptorpb.FileDescriptorProto // full, never mutated
	NoSCI  *descriptorpb.FileDescriptorProto // clone without SourceCodeInfo, never mutated
	Fields []fieldInfo
	// FieldPtrs[i] is the (never mutated) descriptor of Fields[i]
	FieldPtrs []*descriptorpb.FieldDescriptorProto
	// FieldLocs[i]: where the option locations of Fields[i] sit in the input SourceCodeInfo
	FieldLocs []fieldLocs
	IsImport  bool
	LocKeys   []string // path key of every source location
	// parentOf[i] = index of the `[8]` statement location enclosing file-option location i ([8,N,...]), else -1
	parentOf []int
}

type master struct {
	Spec  imageSpec
	Image bufimage.Image // never handed to Modify; cloned per case
	Files []*masterFile
	// baseline option values per file under `managed: {enabled: true}` with no rules (filled by run)
	Baseline map[string]map[string]optState
}

func pathKey(p []int32) string {
	var sb strings.Builder
	for i, e := range p {
		if i > 0 {
			sb.WriteByte(',')
		}
		fmt.Fprintf(&sb, "%d", e)
	}
	return sb.String()
}

func span4(s []int32) [4]int32 {
	if len(s) == 3 {
		return [4]int32{s[0], s[1], s[0], s[2]}
	}
	if len(s) == 4 {
		return [4]int32{s[0], s[1], s[2], s[3]}
	}
	return [4]int32{-1, -1, -1, -1}
}

func encloses(outer, inner [4]int32) bool {
	startOK := outer[0] < inner[0] || (outer[0] == inner[0] && outer[1] <= inner[1])
	endOK := outer[2] > inner[2] || (outer[2] == inner[2] && outer[3] >= inner[3])
	return startOK && endOK
}

var int64Types = map[descriptorpb.FieldDescriptorProto_Type]bool{
	descriptorpb.FieldDescriptorProto_TYPE_INT64:    true,
	descriptorpb.FieldDescriptorProto_TYPE_UINT64:   true,
	descriptorpb.FieldDescriptorProto_TYPE_SINT64:   true,
	descriptorpb.FieldDescriptorProto_TYPE_FIXED64:  true,
	descriptorpb.FieldDescriptorProto_TYPE_SFIXED64: true,
}

// walkFields lists every FieldDescriptorProto (message fields, nested, extensions) with its full name and path.
func walkFields(fd *descriptorpb.FileDescriptorProto, visit func(info fieldInfo, f *descriptorpb.FieldDescriptorProto)) {
	prefix := fd.GetPackage()
	join := func(scope, name string) string {
		if scope == "" {
			return name
		}
		return scope + "." + name
	}
	emit := func(scope string, path []int32, f *descriptorpb.FieldDescriptorProto) {
		visit(fieldInfo{FullName: join(scope, f.GetName()), Path: append([]int32(nil), path...), Is64: int64Types[f.GetType()]}, f)
	}
	var msg func(scope string, path []int32, m *descriptorpb.DescriptorProto)
	msg = func(scope string, path []int32, m *descriptorpb.DescriptorProto) {
		name := join(scope, m.GetName())
		for i, f := range m.Field {
			emit(name, append(append([]int32(nil), path...), 2, int32(i)), f)
		}
		for i, f := range m.Extension {
			emit(name, append(append([]int32(nil), path...), 6, int32(i)), f)
		}
		for i, n := range m.NestedType {
			msg(name, append(append([]int32(nil), path...), 3, int32(i)), n)
		}
	}
	for i, m := range fd.MessageType {
		msg(prefix, []int32{4, int32(i)}, m)
	}
	for i, f := range fd.Extension {
		emit(prefix, []int32{7, int32(i)}, f)
	}
}

// collectFields lists the field descriptors in the same order as walkFields, without names and paths.
func collectFields(fd *descriptorpb.FileDescriptorProto) []*descriptorpb.FieldDescriptorProto {
	var out []*descriptorpb.FieldDescriptorProto
	var msg func(m *descriptorpb.DescriptorProto)
	msg = func(m *descriptorpb.DescriptorProto) {
		out = append(out, m.Field...)
		out = append(out, m.Extension...)
		for _, n := range m.NestedType {
			msg(n)
		}
	}
	for _, m := range fd.MessageType {
		msg(m)
	}
	return append(out, fd.Extension...)
}

func buildMaster(ctx context.Context, spec imageSpec) (*master, error) {
	var opts []bufimage.BuildImageOption
	if spec.NoSrcInfo {
		opts = append(opts, bufimage.WithExcludeSourceCodeInfo())
	}
	img, err := bufx.BuildImage(ctx, spec.Files, opts...)
	if err != nil {
		return nil, fmt.Errorf("image %s: %w", spec.Name, err)
	}
	if len(spec.OnlyPaths) > 0 {
		if img, err = bufimage.ImageWithOnlyPaths(img, spec.OnlyPaths, nil); err != nil {
			return nil, fmt.Errorf("image %s: %w", spec.Name, err)
		}
	}
	for _, p := range spec.StripSCIOf {
		f := img.GetFile(p)
		if f == nil {
			return nil, fmt.Errorf("image %s: no file %s to strip", spec.Name, p)
		}
		f.FileDescriptorProto().SourceCodeInfo = nil
	}
	m := &master{Spec: spec, Image: img, Baseline: map[string]map[string]optState{}}
	seen := map[string]bool{}
	for _, f := range img.Files() {
		lit, ok := spec.Lits[f.Path()]
		if !ok {
			return nil, fmt.Errorf("image %s: file %s has no hand-written facts", spec.Name, f.Path())
		}
		seen[f.Path()] = true
		// harness sanity: what the fixture author wrote down agrees with what buf built
		gotModule := ""
		if f.FullName() != nil {
			gotModule = f.FullName().String()
		}
		if gotModule != lit.Module || f.FileDescriptorProto().GetPackage() != lit.Package && !lit.WKT {
			return nil, fmt.Errorf("image %s: file %s built as module %q package %q, fixture says %q %q", spec.Name, f.Path(), gotModule, f.FileDescriptorProto().GetPackage(), lit.Module, lit.Package)
		}
		if lit.WKT != wktPaths[f.Path()] {
			return nil, fmt.Errorf("image %s: WKT flag of %s inconsistent", spec.Name, f.Path())
		}
		wantImport := lit.WKT && lit.Module == ""
		if spec.Imports != nil {
			wantImport = spec.Imports[f.Path()]
		}
		if f.IsImport() != wantImport {
			return nil, fmt.Errorf("image %s: file %s built with import=%v, fixture says %v", spec.Name, f.Path(), f.IsImport(), wantImport)
		}
		mf := &masterFile{Path: f.Path(), Lit: lit, Desc: f.FileDescriptorProto(), IsImport: f.IsImport()}
		mf.NoSCI = proto.Clone(mf.Desc).(*descriptorpb.FileDescriptorProto)
		mf.NoSCI.SourceCodeInfo = nil
		walkFields(mf.Desc, func(info fieldInfo, _ *descriptorpb.FieldDescriptorProto) { mf.Fields = append(mf.Fields, info) })
		mf.FieldPtrs = collectFields(mf.Desc)
		if len(mf.FieldPtrs) != len(mf.Fields) {
			return nil, fmt.Errorf("image %s: walkers disagree on %s", spec.Name, f.Path())
		}
		if sci := mf.Desc.SourceCodeInfo; sci != nil {
			if spec.NoSrcInfo {
				return nil, fmt.Errorf("image %s: %s has source info", spec.Name, f.Path())
			}
			mf.LocKeys = make([]string, len(sci.Location))
			mf.parentOf = make([]int, len(sci.Location))
			for i, l := range sci.Location {
				mf.LocKeys[i] = pathKey(l.Path)
				mf.parentOf[i] = -1
			}
			for i, l := range sci.Location {
				if len(l.Path) < 2 || l.Path[0] != 8 {
					continue
				}
				// the `option ...;` statement that declares this file option: the smallest [8] span enclosing it
				best := -1
				for j, p := range sci.Location {
					if len(p.Path) == 1 && p.Path[0] == 8 && encloses(span4(p.Span), span4(l.Span)) {
						if best < 0 || encloses(span4(sci.Location[best].Span), span4(p.Span)) {
							best = j
						}
					}
				}
				if best < 0 {
					return nil, fmt.Errorf("image %s: %s location %v has no enclosing option statement", spec.Name, f.Path(), l.Path)
				}
				mf.parentOf[i] = best
			}
			// index the option locations of every field: <field>,8 / <field>,8,6 / anything else below <field>,8
			rootOf := map[string]int{}
			for i, info := range mf.Fields {
				rootOf[pathKey(info.Path)+",8"] = i
			}
			mf.FieldLocs = make([]fieldLocs, len(mf.Fields))
			keySet := map[string]bool{}
			for _, k := range mf.LocKeys {
				keySet[k] = true
			}
			for i, info := range mf.Fields {
				// default_value is tag 7, json_name tag 10 of FieldDescriptorProto; json_name only has a location when written
				mf.FieldLocs[i].Pseudo = keySet[pathKey(info.Path)+",7"] || keySet[pathKey(info.Path)+",10"]
			}
			for i, l := range sci.Location {
				for n := 1; n <= len(l.Path); n++ {
					if l.Path[n-1] != 8 {
						continue
					}
					fi, ok := rootOf[pathKey(l.Path[:n])]
					if !ok {
						continue
					}
					fl := &mf.FieldLocs[fi]
					depth := len(l.Path) - n
					switch {
					case depth == 0:
						fl.Root = append(fl.Root, i)
					case depth == 1 && l.Path[n] == 6:
						fl.JSType = append(fl.JSType, i)
					default:
						fl.Other = append(fl.Other, i)
						if fl.MinOtherDepth == 0 || depth < fl.MinOtherDepth {
							fl.MinOtherDepth = depth
						}
						if depth > fl.MaxOtherDepth {
							fl.MaxOtherDepth = depth
						}
					}
					break
				}
			}
		} else {
			mf.FieldLocs = make([]fieldLocs, len(mf.Fields))
		}
		m.Files = append(m.Files, mf)
	}
	for p := range spec.Lits {
		if !seen[p] {
			return nil, fmt.Errorf("image %s: fixture facts for %s but the image has no such file", spec.Name, p)
		}
	}
	return m, nil
}
