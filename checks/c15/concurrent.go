package c15

import (
	"context"
	"errors"
	"fmt"
	"io/fs"
	"os"
	"path/filepath"
	"sort"
	"strings"
	"sync/atomic"

	"github.com/bufbuild/buf/private/pkg/storage"
	"github.com/bufbuild/buf/private/pkg/storage/storageos"
	"github.com/bufbuild/bufverif/internal/evid"
)

// Overlapping atomic puts: every interleaving of the steps of 2..3 writers that put the SAME object atomically
// (and of writers that die before their Close), with a reader looking at the object and at the directory
// after every single step.
//
// The steps of a writer are calls the harness makes itself (Put, Write, Write, Close), so no scheduler is needed:
// the interleavings are enumerated explicitly and executed on one goroutine against a real disk bucket.
// Oracle (the all-or-nothing clause): at every instant the object is absent/old or is the COMPLETE content of one
// writer that has already entered its Close; directly after a Close that returned nil the object is that writer's
// complete content; when everything is over the directory holds nothing but the object (no staging leftovers of
// writers that closed); a writer that never closed never becomes visible.

func init() { extraSections = append(extraSections, concurrentAtomicPuts) }

type concWriter struct {
	Content string `json:"content"`
	Steps   int    `json:"steps_executed"` // 4 = Put, Write, Write, Close; fewer = the writer dies before
}

type concCase struct {
	Bucket   string       `json:"bucket"`
	Path     string       `json:"path"`
	Initial  string       `json:"initial"` // "" = absent
	Writers  []concWriter `json:"writers"`
	Schedule string       `json:"schedule"` // writer index per step
	At       string       `json:"observed_at"`
}

// interleavings of writers with n[i] steps each.
func interleavings(n []int) []string {
	var out []string
	left := append([]int(nil), n...)
	var rec func(cur []byte)
	rec = func(cur []byte) {
		done := true
		for i := range left {
			if left[i] > 0 {
				done = false
				left[i]--
				rec(append(cur, byte('0'+i)))
				left[i]++
			}
		}
		if done {
			out = append(out, string(cur))
		}
	}
	rec(nil)
	return out
}

func concurrentAtomicPuts(r *evid.Run) {
	ctx := context.Background()
	scratch, err := os.MkdirTemp("", "verif-c15-conc-")
	if err != nil {
		r.Incomplete(err.Error())
		return
	}
	defer os.RemoveAll(scratch)
	// contents of different lengths: a later, shorter writer must not leave the tail of a longer one and vice versa
	contents := []string{
		strings.Repeat("A", 40),
		strings.Repeat("b", 9),
		strings.Repeat("C", 23),
	}
	type config struct {
		bucket  string
		path    string
		initial string
		writers []concWriter
	}
	var configs []config
	writerSets := [][]concWriter{
		{{contents[0], 4}, {contents[1], 4}},
		{{contents[1], 4}, {contents[0], 4}},
		{{contents[0], 4}, {contents[1], 3}}, // second writer dies before Close
		{{contents[0], 4}, {contents[1], 2}},
		{{contents[0], 4}, {contents[1], 1}},
		{{contents[1], 3}, {contents[0], 4}},
	}
	// three writers: the third one dies after its first Write (3150 schedules); thorough: all three complete (34650)
	writerSets = append(writerSets, []concWriter{{contents[0], 4}, {contents[1], 4}, {contents[2], 2}})
	if !r.Quick() {
		writerSets = append(writerSets, []concWriter{{contents[0], 4}, {contents[1], 4}, {contents[2], 4}})
	}
	buckets := []string{"os", "map(os,in)"}
	if !r.Quick() {
		buckets = append(buckets, "os+symlinks")
	}
	for _, b := range buckets {
		for _, p := range []string{"x.txt", "d/e/x.txt"} {
			for _, initial := range []string{"", "OLD-CONTENT-OLD"} {
				for _, ws := range writerSets {
					if len(ws) == 3 && (b != "os" || p != "x.txt") {
						continue // three writers: on the plain bucket and the flat path only
					}
					configs = append(configs, config{b, p, initial, ws})
				}
			}
		}
	}
	type item struct {
		cfg   config
		sched []string
	}
	var items []item
	total := 0
	for _, c := range configs {
		n := make([]int, len(c.writers))
		for i, w := range c.writers {
			n[i] = w.Steps
		}
		all := interleavings(n)
		total += len(all)
		for lo := 0; lo < len(all); lo += 500 {
			items = append(items, item{c, all[lo:min(lo+500, len(all))]})
		}
	}
	r.Set("concurrent_atomic_put_configurations", len(configs))
	r.Set("concurrent_atomic_put_schedules", total)
	var seq int64
	var seqMu = make(chan struct{}, 1)
	nextDir := func() string {
		seqMu <- struct{}{}
		seq++
		d := filepath.Join(scratch, fmt.Sprintf("c%d", seq))
		<-seqMu
		return d
	}
	outcomes := map[string]bool{}
	var outMu = make(chan struct{}, 1)
	var spurious atomic.Int64
	r.ParallelFor(len(items), 0, func(i int) {
		it := items[i]
		for si, sched := range it.sched {
			dir := nextDir()
			root := dir
			objDir := dir
			_ = os.MkdirAll(dir, 0o755)
			var opts []storageos.ProviderOption
			var bopts []storageos.ReadWriteBucketOption
			if it.cfg.bucket == "os+symlinks" {
				opts = append(opts, storageos.ProviderWithSymlinks())
				bopts = append(bopts, storageos.ReadWriteBucketWithSymlinksIfSupported())
			}
			osb, err := storageos.NewProvider(opts...).NewReadWriteBucket(root, bopts...)
			if err != nil {
				r.Incomplete("concurrent puts: " + err.Error())
				return
			}
			var b storage.ReadWriteBucket = osb
			if it.cfg.bucket == "map(os,in)" {
				b = storage.MapReadWriteBucket(osb, storage.MapOnPrefix("in"))
				objDir = filepath.Join(dir, "in")
			}
			objFile := filepath.Join(objDir, filepath.FromSlash(it.cfg.path))
			if it.cfg.initial != "" {
				if err := storage.PutPath(ctx, b, it.cfg.path, []byte(it.cfg.initial)); err != nil {
					r.Incomplete("concurrent puts: " + err.Error())
					return
				}
			}
			ws := it.cfg.writers
			handles := make([]storage.WriteObjectCloser, len(ws))
			stepOf := make([]int, len(ws))
			inClose := make([]bool, len(ws)) // entered Close
			closedOK := make([]bool, len(ws))
			mk := func(at string) concCase {
				return concCase{it.cfg.bucket, it.cfg.path, it.cfg.initial, ws, sched, at}
			}
			allowed := func() map[string]bool {
				m := map[string]bool{}
				for k := range ws {
					if inClose[k] {
						m[ws[k].Content] = true
					}
				}
				return m
			}
			lastOK := -1
			observe := func(at string, mustBe int) bool {
				data, err := storage.ReadPath(ctx, b, it.cfg.path)
				got := string(data)
				if err != nil {
					if !errors.Is(err, fs.ErrNotExist) {
						r.Violate("concurrent-atomic/read-error", fmt.Sprintf("reading %s %s failed: %v (schedule %s)", it.cfg.path, at, err, sched), mk(at))
						return false
					}
					got = ""
					if it.cfg.initial != "" || lastOK >= 0 {
						r.Violate("concurrent-atomic/object-vanished", fmt.Sprintf("%s does not exist %s although it existed before (schedule %s)", it.cfg.path, at, sched), mk(at))
						return false
					}
				}
				if mustBe >= 0 {
					if got != ws[mustBe].Content {
						r.Violate("concurrent-atomic/acknowledged-put-not-visible", fmt.Sprintf("directly after writer %d's Close returned nil the object holds %d bytes %q, not the writer's %d bytes (schedule %s)", mustBe, len(got), abbreviate(got), len(ws[mustBe].Content), sched), mk(at))
						return false
					}
					return true
				}
				if got == it.cfg.initial && lastOK < 0 {
					return true
				}
				if allowed()[got] {
					return true
				}
				kind := "partial-or-mixed-content"
				for k := range ws {
					if got == ws[k].Content {
						kind = "content-of-unclosed-writer"
					}
				}
				r.Violate("concurrent-atomic/reader-saw/"+kind, fmt.Sprintf("%s the object holds %d bytes %q: neither the previous content nor the complete content of a writer that has entered Close (schedule %s, writers %v)", at, len(got), abbreviate(got), sched, ws), mk(at))
				return false
			}
			ok := true
			for k, ch := range []byte(sched) {
				w := int(ch - '0')
				step := stepOf[w]
				stepOf[w]++
				at := fmt.Sprintf("after step %d (writer %d: %s)", k+1, w, []string{"Put", "Write first half", "Write second half", "Close"}[step])
				c := ws[w].Content
				mustBe := -1
				switch step {
				case 0:
					h, err := b.Put(ctx, it.cfg.path, storage.PutWithAtomic())
					if err != nil {
						spurious.Add(1)
						handles[w] = nil
					} else {
						handles[w] = h
					}
				case 1, 2:
					if handles[w] != nil {
						half := c[:len(c)/2]
						if step == 2 {
							half = c[len(c)/2:]
						}
						if _, err := handles[w].Write([]byte(half)); err != nil {
							spurious.Add(1)
						}
					}
				case 3:
					if handles[w] != nil {
						inClose[w] = true
						if err := handles[w].Close(); err != nil {
							spurious.Add(1)
							// a reported failure: the put may or may not have taken effect
						} else {
							closedOK[w] = true
							mustBe = w
						}
					}
				}
				if !observe(at, mustBe) {
					ok = false
					break
				}
				if mustBe >= 0 {
					lastOK = mustBe
				}
			}
			if ok {
				// leftovers: once every surviving writer has closed, only dead writers may have staging files
				dead := 0
				for k := range ws {
					if ws[k].Steps < 4 {
						dead++
					}
				}
				ents, _ := os.ReadDir(filepath.Dir(objFile))
				var extra []string
				for _, e := range ents {
					if e.Name() != filepath.Base(objFile) {
						extra = append(extra, e.Name())
					}
				}
				sort.Strings(extra)
				if len(extra) > dead {
					r.Violate("concurrent-atomic/staging-leftover", fmt.Sprintf("after all writers closed the directory of %s also holds %v (%d writers died before Close) (schedule %s)", it.cfg.path, extra, dead, sched), mk("at the end"))
				}
				final, _ := os.ReadFile(objFile)
				outMu <- struct{}{}
				outcomes[fmt.Sprintf("%d|%s", len(ws), abbreviate(string(final)))] = true
				<-outMu
			}
			// writers that died: close them now so that descriptors do not pile up
			for k := range ws {
				if ws[k].Steps < 4 && handles[k] != nil {
					_ = handles[k].Close()
				}
			}
			r.Eval(1)
			r.Distinct(fmt.Sprintf("conc|%s|%s|%t|%v|%s", it.cfg.bucket, it.cfg.path, it.cfg.initial != "", ws, sched))
			r.SampleEvery(i*500+si, 4999, func() any { return mk("every step") })
			_ = os.RemoveAll(dir)
		}
	})
	r.Set("concurrent_atomic_put_distinct_final_contents", len(outcomes))
	r.Set("concurrent_atomic_put_fault_free_errors", spurious.Load())
	if !r.Expired() && len(outcomes) < 2 {
		r.Incomplete("concurrent atomic puts: every schedule ended with the same content (no writer ever overtook another)")
	}
}

func abbreviate(s string) string {
	if len(s) <= 12 {
		return s
	}
	return s[:6] + "…" + s[len(s)-4:]
}
