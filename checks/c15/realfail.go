package c15

import (
	"context"
	"fmt"
	"os"
	"path/filepath"
	"sort"
	"strings"

	"github.com/bufbuild/buf/private/pkg/storage"
	"github.com/bufbuild/buf/private/pkg/storage/storagemem"
	"github.com/bufbuild/buf/private/pkg/storage/storageos"
	"github.com/bufbuild/bufverif/internal/evid"
	"github.com/bufbuild/bufverif/internal/wrap"
)

// Real failures of the last step of an atomic put: the rename itself fails in the kernel because the final name
// is occupied by a directory (empty, or holding other objects). Nothing is injected: the put runs on a real
// directory whose layout makes rename(2) fail. Oracle: the put reports an error, the bucket lists exactly the
// objects it listed before, and the directory tree is exactly what it was (no staging file stays behind, the
// occupying directory is still there); a later put to a free name still works.

func init() { extraSections = append(extraSections, realRenameFailures, cancelledContexts) }

type renameCase struct {
	Bucket   string `json:"bucket"`
	Path     string `json:"path"`
	Occupied string `json:"final_name_occupied_by"`
	Via      string `json:"via"`
}

func rawTree(root string) []string {
	var out []string
	_ = filepath.Walk(root, func(p string, info os.FileInfo, err error) error {
		if err != nil || p == root {
			return nil
		}
		rel, _ := filepath.Rel(root, p)
		if info.IsDir() {
			rel += "/"
		}
		out = append(out, filepath.ToSlash(rel))
		return nil
	})
	sort.Strings(out)
	return out
}

func realRenameFailures(r *evid.Run) {
	ctx := context.Background()
	scratch, err := os.MkdirTemp("", "verif-c15-rename-")
	if err != nil {
		r.Incomplete(err.Error())
		return
	}
	defer os.RemoveAll(scratch)
	n, failed := 0, 0
	for _, bucketKind := range []string{"os", "os+symlinks", "map(os,in)"} {
		for _, path := range []string{"obj", "d/obj", "d/e/obj.bin"} {
			for _, occupied := range []string{"empty directory", "directory holding another object"} {
				for _, via := range []string{"Put+Write+Close", "PutPath", "CopyPath", "Copy"} {
					n++
					dir := filepath.Join(scratch, fmt.Sprintf("r%d", n))
					_ = os.MkdirAll(dir, 0o755)
					var popts []storageos.ProviderOption
					var bopts []storageos.ReadWriteBucketOption
					if bucketKind == "os+symlinks" {
						popts = append(popts, storageos.ProviderWithSymlinks())
						bopts = append(bopts, storageos.ReadWriteBucketWithSymlinksIfSupported())
					}
					osb, err := storageos.NewProvider(popts...).NewReadWriteBucket(dir, bopts...)
					if err != nil {
						r.Incomplete(err.Error())
						return
					}
					var b storage.ReadWriteBucket = osb
					base := dir
					if bucketKind == "map(os,in)" {
						b = storage.MapReadWriteBucket(osb, storage.MapOnPrefix("in"))
						base = filepath.Join(dir, "in")
					}
					_ = storage.PutPath(ctx, b, "keep.txt", []byte("keep"))
					final := filepath.Join(base, filepath.FromSlash(path))
					_ = os.MkdirAll(final, 0o755)
					if occupied == "directory holding another object" {
						_ = os.WriteFile(filepath.Join(final, "inner.txt"), []byte("inner"), 0o644)
					}
					before, _ := wrap.Snapshot(ctx, b)
					treeBefore := rawTree(dir)
					c := renameCase{bucketKind, path, occupied, via}
					data := []byte(strings.Repeat("new", 50))
					var perr error
					switch via {
					case "Put+Write+Close":
						w, err := b.Put(ctx, path, storage.PutWithAtomic())
						if err != nil {
							perr = err
							break
						}
						_, werr := w.Write(data)
						cerr := w.Close()
						if werr != nil {
							perr = werr
						} else {
							perr = cerr
						}
					case "PutPath":
						perr = storage.PutPath(ctx, b, path, data, storage.PutWithAtomic())
					case "CopyPath":
						src := bufxMem(map[string]string{"s": string(data)})
						perr = storage.CopyPath(ctx, src, "s", b, path, storage.CopyWithAtomic())
					case "Copy":
						src := bufxMem(map[string]string{path: string(data)})
						_, perr = storage.Copy(ctx, src, b, storage.CopyWithAtomic())
					}
					r.Eval(1)
					r.Distinct(fmt.Sprintf("rename|%v", c))
					r.SampleEvery(n, 17, func() any { return c })
					if perr == nil {
						r.Violate("swallowed-real/atomic-put/rename-onto-directory", fmt.Sprintf("%s of %q into %s returned nil although the final name is occupied by a %s (the rename cannot have succeeded)", via, path, bucketKind, occupied), c)
						continue
					}
					failed++
					after, _ := wrap.Snapshot(ctx, b)
					if d := equalMaps(after, before); d != "" {
						r.Violate("atomic-failed-put-left-object/rename-onto-directory", fmt.Sprintf("after the failed %s of %q (final name occupied by a %s) the bucket lists different objects: %s", via, path, occupied, d), c)
						continue
					}
					if treeAfter := rawTree(dir); strings.Join(treeAfter, "\n") != strings.Join(treeBefore, "\n") {
						r.Violate("atomic-failed-put-changed-directory/rename-onto-directory", fmt.Sprintf("after the failed %s of %q (final name occupied by a %s) the directory tree changed: before %v, after %v", via, path, occupied, treeBefore, treeAfter), c)
						continue
					}
					if err := storage.PutPath(ctx, b, path+".free", data, storage.PutWithAtomic()); err != nil {
						r.Violate("atomic-put-after-failed-put/error", fmt.Sprintf("a later atomic put next to %q failed: %v", path, err), c)
					}
				}
			}
		}
	}
	r.Set("real_rename_failure_cases", n)
	r.Set("real_rename_failures_reported", failed)
	if failed == 0 {
		r.Incomplete("real rename failures: no put failed")
	}
}

func bufxMem(files map[string]string) storage.ReadBucket {
	return memSource(files)
}

func memDest() storage.ReadWriteBucket { return storagemem.NewReadWriteBucket() }

// Cancelled contexts: the context of the operation is REALLY cancelled at the k-th destination operation, and that
// operation fails with the context's own error (what a context-aware writer or reader does). An error that merely
// repeats the cancellation is still the error of a failed write: the operation must not report success with output
// missing. Same seams and sources as the injected failures; every destination operation is the cancellation point.
func cancelledContexts(r *evid.Run) {
	seams := allSeams()
	type cc struct {
		seam Seam
		src  string
		file map[string]string
		plan wrap.Plan
	}
	var cases []cc
	for _, seam := range seams {
		for _, s := range Sources {
			if seam.Applies != nil && !seam.Applies(s.Files) {
				continue
			}
			rec := wrap.NewFaultBucket(memDest())
			if err := seam.Run(context.Background(), s.Files, rec); err != nil {
				continue
			}
			for _, op := range dedupOps(rec.Recorded()) {
				mode := wrap.FailError
				if op.Kind == "close" {
					mode = wrap.FailLate
				}
				cases = append(cases, cc{seam, s.Name, s.Files, wrap.Plan{Op: op, Mode: mode, ErrKind: "canceled"}})
			}
		}
	}
	r.Set("cancelled_context_cases", len(cases))
	r.ParallelFor(len(cases), 0, func(i int) {
		c := cases[i]
		ctx, cancel := context.WithCancel(context.Background())
		defer cancel()
		dest := wrap.NewFaultBucket(memDest(), c.plan)
		dest.OnFire = cancel
		var err error
		var panicked any
		func() {
			defer func() { panicked = recover() }()
			err = c.seam.Run(ctx, c.file, dest)
		}()
		r.Eval(1)
		fc := faultCase{c.seam.Name, c.src, []wrap.Plan{c.plan}}
		if dest.FiredCount() > 0 {
			r.Distinct(fmt.Sprintf("cancel|%s|%s|%v", c.seam.Name, c.src, c.plan))
		}
		if panicked != nil {
			r.Violate("panic/"+c.seam.Name, fmt.Sprintf("%s panicked when the context was cancelled at %v: %v", c.seam.Name, c.plan.Op, panicked), fc)
			return
		}
		if dest.FiredCount() > 0 && err == nil {
			got, _ := wrap.Snapshot(context.Background(), dest.ReadWriteBucket)
			if d := equalMaps(got, c.seam.Expect(c.file)); d != "" {
				r.Violate(fmt.Sprintf("swallowed/%s/%s-after-context-cancelled", c.seam.Name, c.plan.Op.Kind),
					fmt.Sprintf("%s on source %q returned nil although the context was cancelled at %s of %q, which failed with the context's error; destination: %s", c.seam.Name, c.src, c.plan.Op.Kind, c.plan.Op.Path, d), fc)
			}
		}
	})
}
