// Package c15: write failures are always reported and atomic puts are all-or-nothing.
//
// Fault enumeration: for every write path (seam) and source set, a fault-free run records every
// destination operation; then every single operation (and, thorough, every pair) is made to fail in
// every applicable mode and the real code is re-run. Oracles: a fired fault implies a non-nil error;
// a nil error implies the destination equals the complete expected output. For the disk bucket the
// faults and kill points are the verifhook points inside storageos's writer.
package c15

import (
	"bytes"
	"context"
	"encoding/json"
	"errors"
	"fmt"
	"io"
	"os"
	"os/exec"
	"path/filepath"
	"runtime"
	"sort"
	"strconv"
	"strings"
	"sync"
	"syscall"
	"time"

	"github.com/bufbuild/buf/private/pkg/storage"
	"github.com/bufbuild/buf/private/pkg/storage/storagearchive"
	"github.com/bufbuild/buf/private/pkg/storage/storagemem"
	"github.com/bufbuild/buf/private/pkg/storage/storageos"
	"github.com/bufbuild/buf/private/pkg/thread"
	"github.com/bufbuild/bufverif/internal/evid"
	"github.com/bufbuild/bufverif/internal/hook"
	"github.com/bufbuild/bufverif/internal/wrap"
)

func init() {
	evid.Register(&evid.Check{ID: "C15", Level: "fault_enumeration", Run: run, QuickBudget: 300 * time.Second, ThoroughBudget: 15 * time.Minute})
	evid.RegisterWorker("c15kill", killWorker)
}

// Seam is one write path of buf driven with a source set into a destination bucket.
type Seam struct {
	Name string
	// Run performs the operation. dest is the (possibly faulty) destination.
	Run func(ctx context.Context, src map[string]string, dest storage.ReadWriteBucket) error
	// Expect returns the complete expected destination content for src.
	Expect func(src map[string]string) map[string]string
	// Applies says whether the seam is meaningful for this source (nil = always).
	Applies func(src map[string]string) bool
}

var big = bigContent(70 * 1024)

// Sources are the source sets (name -> path -> content).
var Sources = []struct {
	Name  string
	Files map[string]string
}{
	{"one", map[string]string{"a.proto": "syntax = \"proto3\";\n"}},
	{"three", map[string]string{"a.proto": "A", "d/b.proto": "BB", "d/e/c.txt": "CCC"}},
	{"empty+70KiB", map[string]string{"empty.proto": "", "big/b.proto": big}},
}

func memSource(src map[string]string) storage.ReadBucket {
	m := map[string][]byte{}
	for k, v := range src {
		m[k] = []byte(v)
	}
	b, err := storagemem.NewReadBucket(m)
	if err != nil {
		panic(err)
	}
	return b
}

func sortedKeys(m map[string]string) []string {
	keys := make([]string, 0, len(m))
	for k := range m {
		keys = append(keys, k)
	}
	sort.Strings(keys)
	return keys
}

func identity(src map[string]string) map[string]string { return src }

func tarBytes(src map[string]string) []byte {
	var buf bytes.Buffer
	if err := storagearchive.Tar(context.Background(), memSource(src), &buf); err != nil {
		panic(err)
	}
	return buf.Bytes()
}

func zipBytes(src map[string]string) []byte {
	var buf bytes.Buffer
	if err := storagearchive.Zip(context.Background(), memSource(src), &buf, true); err != nil {
		panic(err)
	}
	return buf.Bytes()
}

// StorageSeams are the seams of the storage layer itself.
func StorageSeams() []Seam {
	first := func(src map[string]string) string { return sortedKeys(src)[0] }
	only := func(src map[string]string) map[string]string {
		return map[string]string{"out/" + first(src): src[first(src)]}
	}
	return []Seam{
		{Name: "storage.Copy", Expect: identity, Run: func(ctx context.Context, src map[string]string, dest storage.ReadWriteBucket) error {
			n, err := storage.Copy(ctx, memSource(src), dest)
			if err == nil && n != len(src) {
				return fmt.Errorf("copied %d of %d without error", n, len(src))
			}
			return err
		}},
		{Name: "storage.Copy(atomic)", Expect: identity, Run: func(ctx context.Context, src map[string]string, dest storage.ReadWriteBucket) error {
			_, err := storage.Copy(ctx, memSource(src), dest, storage.CopyWithAtomic())
			return err
		}},
		{Name: "storage.CopyPath", Expect: only, Run: func(ctx context.Context, src map[string]string, dest storage.ReadWriteBucket) error {
			return storage.CopyPath(ctx, memSource(src), first(src), dest, "out/"+first(src))
		}},
		{Name: "storage.CopyReadObject", Expect: func(src map[string]string) map[string]string {
			return map[string]string{first(src): src[first(src)]}
		}, Run: func(ctx context.Context, src map[string]string, dest storage.ReadWriteBucket) (retErr error) {
			r, err := memSource(src).Get(ctx, first(src))
			if err != nil {
				return err
			}
			defer r.Close()
			return storage.CopyReadObject(ctx, dest, r)
		}},
		{Name: "storage.CopyReader", Expect: only, Run: func(ctx context.Context, src map[string]string, dest storage.ReadWriteBucket) error {
			return storage.CopyReader(ctx, dest, strings.NewReader(src[first(src)]), "out/"+first(src))
		}},
		{Name: "storage.PutPath", Expect: only, Run: func(ctx context.Context, src map[string]string, dest storage.ReadWriteBucket) error {
			return storage.PutPath(ctx, dest, "out/"+first(src), []byte(src[first(src)]))
		}},
		{Name: "storage.PutPath(atomic)", Expect: only, Run: func(ctx context.Context, src map[string]string, dest storage.ReadWriteBucket) error {
			return storage.PutPath(ctx, dest, "out/"+first(src), []byte(src[first(src)]), storage.PutWithAtomic())
		}},
		{Name: "storage.ForWriteObject", Expect: only, Run: func(ctx context.Context, src map[string]string, dest storage.ReadWriteBucket) error {
			return storage.ForWriteObject(ctx, dest, "out/"+first(src), func(w storage.WriteObject) error {
				data := src[first(src)]
				// two writes so that a failure of the second is a distinct position
				half := len(data) / 2
				if _, err := w.Write([]byte(data[:half])); err != nil {
					return err
				}
				_, err := w.Write([]byte(data[half:]))
				return err
			})
		}},
		{Name: "storagearchive.Untar", Expect: identity, Run: func(ctx context.Context, src map[string]string, dest storage.ReadWriteBucket) error {
			return storagearchive.Untar(ctx, bytes.NewReader(tarBytes(src)), dest)
		}},
		{Name: "storagearchive.Unzip", Expect: identity, Run: func(ctx context.Context, src map[string]string, dest storage.ReadWriteBucket) error {
			data := zipBytes(src)
			return storagearchive.Unzip(ctx, bytes.NewReader(data), int64(len(data)), dest)
		}},
		{Name: "storage.Copy->MapWriteBucket", Expect: func(src map[string]string) map[string]string {
			out := map[string]string{}
			for k, v := range src {
				out["pre/"+k] = v
			}
			return out
		}, Run: func(ctx context.Context, src map[string]string, dest storage.ReadWriteBucket) error {
			_, err := storage.Copy(ctx, memSource(src), storage.MapWriteBucket(dest, storage.MapOnPrefix("pre")))
			return err
		}},
		{Name: "storage.Copy->LimitWriteBucket", Expect: identity, Run: func(ctx context.Context, src map[string]string, dest storage.ReadWriteBucket) error {
			_, err := storage.Copy(ctx, memSource(src), storage.LimitWriteBucket(dest, 10<<20))
			return err
		}},
	}
}

var (
	extraMu    sync.Mutex
	extraSeams []func() []Seam
)

// AddSeams registers more seams (other files of this package).
func AddSeams(f func() []Seam) {
	extraMu.Lock()
	extraSeams = append(extraSeams, f)
	extraMu.Unlock()
}

func allSeams() []Seam {
	seams := StorageSeams()
	for _, f := range extraSeams {
		seams = append(seams, f()...)
	}
	return seams
}

type faultCase struct {
	Seam   string      `json:"seam"`
	Source string      `json:"source"`
	Plans  []wrap.Plan `json:"plans"`
}

func modesFor(kind string) []wrap.FaultMode {
	switch kind {
	case "write":
		return []wrap.FaultMode{wrap.FailError, wrap.FailShort}
	case "close":
		return []wrap.FaultMode{wrap.FailLate}
	default:
		return []wrap.FaultMode{wrap.FailError}
	}
}

func equalMaps(a, b map[string]string) string {
	for k, v := range b {
		got, ok := a[k]
		if !ok {
			return "missing " + k
		}
		if got != v {
			return fmt.Sprintf("content of %s differs (%d vs %d bytes)", k, len(got), len(v))
		}
	}
	for k := range a {
		if _, ok := b[k]; !ok {
			return "unexpected " + k
		}
	}
	return ""
}

// runFaultCase executes one (seam, source, plans) case against a fresh memory destination and
// returns (signature, description) of a violation or "".
func runFaultCase(seam Seam, srcName string, src map[string]string, plans []wrap.Plan) (sig, what string, fired int) {
	ctx := context.Background()
	dest := wrap.NewFaultBucket(storagemem.NewReadWriteBucket(), plans...)
	var err error
	func() {
		defer func() {
			if p := recover(); p != nil {
				err = nil
				sig = fmt.Sprintf("panic/%s", seam.Name)
				what = fmt.Sprintf("%s panicked under fault %v: %v", seam.Name, plans, p)
			}
		}()
		err = seam.Run(ctx, src, dest)
	}()
	if sig != "" {
		return sig, what, dest.FiredCount()
	}
	fired = dest.FiredCount()
	if fired > 0 && err == nil {
		p := dest.Fired[0]
		ek := ""
		if p.ErrKind != "" {
			// the plain error kind keeps the historical signature
			ek = "/error-is-" + p.ErrKind
		}
		return fmt.Sprintf("swallowed/%s/%s-%s%s", seam.Name, p.Op.Kind, p.Mode, ek),
			fmt.Sprintf("%s on source %q returned nil although %s of %q failed (%s, error kind %q)", seam.Name, srcName, p.Op.Kind, p.Op.Path, p.Mode, p.ErrKind), fired
	}
	if err == nil {
		got, serr := wrap.Snapshot(ctx, dest.ReadWriteBucket)
		if serr != nil {
			return "snapshot/" + seam.Name, serr.Error(), fired
		}
		if d := equalMaps(got, seam.Expect(src)); d != "" {
			return fmt.Sprintf("incomplete/%s", seam.Name),
				fmt.Sprintf("%s on source %q returned nil but destination is wrong: %s", seam.Name, srcName, d), fired
		}
	}
	return "", "", fired
}

func run(r *evid.Run) {
	hook.Install()
	r.Rule("case = (write path, source set, set of failing destination operations with a failure mode); operations are identified as the i-th put/write/close on a path as recorded in a fault-free run, or as the k-th storageos hook point; every single operation (thorough: every pair) is failed; a case is non-trivial and distinct when its planned fault actually fired in the real code (key = seam/source/plan)")
	r.Assume("failures are modelled at the storage.WriteBucket / WriteObjectCloser interface and at the verifhook points inside storageos (put, write incl. short write, close, rename); power loss / fsync durability is out of scope")
	seams := allSeams()
	seamNames := []string{}
	var cases []faultCase
	type prepared struct {
		seam Seam
		src  map[string]string
	}
	prep := map[string]prepared{}
	for _, seam := range seams {
		seamNames = append(seamNames, seam.Name)
		for _, s := range Sources {
			if seam.Applies != nil && !seam.Applies(s.Files) {
				continue
			}
			// fault-free recording run
			rec := wrap.NewFaultBucket(storagemem.NewReadWriteBucket())
			if err := seam.Run(context.Background(), s.Files, rec); err != nil {
				r.Incomplete(fmt.Sprintf("fault-free run of %s/%s failed: %v", seam.Name, s.Name, err))
				continue
			}
			got, _ := wrap.Snapshot(context.Background(), rec.ReadWriteBucket)
			if d := equalMaps(got, seam.Expect(s.Files)); d != "" {
				r.Incomplete(fmt.Sprintf("fault-free run of %s/%s: expectation mismatch: %s", seam.Name, s.Name, d))
				continue
			}
			r.Eval(1)
			ops := dedupOps(rec.Recorded())
			prep[seam.Name+"\x00"+s.Name] = prepared{seam, s.Files}
			var singles []wrap.Plan
			for _, op := range ops {
				for _, m := range modesFor(op.Kind) {
					singles = append(singles, wrap.Plan{Op: op, Mode: m})
				}
			}
			for _, p := range singles {
				// every single failure with every kind of error value
				for _, ek := range wrap.ErrKinds {
					p.ErrKind = ek
					cases = append(cases, faultCase{seam.Name, s.Name, []wrap.Plan{p}})
				}
			}
			if !r.Quick() {
				for i := range singles {
					for j := i + 1; j < len(singles); j++ {
						if singles[i].Op == singles[j].Op {
							continue
						}
						cases = append(cases, faultCase{seam.Name, s.Name, []wrap.Plan{singles[i], singles[j]}})
					}
				}
			}
		}
	}
	r.Set("seams", seamNames)
	r.Set("fault_cases_planned", len(cases))
	notFired := 0
	var nfMu sync.Mutex
	r.ParallelFor(len(cases), 0, func(i int) {
		c := cases[i]
		p := prep[c.Seam+"\x00"+c.Source]
		sig, what, fired := runFaultCase(p.seam, c.Source, p.src, c.Plans)
		r.Eval(1)
		if fired > 0 {
			r.Distinct(fmt.Sprintf("%s|%s|%v", c.Seam, c.Source, c.Plans))
		} else {
			nfMu.Lock()
			notFired++
			nfMu.Unlock()
		}
		r.SampleEvery(i, 211, func() any { return c })
		if sig != "" {
			r.Violate(sig, what, c)
		}
	})
	r.Set("planned_faults_not_reached", notFired)

	osFaults(r)
	atomicKill(r)
	for _, section := range extraSections {
		section(r)
	}
}

var extraSections []func(r *evid.Run)

func dedupOps(ops []wrap.Op) []wrap.Op {
	seen := map[wrap.Op]bool{}
	var out []wrap.Op
	for _, o := range ops {
		if !seen[o] {
			seen[o] = true
			out = append(out, o)
		}
	}
	// cap the number of distinct write positions per object (large files are written in many chunks)
	perObj := map[string]int{}
	var capped []wrap.Op
	for _, o := range out {
		if o.Kind == "write" {
			perObj[o.Path]++
			if perObj[o.Path] > 3 {
				continue
			}
		}
		capped = append(capped, o)
	}
	return capped
}

// ---- faults inside the disk bucket (verifhook points) ----

type osCase struct {
	Seam    string `json:"seam"`
	Source  string `json:"source"`
	Label   string `json:"label"`
	K       int    `json:"k"`
	Short   bool   `json:"short_write"`
	Label2  string `json:"label2,omitempty"`
	K2      int    `json:"k2,omitempty"`
	ErrKind string `json:"err_kind,omitempty"`
}

var osFaultLabels = map[string]bool{"os.put": true, "os.write": true, "os.close": true, "os.rename.before": true}

type labelCount struct {
	label string
	k     int
}

// osFaults drives every seam into a real storageos bucket, with parallelism 1 so that the k-th
// occurrence of a hook label is the same operation in every run, and fails each occurrence.
func osFaults(r *evid.Run) {
	ctx := context.Background()
	prev := thread.Parallelism()
	thread.SetParallelism(1)
	defer thread.SetParallelism(prev)
	defer hook.SetOnPoint(nil)
	provider := storageos.NewProvider()
	scratch, err := os.MkdirTemp("", "verif-c15-")
	if err != nil {
		r.Incomplete("no scratch dir: " + err.Error())
		return
	}
	defer os.RemoveAll(scratch)
	n := 0
	newDest := func() (storage.ReadWriteBucket, string) {
		n++
		dir := filepath.Join(scratch, strconv.Itoa(n))
		_ = os.MkdirAll(dir, 0o755)
		b, err := provider.NewReadWriteBucket(dir)
		if err != nil {
			panic(err)
		}
		return b, dir
	}
	osCases := 0
	for _, seam := range allSeams() {
		for _, s := range Sources {
			if r.Expired() {
				r.Incomplete("deadline in osFaults")
				return
			}
			if seam.Applies != nil && !seam.Applies(s.Files) {
				continue
			}
			// recording run
			var occurrences []labelCount
			counts := map[string]int{}
			hook.SetOnPoint(func(label string) error {
				if osFaultLabels[label] {
					occurrences = append(occurrences, labelCount{label, counts[label]})
					counts[label]++
				}
				return nil
			})
			dest, dir := newDest()
			err := seam.Run(ctx, s.Files, dest)
			hook.SetOnPoint(nil)
			if err != nil {
				r.Incomplete(fmt.Sprintf("fault-free disk run of %s/%s failed: %v", seam.Name, s.Name, err))
				continue
			}
			got, _ := wrap.Snapshot(ctx, dest)
			if d := equalMaps(got, seam.Expect(s.Files)); d != "" {
				r.Incomplete(fmt.Sprintf("fault-free disk run of %s/%s: %s", seam.Name, s.Name, d))
				continue
			}
			os.RemoveAll(dir)
			// cap write occurrences (70 KiB is written in few chunks anyway)
			var plans []osCase
			writes := 0
			for _, oc := range occurrences {
				if oc.label == "os.write" {
					writes++
					if writes > 4 {
						continue
					}
					plans = append(plans, osCase{Seam: seam.Name, Source: s.Name, Label: oc.label, K: oc.k, Short: true})
				}
				plans = append(plans, osCase{Seam: seam.Name, Source: s.Name, Label: oc.label, K: oc.k})
			}
			single := append([]osCase(nil), plans...)
			for _, c := range single {
				if c.Short {
					continue
				}
				for _, ek := range wrap.ErrKinds[1:] {
					c.ErrKind = ek
					plans = append(plans, c)
				}
			}
			if !r.Quick() {
				for i := range single {
					for j := i + 1; j < len(single); j++ {
						if single[i].Short || single[j].Short {
							continue
						}
						c := single[i]
						c.Label2, c.K2 = single[j].Label, single[j].K
						plans = append(plans, c)
					}
				}
			}
			for _, c := range plans {
				fired := 0
				cnt := map[string]int{}
				hook.SetOnPoint(func(label string) error {
					if !osFaultLabels[label] {
						return nil
					}
					k := cnt[label]
					cnt[label]++
					if (label == c.Label && k == c.K) || (c.Label2 != "" && label == c.Label2 && k == c.K2) {
						fired++
						if c.Short && label == "os.write" {
							return &hook.ShortWriteError{N: 1, Err: fmt.Errorf("short write: %w", wrap.ErrInjected)}
						}
						return wrap.InjectedError(label, "<hook>", c.ErrKind)
					}
					return nil
				})
				dest, dir := newDest()
				err := seam.Run(ctx, s.Files, dest)
				hook.SetOnPoint(nil)
				r.Eval(1)
				osCases++
				if fired > 0 {
					r.Distinct(fmt.Sprintf("os|%v", c))
				}
				if fired > 0 && err == nil {
					ek := ""
					if c.ErrKind != "" {
						ek = "/error-is-" + c.ErrKind
					}
					r.Violate(fmt.Sprintf("swallowed-os/%s/%s%s", seam.Name, c.Label, ek),
						fmt.Sprintf("%s into a disk bucket returned nil although %s #%d failed (source %s, error kind %q)", seam.Name, c.Label, c.K, s.Name, c.ErrKind), c)
				} else if err == nil {
					got, _ := wrap.Snapshot(ctx, dest)
					if d := equalMaps(got, seam.Expect(s.Files)); d != "" {
						r.Violate("incomplete-os/"+seam.Name, fmt.Sprintf("%s returned nil but disk destination is wrong: %s", seam.Name, d), c)
					}
				} else if strings.Contains(seam.Name, "atomic") && fired > 0 {
					// a failed atomic put leaves no new object under a final name that was the faulted one;
					// objects completed before the fault may exist. No partial object may exist under a final name.
					got, _ := wrap.Snapshot(ctx, dest)
					exp := seam.Expect(s.Files)
					for p, v := range got {
						if strings.HasPrefix(filepath.Base(p), ".tmp") {
							// the staging object of the failed atomic put is still there: a new object was left behind
							r.Violate("atomic-leftover/"+seam.Name+"/"+c.Label,
								fmt.Sprintf("%s: after failed %s #%d the staging object %q (%d bytes) is left behind in the bucket", seam.Name, c.Label, c.K, p, len(v)), c)
							continue
						}
						if want, ok := exp[p]; !ok || want != v {
							r.Violate("atomic-partial/"+seam.Name+"/"+c.Label,
								fmt.Sprintf("%s: after failed %s #%d object %q is visible with partial/unknown content (%d bytes)", seam.Name, c.Label, c.K, p, len(v)), c)
						}
					}
				}
				os.RemoveAll(dir)
			}
		}
	}
	r.Set("disk_fault_cases", osCases)
}

// ---- atomic put: every observation point and every kill point ----

type killCase struct {
	Overwrite bool   `json:"overwrite"`
	Size      int    `json:"size"`
	KillAt    int    `json:"kill_at_point"`
	Label     string `json:"label"`
}

func atomicPayload(size int) []byte { return []byte(strings.Repeat("N", size)) }

// doAtomicPut performs the put under test: two writes then close.
func doAtomicPut(ctx context.Context, b storage.ReadWriteBucket, size int) error {
	data := atomicPayload(size)
	return storage.ForWriteObject(ctx, b, "d/obj.bin", func(w storage.WriteObject) error {
		half := len(data) / 2
		if _, err := w.Write(data[:half]); err != nil {
			return err
		}
		_, err := w.Write(data[half:])
		return err
	}, storage.PutWithAtomic())
}

func killWorker(args []string) int {
	// args: dir size killAt
	// all syscalls of the put come from one OS thread, so "the K-th file syscall" is well defined under strace
	runtime.LockOSThread()
	hook.Install()
	dir := args[0]
	size, _ := strconv.Atoi(args[1])
	killAt, _ := strconv.Atoi(args[2])
	k := 0
	hook.SetOnPoint(func(label string) error {
		if k == killAt {
			fmt.Println("KILLING-AT", label)
			os.Stdout.Sync()
			_ = syscall.Kill(os.Getpid(), syscall.SIGKILL)
			select {}
		}
		k++
		return nil
	})
	b, err := storageos.NewProvider().NewReadWriteBucket(dir)
	if err != nil {
		fmt.Println(err)
		return 3
	}
	if err := doAtomicPut(context.Background(), b, size); err != nil {
		fmt.Println(err)
		return 4
	}
	fmt.Println("COMPLETED")
	return 0
}

func atomicKill(r *evid.Run) {
	ctx := context.Background()
	provider := storageos.NewProvider()
	scratch, err := os.MkdirTemp("", "verif-c15k-")
	if err != nil {
		r.Incomplete("no scratch dir")
		return
	}
	defer os.RemoveAll(scratch)
	defer hook.SetOnPoint(nil)
	self, _ := os.Executable()
	old := "OLD-CONTENT"
	kills := 0
	observations := 0
	for _, overwrite := range []bool{false, true} {
		for _, size := range []int{0, 2, 70 * 1024} {
			newContent := string(atomicPayload(size))
			check := func(dir, when string, c any) {
				data, err := os.ReadFile(filepath.Join(dir, "d", "obj.bin"))
				observations++
				switch {
				case err != nil && os.IsNotExist(err):
					if overwrite {
						r.Violate("atomic/vanished", "previous object vanished "+when, c)
					}
				case err != nil:
					r.Incomplete("observe: " + err.Error())
				case overwrite && string(data) == old:
				case string(data) == newContent:
				default:
					r.Violate("atomic/partial-visible/"+when, fmt.Sprintf("reader saw %d bytes that are neither the previous nor the complete new content (%s)", len(data), when), c)
				}
			}
			prepare := func(name string) string {
				dir := filepath.Join(scratch, name)
				_ = os.MkdirAll(filepath.Join(dir, "d"), 0o755)
				if overwrite {
					_ = os.WriteFile(filepath.Join(dir, "d", "obj.bin"), []byte(old), 0o644)
				}
				return dir
			}
			// in-process: observe at every point of a fault-free put
			dir := prepare(fmt.Sprintf("obs-%v-%d", overwrite, size))
			var labels []string
			hook.SetOnPoint(func(label string) error {
				labels = append(labels, label)
				check(dir, "at "+label, killCase{overwrite, size, len(labels) - 1, label})
				return nil
			})
			b, _ := provider.NewReadWriteBucket(dir)
			if err := doAtomicPut(ctx, b, size); err != nil {
				r.Incomplete("fault-free atomic put failed: " + err.Error())
			}
			hook.SetOnPoint(nil)
			data, _ := os.ReadFile(filepath.Join(dir, "d", "obj.bin"))
			if string(data) != newContent {
				r.Violate("atomic/not-published", "successful atomic put did not publish the new content", killCase{overwrite, size, -1, ""})
			}
			r.Eval(1)
			// real kill at every point
			for k := range labels {
				if r.Expired() {
					r.Incomplete("deadline in atomicKill")
					return
				}
				kdir := prepare(fmt.Sprintf("kill-%v-%d-%d", overwrite, size, k))
				cmd := exec.Command(self, "worker", "c15kill", kdir, strconv.Itoa(size), strconv.Itoa(k))
				out, err := cmd.CombinedOutput()
				kc := killCase{overwrite, size, k, labels[k]}
				var ee *exec.ExitError
				if !(errors.As(err, &ee) && !ee.Exited()) {
					r.Incomplete(fmt.Sprintf("kill worker did not die by signal at point %d: %v %s", k, err, out))
					continue
				}
				kills++
				r.Eval(1)
				r.Distinct(fmt.Sprintf("kill|%v", kc))
				check(kdir, "after SIGKILL at "+labels[k], kc)
				if !overwrite && labels[k] != "os.rename.after" {
					// the final name must not exist unless rename happened
					if _, err := os.Stat(filepath.Join(kdir, "d", "obj.bin")); err == nil && k < len(labels)-1 {
						r.Violate("atomic/published-early", "object visible under its final name before the rename point: killed at "+labels[k], kc)
					}
				}
				r.Sample(kc)
				os.RemoveAll(kdir)
			}
			os.RemoveAll(dir)
		}
	}
	r.Set("atomic_put_kill_points", kills)
	r.Set("atomic_put_observations", observations)
	syscallKills(r, scratch, self)
	_ = json.Marshal
	_ = io.EOF
}

// bigContent returns n bytes that are position-encoded (no period), so that a chunk written twice,
// dropped or reordered changes the content.
func bigContent(n int) string {
	var b strings.Builder
	for i := 0; b.Len() < n; i++ {
		fmt.Fprintf(&b, "%07d|", i)
	}
	return b.String()[:n]
}

// syscallKills kills the putting process at every file-related system call (strace signal injection:
// SIGKILL on entering the K-th of the process's file/write/close syscalls), i.e. at every instant at
// which the directory can change, independent of where the hook points are.
func syscallKills(r *evid.Run, scratch, self string) {
	strace, err := exec.LookPath("strace")
	if err != nil {
		r.Set("atomic_put_syscall_kill_points", "strace not available")
		return
	}
	old := "OLD-CONTENT"
	sizes := []int{2}
	if !r.Quick() {
		sizes = []int{0, 2, 70 * 1024}
	}
	total := 0
	for _, overwrite := range []bool{true, false} {
		for _, size := range sizes {
			newContent := string(atomicPayload(size))
			// strace keeps one invocation counter per system call, so the enumeration is over
			// (system call, K-th invocation) for every call that can touch the directory.
			for _, sc := range []string{"openat", "write", "pwrite64", "close", "renameat", "renameat2", "rename", "unlinkat", "unlink", "linkat", "mkdirat", "newfstatat", "ftruncate", "fsync", "fdatasync"} {
				for k := 1; k <= 200; k++ {
					if r.Expired() {
						r.Incomplete("deadline in syscallKills")
						return
					}
					dir := filepath.Join(scratch, fmt.Sprintf("sk-%v-%d-%s-%d", overwrite, size, sc, k))
					_ = os.MkdirAll(filepath.Join(dir, "d"), 0o755)
					if overwrite {
						_ = os.WriteFile(filepath.Join(dir, "d", "obj.bin"), []byte(old), 0o644)
					}
					cmd := exec.Command(strace, "-f", "-qq", "-o", "/dev/null", "-e", "trace="+sc,
						"-e", fmt.Sprintf("inject=%s:signal=SIGKILL:when=%d", sc, k),
						self, "worker", "c15kill", dir, strconv.Itoa(size), "-1")
					out, err := cmd.CombinedOutput()
					kc := killCase{overwrite, size, k, "syscall " + sc}
					if err == nil && strings.Contains(string(out), "COMPLETED") {
						os.RemoveAll(dir)
						break // this call is invoked fewer than k times
					}
					if strings.Contains(string(out), "invalid system call") || strings.Contains(string(out), "strace:") && !strings.Contains(string(out), "killed") && err != nil && len(out) > 0 && !strings.Contains(string(out), "COMPLETED") && strings.Contains(string(out), "invalid") {
						os.RemoveAll(dir)
						break // not a system call of this architecture
					}
					total++
					r.Eval(1)
					r.Distinct(fmt.Sprintf("syscall-kill|%v", kc))
					data, rerr := os.ReadFile(filepath.Join(dir, "d", "obj.bin"))
					switch {
					case rerr != nil && os.IsNotExist(rerr):
						if overwrite {
							r.Violate("atomic/vanished/syscall-kill", fmt.Sprintf("after SIGKILL at invocation #%d of %s during an atomic overwrite the object does not exist any more (neither previous nor new content)", k, sc), kc)
						}
					case rerr != nil:
						r.Incomplete("observe: " + rerr.Error())
					case overwrite && string(data) == old:
					case string(data) == newContent:
					default:
						r.Violate("atomic/partial-visible/syscall-kill", fmt.Sprintf("after SIGKILL at invocation #%d of %s the object holds %d bytes that are neither the previous nor the complete new content", k, sc, len(data)), kc)
					}
					os.RemoveAll(dir)
				}
			}
		}
	}
	r.Set("atomic_put_syscall_kill_points", total)
}
