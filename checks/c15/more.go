package c15

import (
	"archive/zip"
	"bytes"
	"context"
	"fmt"
	"io"
	"os"
	"path/filepath"
	"strings"
	"time"

	"github.com/bufbuild/buf/private/bufpkg/bufcas"
	"github.com/bufbuild/buf/private/bufpkg/bufconfig"
	"github.com/bufbuild/buf/private/bufpkg/bufmodule"
	"github.com/bufbuild/buf/private/bufpkg/bufmodule/bufmodulestore"
	"github.com/bufbuild/buf/private/bufpkg/bufmodule/bufmoduletesting"
	"github.com/bufbuild/buf/private/bufpkg/bufparse"
	"github.com/bufbuild/buf/private/bufpkg/bufprotoplugin/bufprotopluginos"
	"github.com/bufbuild/buf/private/pkg/filelock"
	"github.com/bufbuild/buf/private/pkg/storage"
	"github.com/bufbuild/buf/private/pkg/storage/storagemem"
	"github.com/bufbuild/buf/private/pkg/storage/storageos"
	"github.com/bufbuild/buf/private/pkg/thread"
	"github.com/bufbuild/bufverif/internal/bufx"
	"github.com/bufbuild/bufverif/internal/evid"
	"github.com/bufbuild/bufverif/internal/hook"
	"github.com/bufbuild/bufverif/internal/wrap"
	"github.com/google/uuid"
	"google.golang.org/protobuf/proto"
	"google.golang.org/protobuf/types/pluginpb"
)

func init() {
	AddSeams(moreSeams)
	extraSections = append(extraSections, pluginFlush, exportCLI)
}

// differential expectation: what the same operation writes without faults into a fresh memory bucket
func faultFree(run func(ctx context.Context, src map[string]string, dest storage.ReadWriteBucket) error) func(src map[string]string) map[string]string {
	return func(src map[string]string) map[string]string {
		dest := storagemem.NewReadWriteBucket()
		if err := run(context.Background(), src, dest); err != nil {
			panic(fmt.Sprintf("fault-free reference run failed: %v", err))
		}
		got, err := wrap.Snapshot(context.Background(), dest)
		if err != nil {
			panic(err)
		}
		return got
	}
}

func protoOnly(src map[string]string) map[string][]byte {
	out := map[string][]byte{}
	for p, c := range src {
		if strings.HasSuffix(p, ".proto") {
			if c == "" || c == "A" || c == "BB" {
				c = "syntax = \"proto3\";\n"
			}
			out[p] = []byte(c)
		}
	}
	return out
}

func moduleKeysAndDatas(src map[string]string) ([]bufmodule.ModuleKey, []bufmodule.ModuleData, bufmoduletesting.OmniProvider, error) {
	ctx := context.Background()
	omni, err := bufmoduletesting.NewOmniProvider(bufmoduletesting.ModuleData{
		Name:       "buf.build/acme/c15",
		CommitID:   uuid.MustParse("00000000-0000-4000-8000-0000000000c5"),
		PathToData: protoOnly(src),
	})
	if err != nil {
		return nil, nil, nil, err
	}
	ref, err := bufparse.NewRef("buf.build", "acme", "c15", "")
	if err != nil {
		return nil, nil, nil, err
	}
	keys, err := omni.GetModuleKeysForModuleRefs(ctx, []bufparse.Ref{ref}, bufmodule.DigestTypeB5)
	if err != nil {
		return nil, nil, nil, err
	}
	datas, err := omni.GetModuleDatasForModuleKeys(ctx, keys)
	return keys, datas, omni, err
}

func moreSeams() []Seam {
	putFileSet := func(ctx context.Context, src map[string]string, dest storage.ReadWriteBucket) error {
		fs, err := bufcas.NewFileSetForBucket(ctx, memSource(src))
		if err != nil {
			return err
		}
		return bufcas.PutFileSetToBucket(ctx, fs, dest)
	}
	storeDir := func(ctx context.Context, src map[string]string, dest storage.ReadWriteBucket) error {
		_, datas, _, err := moduleKeysAndDatas(src)
		if err != nil {
			return err
		}
		return bufmodulestore.NewModuleDataStore(bufx.Logger, dest, filelock.NewNopLocker()).PutModuleDatas(ctx, datas)
	}
	storeTar := func(ctx context.Context, src map[string]string, dest storage.ReadWriteBucket) error {
		_, datas, _, err := moduleKeysAndDatas(src)
		if err != nil {
			return err
		}
		return bufmodulestore.NewModuleDataStore(bufx.Logger, dest, filelock.NewNopLocker(), bufmodulestore.ModuleDataStoreWithTar()).PutModuleDatas(ctx, datas)
	}
	putCommits := func(ctx context.Context, src map[string]string, dest storage.ReadWriteBucket) error {
		keys, _, omni, err := moduleKeysAndDatas(src)
		if err != nil {
			return err
		}
		commits, err := omni.GetCommitsForModuleKeys(ctx, keys)
		if err != nil {
			return err
		}
		return bufmodulestore.NewCommitStore(bufx.Logger, dest).PutCommits(ctx, commits)
	}
	putBufYAML := func(ctx context.Context, src map[string]string, dest storage.ReadWriteBucket) error {
		f, err := bufconfig.ReadBufYAMLFile(strings.NewReader("version: v2\nmodules:\n  - path: proto\n    name: buf.build/acme/c15\nlint:\n  use:\n    - STANDARD\n"), "buf.yaml")
		if err != nil {
			return err
		}
		return bufconfig.PutBufYAMLFileForPrefix(ctx, dest, "cfg", f)
	}
	putBufWork := func(ctx context.Context, src map[string]string, dest storage.ReadWriteBucket) error {
		f, err := bufconfig.NewBufWorkYAMLFile(bufconfig.FileVersionV1, []string{"a", "b"})
		if err != nil {
			return err
		}
		return bufconfig.PutBufWorkYAMLFileForPrefix(ctx, dest, ".", f)
	}
	putBufLock := func(ctx context.Context, src map[string]string, dest storage.ReadWriteBucket) error {
		keys, _, _, err := moduleKeysAndDatas(src)
		if err != nil {
			return err
		}
		f, err := bufconfig.NewBufLockFile(bufconfig.FileVersionV2, keys, nil)
		if err != nil {
			return err
		}
		return bufconfig.PutBufLockFileForPrefix(ctx, dest, ".", f)
	}
	putBufGen := func(ctx context.Context, src map[string]string, dest storage.ReadWriteBucket) error {
		f, err := bufconfig.ReadBufGenYAMLFile(strings.NewReader("version: v2\nplugins:\n  - local: protoc-gen-go\n    out: gen\n"))
		if err != nil {
			return err
		}
		return bufconfig.PutBufGenYAMLFileForPrefix(ctx, dest, ".", f)
	}
	hasProto := func(src map[string]string) bool { return len(protoOnly(src)) > 0 }
	onlyFirstSource := func(src map[string]string) bool { _, ok := src["a.proto"]; return ok && len(src) == 1 }
	atomicThroughMap := func(ctx context.Context, src map[string]string, dest storage.ReadWriteBucket) error {
		_, err := storage.Copy(ctx, memSource(src), storage.MapWriteBucket(dest, storage.MapOnPrefix("pre")), storage.CopyWithAtomic())
		return err
	}
	atomicThroughMapRW := func(ctx context.Context, src map[string]string, dest storage.ReadWriteBucket) error {
		first := sortedKeys(src)[0]
		return storage.PutPath(ctx, storage.MapReadWriteBucket(dest, storage.MapOnPrefix("pre/x")), first, []byte(src[first]), storage.PutWithAtomic())
	}
	return []Seam{
		{Name: "storage.Copy(atomic)->MapWriteBucket", Run: atomicThroughMap, Expect: faultFree(atomicThroughMap)},
		{Name: "storage.PutPath(atomic)->MapReadWriteBucket", Run: atomicThroughMapRW, Expect: faultFree(atomicThroughMapRW)},
		{Name: "bufcas.PutFileSetToBucket(atomic)", Run: putFileSet, Expect: faultFree(putFileSet)},
		{Name: "moduleDataStore.PutModuleDatas(dir)", Run: storeDir, Expect: faultFree(storeDir), Applies: hasProto},
		{Name: "moduleDataStore.PutModuleDatas(tar)", Run: storeTar, Expect: faultFree(storeTar), Applies: hasProto},
		{Name: "commitStore.PutCommits", Run: putCommits, Expect: faultFree(putCommits), Applies: onlyFirstSource},
		{Name: "bufconfig.PutBufYAMLFileForPrefix(atomic)", Run: putBufYAML, Expect: faultFree(putBufYAML), Applies: onlyFirstSource},
		{Name: "bufconfig.PutBufWorkYAMLFileForPrefix(atomic)", Run: putBufWork, Expect: faultFree(putBufWork), Applies: onlyFirstSource},
		{Name: "bufconfig.PutBufLockFileForPrefix(atomic)", Run: putBufLock, Expect: faultFree(putBufLock), Applies: onlyFirstSource},
		{Name: "bufconfig.PutBufGenYAMLFileForPrefix(atomic)", Run: putBufGen, Expect: faultFree(putBufGen), Applies: onlyFirstSource},
	}
}

// ---- generated-file flush (bufprotopluginos.ResponseWriter): dir, zip, jar outputs ----

type flushCase struct {
	Out    string `json:"out"`
	Source string `json:"source"`
	Label  string `json:"label"`
	K      int    `json:"k"`
	Short  bool   `json:"short_write,omitempty"`
}

func pluginFlush(r *evid.Run) {
	ctx := context.Background()
	prev := thread.Parallelism()
	thread.SetParallelism(1)
	defer thread.SetParallelism(prev)
	defer hook.SetOnPoint(nil)
	scratch, err := os.MkdirTemp("", "verif-c15p-")
	if err != nil {
		r.Incomplete(err.Error())
		return
	}
	defer os.RemoveAll(scratch)
	n := 0
	cases := 0
	for _, outKind := range []string{"gen", "gen.zip", "gen.jar", "two-dirs"} {
		for _, s := range Sources {
			response := &pluginpb.CodeGeneratorResponse{}
			for _, p := range sortedKeys(s.Files) {
				response.File = append(response.File, &pluginpb.CodeGeneratorResponse_File{Name: proto.String(p + ".gen"), Content: proto.String(s.Files[p])})
			}
			// run(k): returns error of AddResponse/Close and the out path
			runOnce := func() (string, error) {
				n++
				base := filepath.Join(scratch, fmt.Sprint(n))
				_ = os.MkdirAll(base, 0o755)
				w := bufprotopluginos.NewResponseWriter(bufx.Logger, storageos.NewProvider(), bufprotopluginos.ResponseWriterWithCreateOutDirIfNotExists())
				outs := []string{filepath.Join(base, outKind)}
				if outKind == "two-dirs" {
					outs = []string{filepath.Join(base, "gen1"), filepath.Join(base, "gen2")}
				}
				for _, out := range outs {
					if err := w.AddResponse(ctx, response, out); err != nil {
						return base, err
					}
				}
				return base, w.Close()
			}
			verify := func(base string) string {
				check := func(got map[string]string) string {
					for _, f := range response.File {
						if g, ok := got[f.GetName()]; !ok {
							return "missing " + f.GetName()
						} else if g != f.GetContent() {
							return fmt.Sprintf("content of %s truncated/differs (%d vs %d bytes)", f.GetName(), len(g), len(f.GetContent()))
						}
					}
					return ""
				}
				switch outKind {
				case "gen", "two-dirs":
					dirs := []string{"gen"}
					if outKind == "two-dirs" {
						dirs = []string{"gen1", "gen2"}
					}
					for _, d := range dirs {
						got := map[string]string{}
						root := filepath.Join(base, d)
						_ = filepath.Walk(root, func(path string, info os.FileInfo, err error) error {
							if err == nil && !info.IsDir() {
								rel, _ := filepath.Rel(root, path)
								data, _ := os.ReadFile(path)
								got[filepath.ToSlash(rel)] = string(data)
							}
							return nil
						})
						if d := check(got); d != "" {
							return d
						}
					}
					return ""
				default:
					data, err := os.ReadFile(filepath.Join(base, outKind))
					if err != nil {
						return "archive missing: " + err.Error()
					}
					zr, err := zip.NewReader(bytes.NewReader(data), int64(len(data)))
					if err != nil {
						return "archive unreadable: " + err.Error()
					}
					got := map[string]string{}
					for _, f := range zr.File {
						rc, err := f.Open()
						if err != nil {
							return "archive entry unreadable: " + err.Error()
						}
						b, err := io.ReadAll(rc)
						rc.Close()
						if err != nil {
							return "archive entry truncated: " + err.Error()
						}
						got[f.Name] = string(b)
					}
					return check(got)
				}
			}
			var occ []labelCount
			counts := map[string]int{}
			hook.SetOnPoint(func(label string) error {
				if osFaultLabels[label] {
					occ = append(occ, labelCount{label, counts[label]})
					counts[label]++
				}
				return nil
			})
			base, err := runOnce()
			hook.SetOnPoint(nil)
			if err != nil {
				r.Incomplete(fmt.Sprintf("fault-free flush %s/%s failed: %v", outKind, s.Name, err))
				continue
			}
			if d := verify(base); d != "" {
				r.Incomplete(fmt.Sprintf("fault-free flush %s/%s: %s", outKind, s.Name, d))
				continue
			}
			os.RemoveAll(base)
			writes := 0
			var plans []flushCase
			for _, oc := range occ {
				if oc.label == "os.write" {
					writes++
					if writes > 4 {
						continue
					}
					plans = append(plans, flushCase{outKind, s.Name, oc.label, oc.k, true})
				}
				plans = append(plans, flushCase{outKind, s.Name, oc.label, oc.k, false})
			}
			for _, c := range plans {
				if r.Expired() {
					r.Incomplete("deadline in pluginFlush")
					return
				}
				fired := 0
				cnt := map[string]int{}
				hook.SetOnPoint(func(label string) error {
					if !osFaultLabels[label] {
						return nil
					}
					k := cnt[label]
					cnt[label]++
					if label == c.Label && k == c.K {
						fired++
						if c.Short {
							return &hook.ShortWriteError{N: 1, Err: fmt.Errorf("short write: %w", wrap.ErrInjected)}
						}
						return fmt.Errorf("%s: %w", label, wrap.ErrInjected)
					}
					return nil
				})
				base, err := runOnce()
				hook.SetOnPoint(nil)
				r.Eval(1)
				cases++
				if fired > 0 {
					r.Distinct(fmt.Sprintf("flush|%v", c))
				}
				if fired > 0 && err == nil {
					r.Violate("swallowed-os/pluginResponseWriter("+outKindName(outKind)+")/"+c.Label, fmt.Sprintf("generated-file flush to %s returned nil although %s #%d failed (source %s)", outKind, c.Label, c.K, s.Name), c)
				} else if err == nil {
					if d := verify(base); d != "" {
						r.Violate("incomplete-os/pluginResponseWriter("+outKindName(outKind)+")", fmt.Sprintf("generated-file flush to %s returned nil but output is wrong: %s", outKind, d), c)
					}
				}
				os.RemoveAll(base)
			}
		}
	}
	r.Set("plugin_flush_fault_cases", cases)
}

func outKindName(k string) string {
	switch {
	case strings.HasSuffix(k, ".zip"):
		return "zip"
	case strings.HasSuffix(k, ".jar"):
		return "jar"
	case k == "two-dirs":
		return "two-dirs"
	}
	return "dir"
}

// ---- buf export through the in-process CLI ----

func exportCLI(r *evid.Run) {
	ctx := context.Background()
	prev := thread.Parallelism()
	thread.SetParallelism(1)
	defer thread.SetParallelism(prev)
	defer hook.SetOnPoint(nil)
	scratch, err := os.MkdirTemp("", "verif-c15e-")
	if err != nil {
		r.Incomplete(err.Error())
		return
	}
	defer os.RemoveAll(scratch)
	src := filepath.Join(scratch, "src")
	files := map[string]string{
		"a/v1/a.proto": "syntax = \"proto3\";\npackage a.v1;\nimport \"b/v1/b.proto\";\nmessage A { b.v1.B b = 1; }\n",
		"b/v1/b.proto": "syntax = \"proto3\";\npackage b.v1;\nmessage B {}\n",
	}
	for p, c := range files {
		full := filepath.Join(src, p)
		_ = os.MkdirAll(filepath.Dir(full), 0o755)
		_ = os.WriteFile(full, []byte(c), 0o644)
	}
	n := 0
	runOnce := func() (string, bufx.CLIResult) {
		n++
		out := filepath.Join(scratch, fmt.Sprintf("out%d", n))
		return out, bufx.RunCLI(ctx, nil, "", "export", src, "-o", out)
	}
	var occ []labelCount
	counts := map[string]int{}
	hook.SetOnPoint(func(label string) error {
		if osFaultLabels[label] {
			occ = append(occ, labelCount{label, counts[label]})
			counts[label]++
		}
		return nil
	})
	out, res := runOnce()
	hook.SetOnPoint(nil)
	if res.ExitCode != 0 {
		r.Incomplete("fault-free buf export failed: " + res.Stderr)
		return
	}
	verify := func(out string) string {
		for p, c := range files {
			data, err := os.ReadFile(filepath.Join(out, p))
			if err != nil {
				return "missing " + p
			}
			if string(data) != c {
				return "truncated " + p
			}
		}
		return ""
	}
	if d := verify(out); d != "" {
		r.Incomplete("fault-free buf export: " + d)
		return
	}
	cases := 0
	for _, oc := range occ {
		for _, short := range []bool{false, true} {
			if short && oc.label != "os.write" {
				continue
			}
			c := flushCase{"buf export", "two-files", oc.label, oc.k, short}
			fired := 0
			cnt := map[string]int{}
			hook.SetOnPoint(func(label string) error {
				if !osFaultLabels[label] {
					return nil
				}
				k := cnt[label]
				cnt[label]++
				if label == c.Label && k == c.K {
					fired++
					if short {
						return &hook.ShortWriteError{N: 1, Err: fmt.Errorf("short write: %w", wrap.ErrInjected)}
					}
					return fmt.Errorf("%s: %w", label, wrap.ErrInjected)
				}
				return nil
			})
			out, res := runOnce()
			hook.SetOnPoint(nil)
			r.Eval(1)
			cases++
			if fired > 0 {
				r.Distinct(fmt.Sprintf("export|%v", c))
			}
			if fired > 0 && res.ExitCode == 0 {
				r.Violate("swallowed-os/buf-export/"+c.Label, fmt.Sprintf("buf export exited 0 although %s #%d failed", c.Label, c.K), c)
			} else if res.ExitCode == 0 {
				if d := verify(out); d != "" {
					r.Violate("incomplete-os/buf-export", "buf export exited 0 but output is wrong: "+d, c)
				}
			}
			os.RemoveAll(out)
		}
	}
	r.Set("buf_export_fault_cases", cases)
	_ = time.Now
}
