package c15

import (
	"context"
	"fmt"

	"github.com/bufbuild/buf/private/pkg/storage/storagemem"
	"github.com/bufbuild/buf/private/pkg/thread"
	"github.com/bufbuild/bufverif/internal/enum"
	"github.com/bufbuild/bufverif/internal/evid"
	"github.com/bufbuild/bufverif/internal/hook"
	"github.com/bufbuild/bufverif/internal/joborder"
	"github.com/bufbuild/bufverif/internal/wrap"
)

func init() { extraSections = append(extraSections, jobOrderFaults) }

type orderCase struct {
	Seam  string      `json:"seam"`
	Plans []wrap.Plan `json:"plans"`
	Order []int       `json:"job_order"`
}

// jobOrderFaults re-runs every single fault of the parallel copy seams under every execution order of
// the copy jobs (thread.Parallelize, jobs atomic): the error must be reported in every order.
func jobOrderFaults(r *evid.Run) {
	ctx := context.Background()
	prev := thread.Parallelism()
	thread.SetParallelism(8)
	defer thread.SetParallelism(prev)
	defer hook.SetGroupHandler(nil)
	src := Sources[1].Files // three files -> three jobs
	n := 0
	for _, seam := range StorageSeams() {
		if seam.Name != "storage.Copy" && seam.Name != "storage.Copy(atomic)" && seam.Name != "storage.Copy->MapWriteBucket" {
			continue
		}
		rec := wrap.NewFaultBucket(storagemem.NewReadWriteBucket())
		jh := joborder.New(nil)
		hook.SetGroupHandler(jh)
		if err := seam.Run(ctx, src, rec); err != nil {
			r.Incomplete("job-order baseline failed: " + err.Error())
			continue
		}
		hook.SetGroupHandler(nil)
		calls := jh.Finish()
		if len(calls) != 1 || calls[0].Jobs != len(src) {
			r.Incomplete(fmt.Sprintf("job-order: expected one Parallelize call with %d jobs, saw %v", len(src), calls))
			continue
		}
		key := calls[0].Key()
		for _, op := range dedupOps(rec.Recorded()) {
			for _, mode := range modesFor(op.Kind) {
				for _, perm := range enum.Permutations(calls[0].Jobs) {
					plans := []wrap.Plan{{Op: op, Mode: mode}}
					jh := joborder.New(map[string][]int{key: perm})
					hook.SetGroupHandler(jh)
					sig, what, fired := runFaultCase(seam, Sources[1].Name, src, plans)
					hook.SetGroupHandler(nil)
					got := jh.Finish()
					r.Eval(1)
					n++
					c := orderCase{seam.Name, plans, perm}
					if fired > 0 && len(got) == 1 && fmt.Sprint(got[0].Order) == fmt.Sprint(perm) {
						r.Distinct(fmt.Sprintf("order|%v", c))
					}
					if sig != "" {
						r.Violate("job-order/"+sig, what+fmt.Sprintf(" (job order %v)", perm), c)
					}
				}
			}
		}
	}
	r.Set("fault_x_job_order_cases", n)
}
