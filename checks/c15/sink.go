package c15

import (
	"bytes"
	"context"
	"fmt"
	"os"
	"path/filepath"
	"strings"
	"syscall"

	"github.com/bufbuild/buf/private/buf/cmd/buf"
	"github.com/bufbuild/buf/private/pkg/app"
	"github.com/bufbuild/buf/private/pkg/app/appcmd"
	"github.com/bufbuild/bufverif/internal/evid"
)

// Output streams: an image (or a file descriptor set) written to standard output, plain and through the gzip /
// zstd compressors, into a sink that is full after k bytes - for every k from 0 to the size of the fault-free
// output. The compressors buffer: most of their output, and the error of writing it, only appear when the chain of
// closers runs. Oracle: a sink that refused a write => non-zero exit status; exit status 0 => the sink holds
// exactly the fault-free bytes.

func init() { extraSections = append(extraSections, outputSinks) }

type fullSink struct {
	buf     bytes.Buffer
	limit   int
	refused bool
}

func (s *fullSink) Write(p []byte) (int, error) {
	room := s.limit - s.buf.Len()
	if room >= len(p) {
		return s.buf.Write(p)
	}
	s.refused = true
	if room > 0 {
		s.buf.Write(p[:room])
	} else {
		room = 0
	}
	return room, &os.PathError{Op: "write", Path: "/dev/stdout", Err: syscall.ENOSPC}
}

type sinkCase struct {
	Output string `json:"output"`
	Limit  int    `json:"sink_full_after_bytes"`
}

func outputSinks(r *evid.Run) {
	ctx := context.Background()
	dir, err := os.MkdirTemp("", "verif-c15-sink-")
	if err != nil {
		r.Incomplete(err.Error())
		return
	}
	defer os.RemoveAll(dir)
	// incompressible names make the compressed output long enough to need several writes
	var fields strings.Builder
	for i := 1; i <= 40; i++ {
		fmt.Fprintf(&fields, "  string f%dx%x = %d;\n", i, i*2654435761%1000003, i)
	}
	_ = os.WriteFile(filepath.Join(dir, "a.proto"), []byte("syntax = \"proto3\";\npackage a;\nmessage A {\n"+fields.String()+"}\n"), 0o644)
	run := func(out string, sink *fullSink) int {
		var errb bytes.Buffer
		env := map[string]string{"HOME": "/nonexistent-verif-home", "BUF_CACHE_DIR": "/nonexistent-verif-home/.cache"}
		container := app.NewContainer(env, strings.NewReader(""), sink, &errb, "buf", "build", dir, "-o", out, "--timeout", "0")
		return app.GetExitCode(appcmd.Run(ctx, container, buf.NewRootCommand("buf")))
	}
	outputs := []string{
		"-#format=binpb", "-#format=binpb,compression=gzip", "-#format=binpb,compression=zstd",
		"-#format=json", "-#format=json,compression=gzip", "-#format=txtpb,compression=zstd",
	}
	if !r.Quick() {
		outputs = append(outputs, "-#format=yaml", "-#format=yaml,compression=gzip", "-#format=txtpb", "-#format=json,compression=zstd")
	}
	type item struct {
		out   string
		ref   []byte
		limit int
	}
	var items []item
	for _, out := range outputs {
		ref := &fullSink{limit: 1 << 30}
		if code := run(out, ref); code != 0 || ref.buf.Len() == 0 {
			r.Incomplete(fmt.Sprintf("fault-free `buf build -o %s` exited %d with %d bytes", out, code, ref.buf.Len()))
			continue
		}
		n := ref.buf.Len()
		stride := 1
		if r.Quick() && n > 400 {
			// every position of the first and last 150 bytes, every 7th in between
			stride = 7
		}
		for k := 0; k < n; k++ {
			if stride > 1 && k >= 150 && k < n-150 && k%stride != 0 {
				continue
			}
			items = append(items, item{out, ref.buf.Bytes(), k})
		}
		r.Set("output_sink_bytes["+out+"]", n)
	}
	r.Set("output_sink_cases", len(items))
	r.ParallelFor(len(items), 0, func(i int) {
		it := items[i]
		sink := &fullSink{limit: it.limit}
		code := run(it.out, sink)
		r.Eval(1)
		c := sinkCase{it.out, it.limit}
		if sink.refused {
			r.Distinct(fmt.Sprintf("sink|%s|%d", it.out, it.limit))
		}
		r.SampleEvery(i, 499, func() any { return c })
		kind := "plain"
		if strings.Contains(it.out, "compression=") {
			kind = it.out[strings.Index(it.out, "compression=")+len("compression="):]
		}
		if sink.refused && code == 0 {
			r.Violate("swallowed/output-stream/"+kind, fmt.Sprintf("`buf build -o %s` exited 0 although the output stream refused a write after %d of %d bytes", it.out, it.limit, len(it.ref)), c)
		} else if code == 0 && !bytes.Equal(sink.buf.Bytes(), it.ref) {
			r.Violate("incomplete/output-stream/"+kind, fmt.Sprintf("`buf build -o %s` exited 0 but wrote %d bytes, the fault-free output has %d", it.out, sink.buf.Len(), len(it.ref)), c)
		}
	})
}
