// Package c17 is the check for property C17 (see DESIGN.md section 3).
package c17
