// Package c17 is the check for property C17: each file is generated exactly once and plugin
// output stays in its directory.
//
// Bounded-exhaustive exploration in three halves (see NOTES.md):
//
//	A  requests   every labelled import DAG on n files x every directory layout x WKT/option flags
//	              x every target subset x strategy x include_imports x include_wkt (x type filters)
//	              on the real compiler + ImageByDir + ImagesToCodeGeneratorRequests, judged by a
//	              set-level reference model of the DAG (requests.go)
//	B  responses  every probe file name of the C13 alphabet x out configuration x entry kind x content
//	              on the real ValidatePluginResponses + ResponseWriter in a sentinel-laden tree (responses.go)
//	C  CLI        both halves through `buf generate` in-process with the recording/scripted plugin
//	              binary protoc-gen-verif (cli.go, protoc-gen-verif/); histories of per-input generation
//	              runs inside one invocation (inputs.go)
package c17

import (
	"math"
	"os"
	"path/filepath"
	"strings"
	"syscall"
	"time"

	"github.com/bufbuild/bufverif/checks/c13"
	"github.com/bufbuild/bufverif/internal/evid"
)

func init() {
	evid.Register(&evid.Check{ID: "C17", Level: "exploration", Run: run, QuickBudget: 360 * time.Second, ThoroughBudget: 30 * time.Minute})
}

func run(r *evid.Run) {
	r.Rule("A: one case = (labelled import DAG, import kind per edge {referenced, unused, public}, directory per file, WKT/option flag per file, unused-WKT-import flag per file, target subset, strategy, include_imports, include_wkt[, type filter][, image as compiled or after its wire form]); " +
		"distinct non-trivial = distinct such tuples whose image contains at least one import or WKT. " +
		"B/C: one case = (out configuration, probe file name, entry kind, content); distinct = (configuration, kind, structural class of the name, outcome stage). " +
		"C inputs: one case = one `buf generate` invocation over 2-3 template inputs = a history of per-input generation runs (out configuration, probe name, which step produces / inserts into the probed file, which plugin). " +
		"C requests: one case = (module [with unused imports], input kind {directory, binary image}, target subset, template version {v2, v1}, ordered list of 2-4 plugin configs, each a plugin binary or a protoc built-in plugin (name x compiler version x way the compiler is found) - pairs with different grouping keys and groups of plugins that share the key (strategy, type filters) but differ in include_imports/include_wkt/opt/out - , command-line override). " +
		"All spaces are enumerated completely, nothing is sampled.")
	r.Assume("the protoc plugin itself is trusted to be any program: only what buf sends to it and what buf does with its response is judged")
	r.Assume("out locations are plain directories or .zip/.jar files below one base directory; symlinked or case-folded spellings of one directory are out of scope")
	r.Assume("under a per-plugin type filter only the filter-independent clauses are demanded (no duplicates, nothing unrequested, files that keep a type are generated, closure, order, source options stripped); which files a filter keeps is C12's subject")
	r.Assume("remote plugins (BSR code generation service) are out of scope: offline")
	r.Assume("protoc built-in plugins: the compiler is a recording stand-in (no protoc in the sandbox); judged is what buf hands to it (descriptor set, files to generate, parameter, generator name) and where buf puts the files it wrote, not protoc's own derivation of the runtime view")

	scratch, err := os.MkdirTemp("", "verif-c17-")
	if err != nil {
		r.Incomplete("harness: " + err.Error())
		return
	}
	defer os.RemoveAll(scratch)
	if p, err := filepath.EvalSymlinks(scratch); err == nil {
		scratch = p
	}

	only := os.Getenv("VERIF_C17_ONLY") // debugging aid: subset of "ABC"; empty = everything
	want := func(h string) bool { return only == "" || strings.Contains(only, h) }
	cpuMark := cpuSeconds()
	lap := func(key string) {
		now := cpuSeconds()
		r.Set(key, math.Round((now-cpuMark)*10)/10)
		cpuMark = now
	}

	var bin string
	var binErr error
	if want("C") {
		bin, binErr = buildPlugin(scratch)
		if binErr != nil {
			r.Incomplete("harness: half C skipped: " + binErr.Error())
		} else {
			// round 4: the same binary is the compiler `protoc` of the protoc built-in plugins (it plays protoc when it
			// is started with arguments). buf finds a compiler without protoc_path through exec.LookPath, i.e. through the
			// PATH of this process: a directory holding only the link `protoc` is put in front for the duration of the run.
			pathDir := filepath.Join(scratch, "path")
			if err := os.MkdirAll(pathDir, 0o755); err == nil {
				err = os.Symlink(bin, filepath.Join(pathDir, "protoc"))
				if err != nil {
					r.Incomplete("harness: cannot link the fake compiler: " + err.Error())
				}
			}
			oldPath := os.Getenv("PATH")
			_ = os.Setenv("PATH", pathDir+string(os.PathListSeparator)+oldPath)
			defer os.Setenv("PATH", oldPath)
		}
	}

	// serial prologue: the only part that depends on the process working directory
	if want("B") {
		runRelVsAbs(r, scratch)
	}
	if want("C") && binErr == nil {
		runCLIRelVsAbs(r, scratch, bin)
	}
	lap("cpu_s_prologue")

	xyz := []string{"x", "y", "x/z"}

	// half B
	if want("B") {
		depth := 3
		if r.Quick() {
			depth = 2
		}
		names := c13.Paths(depth)
		r.Set("B_probe_name_components", depth)
		runResponses(r, scratch, names)
		lap("cpu_s_half_B")
	}

	// half C
	if want("C") && binErr == nil {
		cliDepth := 2
		layoutList := layouts(3, xyz)
		if r.Quick() {
			cliDepth = 1
			layoutList = [][]string{{"x", "y", "x/z"}, {"x/z", "x", "x"}, {"y", "y", "x"}}
		}
		r.Set("C_probe_name_components", cliDepth)
		runCLIResponses(r, scratch, bin, cliNames(cliDepth))
		lap("cpu_s_half_C_responses")
		// round 3: histories of per-input generation runs inside one invocation (buf.gen.yaml v2 `inputs:`)
		plans := []inputsPlan{{2, cliNames(2)}, {3, cliNames(1)}}
		if r.Quick() {
			plans = []inputsPlan{{2, cliNames(1)}}
		}
		runCLIInputs(r, scratch, bin, plans)
		lap("cpu_s_half_C_inputs")
		runCLIRequests(r, scratch, bin, layoutList)
		lap("cpu_s_half_C_requests")
	}

	// half A (last: it is the most expensive one, so a deadline cuts it and not the others)
	if want("A") {
		spaces := []reqSpace{
			{n: 2, dirs: xyz, wktMasks: allMasks(2), filterWkt: map[int]bool{0: true, 1: true, 2: true, 3: true}},
			// quick: no file / one file / two files / every file imports the WKT and carries the options
			{n: 3, dirs: xyz, wktMasks: []int{0, 1, 5, 7}, filterWkt: map[int]bool{0: true, 5: true}},
		}
		// round 3: imports that the image records specially. Every assignment of import kinds to the edges of every
		// n=3 DAG (at least one import unused or public), and an unused well-known-type import, x every layout x
		// every target subset x the 8 configurations; the all-targeted image also after its wire form.
		unused := []reqSpace{
			{n: 2, dirs: xyz, wktMasks: []int{0, 3}, kinds: []int{kindUsed, kindUnused, kindPublic}, emptyMasks: allMasks(2), skipPlain: true, viaWire: true},
			{n: 3, dirs: xyz, wktMasks: []int{0}, kinds: []int{kindUsed, kindUnused}, skipPlain: true, viaWire: true},
			{n: 3, dirs: xyz, wktMasks: []int{0}, emptyMasks: []int{1, 6}, skipPlain: true, viaWire: true},
			{n: 3, dirs: xyz, wktMasks: []int{0}, kinds: []int{kindUsed, kindPublic}, skipPlain: true, viaWire: true},
		}
		if !r.Quick() {
			unused = []reqSpace{
				unused[0],
				{n: 3, dirs: xyz, wktMasks: []int{0}, kinds: []int{kindUsed, kindUnused, kindPublic}, emptyMasks: []int{0, 1, 6, 7}, skipPlain: true, viaWire: true},
			}
		}
		spaces = append(spaces, unused...)
		if !r.Quick() {
			spaces[1].wktMasks = allMasks(3)
			spaces[1].filterWkt = map[int]bool{0: true, 1: true, 2: true, 4: true, 5: true, 7: true}
			spaces = append(spaces, reqSpace{n: 4, dirs: xyz, wktMasks: []int{0, 1, 15}, dagClass: "monotone"})
		}
		if os.Getenv("VERIF_C17_A_SMALL") != "" { // debugging aid for mutant runs: a subset of the quick space
			spaces = []reqSpace{spaces[0], {n: 3, dirs: xyz, wktMasks: []int{0, 5}, filterWkt: map[int]bool{5: true}}, unused[0]}
		}
		runRequests(r, spaces)
		lap("cpu_s_half_A")
	}
}

// cpuSeconds is the CPU time (user+system) of this process and its waited-for children so far.
func cpuSeconds() float64 {
	var self, children syscall.Rusage
	_ = syscall.Getrusage(syscall.RUSAGE_SELF, &self)
	_ = syscall.Getrusage(syscall.RUSAGE_CHILDREN, &children)
	t := func(tv syscall.Timeval) float64 { return float64(tv.Sec) + float64(tv.Usec)/1e6 }
	return t(self.Utime) + t(self.Stime) + t(children.Utime) + t(children.Stime)
}
