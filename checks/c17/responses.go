package c17

// Half B of C17: CodeGeneratorResponses.
//
// A scenario is 1-2 plugins with an out location each, the response of each plugin, and files
// that exist on disk before the run. The probing plugin (the last one) returns one entry whose
// name ranges over the C13 path alphabet. The scenario is executed on the real
// ValidatePluginResponses + ResponseWriter.AddResponse/Close (exactly the sequence of
// bufgen.generator) inside a directory tree that carries sentinel files at every level above the
// out directories. The reference model works on lexically resolved names (c13.Resolve).

import (
	"archive/zip"
	"context"
	"fmt"
	"io"
	"os"
	"path"
	"path/filepath"
	"sort"
	"strings"

	"github.com/bufbuild/buf/private/bufpkg/bufprotoplugin"
	"github.com/bufbuild/buf/private/bufpkg/bufprotoplugin/bufprotopluginos"
	"github.com/bufbuild/buf/private/pkg/storage/storageos"
	"github.com/bufbuild/bufverif/checks/c13"
	"github.com/bufbuild/bufverif/internal/bufx"
	"github.com/bufbuild/bufverif/internal/evid"
	"google.golang.org/protobuf/proto"
	"google.golang.org/protobuf/types/pluginpb"
)

const (
	ipName     = "ip"
	markerLine = "// @@protoc_insertion_point(" + ipName + ")\n"
	absToken   = "<BASE>" // replaced by the absolute base directory in out spellings
)

func tag(id string) string { return "<<" + id + ">>" }

// Entry is one CodeGeneratorResponse.File.
type Entry struct {
	Name           string `json:"name"`
	InsertionPoint string `json:"insertion_point,omitempty"`
	Content        string `json:"content"`
}

// PluginSpec is one plugin of a scenario.
type PluginSpec struct {
	ID    string  `json:"id"`
	Out   string  `json:"out"` // as written in the configuration, relative to the base directory (or absToken/...)
	Files []Entry `json:"files"`
}

// Scenario is one case of half B (and of the response side of half C).
type Scenario struct {
	Half     string            `json:"half"`
	OutClass string            `json:"out_config"`
	Kind     string            `json:"kind"`
	Name     string            `json:"probe_name"`
	Plugins  []PluginSpec      `json:"plugins"`
	Pre      map[string]string `json:"pre_existing,omitempty"`      // files of a "previous run", relative to base
	PreDirs  []string          `json:"pre_existing_dirs,omitempty"` // empty directories that exist before the run, relative to base
	UseCwd   bool              `json:"relative_to_cwd,omitempty"`
	Outcome  string            `json:"outcome,omitempty"`
}

func isArchive(out string) bool {
	return strings.HasSuffix(out, ".zip") || strings.HasSuffix(out, ".jar")
}

// outAbs is the absolute, clean location of a plugin's out.
func outAbs(base, out string) string {
	out = strings.ReplaceAll(out, absToken, base)
	if path.IsAbs(out) {
		return path.Clean(out)
	}
	return path.Clean(base + "/" + out)
}

// validName: the name lexically stays inside the out location and names something below it.
func validName(name string) (normal string, ok bool) {
	if name == "" {
		return "", false
	}
	rp := c13.Resolve(name)
	if rp.Absolute || rp.Escapes || rp.Normal == "." {
		return "", false
	}
	return rp.Normal, true
}

// location of an entry: absolute disk path, or "<zip>!/<name>" inside an archive out.
func entryLocation(base string, p *PluginSpec, normal string) string {
	o := outAbs(base, p.Out)
	if isArchive(o) {
		return o + "!/" + normal
	}
	return o + "/" + normal
}

// Expectation is what the property demands of a scenario.
type Expectation struct {
	MustError string          // "" or the rule that demands an error
	Produced  map[string]bool // locations produced (plain entries with valid names) in this run
}

// Expect is the reference model.
func (s *Scenario) Expect(base string) Expectation {
	e := Expectation{Produced: map[string]bool{}}
	by := map[string]string{}
	set := func(rule string) {
		if e.MustError == "" {
			e.MustError = rule
		}
	}
	for pi := range s.Plugins {
		p := &s.Plugins[pi]
		for _, f := range p.Files {
			normal, ok := validName(f.Name)
			if f.InsertionPoint == "" {
				if !ok {
					continue
				}
				loc := entryLocation(base, p, normal)
				if other, dup := by[loc]; dup && other != p.ID {
					set("duplicate-output")
				}
				by[loc] = p.ID
				e.Produced[loc] = true
				continue
			}
			if f.Name != "" && !c13.Resolve(f.Name).Absolute && !c13.Resolve(f.Name).Escapes && c13.Resolve(f.Name).Normal == "." {
				// the insertion target is the out location itself: never a file of this run
				set("insertion-absent")
				continue
			}
			if !ok {
				continue
			}
			loc := entryLocation(base, p, normal)
			if !e.Produced[loc] {
				if _, pre := s.Pre[strings.TrimPrefix(loc, base+"/")]; pre {
					set("insertion-previous-run")
				} else {
					set("insertion-absent")
				}
			}
		}
	}
	return e
}

// ---------------------------------------------------------------- fixture

type respFixture struct {
	root, base string
	outside    map[string]string
}

var outsideFiles = []string{
	"a", "a.b/a", "..a", ".../a",
	"p1/a", "p1/a.b/a", "p1/..a", "p1/.../a",
	"p1/p2/a/a", "p1/p2/a/a.b", "p1/p2/a.b", "p1/p2/..a/a", "p1/p2/...",
	"p1/p2/p3/a", "p1/p2/p3/a.b/a", "p1/p2/p3/..a", "p1/p2/p3/.../a", "p1/p2/p3/t",
}

var outNames = []string{"o1", "o2", "o1.zip", "o1.jar"}

func newRespFixture(root string) (*respFixture, error) {
	fx := &respFixture{root: root, base: root + "/p1/p2/p3"}
	if err := os.RemoveAll(root); err != nil {
		return nil, err
	}
	for i, f := range outsideFiles {
		p := filepath.Join(root, f)
		if err := os.MkdirAll(filepath.Dir(p), 0o755); err != nil {
			return nil, err
		}
		if err := os.WriteFile(p, []byte(fmt.Sprintf("SENTINEL-%d\n%s", i, markerLine)), 0o644); err != nil {
			return nil, err
		}
	}
	var err error
	fx.outside, err = fx.snapshot(false)
	return fx, err
}

// snapshot reads every file below root; withOuts=false skips the out locations.
func (fx *respFixture) snapshot(withOuts bool) (map[string]string, error) {
	out := map[string]string{}
	skip := map[string]bool{}
	for _, o := range outNames {
		skip[filepath.Join(fx.base, o)] = true
	}
	err := filepath.Walk(fx.root, func(p string, info os.FileInfo, err error) error {
		if err != nil {
			return err
		}
		if !withOuts && skip[p] {
			if info.IsDir() {
				return filepath.SkipDir
			}
			return nil
		}
		if info.IsDir() {
			out[p+"/"] = ""
			return nil
		}
		b, err := os.ReadFile(p)
		if err != nil {
			return err
		}
		out[p] = string(b)
		return nil
	})
	return out, err
}

func (fx *respFixture) cleanOuts() {
	for _, o := range outNames {
		_ = os.RemoveAll(filepath.Join(fx.base, o))
	}
}

func diffSnap(before, after map[string]string) string {
	var d []string
	for _, k := range bufx.SortedKeys(before) {
		v, ok := after[k]
		if !ok {
			d = append(d, "deleted "+k)
		} else if v != before[k] {
			d = append(d, "changed "+k)
		}
	}
	for _, k := range bufx.SortedKeys(after) {
		if _, ok := before[k]; !ok {
			d = append(d, "created "+k)
		}
	}
	return strings.Join(d, "; ")
}

// ---------------------------------------------------------------- execution on the seam

func toResponse(p *PluginSpec) *pluginpb.CodeGeneratorResponse {
	resp := &pluginpb.CodeGeneratorResponse{}
	for _, f := range p.Files {
		file := &pluginpb.CodeGeneratorResponse_File{Name: proto.String(f.Name), Content: proto.String(f.Content)}
		if f.InsertionPoint != "" {
			file.InsertionPoint = proto.String(f.InsertionPoint)
		}
		resp.File = append(resp.File, file)
	}
	return resp
}

// execSeam is bufgen.generator.validateResponses + generateCode for already collected responses.
func execSeam(ctx context.Context, base string, s *Scenario) (stage string, err error) {
	var prs []*bufprotoplugin.PluginResponse
	resps := make([]*pluginpb.CodeGeneratorResponse, len(s.Plugins))
	for i := range s.Plugins {
		resps[i] = toResponse(&s.Plugins[i])
		prs = append(prs, bufprotoplugin.NewPluginResponse(resps[i], s.Plugins[i].ID, strings.ReplaceAll(s.Plugins[i].Out, absToken, base)))
	}
	if err := bufprotoplugin.ValidatePluginResponses(prs); err != nil {
		return "validate", err
	}
	w := bufprotopluginos.NewResponseWriter(bufx.Logger, storageos.NewProvider(storageos.ProviderWithSymlinks()), bufprotopluginos.ResponseWriterWithCreateOutDirIfNotExists())
	for i := range s.Plugins {
		out := strings.ReplaceAll(s.Plugins[i].Out, absToken, base)
		if !s.UseCwd {
			out = filepath.Join(base, out)
		}
		if err := w.AddResponse(ctx, resps[i], out); err != nil {
			return "add", err
		}
	}
	if err := w.Close(); err != nil {
		return "close", err
	}
	return "", nil
}

// RespStats are per-clause exercise counters of halves B and C.
type RespStats struct {
	Cases, Errors, Successes                     int
	MustDup, MustInsPrev, MustInsAbsent          int
	InvalidNames, InvalidRejected                int
	InsertionApplied, PlainWritten, ArchiveCases int
	ErrValidate, ErrAdd, ErrClose                int
	ArchiveEntryWritten, ArchiveEntriesRead      int
	SuccessByConfig                              map[string]int // out configuration label -> successful runs
}

func (s *RespStats) add(o *RespStats) {
	s.Cases += o.Cases
	s.Errors += o.Errors
	s.Successes += o.Successes
	s.MustDup += o.MustDup
	s.MustInsPrev += o.MustInsPrev
	s.MustInsAbsent += o.MustInsAbsent
	s.InvalidNames += o.InvalidNames
	s.InvalidRejected += o.InvalidRejected
	s.InsertionApplied += o.InsertionApplied
	s.PlainWritten += o.PlainWritten
	s.ArchiveCases += o.ArchiveCases
	s.ErrValidate += o.ErrValidate
	s.ErrAdd += o.ErrAdd
	s.ErrClose += o.ErrClose
	s.ArchiveEntryWritten += o.ArchiveEntryWritten
	s.ArchiveEntriesRead += o.ArchiveEntriesRead
	for k, v := range o.SuccessByConfig {
		if s.SuccessByConfig == nil {
			s.SuccessByConfig = map[string]int{}
		}
		s.SuccessByConfig[k] += v
	}
}

func (s *RespStats) asMap() map[string]int {
	return map[string]int{
		"cases": s.Cases, "errors": s.Errors, "successes": s.Successes,
		"error_demanded_duplicate_output": s.MustDup, "error_demanded_insertion_previous_run": s.MustInsPrev,
		"error_demanded_insertion_absent": s.MustInsAbsent, "probe_names_leaving_out_dir": s.InvalidNames,
		"probe_names_leaving_out_dir_rejected": s.InvalidRejected, "insertions_applied_and_verified": s.InsertionApplied,
		"plain_files_written_and_verified": s.PlainWritten, "archive_cases": s.ArchiveCases,
		"errors_from_validate": s.ErrValidate, "errors_from_add_response": s.ErrAdd, "errors_from_close": s.ErrClose,
		"archive_entries_written_and_verified": s.ArchiveEntryWritten, "archive_entries_read_for_containment": s.ArchiveEntriesRead,
	}
}

// prepare writes the files of the "previous run".
func (fx *respFixture) prepare(s *Scenario) error {
	for _, rel := range s.PreDirs {
		if err := os.MkdirAll(filepath.Join(fx.base, rel), 0o755); err != nil {
			return err
		}
	}
	for rel, content := range s.Pre {
		p := filepath.Join(fx.base, rel)
		if err := os.MkdirAll(filepath.Dir(p), 0o755); err != nil {
			return err
		}
		if err := os.WriteFile(p, []byte(content), 0o644); err != nil {
			return err
		}
	}
	return nil
}

// judge applies the oracles after a scenario ran (failed: the run reported an error).
// It returns false when the fixture must be rebuilt.
func (fx *respFixture) judge(s *Scenario, failed bool, st *RespStats, report func(sig, what string)) bool {
	exp := s.Expect(fx.base)
	st.Cases++
	if failed {
		st.Errors++
	} else {
		st.Successes++
		if st.SuccessByConfig == nil {
			st.SuccessByConfig = map[string]int{}
		}
		label, _, _ := strings.Cut(s.Kind, "/")
		st.SuccessByConfig[label]++
	}
	if isArchive(s.Plugins[0].Out) {
		st.ArchiveCases++
	}
	probe := s.Plugins[len(s.Plugins)-1]
	probeEntry := probe.Files[len(probe.Files)-1]
	if _, ok := validName(probeEntry.Name); !ok {
		st.InvalidNames++
		if failed {
			st.InvalidRejected++
		}
	}
	switch exp.MustError {
	case "duplicate-output":
		st.MustDup++
		if !failed {
			// the out class is only kept where it names a different defect: the validator never sees that a relative
			// and an absolute spelling are one directory, every other configuration is caught by the same comparison
			class := "same-base-out"
			if s.OutClass == "relative-vs-absolute-out" {
				class = s.OutClass
			}
			report("duplicate-output/undetected/"+class, "two plugins produced the same output path and no error was reported")
		}
	case "insertion-previous-run":
		st.MustInsPrev++
		if !failed {
			report("insertion/into-file-of-previous-run/accepted", "an insertion point into a file that exists on disk but was not produced in this run was accepted")
		}
	case "insertion-absent":
		st.MustInsAbsent++
		if !failed {
			report("insertion/into-file-not-produced/accepted", "an insertion point into a file that no plugin produced in this run was accepted")
		}
	}
	ok, all, entries := fx.judgeState(s, failed, exp.Produced, st, report)
	if all == nil {
		return false
	}
	// non-vacuity: verify the positive effect on success
	if !failed {
		if normal, valid := validName(probeEntry.Name); valid && isArchive(outAbs(fx.base, probe.Out)) {
			if got, exists := entries[outAbs(fx.base, probe.Out)][normal]; exists && probeEntry.InsertionPoint == "" && got == probeEntry.Content {
				st.ArchiveEntryWritten++
			}
		}
		if normal, valid := validName(probeEntry.Name); valid && !isArchive(outAbs(fx.base, probe.Out)) {
			got, exists := all[entryLocation(fx.base, &probe, normal)]
			if probeEntry.InsertionPoint == "" {
				if exists && got == probeEntry.Content {
					st.PlainWritten++
				}
			} else if exists && probeEntry.Content != "" {
				if i, j := strings.Index(got, strings.TrimSuffix(probeEntry.Content, "\n")), strings.Index(got, strings.TrimSuffix(markerLine, "\n")); i >= 0 && j > i {
					st.InsertionApplied++
				}
			} else if exists && probeEntry.Content == "" {
				st.InsertionApplied++
			}
		}
	}
	return ok
}

// judgeState applies the state oracles (containment, previous-run files, archive entry names) to the tree after a
// run of the plugins s.Plugins; produced are the locations the model says were produced in the run. It returns the
// snapshot of the whole tree and the entries of every readable archive (nil, nil after a harness problem).
func (fx *respFixture) judgeState(s *Scenario, failed bool, produced map[string]bool, st *RespStats, report func(sig, what string)) (bool, map[string]string, map[string]map[string]string) {
	ok := true
	// S1: everything outside the out locations is unchanged
	after, err := fx.snapshot(false)
	if err != nil {
		report("harness/snapshot", err.Error())
		return false, nil, nil
	}
	if d := diffSnap(fx.outside, after); d != "" {
		report("containment/outside-out-dir-changed", "files outside every plugin's output location changed: "+strings.ReplaceAll(d, fx.root, "<root>"))
		ok = false
	}
	// S2: content of a plugin only beneath that plugin's out; S3: files of a previous run untouched
	all, err := fx.snapshot(true)
	if err != nil {
		report("harness/snapshot", err.Error())
		return false, nil, nil
	}
	for _, p := range bufx.SortedKeys(all) {
		content := all[p]
		if strings.HasSuffix(p, "/") {
			continue
		}
		for i := range s.Plugins {
			pl := &s.Plugins[i]
			if !strings.Contains(content, tag(pl.ID)) {
				continue
			}
			o := outAbs(fx.base, pl.Out)
			if !(p == o && isArchive(o)) && !strings.HasPrefix(p, o+"/") {
				report("containment/content-outside-own-out-dir", fmt.Sprintf("content of plugin %s (out %s) was written to %s", pl.ID, pl.Out, strings.ReplaceAll(p, fx.root, "<root>")))
			}
		}
	}
	// S2 inside archives: an archive is the output location of exactly the plugins configured with it, so an
	// entry of the archive may only carry content of those plugins - also when the archive lies below another
	// plugin's out directory (the raw-bytes test above cannot tell: archives are stored uncompressed and the
	// path of the archive is below that directory)
	entries := map[string]map[string]string{} // archive path -> entry name -> content
	for _, p := range bufx.SortedKeys(all) {
		if strings.HasSuffix(p, "/") || !isArchive(p) {
			continue
		}
		ents, readable := archiveEntries(all[p])
		if !readable {
			continue // S4 reports unreadable archives of successful runs
		}
		entries[p] = ents
		for _, n := range bufx.SortedKeys(ents) {
			st.ArchiveEntriesRead++
			for i := range s.Plugins {
				pl := &s.Plugins[i]
				if strings.Contains(ents[n], tag(pl.ID)) && outAbs(fx.base, pl.Out) != p {
					report("containment/content-outside-own-out-dir", fmt.Sprintf("content of plugin %s (out %s) was written to entry %q of the archive %s", pl.ID, pl.Out, n, strings.ReplaceAll(p, fx.root, "<root>")))
				}
			}
		}
	}
	for rel, content := range s.Pre {
		p := filepath.Join(fx.base, rel)
		if produced[p] {
			continue
		}
		// only a modification in place counts (a plain output replacing the file is not an insertion)
		if got, exists := all[p]; exists && got != content && strings.Contains(got, "PREVIOUS-RUN") {
			report("insertion/previous-run-file-modified", fmt.Sprintf("%s existed before the run, was not produced in this run, and changed from %q to %q", rel, content, got))
		}
	}
	// S4: archive entries stay inside the archive
	for i := range s.Plugins {
		o := outAbs(fx.base, s.Plugins[i].Out)
		if !isArchive(o) {
			continue
		}
		if _, exists := all[o]; !exists {
			continue
		}
		zr, err := zip.OpenReader(o)
		if err != nil {
			if !failed {
				report("archive/unreadable", err.Error())
			}
			continue
		}
		for _, f := range zr.File {
			n := strings.TrimSuffix(f.Name, "/")
			rp := c13.Resolve(n)
			if rp.Absolute || rp.Escapes || rp.Normal != n || n == "." || n == "" {
				report("archive/entry-name-leaves-archive", fmt.Sprintf("archive entry %q", f.Name))
			}
		}
		zr.Close()
	}
	return ok, all, entries
}

// archiveEntries lists a zip/jar held in memory: entry name -> content.
func archiveEntries(raw string) (map[string]string, bool) {
	zr, err := zip.NewReader(strings.NewReader(raw), int64(len(raw)))
	if err != nil {
		return nil, false
	}
	out := map[string]string{}
	for _, f := range zr.File {
		rc, err := f.Open()
		if err != nil {
			return nil, false
		}
		b, err := io.ReadAll(rc)
		rc.Close()
		if err != nil {
			return nil, false
		}
		out[f.Name] = string(b)
	}
	return out, true
}

// ---------------------------------------------------------------- scenarios

type outConfig struct {
	class   string
	label   string
	outs    []string
	preDirs []string // directories that exist before the run (the parent of an archive out must exist, see NOTES.md)
}

var outConfigs = []outConfig{
	{"same-out", "single", []string{"o1"}, nil},
	{"same-out", "shared", []string{"o1", "o1"}, nil},
	{"respelled-out", "shared-respelled", []string{"o1", "o1/."}, nil},
	{"disjoint-outs", "disjoint", []string{"o1", "o2"}, nil},
	{"nested-outs", "nested-inner", []string{"o1", "o1/a.b"}, nil},
	{"nested-outs", "nested-outer", []string{"o1/a.b", "o1"}, nil},
	{"same-out", "zip", []string{"o1.zip"}, nil},
	{"same-out", "jar", []string{"o1.jar"}, nil},
	{"same-out", "zip-shared", []string{"o1.zip", "o1.zip"}, nil},
	// round 2: an archive out is a location of its own. Every way in which it can sit next to another plugin's
	// location: its parent directory is the other plugin's out (both orders, zip and jar), a sibling archive in the
	// same directory (same and different kind, both orders), a directory with the archive's stem (both orders),
	// an archive deeper inside the other plugin's out, and two archives with one entry name in different directories
	{"archive-in-out-dir", "dir-then-zip-inside", []string{"o2", "o2/x.zip"}, []string{"o2"}},
	{"archive-in-out-dir", "zip-inside-then-dir", []string{"o2/x.zip", "o2"}, []string{"o2"}},
	{"archive-in-out-dir", "dir-then-jar-inside", []string{"o2", "o2/x.jar"}, []string{"o2"}},
	{"archive-in-out-dir", "jar-inside-then-dir", []string{"o2/x.jar", "o2"}, []string{"o2"}},
	{"archive-in-out-dir", "dir-then-zip-deeper", []string{"o2", "o2/d/x.zip"}, []string{"o2/d"}},
	{"archive-in-out-dir", "zip-deeper-then-dir", []string{"o2/d/x.zip", "o2"}, []string{"o2/d"}},
	{"sibling-archives", "zip-zip", []string{"o2/x.zip", "o2/y.zip"}, []string{"o2"}},
	{"sibling-archives", "zip-jar", []string{"o1.zip", "o1.jar"}, nil},
	{"sibling-archives", "jar-zip", []string{"o1.jar", "o1.zip"}, nil},
	{"archive-and-stem-dir", "zip-then-stem-dir", []string{"o1.zip", "o1"}, nil},
	{"archive-and-stem-dir", "stem-dir-then-zip", []string{"o1", "o1.zip"}, nil},
	{"archives-in-two-dirs", "same-name-two-dirs", []string{"o1/x.zip", "o2/x.zip"}, []string{"o1", "o2"}},
}

var respKinds = []string{"plain", "insert-own-file", "insert-previous-run", "insert-other-plugin", "insert-absent"}

func body(id string) string { return tag(id) + " generated\n" + markerLine }

// scenariosFor builds every scenario of one out configuration for one probe name.
func scenariosFor(oc outConfig, name string) []*Scenario {
	var out []*Scenario
	n := len(oc.outs)
	target, valid := validName(name)
	if !valid {
		target = "t"
	}
	for _, kind := range respKinds {
		if kind == "insert-other-plugin" && n < 2 {
			continue
		}
		if kind == "insert-previous-run" && isArchive(oc.outs[n-1]) {
			continue
		}
		for _, withContent := range []bool{false, true} {
			s := &Scenario{Half: "B", OutClass: oc.class, Kind: oc.label + "/" + kind, Name: name, PreDirs: oc.preDirs}
			for i, o := range oc.outs {
				s.Plugins = append(s.Plugins, PluginSpec{ID: fmt.Sprintf("P%d", i+1), Out: o})
			}
			probe := &s.Plugins[n-1]
			if n == 2 {
				q := &s.Plugins[0]
				q.Files = []Entry{{Name: "a", Content: body(q.ID)}, {Name: "a.b/a", Content: body(q.ID)}}
				if kind == "insert-other-plugin" && target != "a" && target != "a.b/a" {
					q.Files = append(q.Files, Entry{Name: target, Content: body(q.ID)})
				}
			}
			content := ""
			if withContent {
				content = tag(probe.ID) + " probe\n"
			}
			switch kind {
			case "plain":
				probe.Files = []Entry{{Name: name, Content: content}}
			case "insert-own-file":
				probe.Files = []Entry{{Name: target, Content: body(probe.ID)}, {Name: name, InsertionPoint: ipName, Content: content}}
			case "insert-previous-run":
				rel := path.Clean(strings.TrimPrefix(probe.Out, absToken+"/") + "/" + target)
				s.Pre = map[string]string{rel: "PREVIOUS-RUN\n" + markerLine}
				probe.Files = []Entry{{Name: name, InsertionPoint: ipName, Content: content}}
			case "insert-other-plugin", "insert-absent":
				probe.Files = []Entry{{Name: name, InsertionPoint: ipName, Content: content}}
			}
			out = append(out, s)
		}
	}
	return out
}

// runResponses explores half B.
func runResponses(r *evid.Run, scratch string, names []string) {
	ctx := context.Background()
	type item struct {
		oc   outConfig
		name string
	}
	var items []item
	for _, oc := range outConfigs {
		for _, n := range names {
			items = append(items, item{oc, n})
		}
	}
	r.Set("B_space", map[string]any{"out_configs": len(outConfigs), "probe_names": len(names), "kinds": respKinds, "contents": 2})
	total := &RespStats{}
	lock := make(chan struct{}, 1)
	lock <- struct{}{}
	fixtures := make(chan *respFixture, 64)
	var nfx int
	getFx := func() *respFixture {
		select {
		case fx := <-fixtures:
			return fx
		default:
		}
		<-lock
		nfx++
		id := nfx
		lock <- struct{}{}
		fx, err := newRespFixture(filepath.Join(scratch, fmt.Sprintf("b%d", id)))
		if err != nil {
			r.Incomplete("harness: cannot create fixture: " + err.Error())
			return nil
		}
		return fx
	}
	r.ParallelFor(len(items), 0, func(ix int) {
		it := items[ix]
		fx := getFx()
		if fx == nil {
			return
		}
		st := &RespStats{}
		for _, s := range scenariosFor(it.oc, it.name) {
			if err := fx.prepare(s); err != nil {
				r.Incomplete("harness: cannot prepare scenario: " + err.Error())
				fx.cleanOuts()
				continue
			}
			stage, err := execSeam(ctx, fx.base, s)
			r.Eval(1)
			switch stage {
			case "validate":
				st.ErrValidate++
			case "add":
				st.ErrAdd++
			case "close":
				st.ErrClose++
			}
			if err != nil {
				s.Outcome = stage + ": " + strings.ReplaceAll(err.Error(), fx.root, "<root>")
			} else {
				s.Outcome = "ok"
			}
			good := fx.judge(s, err != nil, st, reporter(r, s))
			r.Distinct("B|" + s.Kind + "|" + c13Class(it.name) + "|" + stage)
			r.SampleEvery(ix, 3571, func() any { return s })
			if !good {
				nf, err := newRespFixture(fx.root)
				if err != nil {
					r.Incomplete("harness: cannot rebuild fixture: " + err.Error())
					return
				}
				fx = nf
			} else {
				fx.cleanOuts()
			}
		}
		<-lock
		total.add(st)
		lock <- struct{}{}
		fixtures <- fx
	})
	r.Set("B_clause_counts", total.asMap())
	r.Set("B_successful_runs_by_out_config", total.SuccessByConfig)
	if !r.Expired() {
		for _, oc := range outConfigs {
			if total.SuccessByConfig[oc.label] == 0 {
				r.Incomplete("half B: no run of out configuration " + oc.label + " succeeded (configuration is vacuous)")
			}
		}
	}
	if !r.Expired() {
		for name, n := range map[string]int{"duplicate demanded": total.MustDup, "insertion previous run demanded": total.MustInsPrev,
			"insertion absent demanded": total.MustInsAbsent, "names leaving the out dir": total.InvalidNames,
			"insertion applied": total.InsertionApplied, "plain written": total.PlainWritten, "validate errors": total.ErrValidate,
			"archive entry written": total.ArchiveEntryWritten, "archive entries read": total.ArchiveEntriesRead} {
			if n == 0 {
				r.Incomplete("half B never exercised: " + name)
			}
		}
	}
}

// c13Class is the structural class of a probe name (for distinct-case counting).
func c13Class(name string) string {
	rp := c13.Resolve(name)
	switch {
	case name == "":
		return "empty"
	case rp.Absolute:
		return "absolute"
	case rp.Escapes:
		return "escapes"
	case rp.Normal == ".":
		return "root"
	case rp.Normal == name:
		return "normal:" + name
	}
	return "respelled:" + rp.Normal
}

// runRelVsAbs is the serial prologue: the same out directory configured once relative and once
// absolute. It needs the process working directory, so nothing else may run concurrently.
func runRelVsAbs(r *evid.Run, scratch string) {
	ctx := context.Background()
	fx, err := newRespFixture(filepath.Join(scratch, "cwd"))
	if err != nil {
		r.Incomplete("harness: cannot create fixture: " + err.Error())
		return
	}
	old, err := os.Getwd()
	if err != nil {
		r.Incomplete("harness: getwd: " + err.Error())
		return
	}
	if err := os.Chdir(fx.base); err != nil {
		r.Incomplete("harness: chdir: " + err.Error())
		return
	}
	defer func() { _ = os.Chdir(old) }()
	st := &RespStats{}
	names := c13.Paths(1)
	sort.Strings(names)
	for _, oc := range []outConfig{{"relative-vs-absolute-out", "rel-then-abs", []string{"o1", absToken + "/o1"}, nil}, {"relative-vs-absolute-out", "abs-then-rel", []string{absToken + "/o1", "o1"}, nil}} {
		for _, name := range names {
			for _, s := range scenariosFor(oc, name) {
				s.UseCwd = true
				if err := fx.prepare(s); err != nil {
					r.Incomplete("harness: cannot prepare scenario: " + err.Error())
					continue
				}
				stage, err := execSeam(ctx, fx.base, s)
				r.Eval(1)
				if err != nil {
					s.Outcome = stage + ": " + strings.ReplaceAll(err.Error(), fx.root, "<root>")
				} else {
					s.Outcome = "ok"
				}
				if !fx.judge(s, err != nil, st, reporter(r, s)) {
					if fx, err = newRespFixture(fx.root); err != nil {
						r.Incomplete("harness: cannot rebuild fixture: " + err.Error())
						return
					}
				} else {
					fx.cleanOuts()
				}
			}
		}
	}
	r.Set("B_relative_vs_absolute_out_counts", st.asMap())
}

// reporter turns failed oracles into violations and harness problems into an incomplete run.
func reporter(r *evid.Run, s *Scenario) func(sig, what string) {
	return func(sig, what string) {
		if strings.HasPrefix(sig, "harness/") {
			r.Incomplete(sig + ": " + what)
			return
		}
		r.Violate(sig, what, s)
	}
}
