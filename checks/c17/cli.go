package c17

// Half C of C17: both halves bound together through `buf generate` run in-process with the
// recording / scripted plugin binary protoc-gen-verif (built at check start).

import (
	"context"
	"encoding/json"
	"fmt"
	"os"
	"os/exec"
	"path/filepath"
	"sort"
	"strings"

	"github.com/bufbuild/bufverif/checks/c13"
	"github.com/bufbuild/bufverif/internal/bufx"
	"github.com/bufbuild/bufverif/internal/enum"
	"github.com/bufbuild/bufverif/internal/evid"
	"google.golang.org/protobuf/proto"
	"google.golang.org/protobuf/types/pluginpb"
)

// buildPlugin compiles checks/c17/protoc-gen-verif into scratch/bin.
func buildPlugin(scratch string) (string, error) {
	bin := filepath.Join(scratch, "bin", "protoc-gen-verif")
	cmd := exec.Command("go", "build", "-o", bin, "./checks/c17/protoc-gen-verif")
	cmd.Dir = evid.SourceRoot()
	env := os.Environ()
	env = append(env, "GOFLAGS=-mod=mod", "GOPROXY=off", "GOSUMDB=off", "GOTOOLCHAIN=local", "CGO_ENABLED=0")
	if os.Getenv("GOCACHE") == "" {
		env = append(env, "GOCACHE="+filepath.Join(evid.SourceRoot(), ".gocache"))
	}
	cmd.Env = env
	if out, err := cmd.CombinedOutput(); err != nil {
		return "", fmt.Errorf("go build protoc-gen-verif: %v: %s", err, out)
	}
	return bin, nil
}

type pluginScript struct {
	PerFile bool          `json:"per_file"`
	Entries []scriptEntry `json:"entries"`
}

type scriptEntry struct {
	Trigger        string `json:"trigger,omitempty"`
	Name           string `json:"name"`
	InsertionPoint string `json:"insertion_point,omitempty"`
	Content        string `json:"content"`
}

type tmplPlugin struct {
	out, opt, strategy   string
	includeImports, iwkt bool
	types, excludeTypes  []string
	// round 4: a protoc built-in plugin (name such as "cpp") instead of the plugin binary; protocPath is the
	// protoc_path setting (nil = none: the compiler is looked up on PATH)
	builtin    string
	protocPath []string
}

func q(s string) string { b, _ := json.Marshal(s); return string(b) }

func renderTemplate(bin string, plugins []tmplPlugin) string {
	var b strings.Builder
	b.WriteString("version: v2\nplugins:\n")
	for _, p := range plugins {
		if p.builtin != "" {
			fmt.Fprintf(&b, "  - protoc_builtin: %s\n", p.builtin)
			b.WriteString(renderProtocPath(p.protocPath))
			fmt.Fprintf(&b, "    out: %s\n    opt: %s\n    strategy: %s\n", q(p.out), q(p.opt), p.strategy)
		} else {
			fmt.Fprintf(&b, "  - local: %s\n    out: %s\n    opt: %s\n    strategy: %s\n", q(bin), q(p.out), q(p.opt), p.strategy)
		}
		if p.includeImports {
			b.WriteString("    include_imports: true\n")
		}
		if p.iwkt {
			b.WriteString("    include_wkt: true\n")
		}
		if len(p.types) > 0 {
			fmt.Fprintf(&b, "    types: [%s]\n", strings.Join(p.types, ", "))
		}
		if len(p.excludeTypes) > 0 {
			fmt.Fprintf(&b, "    exclude_types: [%s]\n", strings.Join(p.excludeTypes, ", "))
		}
	}
	return b.String()
}

func renderProtocPath(protocPath []string) string {
	switch len(protocPath) {
	case 0:
		return ""
	case 1:
		return fmt.Sprintf("    protoc_path: %s\n", q(protocPath[0]))
	}
	var parts []string
	for _, a := range protocPath {
		parts = append(parts, q(a))
	}
	return fmt.Sprintf("    protoc_path: [%s]\n", strings.Join(parts, ", "))
}

// renderTemplateV1 renders a version v1 template (round 4): no per-plugin include_imports / include_wkt / types
// there; a protoc built-in plugin is `plugin: <name>` (or the older `name: <name>`) with an optional protoc_path,
// the plugin binary is `plugin: verif` + `path:`.
func renderTemplateV1(bin string, plugins []tmplPlugin, nameKey string) string {
	var b strings.Builder
	b.WriteString("version: v1\nplugins:\n")
	for _, p := range plugins {
		if p.builtin != "" {
			fmt.Fprintf(&b, "  - %s: %s\n", nameKey, p.builtin)
			b.WriteString(renderProtocPath(p.protocPath))
		} else {
			fmt.Fprintf(&b, "  - %s: verif\n    path: %s\n", nameKey, q(bin))
		}
		fmt.Fprintf(&b, "    out: %s\n    opt: %s\n    strategy: %s\n", q(p.out), q(p.opt), p.strategy)
	}
	return b.String()
}

const responseWorkspaceProto = "syntax = \"proto3\";\npackage q;\nmessage Q {}\n"

// writeResponseWorkspace creates the one-file module used by the response scenarios.
func writeResponseWorkspace(dir string) error {
	if err := os.MkdirAll(filepath.Join(dir, "x"), 0o755); err != nil {
		return err
	}
	if err := os.WriteFile(filepath.Join(dir, "buf.yaml"), []byte("version: v2\n"), 0o644); err != nil {
		return err
	}
	return os.WriteFile(filepath.Join(dir, "x", "q.proto"), []byte(responseWorkspaceProto), 0o644)
}

// execCLI runs a response scenario through `buf generate`; ctl is a control directory outside the fixture.
func execCLI(ctx context.Context, fx *respFixture, ctl, bin, ws string, s *Scenario) (failed bool, outcome string, err error) {
	if err := os.MkdirAll(ctl, 0o755); err != nil {
		return false, "", err
	}
	var plugins []tmplPlugin
	for i := range s.Plugins {
		p := &s.Plugins[i]
		sc := pluginScript{}
		for _, f := range p.Files {
			sc.Entries = append(sc.Entries, scriptEntry{Name: f.Name, InsertionPoint: f.InsertionPoint, Content: f.Content})
		}
		b, _ := json.Marshal(sc)
		scriptPath := filepath.Join(ctl, fmt.Sprintf("script%d.json", i))
		if err := os.WriteFile(scriptPath, b, 0o644); err != nil {
			return false, "", err
		}
		plugins = append(plugins, tmplPlugin{out: strings.ReplaceAll(p.Out, absToken, fx.base), opt: "id=" + p.ID + ",script=" + scriptPath, strategy: "all"})
	}
	tmpl := filepath.Join(ctl, "buf.gen.yaml")
	if err := os.WriteFile(tmpl, []byte(renderTemplate(bin, plugins)), 0o644); err != nil {
		return false, "", err
	}
	args := []string{"generate", ws, "--template", tmpl}
	if !s.UseCwd {
		args = append(args, "-o", fx.base)
	}
	res := bufx.RunCLI(ctx, map[string]string{}, "", args...)
	if res.ExitCode == 0 {
		return false, "ok", nil
	}
	msg := strings.ReplaceAll(strings.TrimSpace(res.Stderr), fx.root, "<root>")
	msg = strings.ReplaceAll(msg, ctl, "<ctl>")
	if pluginDidNotRun(res.Stderr) {
		return true, msg, fmt.Errorf("plugin did not run: %s", msg)
	}
	return true, fmt.Sprintf("exit %d: %s", res.ExitCode, msg), nil
}

// cliOutConfigs are the out configurations of half B that are also run through the CLI.
var cliOutConfigs = map[string]bool{"single": true, "shared": true, "disjoint": true, "nested-inner": true, "nested-outer": true, "zip": true,
	"dir-then-zip-inside": true, "jar-inside-then-dir": true, "zip-jar": true}

// runCLIResponses drives the response scenarios of half B through the CLI.
func runCLIResponses(r *evid.Run, scratch, bin string, names []string) {
	ctx := context.Background()
	ws := filepath.Join(scratch, "c-resp-ws")
	if err := writeResponseWorkspace(ws); err != nil {
		r.Incomplete("harness: " + err.Error())
		return
	}
	type item struct {
		oc   outConfig
		name string
	}
	var items []item
	nconf := 0
	for _, oc := range outConfigs {
		if !cliOutConfigs[oc.label] {
			continue // the others are covered on the seam (half B); every CLI run costs two process starts
		}
		nconf++
		for _, n := range names {
			items = append(items, item{oc, n})
		}
	}
	r.Set("C_response_space", map[string]any{"out_configs": nconf, "probe_names": len(names), "kinds": respKinds, "contents": 2})
	total := &RespStats{}
	lock := make(chan struct{}, 1)
	lock <- struct{}{}
	fixtures := make(chan *respFixture, 64)
	nfx := 0
	getFx := func() *respFixture {
		select {
		case fx := <-fixtures:
			return fx
		default:
		}
		<-lock
		nfx++
		id := nfx
		lock <- struct{}{}
		fx, err := newRespFixture(filepath.Join(scratch, fmt.Sprintf("c%d", id)))
		if err != nil {
			r.Incomplete("harness: cannot create fixture: " + err.Error())
			return nil
		}
		return fx
	}
	r.ParallelFor(len(items), 0, func(ix int) {
		it := items[ix]
		fx := getFx()
		if fx == nil {
			return
		}
		st := &RespStats{}
		for _, s := range scenariosFor(it.oc, it.name) {
			s.Half = "C"
			if err := fx.prepare(s); err != nil {
				r.Incomplete("harness: cannot prepare scenario: " + err.Error())
				fx.cleanOuts()
				continue
			}
			failed, outcome, err := execCLI(ctx, fx, fx.root+".ctl", bin, ws, s)
			if err != nil {
				r.Incomplete("harness: " + err.Error())
				fx.cleanOuts()
				continue
			}
			r.Eval(1)
			s.Outcome = outcome
			good := fx.judge(s, failed, st, reporter(r, s))
			stage := "ok"
			if failed {
				stage = "error"
			}
			r.Distinct("C|" + s.Kind + "|" + c13Class(it.name) + "|" + stage)
			r.SampleEvery(ix, 1009, func() any { return s })
			if !good {
				nf, err := newRespFixture(fx.root)
				if err != nil {
					r.Incomplete("harness: cannot rebuild fixture: " + err.Error())
					return
				}
				fx = nf
			} else {
				fx.cleanOuts()
			}
		}
		<-lock
		total.add(st)
		lock <- struct{}{}
		fixtures <- fx
	})
	r.Set("C_response_clause_counts", total.asMap())
	r.Set("C_successful_runs_by_out_config", total.SuccessByConfig)
	if !r.Expired() {
		for label := range cliOutConfigs {
			if total.SuccessByConfig[label] == 0 {
				r.Incomplete("half C (responses): no run of out configuration " + label + " succeeded (configuration is vacuous)")
			}
		}
	}
	if !r.Expired() {
		for name, n := range map[string]int{"duplicate demanded": total.MustDup, "insertion previous run demanded": total.MustInsPrev,
			"insertion absent demanded": total.MustInsAbsent, "insertion applied": total.InsertionApplied, "plain written": total.PlainWritten} {
			if n == 0 {
				r.Incomplete("half C (responses) never exercised: " + name)
			}
		}
	}
}

// runCLIRelVsAbs is the CLI side of the serial prologue (needs the process working directory).
func runCLIRelVsAbs(r *evid.Run, scratch, bin string) {
	ctx := context.Background()
	ws := filepath.Join(scratch, "c-cwd-ws")
	if err := writeResponseWorkspace(ws); err != nil {
		r.Incomplete("harness: " + err.Error())
		return
	}
	fx, err := newRespFixture(filepath.Join(scratch, "ccwd"))
	if err != nil {
		r.Incomplete("harness: cannot create fixture: " + err.Error())
		return
	}
	old, err := os.Getwd()
	if err != nil {
		r.Incomplete("harness: getwd: " + err.Error())
		return
	}
	if err := os.Chdir(fx.base); err != nil {
		r.Incomplete("harness: chdir: " + err.Error())
		return
	}
	defer func() { _ = os.Chdir(old) }()
	st := &RespStats{}
	for _, oc := range []outConfig{{"relative-vs-absolute-out", "rel-then-abs", []string{"o1", absToken + "/o1"}, nil}} {
		for _, name := range []string{"a", "a.b", "./a", "..", "../a"} {
			for _, s := range scenariosFor(oc, name) {
				s.Half = "C"
				s.UseCwd = true
				if err := fx.prepare(s); err != nil {
					r.Incomplete("harness: cannot prepare scenario: " + err.Error())
					continue
				}
				failed, outcome, err := execCLI(ctx, fx, fx.root+".ctl", bin, ws, s)
				if err != nil {
					r.Incomplete("harness: " + err.Error())
					fx.cleanOuts()
					continue
				}
				r.Eval(1)
				s.Outcome = outcome
				if !fx.judge(s, failed, st, reporter(r, s)) {
					if fx, err = newRespFixture(fx.root); err != nil {
						r.Incomplete("harness: cannot rebuild fixture: " + err.Error())
						return
					}
				} else {
					fx.cleanOuts()
				}
			}
		}
	}
	r.Set("C_relative_vs_absolute_out_counts", st.asMap())
}

// CLIReqCase is one `buf generate` run of the request side of half C.
type CLIReqCase struct {
	Half      string                  `json:"half"`
	Corpus    *Corpus                 `json:"corpus"`
	Sources   map[string]string       `json:"sources,omitempty"`
	Targets   []string                `json:"targets"`
	Plugins   []ReqConfig             `json:"plugins"`
	Effective []ReqConfig             `json:"effective_plugins,omitempty"` // after the command-line override, when there is one
	RunKind   string                  `json:"run_kind"`
	Input     string                  `json:"input_kind,omitempty"` // "" = the module directory; "image" = a binary image written by `buf build -o`
	SharedOut bool                    `json:"shared_out"`
	Template  string                  `json:"template"`
	Args      []string                `json:"args"`
	ExitCode  int                     `json:"exit_code"`
	Stderr    string                  `json:"stderr,omitempty"`
	Requests  map[string][]ReqSummary `json:"requests"`
	Disk      []string                `json:"files_below_output_base"`
}

func readRecorded(rec string) (map[string][]*pluginpb.CodeGeneratorRequest, error) {
	out := map[string][]*pluginpb.CodeGeneratorRequest{}
	ents, err := os.ReadDir(rec)
	if err != nil {
		return nil, err
	}
	for _, e := range ents {
		if strings.HasSuffix(e.Name(), ".protocargs") {
			continue // round 4: the argument list of a compiler invocation, see readProtocArgs
		}
		id, _, _ := strings.Cut(e.Name(), ".")
		b, err := os.ReadFile(filepath.Join(rec, e.Name()))
		if err != nil {
			return nil, err
		}
		req := &pluginpb.CodeGeneratorRequest{}
		if err := proto.Unmarshal(b, req); err != nil {
			return nil, err
		}
		out[id] = append(out[id], req)
	}
	// requests of one plugin run concurrently: order them by their first file to generate
	for _, reqs := range out {
		sort.SliceStable(reqs, func(i, j int) bool {
			return strings.Join(reqs[i].GetFileToGenerate(), ",") < strings.Join(reqs[j].GetFileToGenerate(), ",")
		})
	}
	return out, nil
}

// protocArgs is what the fake compiler recorded about one invocation (round 4).
type protocArgs struct {
	Args       []string `json:"args"`
	PluginName string   `json:"plugin_name"`
}

// readProtocArgs returns, per plugin id, the recorded compiler invocations (protoc built-in plugins only).
func readProtocArgs(rec string) (map[string][]protocArgs, error) {
	out := map[string][]protocArgs{}
	ents, err := os.ReadDir(rec)
	if err != nil {
		return nil, err
	}
	for _, e := range ents {
		if !strings.HasSuffix(e.Name(), ".protocargs") {
			continue
		}
		id, _, _ := strings.Cut(e.Name(), ".")
		b, err := os.ReadFile(filepath.Join(rec, e.Name()))
		if err != nil {
			return nil, err
		}
		var pa protocArgs
		if err := json.Unmarshal(b, &pa); err != nil {
			return nil, err
		}
		out[id] = append(out[id], pa)
	}
	return out, nil
}

func listFiles(root string) []string {
	var out []string
	_ = filepath.Walk(root, func(p string, info os.FileInfo, err error) error {
		if err == nil && !info.IsDir() {
			rel, _ := filepath.Rel(root, p)
			out = append(out, filepath.ToSlash(rel))
		}
		return nil
	})
	sort.Strings(out)
	return out
}

// runCLIRequests drives the request side through `buf generate` with two recording plugins per run.
func runCLIRequests(r *evid.Run, scratch, bin string, layoutList [][]string) {
	ctx := context.Background()
	dags := enum.Digraphs(3, true)
	type item struct {
		gi     int
		g      enum.Digraph
		layout []string
		// round 3: import kinds per edge and the files importing an unused well-known type; variant items run a
		// shorter list of runs, half of them with a binary image as the input
		kinds   []int
		empty   int
		variant bool
	}
	var items []item
	for gi, g := range dags {
		for _, l := range layoutList {
			items = append(items, item{gi: gi, g: g, layout: l})
		}
	}
	nplain := len(items)
	// round 3: every assignment {referenced, unused} to the imports of every DAG with at least one unused import, and
	// the plain DAGs with an unused well-known-type import; quick: one layout per variant (rotating), thorough: every
	// third layout
	nvariants := 0
	for gi, g := range dags {
		var vs []item
		for _, ka := range kindAssignments(len(g.Edges()), []int{kindUsed, kindUnused}) {
			if !plainKinds(ka) {
				vs = append(vs, item{gi: gi, g: g, kinds: ka, variant: true})
			}
		}
		for _, em := range []int{1, 6} {
			vs = append(vs, item{gi: gi, g: g, empty: em, variant: true})
		}
		for _, v := range vs {
			if r.Quick() {
				v.layout = layoutList[nvariants%len(layoutList)]
				items = append(items, v)
			} else {
				for li := nvariants % 3; li < len(layoutList); li += 3 {
					w := v
					w.layout = layoutList[li]
					items = append(items, w)
				}
			}
			nvariants++
		}
	}
	r.Set("C_request_space", map[string]any{"dags_n3": len(dags), "layouts": len(layoutList), "runs_per_workspace": 20,
		"workspaces": nplain, "unused_import_variants": nvariants, "unused_import_workspaces": len(items) - nplain, "runs_per_unused_import_workspace": 4})
	total := &ReqStats{}
	var runs, failedRuns, grouped int
	runsByKind := map[string]int{}
	protocByRoute := map[string]int{} // round 4: compiler invocations per way of finding the compiler
	lock := make(chan struct{}, 1)
	lock <- struct{}{}
	r.ParallelFor(len(items), 0, func(ix int) {
		it := items[ix]
		c := &Corpus{N: 3, Dirs: it.layout, Wkt: make([]bool, 3), Kinds: it.kinds}
		for _, e := range it.g.Edges() {
			c.Edges = append(c.Edges, [2]int{e[0], e[1]})
		}
		wkt := (it.gi*7 + ix) % 8
		variant := ""
		if it.variant {
			wkt = 0
			variant = fmt.Sprintf("|k%v|e%d", it.kinds, it.empty)
			if it.empty != 0 {
				c.Empty = make([]bool, 3)
				for i := 0; i < 3; i++ {
					c.Empty[i] = it.empty&(1<<i) != 0
				}
			}
		}
		for i := 0; i < 3; i++ {
			c.Wkt[i] = wkt&(1<<i) != 0
		}
		dir := filepath.Join(scratch, fmt.Sprintf("c-req-%d", ix))
		ws := filepath.Join(dir, "ws")
		sources := c.Files()
		if err := os.MkdirAll(ws, 0o755); err != nil {
			r.Incomplete("harness: " + err.Error())
			return
		}
		_ = os.WriteFile(filepath.Join(ws, "buf.yaml"), []byte("version: v2\n"), 0o644)
		for p, text := range sources {
			_ = os.MkdirAll(filepath.Join(ws, filepath.Dir(p)), 0o755)
			if err := os.WriteFile(filepath.Join(ws, p), []byte(text), 0o644); err != nil {
				r.Incomplete("harness: " + err.Error())
				return
			}
		}
		st := &ReqStats{}
		localRuns, localFailed, localGrouped := 0, 0, 0
		localRunsByKind := map[string]int{}
		input, inputKind := ws, "" // what `buf generate` is pointed at
		tmplV1 := ""               // round 4: "" = a v2 template; "plugin" / "name" = a v1 template naming its plugins with that key
		localProtoc := map[string]int{}
		// one executes one `buf generate` run: plugin k of the template is cfgs[k]; override are extra command-line
		// flags (--include-imports / --include-wkt), which replace the per-plugin settings of every plugin.
		one := func(run int, kind string, tmask int, cfgs []ReqConfig, shared bool, override ...string) {
			m := c.Model(tmask)
			rec := filepath.Join(dir, fmt.Sprintf("rec%d", run))
			base := filepath.Join(dir, fmt.Sprintf("out%d", run))
			_ = os.MkdirAll(rec, 0o755)
			script := filepath.Join(dir, "script.json")
			_ = os.WriteFile(script, []byte(`{"per_file":true}`), 0o644)
			outs := make([]string, len(cfgs))
			for k := range cfgs {
				outs[k] = fmt.Sprintf("o%d", k+1)
				if shared {
					outs[k] = "o1"
				}
			}
			eff := append([]ReqConfig(nil), cfgs...)
			for _, flag := range override {
				for k := range eff {
					switch flag {
					case "--include-imports":
						eff[k].IncludeImports = true
					case "--include-imports=false":
						eff[k].IncludeImports = false
					case "--include-wkt":
						eff[k].IncludeWKT = true
					case "--include-wkt=false":
						eff[k].IncludeWKT = false
					}
				}
			}
			var plugins []tmplPlugin
			for k, cfg := range cfgs {
				tp := tmplPlugin{out: outs[k], opt: fmt.Sprintf("id=P%d,rec=%s,script=%s", k+1, rec, script), strategy: cfg.Strategy, includeImports: cfg.IncludeImports, iwkt: cfg.IncludeWKT}
				if cfg.IncludeType != "" {
					tp.types = []string{cfg.IncludeType}
				}
				if cfg.ExcludeType != "" {
					tp.excludeTypes = []string{cfg.ExcludeType}
				}
				if cfg.Builtin != "" {
					tp.builtin = cfg.Builtin
					switch {
					case cfg.Route == "path":
						tp.protocPath = []string{bin}
					case strings.HasPrefix(cfg.Route, "args="):
						tp.protocPath = []string{bin, "--verif-version=" + strings.TrimPrefix(cfg.Route, "args=")}
					} // "lookup": no protoc_path, the compiler is found on PATH
				}
				plugins = append(plugins, tp)
			}
			tmplText := renderTemplate(bin, plugins)
			if tmplV1 != "" {
				tmplText = renderTemplateV1(bin, plugins, tmplV1)
			}
			tmpl := filepath.Join(dir, fmt.Sprintf("buf.gen.%d.yaml", run))
			_ = os.WriteFile(tmpl, []byte(tmplText), 0o644)
			args := []string{"generate", input, "--template", tmpl, "-o", base}
			args = append(args, override...)
			if tmask != 7 {
				for _, p := range bufx.SortedKeys(m.Targets) {
					if inputKind == "image" {
						args = append(args, "--path", p) // paths of an image input are relative to the image root
					} else {
						args = append(args, "--path", filepath.Join(ws, p))
					}
				}
			}
			res := bufx.RunCLI(ctx, map[string]string{}, "", args...)
			r.Eval(1)
			localRuns++
			recorded, err := readRecorded(rec)
			if err != nil {
				r.Incomplete("harness: cannot read recorded requests: " + err.Error())
				return
			}
			compilerRuns, err := readProtocArgs(rec)
			if err != nil {
				r.Incomplete("harness: cannot read recorded compiler invocations: " + err.Error())
				return
			}
			mk := func() *CLIReqCase {
				cc := &CLIReqCase{Half: "C", Corpus: c, Sources: sources, Targets: bufx.SortedKeys(m.Targets), Plugins: cfgs, RunKind: kind, Input: inputKind, SharedOut: shared,
					Template: strings.ReplaceAll(strings.ReplaceAll(tmplText, dir, "<dir>"), bin, "<bin>"), Args: args, ExitCode: res.ExitCode, Stderr: strings.ReplaceAll(res.Stderr, dir, "<dir>"),
					Requests: map[string][]ReqSummary{}, Disk: listFiles(base)}
				for id, reqs := range recorded {
					cc.Requests[id] = summarize(reqs)
				}
				if len(override) > 0 {
					cc.Effective = eff
				}
				return cc
			}
			if res.ExitCode != 0 {
				localFailed++
				filterErr := false
				for _, cfg := range cfgs {
					filterErr = filterErr || cfg.filtered()
				}
				if pluginDidNotRun(res.Stderr) {
					r.Incomplete("harness: plugin did not run: " + strings.ReplaceAll(res.Stderr, dir, "<dir>"))
				} else if !filterErr {
					r.Violate("C/requests/generate-failed", "buf generate failed on a valid module and template: "+strings.ReplaceAll(res.Stderr, dir, "<dir>"), mk())
				}
				return
			}
			var wantDisk []string
			localRunsByKind[kind]++
			for k, cfg := range eff {
				id := fmt.Sprintf("P%d", k+1)
				reqs := recorded[id]
				// round 4: a protoc built-in plugin must have been served by the (fake) compiler, a plugin binary never;
				// the compiler must have been asked for the configured built-in generator
				if cfg.Builtin == "" && len(compilerRuns[id]) != 0 || cfg.Builtin != "" && len(compilerRuns[id]) != len(reqs) {
					r.Incomplete(fmt.Sprintf("harness: plugin %s (%s) has %d recorded requests, %d of them compiler invocations", id, cfg, len(reqs), len(compilerRuns[id])))
					continue
				}
				for _, inv := range compilerRuns[id] {
					localProtoc[cfg.Route+map[bool]string{false: "", true: "@v1"}[tmplV1 != ""]]++
					if inv.PluginName != cfg.Builtin {
						r.Violate("C/requests/protoc-builtin/other-generator-invoked", fmt.Sprintf("plugin %s is protoc built-in %q, the compiler was asked for --%s_out (arguments %q)", id, cfg.Builtin, inv.PluginName, inv.Args), mk())
					}
				}
				CheckRequests(m, cfg, reqs, st, func(sig, what string) { r.Violate("C/"+sig, id+": "+what, mk()) })
				for _, q := range reqs {
					if want := fmt.Sprintf("id=%s,rec=%s,script=%s", id, rec, script); q.GetParameter() != want {
						r.Violate("C/requests/parameter", fmt.Sprintf("plugin %s got parameter %q", id, q.GetParameter()), mk())
					}
					for _, f := range q.GetFileToGenerate() {
						wantDisk = append(wantDisk, outs[k]+"/"+f+"."+id+".txt")
					}
				}
				if len(m.Imports)+len(m.Wkts) > 0 {
					if it.variant {
						r.Distinct(fmt.Sprintf("C|%d|%v|%d|%d|%s|%s|%d/%d%s|%s", it.gi, it.layout, wkt, tmask, cfg, kind, k, len(cfgs), variant, inputKind))
					} else if kind == "pair" {
						r.Distinct(fmt.Sprintf("C|%d|%v|%d|%d|%s", it.gi, it.layout, wkt, tmask, cfg))
					} else {
						r.Distinct(fmt.Sprintf("C|%d|%v|%d|%d|%s|%s|%d/%d|%v", it.gi, it.layout, wkt, tmask, cfg, kind, k, len(cfgs), override))
					}
					// a plugin that shares its grouping key (strategy + type filters) with an earlier plugin of the
					// template but asks for a different set of files, on an image where that makes a difference
					for j := 0; j < k; j++ {
						if eff[j].Strategy == cfg.Strategy && eff[j].IncludeType == cfg.IncludeType && eff[j].ExcludeType == cfg.ExcludeType &&
							(eff[j].IncludeImports != cfg.IncludeImports || eff[j].IncludeWKT != cfg.IncludeWKT) {
							localGrouped++
							break
						}
					}
				}
			}
			sort.Strings(wantDisk)
			if got := listFiles(base); strings.Join(got, "\n") != strings.Join(wantDisk, "\n") {
				r.Violate("C/output/files-differ-from-generated-set", fmt.Sprintf("files below the output base %v, expected one per generated file per plugin %v", got, wantDisk), mk())
			}
			r.SampleEvery(ix*16+run, 2003, func() any { return mk() })
		}
		run := 0
		sub := (it.gi+ix)%6 + 1
		// buf.gen.yaml rejects include_wkt without include_imports, so 3 settings per strategy: 3 runs cover all 6
		flags := [][2]bool{{false, false}, {true, false}, {true, true}}
		finish := func() {
			<-lock
			total.add(st)
			runs += localRuns
			failedRuns += localFailed
			grouped += localGrouped
			for k, v := range localRunsByKind {
				runsByKind[k] += v
			}
			for k, v := range localProtoc {
				protocByRoute[k] += v
			}
			lock <- struct{}{}
			_ = os.RemoveAll(dir)
		}
		if it.variant {
			// round 3: a module with unused imports; the module directory and the binary image built from it (there
			// the unused dependency indexes travel in the image's buf extension) as inputs, all targets and a proper
			// subset, a (directory, all) pair and a group of three directory plugins
			img := filepath.Join(dir, "image.binpb")
			if res := bufx.RunCLI(ctx, map[string]string{}, "", "build", ws, "-o", img); res.ExitCode != 0 {
				r.Incomplete("harness: buf build of a module with unused imports failed: " + strings.ReplaceAll(res.Stderr, dir, "<dir>"))
				finish()
				return
			}
			f := flags[ix%3]
			d := ReqConfig{Strategy: "directory", IncludeImports: f[0], IncludeWKT: f[1]}
			a := ReqConfig{Strategy: "all", IncludeImports: flags[(ix+1)%3][0], IncludeWKT: flags[(ix+1)%3][1]}
			three := []ReqConfig{}
			for _, fi := range [][3]int{{0, 1, 2}, {0, 2, 1}, {1, 0, 2}, {1, 2, 0}, {2, 0, 1}, {2, 1, 0}}[ix%6] {
				three = append(three, ReqConfig{Strategy: "directory", IncludeImports: flags[fi][0], IncludeWKT: flags[fi][1]})
			}
			for _, in := range []string{"", "image"} {
				input, inputKind = ws, in
				if in == "image" {
					input = img
				}
				one(run, "unused-pair", []int{7, sub}[(ix+run/2)%2], []ReqConfig{d, a}, ix%2 == 0)
				run++
				one(run, "unused-group-directory", []int{sub, 7}[(ix+run/2)%2], three, ix%2 == 1)
				run++
			}
			finish()
			return
		}
		for _, tmask := range []int{7, sub} {
			for k := 0; k < 3; k++ {
				a := ReqConfig{Strategy: "all", IncludeImports: flags[k][0], IncludeWKT: flags[k][1]}
				d := ReqConfig{Strategy: "directory", IncludeImports: flags[2-k][0], IncludeWKT: flags[2-k][1]}
				pair := []ReqConfig{a, d}
				if (ix+k)%2 == 1 {
					pair = []ReqConfig{d, a}
				}
				one(run, "pair", tmask, pair, (k+ix/2)%2 == 0)
				run++
			}
		}
		k := it.gi % 3
		inc := ReqConfig{Strategy: "directory", IncludeImports: true, IncludeWKT: true, IncludeType: fmt.Sprintf("p.M%d", k), MustGenerate: []string{c.Path(k)}}
		exc := ReqConfig{Strategy: "directory", IncludeImports: true, ExcludeType: fmt.Sprintf("p.M%d", k)}
		for i := 0; i < 3; i++ {
			if i != k {
				exc.MustGenerate = append(exc.MustGenerate, c.Path(i))
			}
		}
		one(run, "pair", 7, []ReqConfig{inc, {Strategy: "all"}}, false)
		run++
		one(run, "pair", 7, []ReqConfig{{Strategy: "directory", IncludeImports: true, IncludeWKT: true}, exc}, true)
		run++
		// ---- round 2: several plugins with ONE grouping key (strategy, types, exclude_types) that differ in the
		// settings outside the key (include_imports, include_wkt, opt, out). The generator batches the image work
		// per key; what each plugin is asked to generate must still follow that plugin's own settings.
		// The three settings occur in every order over the work items (ix selects the permutation), so whichever
		// member of a group a regression takes the settings from, some run has a member that disagrees with it.
		perm := [][3]int{{0, 1, 2}, {0, 2, 1}, {1, 0, 2}, {1, 2, 0}, {2, 0, 1}, {2, 1, 0}}
		group := func(strategy string, pm [3]int) []ReqConfig {
			var out []ReqConfig
			for _, f := range pm {
				out = append(out, ReqConfig{Strategy: strategy, IncludeImports: flags[f][0], IncludeWKT: flags[f][1]})
			}
			return out
		}
		// one group of three, strategy all, a proper target subset (so that the image has non-WKT imports)
		one(run, "group-all", sub, group("all", perm[ix%6]), ix%2 == 0)
		run++
		// one group of three, strategy directory
		one(run, "group-directory", sub, group("directory", perm[(ix+it.gi+1)%6]), ix%2 == 1)
		run++
		// two groups of two whose members alternate in the template (a group is not a contiguous block)
		ga, gd := group("all", perm[(ix+2)%6]), group("directory", perm[(ix+3)%6])
		one(run, "group-interleaved", 7, []ReqConfig{ga[0], gd[0], ga[1], gd[1]}, false)
		run++
		one(run, "group-interleaved", sub, []ReqConfig{gd[2], ga[2], gd[0], ga[1]}, true)
		run++
		// a group that is held together by a type filter: the same `types:` twice with different settings,
		// around an unfiltered plugin with the same strategy (a different key)
		incA, incB := inc, inc
		fa, fb := flags[perm[ix%6][0]], flags[perm[ix%6][1]]
		incA.IncludeImports, incA.IncludeWKT = fa[0], fa[1]
		incB.IncludeImports, incB.IncludeWKT = fb[0], fb[1]
		one(run, "group-filtered", 7, []ReqConfig{incA, {Strategy: "directory", IncludeImports: true, IncludeWKT: true}, incB}, false)
		run++
		// the command-line override replaces the per-plugin settings of every member of a group
		overrides := [][]string{{"--include-imports"}, {"--include-imports", "--include-wkt"}, {"--include-imports=false"}, {"--include-wkt=false"},
			{"--include-imports", "--include-wkt=false"}, {"--include-imports=false", "--include-wkt=false"}}
		one(run, "group-override", sub, group([]string{"all", "directory"}[(ix/6)%2], perm[(ix+4)%6]), ix%2 == 0, overrides[ix%6]...)
		run++
		one(run, "group-override", 7, group([]string{"directory", "all"}[(ix/6)%2], perm[(ix+5)%6]), ix%2 == 1, overrides[(ix+3)%6]...)
		run++
		// ---- round 4: the plugin KIND. A protoc built-in plugin (protoc_builtin: cpp, java, ...) is served by the
		// compiler: buf's protoc proxy handler turns every request into one `protoc` invocation (descriptor set +
		// files to generate + parameter). The fake compiler records what it is given; the same CheckRequests judges it,
		// with the retention clause of a compiler (cfg.Builtin): the descriptor set is the full source view.
		// Built-in and binary plugins are mixed in one template (they share the generator's grouping key), the
		// built-in name x reported compiler version rotates over every supported pair, the way the compiler is
		// found over {protoc_path string, protoc_path with extra arguments, PATH lookup} and v2 / v1 templates.
		builtin := func(cfg ReqConfig, sel int, route string) ReqConfig {
			switch route {
			case "args":
				p := builtinPairs[sel%len(builtinPairs)]
				cfg.Builtin, cfg.Route = p[0], "args="+p[1]
			default:
				cfg.Builtin, cfg.Route = builtinDefault[sel%len(builtinDefault)], route
			}
			return cfg
		}
		{
			k := ix % 3
			a := ReqConfig{Strategy: "all", IncludeImports: flags[k][0], IncludeWKT: flags[k][1]}
			d := ReqConfig{Strategy: "directory", IncludeImports: flags[(k+1)%3][0], IncludeWKT: flags[(k+1)%3][1]}
			pair := []ReqConfig{builtin(a, ix, "path"), d}
			if ix%2 == 1 {
				pair = []ReqConfig{d, builtin(a, ix, "path")}
			}
			one(run, "builtin-pair", 7, pair, (ix/2)%2 == 0)
			run++
			a.IncludeImports, a.IncludeWKT = flags[(k+2)%3][0], flags[(k+2)%3][1]
			pair = []ReqConfig{a, builtin(d, ix+it.gi, "args")}
			if ix%2 == 0 {
				pair = []ReqConfig{builtin(d, ix+it.gi, "args"), a}
			}
			one(run, "builtin-pair", sub, pair, (ix/2)%2 == 1)
			run++
			// a group of three (one grouping key, different settings) whose members are of both kinds
			g3 := group([]string{"directory", "all"}[ix%2], perm[(ix+it.gi)%6])
			switch (ix / 2) % 3 {
			case 0:
				g3[0], g3[2] = builtin(g3[0], ix+1, "lookup"), builtin(g3[2], ix+2, "path")
			case 1:
				g3[1] = builtin(g3[1], ix+1, "lookup")
			case 2:
				g3[0], g3[1] = builtin(g3[0], 2*ix, "args"), builtin(g3[1], ix+1, "lookup")
			}
			one(run, "builtin-group", []int{sub, 7}[(ix/6)%2], g3, ix%2 == 0)
			run++
			// a v1 template: no per-plugin settings, the command line asks for imports / well-known types
			tmplV1 = []string{"plugin", "name"}[ix%2]
			v1 := []ReqConfig{builtin(ReqConfig{Strategy: []string{"all", "directory"}[ix%2]}, ix+3, "path"), {Strategy: "directory"},
				builtin(ReqConfig{Strategy: []string{"directory", "all"}[ix%2]}, ix+4, "lookup")}
			one(run, "builtin-v1", []int{7, sub}[(ix/3)%2], v1, (ix/2)%2 == 0, [][]string{nil, {"--include-imports"}, {"--include-imports", "--include-wkt"}}[ix%3]...)
			tmplV1 = ""
			run++
			// the same output path from a protoc built-in plugin and from a plugin binary: an error when both write
			// into one out, two files when the outs differ (the built-in's files reach buf through the compiler's
			// temporary out directory, not through a CodeGeneratorResponse)
			{
				shared := ix%2 == 0
				base := filepath.Join(dir, fmt.Sprintf("out%d", run))
				script := filepath.Join(dir, "dup.json")
				_ = os.WriteFile(script, []byte(`{"entries":[{"name":"dup/same.txt","content":"same name from two plugins\n"}]}`), 0o644)
				b := builtin(ReqConfig{Strategy: "all"}, ix+5, []string{"path", "lookup", "args"}[(ix/2)%3])
				bp := tmplPlugin{out: "o1", opt: "id=P1,script=" + script, strategy: []string{"all", "directory"}[(ix/4)%2], builtin: b.Builtin}
				switch {
				case b.Route == "path":
					bp.protocPath = []string{bin}
				case strings.HasPrefix(b.Route, "args="):
					bp.protocPath = []string{bin, "--verif-version=" + strings.TrimPrefix(b.Route, "args=")}
				}
				lp := tmplPlugin{out: "o2", opt: "id=P2,script=" + script, strategy: "all"}
				if shared {
					lp.out = "o1"
				}
				plugins := []tmplPlugin{bp, lp}
				if (ix/2)%2 == 1 {
					plugins = []tmplPlugin{lp, bp}
				}
				tmplText := renderTemplate(bin, plugins)
				tmpl := filepath.Join(dir, "buf.gen.dup.yaml")
				_ = os.WriteFile(tmpl, []byte(tmplText), 0o644)
				// one target file, so that strategy directory is a single compiler invocation as well
				args := []string{"generate", ws, "--template", tmpl, "-o", base, "--path", filepath.Join(ws, c.Path(ix%3))}
				res := bufx.RunCLI(ctx, map[string]string{}, "", args...)
				r.Eval(1)
				localRuns++
				mk := func() *CLIReqCase {
					return &CLIReqCase{Half: "C", Corpus: c, Sources: sources, Targets: []string{c.Path(ix % 3)}, RunKind: "builtin-duplicate", SharedOut: shared,
						Template: strings.ReplaceAll(strings.ReplaceAll(tmplText, dir, "<dir>"), bin, "<bin>"), Args: args, ExitCode: res.ExitCode,
						Stderr: strings.ReplaceAll(res.Stderr, dir, "<dir>"), Disk: listFiles(base)}
				}
				got := strings.Join(listFiles(base), " ")
				switch {
				case res.ExitCode != 0 && pluginDidNotRun(res.Stderr):
					r.Incomplete("harness: plugin did not run: " + strings.ReplaceAll(res.Stderr, dir, "<dir>"))
				case shared && res.ExitCode == 0:
					r.Violate("duplicate-output/undetected/same-base-out", "a protoc built-in plugin and a plugin binary produced the same output path and no error was reported", mk())
				case shared:
					localRunsByKind["builtin-duplicate-rejected"]++
					r.Distinct(fmt.Sprintf("C|builtin-duplicate|shared|%s|%v", b, (ix/2)%2))
				case res.ExitCode != 0:
					r.Violate("C/requests/generate-failed", "buf generate failed on a valid module and template: "+strings.ReplaceAll(res.Stderr, dir, "<dir>"), mk())
				case got != "o1/dup/same.txt o2/dup/same.txt":
					r.Violate("C/output/files-differ-from-generated-set", fmt.Sprintf("files below the output base [%s], expected the one file of each plugin below its own out", got), mk())
				default:
					localRunsByKind["builtin-duplicate-separate-outs"]++
					r.Distinct(fmt.Sprintf("C|builtin-duplicate|separate|%s|%v", b, (ix/2)%2))
				}
			}
		}
		finish()
	})
	r.Set("C_request_runs", map[string]int{"runs": runs, "failed_runs_with_type_filter": failedRuns})
	r.Set("C_request_successful_runs_by_kind", runsByKind)
	r.Set("C_request_plugins_grouped_with_an_earlier_plugin_of_different_settings", grouped)
	r.Set("C_request_compiler_invocations_by_route", protocByRoute)
	r.Set("C_request_protoc_builtin_name_x_version_pairs", len(builtinPairs))
	r.Set("C_request_clause_counts", map[string]int{
		"targets_generated_exactly_once":                               total.TargetsOnce,
		"imports_generated_exactly_once":                               total.ImportsOnce,
		"wkt_generated_exactly_once":                                   total.WktOnce,
		"imports_present_but_withheld":                                 total.ImportsWithheld,
		"wkt_present_but_withheld":                                     total.WktWithheld,
		"imports_shared_by_several_requests_generated":                 total.SharedImportAcrossRequests,
		"targets_imported_by_another_directory":                        total.TargetImportedFromOtherDir,
		"retention_source_file_descriptors_complete":                   total.RetSFD,
		"retention_generated_proto_file_stripped":                      total.RetGenStripped,
		"retention_import_proto_file_untouched":                        total.RetImportKept,
		"filtered_sets_dropping_a_target":                              total.FilterDropped,
		"dependency_edges_checked_unused_import":                       total.UnusedEdges,
		"unused_import_of_a_non_target_checked_in_a_multi_request_set": total.UnusedEdgesToNonTargetMulti,
		"retention_compiler_given_generated_file_with_all_options":     total.RetCompilerGenerated,
		"retention_compiler_given_import_with_all_options":             total.RetCompilerImport,
	})
	if !r.Expired() {
		for name, n := range map[string]int{"imports generated once": total.ImportsOnce,
			"compiler given a generated file with source-retention options":    total.RetCompilerGenerated,
			"compiler given an import with source-retention options":           total.RetCompilerImport,
			"runs with a protoc built-in plugin next to a binary plugin":       runsByKind["builtin-pair"],
			"group runs with protoc built-in members":                          runsByKind["builtin-group"],
			"v1 template runs with protoc built-in plugins":                    runsByKind["builtin-v1"],
			"duplicate path of a protoc built-in and a binary plugin rejected": runsByKind["builtin-duplicate-rejected"],
			"same name from a protoc built-in and a binary plugin in two outs": runsByKind["builtin-duplicate-separate-outs"],
			"compiler found through protoc_path":                               protocByRoute["path"],
			"compiler found on PATH":                                           protocByRoute["lookup"],
			"compiler found on PATH (v1 template)":                             protocByRoute["lookup@v1"],
			"compiler with extra arguments, version 3.12.4":                    protocByRoute["args=3.12.4"],
			"compiler with extra arguments, version 3.20.1":                    protocByRoute["args=3.20.1"],
			"compiler with extra arguments, version 27.1":                      protocByRoute["args=27.1"], "wkt generated once": total.WktOnce,
			"unused import edges": total.UnusedEdges, "unused import of a non-target in a multi-request set": total.UnusedEdgesToNonTargetMulti,
			"runs on a module with unused imports": runsByKind["unused-pair"] + runsByKind["unused-group-directory"],
			"shared import across requests":        total.SharedImportAcrossRequests, "retention stripped": total.RetGenStripped,
			"plugin grouped with an earlier plugin of different settings": grouped, "group runs with a command-line override": runsByKind["group-override"],
			"group runs held together by a type filter": runsByKind["group-filtered"], "interleaved group runs": runsByKind["group-interleaved"]} {
			if n == 0 {
				r.Incomplete("half C (requests) never exercised: " + name)
			}
		}
	}
}

// cliNames is the probe-name alphabet of the CLI response runs.
// builtinPairs are the (protoc built-in plugin name, compiler version reported by `protoc --version`) pairs that buf
// accepts (round 4): kotlin needs > 3.16, rust > 4.22, js < 3.21; 3.12-3.14 additionally get
// --experimental_allow_proto3_optional. builtinDefault are the names usable with the default version 27.1.
var builtinPairs, builtinDefault = func() ([][2]string, []string) {
	always := []string{"cpp", "csharp", "java", "objc", "php", "python", "pyi", "ruby"}
	var pairs [][2]string
	for _, v := range []string{"3.12.4", "3.20.1", "27.1"} {
		names := append([]string(nil), always...)
		switch v {
		case "3.20.1":
			names = append(names, "kotlin", "js")
		case "27.1":
			names = append(names, "kotlin", "rust")
		}
		for _, n := range names {
			pairs = append(pairs, [2]string{n, v})
		}
	}
	return pairs, append(append([]string(nil), always...), "kotlin", "rust")
}()

func cliNames(maxComponents int) []string { return c13.Paths(maxComponents) }

// pluginDidNotRun recognises failures of the harness's own plugin process (never buf's verdict on a response).
func pluginDidNotRun(stderr string) bool {
	for _, pat := range []string{"VERIF-PLUGIN-FAILURE", "could not find protoc plugin", "executable file not found", "exec format error", "fork/exec", "resource temporarily unavailable", "text file busy", "too many open files", "cannot allocate memory"} {
		if strings.Contains(stderr, pat) {
			return true
		}
	}
	return false
}
