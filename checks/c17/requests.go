package c17

// Half A of C17: CodeGeneratorRequests.
//
// A corpus is a labelled file-level import DAG on n files, a directory for every file, a flag per
// file "imports a well-known type and carries source-retention options", and a set of targeted
// files. The real compiler builds the image; the real ImageByDir / ImagesToCodeGeneratorRequests /
// FilterImage compute the requests exactly the way bufgen.generator.execPlugins wires them; the
// reference model below (plain sets over the DAG) says which file must be generated how often.

import (
	"context"
	"fmt"
	"sort"
	"strings"

	"github.com/bufbuild/buf/private/bufpkg/bufimage"
	"github.com/bufbuild/buf/private/bufpkg/bufimage/bufimageutil"
	imagev1 "github.com/bufbuild/buf/private/gen/proto/go/buf/alpha/image/v1"
	"github.com/bufbuild/bufverif/internal/bufx"
	"github.com/bufbuild/bufverif/internal/enum"
	"github.com/bufbuild/bufverif/internal/evid"
	"google.golang.org/protobuf/encoding/protowire"
	"google.golang.org/protobuf/proto"
	"google.golang.org/protobuf/types/descriptorpb"
	"google.golang.org/protobuf/types/pluginpb"
)

const wktPath = "google/protobuf/descriptor.proto"

// emptyPath is the well-known type a file imports WITHOUT using it (round 3); it is tiny, so it does not
// cost a compilation of descriptor.proto.
const emptyPath = "google/protobuf/empty.proto"

// import kinds (round 3): how file i imports file j
const (
	kindUsed   = 0 // plain import, i references a message of j
	kindUnused = 1 // plain import, nothing of j is referenced: the compiler records an unused dependency
	kindPublic = 2 // `import public`, i itself references nothing of j (a pure re-export)
)

// field numbers of the custom options of file i: source-retention 5000+i, runtime-retention 5100+i
// (the same numbers are used for the FileOptions and the MessageOptions extension).
const (
	srcOptBase = 5000
	runOptBase = 5100
)

// Corpus is one small protobuf module.
type Corpus struct {
	N     int      `json:"n"`
	Edges [][2]int `json:"imports"` // [i,j]: file i imports file j
	Dirs  []string `json:"dirs"`    // directory of file i
	Wkt   []bool   `json:"wkt"`     // file i imports descriptor.proto, defines and uses custom options
	// round 3: Kinds is parallel to Edges (nil = every import is referenced), Empty[i] = file i imports
	// google/protobuf/empty.proto without using it (nil = no file does)
	Kinds []int  `json:"import_kinds,omitempty"`
	Empty []bool `json:"imports_wkt_unused,omitempty"`
}

func (c *Corpus) kind(e int) int {
	if c.Kinds == nil {
		return kindUsed
	}
	return c.Kinds[e]
}

func (c *Corpus) empty(i int) bool { return c.Empty != nil && c.Empty[i] }

// publicClosure is the set of files whose symbols file j re-exports (`import public`, transitively), j excluded.
func (c *Corpus) publicClosure(j int, into map[int]bool) {
	for e, ed := range c.Edges {
		if ed[0] == j && c.kind(e) == kindPublic && !into[ed[1]] {
			into[ed[1]] = true
			c.publicClosure(ed[1], into)
		}
	}
}

// Path is the module-relative path of file i.
func (c *Corpus) Path(i int) string { return c.Dirs[i] + "/f" + fmt.Sprint(i) + ".proto" }

// Files renders the sources.
func (c *Corpus) Files() map[string]string {
	out := map[string]string{}
	for i := 0; i < c.N; i++ {
		var b strings.Builder
		b.WriteString("syntax = \"proto3\";\npackage p;\n")
		var deps []int
		kindOf := map[int]int{}
		for ei, e := range c.Edges {
			if e[0] == i {
				deps = append(deps, e[1])
				kindOf[e[1]] = c.kind(ei)
			}
		}
		sort.Ints(deps)
		for _, j := range deps {
			if kindOf[j] == kindPublic {
				fmt.Fprintf(&b, "import public %q;\n", c.Path(j))
			} else {
				fmt.Fprintf(&b, "import %q;\n", c.Path(j))
			}
		}
		if c.Wkt[i] {
			fmt.Fprintf(&b, "import %q;\n", wktPath)
			fmt.Fprintf(&b, "extend google.protobuf.FileOptions { string fsrc%d = %d [retention = RETENTION_SOURCE]; string frun%d = %d; }\n", i, srcOptBase+i, i, runOptBase+i)
			fmt.Fprintf(&b, "extend google.protobuf.MessageOptions { string msrc%d = %d [retention = RETENTION_SOURCE]; string mrun%d = %d; }\n", i, srcOptBase+i, i, runOptBase+i)
			fmt.Fprintf(&b, "option (fsrc%d) = \"FS\"; option (frun%d) = \"FR\";\n", i, i)
		}
		if c.empty(i) {
			fmt.Fprintf(&b, "import %q;\n", emptyPath)
		}
		fmt.Fprintf(&b, "message M%d {\n", i)
		if c.Wkt[i] {
			fmt.Fprintf(&b, "  option (msrc%d) = \"MS\"; option (mrun%d) = \"MR\";\n", i, i)
		}
		// referenced: the message of every import of kind "used", and everything such an import re-exports
		// publicly, unless this file imports that file itself (then the import's own kind decides)
		referenced := map[int]bool{}
		for _, j := range deps {
			if kindOf[j] != kindUsed {
				continue
			}
			referenced[j] = true
			via := map[int]bool{}
			c.publicClosure(j, via)
			for l := range via {
				if _, direct := kindOf[l]; !direct {
					referenced[l] = true
				}
			}
		}
		for j := 0; j < c.N; j++ {
			if referenced[j] {
				fmt.Fprintf(&b, "  M%d m%d = %d;\n", j, j, j+1)
			}
		}
		b.WriteString("}\n")
		out[c.Path(i)] = b.String()
	}
	return out
}

// ReqModel is the reference model of one (image, targets) pair: what is in the image and in which role.
type ReqModel struct {
	Targets map[string]bool     // targeted (non-import) files
	Imports map[string]bool     // non-WKT imports present in the image
	Wkts    map[string]bool     // WKT imports present in the image
	Deps    map[string][]string // direct imports of every file in the image (model side)
	Opt     map[string]int      // files carrying the custom options -> file index
	// round 3: imports by kind, file -> imported path (model side; counted, the oracle does not depend on them)
	Unused map[string]map[string]bool
	Public map[string]map[string]bool
}

// Model computes the reference model for a target set (bitmask over files).
func (c *Corpus) Model(targets int) *ReqModel {
	m := &ReqModel{Targets: map[string]bool{}, Imports: map[string]bool{}, Wkts: map[string]bool{}, Deps: map[string][]string{}, Opt: map[string]int{},
		Unused: map[string]map[string]bool{}, Public: map[string]map[string]bool{}}
	mark := func(set map[string]map[string]bool, from, to string) {
		if set[from] == nil {
			set[from] = map[string]bool{}
		}
		set[from][to] = true
	}
	adj := make([][]int, c.N)
	for ei, e := range c.Edges {
		// an import is an import whatever its kind: reachability and the dependency lists do not look at the kind
		adj[e[0]] = append(adj[e[0]], e[1])
		switch c.kind(ei) {
		case kindUnused:
			mark(m.Unused, c.Path(e[0]), c.Path(e[1]))
		case kindPublic:
			mark(m.Public, c.Path(e[0]), c.Path(e[1]))
		}
	}
	in := make([]bool, c.N)
	var visit func(i int)
	visit = func(i int) {
		if in[i] {
			return
		}
		in[i] = true
		for _, j := range adj[i] {
			visit(j)
		}
	}
	for i := 0; i < c.N; i++ {
		if targets&(1<<i) != 0 {
			visit(i)
		}
	}
	for i := 0; i < c.N; i++ {
		if !in[i] {
			continue
		}
		p := c.Path(i)
		if targets&(1<<i) != 0 {
			m.Targets[p] = true
		} else {
			m.Imports[p] = true
		}
		js := append([]int(nil), adj[i]...)
		sort.Ints(js)
		for _, j := range js {
			m.Deps[p] = append(m.Deps[p], c.Path(j))
		}
		if c.Wkt[i] {
			m.Deps[p] = append(m.Deps[p], wktPath)
			m.Wkts[wktPath] = true
			m.Opt[p] = i
		}
		if c.empty(i) {
			m.Deps[p] = append(m.Deps[p], emptyPath)
			m.Wkts[emptyPath] = true
			mark(m.Unused, p, emptyPath)
		}
	}
	return m
}

// ReqConfig is one plugin configuration as far as requests are concerned.
type ReqConfig struct {
	Strategy       string `json:"strategy"` // "all" | "directory"
	IncludeImports bool   `json:"include_imports"`
	IncludeWKT     bool   `json:"include_wkt"`
	// type filter: at most one of them, "" = none; MustGenerate are the targets that certainly keep a type
	IncludeType  string   `json:"include_type,omitempty"`
	ExcludeType  string   `json:"exclude_type,omitempty"`
	MustGenerate []string `json:"must_generate,omitempty"`
	// round 4, plugin KIND: "" = a plugin binary (it receives the CodeGeneratorRequest); otherwise the name of a
	// protoc built-in plugin (cpp, java, ...): buf hands the request to the compiler `protoc` as a descriptor set plus
	// the list of files to generate, and what is judged is what the compiler receives. Route is how buf finds the
	// compiler (half C only): protoc_path as a string / with extra arguments / looked up on PATH / a v1 template.
	Builtin string `json:"protoc_builtin,omitempty"`
	Route   string `json:"protoc_route,omitempty"`
}

func (cfg ReqConfig) filtered() bool { return cfg.IncludeType != "" || cfg.ExcludeType != "" }

func (cfg ReqConfig) String() string {
	s := cfg.Strategy
	if cfg.IncludeImports {
		s += "+imports"
	}
	if cfg.IncludeWKT {
		s += "+wkt"
	}
	if cfg.IncludeType != "" {
		s += "+types=" + cfg.IncludeType
	}
	if cfg.ExcludeType != "" {
		s += "+exclude_types=" + cfg.ExcludeType
	}
	if cfg.Builtin != "" {
		s += "+protoc_builtin=" + cfg.Builtin + "/" + cfg.Route
	}
	return s
}

// RequestsFor is the glue of bufgen.generator.execPlugins/execLocalPlugin for one local plugin:
// per-plugin type filter, then the strategy split, then the requests.
func RequestsFor(image bufimage.Image, cfg ReqConfig) ([]*pluginpb.CodeGeneratorRequest, error, bool) {
	if cfg.filtered() {
		var opts []bufimageutil.ImageFilterOption
		if cfg.IncludeType != "" {
			opts = append(opts, bufimageutil.WithIncludeTypes(cfg.IncludeType))
		}
		if cfg.ExcludeType != "" {
			opts = append(opts, bufimageutil.WithExcludeTypes(cfg.ExcludeType))
		}
		var err error
		image, err = bufimageutil.FilterImage(image, opts...)
		if err != nil {
			return nil, err, true
		}
	}
	images := []bufimage.Image{image}
	if cfg.Strategy == "directory" {
		var err error
		images, err = bufimage.ImageByDir(image)
		if err != nil {
			return nil, err, false
		}
	}
	reqs, err := bufimage.ImagesToCodeGeneratorRequests(images, "", nil, cfg.IncludeImports, cfg.IncludeWKT)
	return reqs, err, false
}

// ReqSummary is the printable form of a request.
type ReqSummary struct {
	FileToGenerate []string `json:"file_to_generate"`
	ProtoFile      []string `json:"proto_file"`
	SourceFiles    []string `json:"source_file_descriptors"`
}

func summarize(reqs []*pluginpb.CodeGeneratorRequest) []ReqSummary {
	var out []ReqSummary
	for _, q := range reqs {
		s := ReqSummary{FileToGenerate: q.GetFileToGenerate()}
		for _, f := range q.GetProtoFile() {
			s.ProtoFile = append(s.ProtoFile, f.GetName())
		}
		for _, f := range q.GetSourceFileDescriptors() {
			s.SourceFiles = append(s.SourceFiles, f.GetName())
		}
		out = append(out, s)
	}
	return out
}

// optionFields returns the top-level field numbers present in an options message (known, extension or unknown).
func optionFields(m proto.Message) map[int]bool {
	out := map[int]bool{}
	if m == nil || !m.ProtoReflect().IsValid() {
		return out
	}
	b, err := proto.Marshal(m)
	if err != nil {
		return out
	}
	for len(b) > 0 {
		num, typ, n := protowire.ConsumeTag(b)
		if n < 0 {
			break
		}
		b = b[n:]
		n = protowire.ConsumeFieldValue(num, typ, b)
		if n < 0 {
			break
		}
		b = b[n:]
		out[int(num)] = true
	}
	return out
}

// optionState says which of the four custom options (file/message x source/runtime) file i carries.
type optionState struct{ fileSrc, fileRun, msgSrc, msgRun, hasMsg bool }

func readOptions(fd *descriptorpb.FileDescriptorProto, i int) optionState {
	var s optionState
	if fd.Options != nil {
		f := optionFields(fd.Options)
		s.fileSrc, s.fileRun = f[srcOptBase+i], f[runOptBase+i]
	}
	for _, m := range fd.GetMessageType() {
		if m.GetName() == fmt.Sprintf("M%d", i) {
			s.hasMsg = true
			if m.Options != nil {
				f := optionFields(m.Options)
				s.msgSrc, s.msgRun = f[srcOptBase+i], f[runOptBase+i]
			}
		}
	}
	return s
}

// ReqStats are per-clause exercise counters.
type ReqStats struct {
	TargetsOnce, ImportsOnce, WktOnce     int // files required exactly once and found exactly once
	ImportsWithheld, WktWithheld          int // imports / WKTs present but (correctly) not generated
	MultiRequest                          int // request sets with >= 2 requests
	SharedImportAcrossRequests            int // a non-target file present in the proto_file of >= 2 requests while imports are generated
	TargetImportedFromOtherDir            int // a target that is an import of another request's image (nonImportPaths clause)
	ClosureEdges                          int // dependency edges checked for presence + order
	RetSFD, RetGenStripped, RetImportKept int // retention clauses checked positively
	FilterDropped                         int // filtered request sets in which some target was not generated
	FilterErrors                          int
	// round 3
	UnusedEdges, PublicEdges    int // dependency edges checked whose import is unused / public
	UnusedEdgesToNonTargetMulti int // ... unused, to a file that is not a target, in a request set with several requests
	ImageFilesWithUnusedRecord  int // image files for which buf recorded unused dependency indexes (half A: read from the image)
	// round 4: files with options in a descriptor set handed to the compiler (protoc built-in plugins), found complete
	RetCompilerGenerated, RetCompilerImport int
}

func (s *ReqStats) add(o *ReqStats) {
	s.TargetsOnce += o.TargetsOnce
	s.ImportsOnce += o.ImportsOnce
	s.WktOnce += o.WktOnce
	s.ImportsWithheld += o.ImportsWithheld
	s.WktWithheld += o.WktWithheld
	s.MultiRequest += o.MultiRequest
	s.SharedImportAcrossRequests += o.SharedImportAcrossRequests
	s.TargetImportedFromOtherDir += o.TargetImportedFromOtherDir
	s.ClosureEdges += o.ClosureEdges
	s.RetSFD += o.RetSFD
	s.RetGenStripped += o.RetGenStripped
	s.RetImportKept += o.RetImportKept
	s.FilterDropped += o.FilterDropped
	s.FilterErrors += o.FilterErrors
	s.UnusedEdges += o.UnusedEdges
	s.PublicEdges += o.PublicEdges
	s.UnusedEdgesToNonTargetMulti += o.UnusedEdgesToNonTargetMulti
	s.ImageFilesWithUnusedRecord += o.ImageFilesWithUnusedRecord
	s.RetCompilerGenerated += o.RetCompilerGenerated
	s.RetCompilerImport += o.RetCompilerImport
}

func dirOf(p string) string {
	if i := strings.LastIndex(p, "/"); i >= 0 {
		return p[:i]
	}
	return "."
}

// CheckRequests is the oracle for all requests sent to one plugin. report is called once per failed clause.
func CheckRequests(m *ReqModel, cfg ReqConfig, reqs []*pluginpb.CodeGeneratorRequest, st *ReqStats, report func(sig, what string)) {
	role := func(p string) string {
		switch {
		case m.Targets[p]:
			return "target"
		case m.Imports[p]:
			return "import"
		case m.Wkts[p]:
			return "wkt"
		}
		return "unknown-file"
	}
	// ---- exactly once across all requests
	count := map[string]int{}
	for _, q := range reqs {
		for _, p := range q.GetFileToGenerate() {
			count[p]++
		}
	}
	want := map[string]bool{}
	for p := range m.Targets {
		want[p] = true
	}
	if cfg.IncludeImports {
		for p := range m.Imports {
			want[p] = true
		}
		if cfg.IncludeWKT {
			for p := range m.Wkts {
				want[p] = true
			}
		}
	}
	for _, p := range bufx.SortedKeys(count) {
		if count[p] > 1 {
			report("exactly-once/duplicate/"+role(p), fmt.Sprintf("%s appears %d times in file_to_generate across the requests of one plugin", p, count[p]))
		}
		if !want[p] {
			report("exactly-once/unrequested/"+role(p), fmt.Sprintf("%s is in file_to_generate although it is a %s and was not requested (%s)", p, role(p), cfg))
		}
	}
	must := want
	if cfg.filtered() {
		must = map[string]bool{}
		for _, p := range cfg.MustGenerate {
			must[p] = true
		}
		dropped := false
		for p := range m.Targets {
			if count[p] == 0 {
				dropped = true
			}
		}
		if dropped {
			st.FilterDropped++
		}
	}
	for _, p := range bufx.SortedKeys(must) {
		if count[p] == 0 {
			report("exactly-once/missing/"+role(p), fmt.Sprintf("%s (%s) is in no request's file_to_generate (%s)", p, role(p), cfg))
		} else if count[p] == 1 {
			switch role(p) {
			case "target":
				st.TargetsOnce++
			case "import":
				st.ImportsOnce++
			case "wkt":
				st.WktOnce++
			}
		}
	}
	for p := range m.Imports {
		if !want[p] && count[p] == 0 {
			st.ImportsWithheld++
		}
	}
	for p := range m.Wkts {
		if !want[p] && count[p] == 0 {
			st.WktWithheld++
		}
	}
	if len(reqs) > 1 {
		st.MultiRequest++
	}
	// ---- strategy
	switch cfg.Strategy {
	case "all":
		if len(reqs) != 1 {
			report("strategy/all/request-count", fmt.Sprintf("strategy all produced %d requests", len(reqs)))
		}
	case "directory":
		seenDir := map[string]int{}
		for qi, q := range reqs {
			dirs := map[string]bool{}
			for _, p := range q.GetFileToGenerate() {
				if m.Targets[p] {
					dirs[dirOf(p)] = true
				}
			}
			if len(dirs) > 1 {
				report("strategy/directory/request-spans-directories", fmt.Sprintf("request %d generates targets of directories %v", qi, bufx.SortedKeys(dirs)))
			}
			if len(dirs) == 0 {
				report("strategy/directory/request-without-target", fmt.Sprintf("request %d generates no targeted file: %v", qi, q.GetFileToGenerate()))
			}
			for d := range dirs {
				if prev, ok := seenDir[d]; ok && prev != qi {
					report("strategy/directory/directory-split-over-requests", fmt.Sprintf("directory %s is generated by requests %d and %d", d, prev, qi))
				}
				seenDir[d] = qi
			}
		}
	}
	// ---- every request: closed, ordered, consistent, retention
	inReqs := map[string]int{}
	for qi, q := range reqs {
		pos := map[string]int{}
		for i, fd := range q.GetProtoFile() {
			if _, dup := pos[fd.GetName()]; dup {
				report("proto-file/duplicate", fmt.Sprintf("request %d lists %s twice in proto_file", qi, fd.GetName()))
			}
			pos[fd.GetName()] = i
			inReqs[fd.GetName()]++
		}
		gen := map[string]bool{}
		for _, p := range q.GetFileToGenerate() {
			gen[p] = true
			if _, ok := pos[p]; !ok {
				report("closure/file-to-generate-not-in-proto-file", fmt.Sprintf("request %d: %s is to be generated but not in proto_file", qi, p))
			}
		}
		for i, fd := range q.GetProtoFile() {
			name := fd.GetName()
			for _, dep := range fd.GetDependency() {
				j, ok := pos[dep]
				if !ok {
					report("closure/missing-dependency/"+role(dep), fmt.Sprintf("request %d: %s imports %s which is not in proto_file", qi, name, dep))
					continue
				}
				if j >= i {
					report("order/dependency-after-dependent", fmt.Sprintf("request %d: %s (index %d) imports %s (index %d)", qi, name, i, dep, j))
				}
				st.ClosureEdges++
				if m.Unused[name][dep] {
					st.UnusedEdges++
					if len(reqs) > 1 && !m.Targets[dep] {
						st.UnusedEdgesToNonTargetMulti++
					}
				}
				if m.Public[name][dep] {
					st.PublicEdges++
				}
			}
			if !cfg.filtered() {
				// the model's imports must be what the descriptor says (harness sanity + "carries all dependencies")
				if wantDeps, ok := m.Deps[name]; ok || name != wktPath {
					if strings.Join(wantDeps, ",") != strings.Join(fd.GetDependency(), ",") {
						report("closure/descriptor-dependencies-differ-from-source", fmt.Sprintf("request %d: %s has dependency list %v, sources import %v", qi, name, fd.GetDependency(), wantDeps))
					}
				}
			}
			// retention in proto_file
			if idx, ok := m.Opt[name]; ok && cfg.Builtin != "" {
				// round 4: what a protoc built-in plugin's COMPILER receives. protoc derives the runtime view of the files
				// to generate itself, so "removed only from the runtime view" means that nothing is removed here: every file
				// of the descriptor set, generated or not, still carries its source-retention and its runtime options.
				if !cfg.filtered() {
					s := readOptions(fd, idx)
					what := "import"
					if gen[name] {
						what = "generated-file"
					}
					switch {
					case !s.fileSrc || !s.msgSrc:
						report("retention/descriptor-set-for-protoc/"+what+"-lost-source-option", fmt.Sprintf("invocation %d: the descriptor set handed to protoc has %s without a source-retention option (file:%v message:%v): the compiler is given the runtime view", qi, name, s.fileSrc, s.msgSrc))
					case !s.fileRun || !s.msgRun:
						report("retention/descriptor-set-for-protoc/"+what+"-lost-runtime-option", fmt.Sprintf("invocation %d: the descriptor set handed to protoc has %s without a runtime-retention option (file:%v message:%v)", qi, name, s.fileRun, s.msgRun))
					case gen[name]:
						st.RetCompilerGenerated++
					default:
						st.RetCompilerImport++
					}
				}
			} else if ok {
				s := readOptions(fd, idx)
				if gen[name] {
					if s.fileSrc || s.msgSrc {
						report("retention/proto-file-of-generated-file-keeps-source-option", fmt.Sprintf("request %d: proto_file entry of generated %s still has a source-retention option (file:%v message:%v)", qi, name, s.fileSrc, s.msgSrc))
					} else if !cfg.filtered() {
						st.RetGenStripped++
					}
					if !cfg.filtered() && (!s.fileRun || !s.msgRun) {
						report("retention/proto-file-lost-runtime-option", fmt.Sprintf("request %d: proto_file entry of generated %s lost a runtime-retention option (file:%v message:%v)", qi, name, s.fileRun, s.msgRun))
					}
				} else if !cfg.filtered() {
					if !s.fileSrc || !s.msgSrc || !s.fileRun || !s.msgRun {
						report("retention/proto-file-of-import-lost-option", fmt.Sprintf("request %d: proto_file entry of %s (not generated here) lost an option: %+v", qi, name, s))
					} else {
						st.RetImportKept++
					}
				}
			}
		}
		if cfg.Builtin != "" {
			continue // a compiler invocation has no source_file_descriptors: the descriptor set is the source view
		}
		// source_file_descriptors: one per file to generate, with all options
		sfd := map[string]*descriptorpb.FileDescriptorProto{}
		for _, fd := range q.GetSourceFileDescriptors() {
			if _, dup := sfd[fd.GetName()]; dup {
				report("source-file-descriptors/duplicate", fmt.Sprintf("request %d lists %s twice in source_file_descriptors", qi, fd.GetName()))
			}
			sfd[fd.GetName()] = fd
			if !gen[fd.GetName()] {
				report("source-file-descriptors/not-generated", fmt.Sprintf("request %d: source_file_descriptors has %s which is not in file_to_generate", qi, fd.GetName()))
			}
		}
		for _, p := range q.GetFileToGenerate() {
			fd, ok := sfd[p]
			if !ok {
				report("source-file-descriptors/missing", fmt.Sprintf("request %d: no source_file_descriptors entry for generated %s", qi, p))
				continue
			}
			if idx, ok := m.Opt[p]; ok && !cfg.filtered() {
				s := readOptions(fd, idx)
				if !s.fileSrc || !s.msgSrc {
					report("retention/source-file-descriptor-lost-source-option", fmt.Sprintf("request %d: source_file_descriptors entry of %s lost a source-retention option: %+v", qi, p, s))
				} else if !s.fileRun || !s.msgRun {
					report("retention/source-file-descriptor-lost-runtime-option", fmt.Sprintf("request %d: source_file_descriptors entry of %s lost a runtime-retention option: %+v", qi, p, s))
				} else {
					st.RetSFD++
				}
			}
		}
	}
	// ---- non-vacuity facts
	if cfg.IncludeImports && len(reqs) > 1 {
		for p, n := range inReqs {
			if n > 1 && !m.Targets[p] && want[p] {
				st.SharedImportAcrossRequests++
			}
			if n > 1 && m.Targets[p] {
				st.TargetImportedFromOtherDir++
			}
		}
	}
}

// ReqCase is the replayable description of one evaluated case of half A.
type ReqCase struct {
	Half     string            `json:"half"`
	Corpus   *Corpus           `json:"corpus"`
	Sources  map[string]string `json:"sources,omitempty"`
	Targets  []string          `json:"targets"`
	Config   ReqConfig         `json:"config"`
	Via      string            `json:"image_via,omitempty"` // "" = as built by the compiler; "wire" = after ImageToProtoImage + NewImageForProto
	Requests []ReqSummary      `json:"requests"`
	Error    string            `json:"error,omitempty"`
}

// derive builds the image for a target subset from the all-targeted image: the files reachable
// from the targets, in the order of the full image, non-targets marked as imports. (This is the
// shape `--path` produces; see crossCheckPathBuild.)
func derive(full bufimage.Image, m *ReqModel) (bufimage.Image, error) {
	var files []bufimage.ImageFile
	for _, f := range full.Files() {
		p := f.Path()
		switch {
		case m.Targets[p]:
			files = append(files, bufimage.ImageFileWithIsImport(f, false))
		case m.Imports[p], m.Wkts[p]:
			files = append(files, bufimage.ImageFileWithIsImport(f, true))
		}
	}
	return bufimage.NewImage(files)
}

func imageShape(image bufimage.Image) string {
	var s []string
	for _, f := range image.Files() {
		s = append(s, fmt.Sprintf("%s:%v", f.Path(), f.IsImport()))
	}
	sort.Strings(s)
	return strings.Join(s, " ")
}

// layouts enumerates every assignment of n files to the given directories.
func layouts(n int, dirs []string) [][]string {
	var out [][]string
	dims := make([]int, n)
	for i := range dims {
		dims[i] = len(dirs)
	}
	enum.Product(dims, func(idx []int) bool {
		l := make([]string, n)
		for i, d := range idx {
			l[i] = dirs[d]
		}
		out = append(out, l)
		return true
	})
	return out
}

type reqSpace struct {
	n         int
	dirs      []string
	wktMasks  []int
	targets   []int        // bitmasks; nil = all non-empty subsets
	filterWkt map[int]bool // WKT masks for which the per-plugin type filters are explored too
	dagClass  string       // "" = every labelled DAG; "monotone" = only DAGs whose labels are topologically ascending or descending
	// round 3
	kinds      []int // import kinds an edge may have (nil = every import is referenced); every assignment of kinds to edges is enumerated
	emptyMasks []int // bitmasks of the files that import google/protobuf/empty.proto without using it (nil = none)
	skipPlain  bool  // skip the corpora without any unused / public import (they are covered by the other spaces)
	viaWire    bool  // evaluate the all-targeted image a second time after a round trip through its wire form (buf extension)
}

// kindAssignments enumerates every assignment of the given kinds to e edges.
func kindAssignments(e int, kinds []int) [][]int {
	if len(kinds) == 0 {
		return [][]int{nil}
	}
	out := [][]int{{}}
	for i := 0; i < e; i++ {
		var next [][]int
		for _, a := range out {
			for _, k := range kinds {
				next = append(next, append(append([]int(nil), a...), k))
			}
		}
		out = next
	}
	return out
}

func plainKinds(a []int) bool {
	for _, k := range a {
		if k != kindUsed {
			return false
		}
	}
	return true
}

// viaWire sends an image through its serialised form: the unused dependency indexes then come from the
// image's buf extension instead of from the compiler.
func viaWire(image bufimage.Image) (bufimage.Image, error) {
	protoImage, err := bufimage.ImageToProtoImage(image)
	if err != nil {
		return nil, err
	}
	data, err := proto.Marshal(protoImage)
	if err != nil {
		return nil, err
	}
	fresh := &imagev1.Image{}
	if err := proto.Unmarshal(data, fresh); err != nil {
		return nil, err
	}
	return bufimage.NewImageForProto(fresh)
}

// monotone: every edge goes from a larger to a smaller label, or every edge from a smaller to a larger one.
// Every DAG shape has such a labelling; the fully labelled space is explored for n <= 3.
func monotone(g enum.Digraph) bool {
	up, down := true, true
	for _, e := range g.Edges() {
		if e[0] < e[1] {
			down = false
		}
		if e[0] > e[1] {
			up = false
		}
	}
	return up || down
}

func allMasks(n int) []int {
	var out []int
	for m := 0; m < 1<<n; m++ {
		out = append(out, m)
	}
	return out
}

var reqConfigs = func() []ReqConfig {
	var out []ReqConfig
	for _, s := range []string{"all", "directory"} {
		for _, ii := range []bool{false, true} {
			for _, iw := range []bool{false, true} {
				out = append(out, ReqConfig{Strategy: s, IncludeImports: ii, IncludeWKT: iw})
			}
		}
	}
	return out
}()

// runRequests explores half A.
func runRequests(r *evid.Run, spaces []reqSpace) {
	ctx := context.Background()
	type item struct {
		sp     *reqSpace
		g      enum.Digraph
		gi     int
		layout []string
		wkt    int
		kinds  []int
		empty  int
	}
	var items []item
	for si := range spaces {
		sp := &spaces[si]
		dags := enum.Digraphs(sp.n, true)
		ls := layouts(sp.n, sp.dirs)
		ndags, nvariants := 0, 0
		for gi, g := range dags {
			if sp.dagClass == "monotone" && !monotone(g) {
				continue
			}
			ndags++
			emptyMasks := sp.emptyMasks
			if emptyMasks == nil {
				emptyMasks = []int{0}
			}
			for _, ka := range kindAssignments(len(g.Edges()), sp.kinds) {
				for _, em := range emptyMasks {
					if sp.skipPlain && plainKinds(ka) && em == 0 {
						continue
					}
					nvariants++
					for _, l := range ls {
						for _, w := range sp.wktMasks {
							items = append(items, item{sp, g, gi, l, w, ka, em})
						}
					}
				}
			}
		}
		r.Set(fmt.Sprintf("A_space_%d_n%d", si, sp.n), map[string]any{"dags": ndags, "dag_class": sp.dagClass, "dirs": sp.dirs, "layouts": len(ls), "wkt_masks": sp.wktMasks, "type_filters_for_wkt_masks": len(sp.filterWkt),
			"import_kinds": sp.kinds, "unused_wkt_masks": sp.emptyMasks, "dag_x_import_kind_x_unused_wkt_variants": nvariants, "plain_variants_skipped": sp.skipPlain, "also_via_wire_form": sp.viaWire})
	}
	r.Set("A_images_planned", len(items))
	// fixed stride order: should a deadline cut the run, the prefix that ran is spread over the whole space
	stride := 7919
	gcd := func(a, b int) int {
		for b != 0 {
			a, b = b, a%b
		}
		return a
	}
	for len(items) > 0 && gcd(stride, len(items)) != 1 {
		stride++
	}
	order := func(i int) int { return (i * stride) % len(items) }
	total := &ReqStats{}
	var crossChecked, crossMismatch int
	var mu = make(chan struct{}, 1)
	mu <- struct{}{}
	r.ParallelFor(len(items), 0, func(ix int) {
		ix = order(ix)
		it := items[ix]
		c := &Corpus{N: it.sp.n, Dirs: it.layout, Wkt: make([]bool, it.sp.n), Kinds: it.kinds}
		for _, e := range it.g.Edges() {
			c.Edges = append(c.Edges, [2]int{e[0], e[1]})
		}
		for i := 0; i < c.N; i++ {
			c.Wkt[i] = it.wkt&(1<<i) != 0
		}
		variant := ""
		if !plainKinds(it.kinds) || it.empty != 0 {
			variant = fmt.Sprintf("|k%v|e%d", it.kinds, it.empty)
		}
		if it.empty != 0 {
			c.Empty = make([]bool, c.N)
			for i := 0; i < c.N; i++ {
				c.Empty[i] = it.empty&(1<<i) != 0
			}
		}
		sources := c.Files()
		full, err := bufx.BuildImage(ctx, sources)
		if err != nil {
			r.Incomplete(fmt.Sprintf("harness: corpus does not build: %v (%+v)", err, c))
			return
		}
		st := &ReqStats{}
		for _, f := range full.Files() {
			if len(f.UnusedDependencyIndexes()) > 0 {
				st.ImageFilesWithUnusedRecord++
			}
		}
		local := 0
		localMismatch := 0
		via := ""
		evalOne := func(m *ReqModel, image bufimage.Image, tmask int, cfg ReqConfig) {
			reqs, err, filterErr := RequestsFor(image, cfg)
			r.Eval(1)
			mk := func() *ReqCase {
				rc := &ReqCase{Half: "A", Corpus: c, Sources: sources, Targets: bufx.SortedKeys(m.Targets), Config: cfg, Via: via, Requests: summarize(reqs)}
				if err != nil {
					rc.Error = err.Error()
				}
				return rc
			}
			if err != nil {
				if filterErr {
					// FilterImage is C12's subject; a filter error means no request is sent at all
					st.FilterErrors++
					return
				}
				r.Violate("requests/error", "computing the requests failed: "+err.Error(), mk())
				return
			}
			CheckRequests(m, cfg, reqs, st, func(sig, what string) { r.Violate("A/"+sig, what, mk()) })
			if cfg.Strategy == "all" && !cfg.filtered() {
				single, err := bufimage.ImageToCodeGeneratorRequest(image, "", nil, cfg.IncludeImports, cfg.IncludeWKT)
				if err != nil || len(reqs) != 1 || !proto.Equal(single, reqs[0]) {
					r.Violate("A/single-vs-multi/differ", fmt.Sprintf("ImageToCodeGeneratorRequest differs from ImagesToCodeGeneratorRequests on one image (err=%v)", err), mk())
				}
			}
			if len(m.Imports)+len(m.Wkts) > 0 {
				r.Distinct(fmt.Sprintf("A|%d|%d|%v|%d|%d|%s%s%s", c.N, it.gi, it.layout, it.wkt, tmask, cfg, variant, via))
			}
			r.SampleEvery(ix*131+tmask, 7919, func() any { return mk() })
		}
		tmasks := it.sp.targets
		if tmasks == nil {
			tmasks = allMasks(c.N)[1:]
		}
		for _, tmask := range tmasks {
			m := c.Model(tmask)
			image := full
			if tmask != 1<<c.N-1 {
				image, err = derive(full, m)
				if err != nil {
					r.Incomplete(fmt.Sprintf("harness: cannot derive the targeted image: %v", err))
					return
				}
				// every 29th derived image is compared with what the workspace builds for --path
				if (ix+tmask)%29 == 0 {
					var paths []string
					for p := range m.Targets {
						paths = append(paths, p)
					}
					sort.Strings(paths)
					ws, err := bufx.Workspace(ctx, bufx.MemBucket(sources), ".", paths, nil, bufx.NopProviders)
					if err == nil {
						var real bufimage.Image
						real, err = bufx.BuildWorkspaceImage(ctx, ws)
						if err == nil {
							local++
							if imageShape(real) != imageShape(image) {
								localMismatch++
							}
						}
					}
					if err != nil {
						r.Incomplete(fmt.Sprintf("harness: --path build failed: %v", err))
					}
				}
			}
			for _, cfg := range reqConfigs {
				evalOne(m, image, tmask, cfg)
			}
			if it.sp.viaWire && tmask == 1<<c.N-1 {
				wired, err := viaWire(image)
				if err != nil {
					r.Incomplete(fmt.Sprintf("harness: image does not survive its wire form: %v", err))
					return
				}
				if imageShape(wired) != imageShape(image) {
					r.Incomplete("harness: image differs after its wire form")
					return
				}
				for _, f := range wired.Files() {
					if len(f.UnusedDependencyIndexes()) > 0 {
						st.ImageFilesWithUnusedRecord++
					}
				}
				via = "|wire"
				for _, cfg := range reqConfigs {
					evalOne(m, wired, tmask, cfg)
				}
				via = ""
			}
			if it.sp.filterWkt[it.wkt] && tmask == 1<<c.N-1 {
				for k := 0; k < c.N; k++ {
					for _, cfg := range reqConfigs {
						if cfg.IncludeWKT != cfg.IncludeImports {
							continue
						}
						inc := cfg
						inc.IncludeType = fmt.Sprintf("p.M%d", k)
						inc.MustGenerate = []string{c.Path(k)}
						evalOne(m, image, tmask, inc)
						exc := cfg
						exc.ExcludeType = fmt.Sprintf("p.M%d", k)
						for i := 0; i < c.N; i++ {
							if i != k {
								exc.MustGenerate = append(exc.MustGenerate, c.Path(i))
							}
						}
						evalOne(m, image, tmask, exc)
					}
				}
			}
		}
		<-mu
		total.add(st)
		crossChecked += local
		crossMismatch += localMismatch
		mu <- struct{}{}
	})
	r.Set("A_clause_counts", map[string]int{
		"targets_generated_exactly_once":                               total.TargetsOnce,
		"imports_generated_exactly_once":                               total.ImportsOnce,
		"wkt_generated_exactly_once":                                   total.WktOnce,
		"imports_present_but_withheld":                                 total.ImportsWithheld,
		"wkt_present_but_withheld":                                     total.WktWithheld,
		"request_sets_with_several_requests":                           total.MultiRequest,
		"imports_shared_by_several_requests_generated":                 total.SharedImportAcrossRequests,
		"targets_imported_by_another_directory":                        total.TargetImportedFromOtherDir,
		"dependency_edges_checked":                                     total.ClosureEdges,
		"retention_source_file_descriptors_complete":                   total.RetSFD,
		"retention_generated_proto_file_stripped":                      total.RetGenStripped,
		"retention_import_proto_file_untouched":                        total.RetImportKept,
		"filtered_sets_dropping_a_target":                              total.FilterDropped,
		"filter_errors_skipped":                                        total.FilterErrors,
		"derived_images_compared_with_path_build":                      crossChecked,
		"dependency_edges_checked_unused_import":                       total.UnusedEdges,
		"dependency_edges_checked_public_import":                       total.PublicEdges,
		"unused_import_of_a_non_target_checked_in_a_multi_request_set": total.UnusedEdgesToNonTargetMulti,
		"image_files_with_recorded_unused_dependencies":                total.ImageFilesWithUnusedRecord,
	})
	if crossMismatch > 0 {
		r.Incomplete(fmt.Sprintf("harness: %d derived target images differ from the --path build", crossMismatch))
	}
	if !r.Expired() {
		for name, n := range map[string]int{
			"imports generated once": total.ImportsOnce, "wkt generated once": total.WktOnce, "imports withheld": total.ImportsWithheld,
			"wkt withheld": total.WktWithheld, "shared import across requests": total.SharedImportAcrossRequests,
			"target imported from another directory": total.TargetImportedFromOtherDir, "retention sfd": total.RetSFD,
			"retention stripped": total.RetGenStripped, "retention import kept": total.RetImportKept, "path cross-check": crossChecked,
			"unused import edges": total.UnusedEdges, "public import edges": total.PublicEdges,
			"unused import of a non-target in a multi-request set": total.UnusedEdgesToNonTargetMulti,
			"image files with recorded unused dependencies":        total.ImageFilesWithUnusedRecord,
		} {
			if n == 0 {
				r.Incomplete("half A never exercised: " + name)
			}
		}
	}
}
