package c17

// Half C, round 3: HISTORIES of generation runs inside one `buf generate` invocation.
//
// A buf.gen.yaml v2 template may list several inputs; buf builds one image per input and performs one
// generation run per image, in template order ("each image is its own protoc invocation"). The property's
// insertion clause - insertion points only modify files produced in the same run - therefore also speaks about
// two runs of ONE invocation: a file that the run for an earlier input produced is, for the run of a later
// input, a file that already exists on disk and nothing else.
//
// A scenario is a sequence of 2-3 steps (one per input); in every step each plugin of the template answers
// with its own entries (the scripted plugin selects them by the file it is asked to generate). The reference
// model replays the steps: a step's insertion entry must hit a location that a plain entry of the SAME step
// produced before it, else the invocation has to fail; the content of such an insertion must be found
// nowhere on disk afterwards. The state oracles of half B (containment, archive entries) apply unchanged.

import (
	"context"
	"encoding/json"
	"fmt"
	"os"
	"path/filepath"
	"strings"

	"github.com/bufbuild/bufverif/checks/c13"
	"github.com/bufbuild/bufverif/internal/bufx"
	"github.com/bufbuild/bufverif/internal/evid"
)

// InputsScenario is one `buf generate` invocation over several inputs.
type InputsScenario struct {
	Half     string         `json:"half"`
	OutClass string         `json:"out_config"`
	Kind     string         `json:"kind"`
	Name     string         `json:"probe_name"`
	Outs     []string       `json:"outs"`                // out of plugin k (relative to the base directory)
	Steps    [][]PluginSpec `json:"responses_per_input"` // Steps[i][k]: what plugin k answers for input i
	PreDirs  []string       `json:"pre_existing_dirs,omitempty"`
	Template string         `json:"template,omitempty"`
	Outcome  string         `json:"outcome,omitempty"`
}

// inputsExpectation is what the property demands of a history.
type inputsExpectation struct {
	MustError   string   // "" or the rule that demands an error
	FailingStep int      // index of the step in which the rule applies (-1: none)
	Forbidden   []string // contents of insertion entries whose target was not produced in their own step
	ForbiddenAt []string // for each of them: "earlier-input" (target produced by an earlier step) or "absent"
}

// Expect replays the steps on the model.
func (s *InputsScenario) Expect(base string) inputsExpectation {
	e := inputsExpectation{FailingStep: -1}
	onDisk := map[string]bool{}
	for si, step := range s.Steps {
		produced := map[string]bool{}
		by := map[string]string{}
		rule := ""
		set := func(r string) {
			if rule == "" {
				rule = r
			}
		}
		for pi := range step {
			p := &step[pi]
			for _, f := range p.Files {
				normal, ok := validName(f.Name)
				if f.InsertionPoint == "" {
					if !ok {
						continue
					}
					loc := entryLocation(base, p, normal)
					if other, dup := by[loc]; dup && other != p.ID {
						set("duplicate-output")
					}
					by[loc] = p.ID
					produced[loc] = true
					continue
				}
				if rp := c13.Resolve(f.Name); f.Name != "" && !rp.Absolute && !rp.Escapes && rp.Normal == "." {
					set("insertion-absent") // the out location itself is never a file of this run
					continue
				}
				if !ok {
					continue
				}
				loc := entryLocation(base, p, normal)
				if produced[loc] {
					continue
				}
				where := "absent"
				if onDisk[loc] {
					where = "earlier-input"
				}
				set("insertion-" + where)
				if f.Content != "" {
					e.Forbidden = append(e.Forbidden, f.Content)
					e.ForbiddenAt = append(e.ForbiddenAt, where)
				}
			}
		}
		if rule != "" {
			e.MustError, e.FailingStep = rule, si
			return e // the invocation has to stop here; later inputs are not generated
		}
		for loc := range produced {
			onDisk[loc] = true
		}
	}
	return e
}

// InputsStats are the per-clause counters of the histories.
type InputsStats struct {
	Runs, Errors, Successes                          int
	MustEarlier, MustAbsent, MustDup                 int
	SameInputInsertionApplied, LaterStepOutputOnDisk int
	SuccessByConfig                                  map[string]int
	RunsByKind                                       map[string]int
}

func (s *InputsStats) add(o *InputsStats) {
	s.Runs += o.Runs
	s.Errors += o.Errors
	s.Successes += o.Successes
	s.MustEarlier += o.MustEarlier
	s.MustAbsent += o.MustAbsent
	s.MustDup += o.MustDup
	s.SameInputInsertionApplied += o.SameInputInsertionApplied
	s.LaterStepOutputOnDisk += o.LaterStepOutputOnDisk
	for k, v := range o.SuccessByConfig {
		if s.SuccessByConfig == nil {
			s.SuccessByConfig = map[string]int{}
		}
		s.SuccessByConfig[k] += v
	}
	for k, v := range o.RunsByKind {
		if s.RunsByKind == nil {
			s.RunsByKind = map[string]int{}
		}
		s.RunsByKind[k] += v
	}
}

// inputFile is the proto file of input i (0-based); every input is a module of its own.
func inputFile(i int) string { return fmt.Sprintf("in%d/q%d.proto", i+1, i+1) }

func writeInputWorkspaces(root string, n int) ([]string, error) {
	var dirs []string
	for i := 0; i < n; i++ {
		dir := filepath.Join(root, fmt.Sprintf("input%d", i+1))
		if err := os.MkdirAll(filepath.Join(dir, filepath.Dir(inputFile(i))), 0o755); err != nil {
			return nil, err
		}
		if err := os.WriteFile(filepath.Join(dir, "buf.yaml"), []byte("version: v2\n"), 0o644); err != nil {
			return nil, err
		}
		text := fmt.Sprintf("syntax = \"proto3\";\npackage q%d;\nmessage Q%d {}\n", i+1, i+1)
		if err := os.WriteFile(filepath.Join(dir, inputFile(i)), []byte(text), 0o644); err != nil {
			return nil, err
		}
		dirs = append(dirs, dir)
	}
	return dirs, nil
}

const neutralName = "n" // not a component of the probe alphabet

func stepTag(id string, step int) string { return fmt.Sprintf("%s step%d", tag(id), step+1) }

// inputsScenariosFor builds every history of one out configuration for one probe name over nsteps inputs.
func inputsScenariosFor(oc outConfig, name string, nsteps int) []*InputsScenario {
	var out []*InputsScenario
	n := len(oc.outs)
	target, valid := validName(name)
	if !valid {
		target = "t"
	}
	type shape struct {
		kind              string
		producer, insert  int  // step of the plain entry for the target (-1 none) and of the insertion entry (-1 none)
		producerIsOther   bool // the target is produced by the other plugin (needs two plugins)
		reproducedInStep  bool // the inserting step produces the target itself as well
		plainProbeInSteps bool // kind "plain": the probe name is a plain entry in every step
	}
	last := nsteps - 1
	shapes := []shape{
		{kind: "plain", producer: -1, insert: -1, plainProbeInSteps: true},
		{kind: "insert-same-input", producer: last, insert: last},
		{kind: "insert-absent", producer: -1, insert: last},
	}
	for ps := 0; ps < nsteps; ps++ {
		for is := 0; is < nsteps; is++ {
			switch {
			case ps < is:
				shapes = append(shapes,
					shape{kind: fmt.Sprintf("insert-earlier-input/%d-%d", ps+1, is+1), producer: ps, insert: is},
					shape{kind: fmt.Sprintf("insert-reproduced-file/%d-%d", ps+1, is+1), producer: ps, insert: is, reproducedInStep: true})
				if n == 2 {
					shapes = append(shapes, shape{kind: fmt.Sprintf("insert-earlier-input-other-plugin/%d-%d", ps+1, is+1), producer: ps, insert: is, producerIsOther: true})
				}
			case ps > is:
				shapes = append(shapes, shape{kind: fmt.Sprintf("insert-later-input/%d-%d", ps+1, is+1), producer: ps, insert: is})
			}
		}
	}
	for _, sh := range shapes {
		s := &InputsScenario{Half: "C", OutClass: oc.class, Kind: oc.label + "/" + sh.kind, Name: name, Outs: oc.outs, PreDirs: oc.preDirs}
		for si := 0; si < nsteps; si++ {
			var step []PluginSpec
			for k, o := range oc.outs {
				step = append(step, PluginSpec{ID: fmt.Sprintf("P%d", k+1), Out: o})
			}
			probe := &step[n-1]
			if n == 2 {
				q := &step[0]
				q.Files = []Entry{{Name: "a", Content: stepTag(q.ID, si) + " generated\n" + markerLine}, {Name: "a.b/a", Content: stepTag(q.ID, si) + " generated\n" + markerLine}}
				if sh.producerIsOther && sh.producer == si && target != "a" && target != "a.b/a" {
					q.Files = append(q.Files, Entry{Name: target, Content: stepTag(q.ID, si) + " generated\n" + markerLine})
				}
			}
			probe.Files = []Entry{{Name: neutralName, Content: stepTag(probe.ID, si) + " neutral\n"}}
			if sh.plainProbeInSteps {
				probe.Files = append(probe.Files, Entry{Name: name, Content: stepTag(probe.ID, si) + " probe\n"})
			}
			if !sh.producerIsOther && (sh.producer == si || (sh.reproducedInStep && sh.insert == si)) {
				probe.Files = append(probe.Files, Entry{Name: target, Content: stepTag(probe.ID, si) + " generated\n" + markerLine})
			}
			if sh.insert == si {
				probe.Files = append(probe.Files, Entry{Name: name, InsertionPoint: ipName, Content: stepTag(probe.ID, si) + " inserted\n"})
			}
			s.Steps = append(s.Steps, step)
		}
		out = append(out, s)
	}
	return out
}

func renderInputsTemplate(bin string, inputs []string, plugins []tmplPlugin) string {
	var b strings.Builder
	b.WriteString("version: v2\ninputs:\n")
	for _, in := range inputs {
		fmt.Fprintf(&b, "  - directory: %s\n", q(in))
	}
	b.WriteString(strings.TrimPrefix(renderTemplate(bin, plugins), "version: v2\n"))
	return b.String()
}

// execCLIInputs runs one history through `buf generate` (no input argument: the template's inputs are used).
func execCLIInputs(ctx context.Context, fx *respFixture, ctl, bin string, inputDirs []string, s *InputsScenario) (failed bool, err error) {
	if err := os.MkdirAll(ctl, 0o755); err != nil {
		return false, err
	}
	var plugins []tmplPlugin
	for k, o := range s.Outs {
		sc := pluginScript{}
		for si, step := range s.Steps {
			for _, f := range step[k].Files {
				sc.Entries = append(sc.Entries, scriptEntry{Trigger: inputFile(si), Name: f.Name, InsertionPoint: f.InsertionPoint, Content: f.Content})
			}
		}
		b, _ := json.Marshal(sc)
		scriptPath := filepath.Join(ctl, fmt.Sprintf("inputs-script%d.json", k))
		if err := os.WriteFile(scriptPath, b, 0o644); err != nil {
			return false, err
		}
		plugins = append(plugins, tmplPlugin{out: o, opt: fmt.Sprintf("id=P%d,script=%s", k+1, scriptPath), strategy: "all"})
	}
	text := renderInputsTemplate(bin, inputDirs[:len(s.Steps)], plugins)
	s.Template = strings.ReplaceAll(strings.ReplaceAll(strings.ReplaceAll(text, ctl, "<ctl>"), filepath.Dir(inputDirs[0]), "<inputs>"), bin, "<protoc-gen-verif>")
	tmpl := filepath.Join(ctl, "buf.gen.inputs.yaml")
	if err := os.WriteFile(tmpl, []byte(text), 0o644); err != nil {
		return false, err
	}
	res := bufx.RunCLI(ctx, map[string]string{}, "", "generate", "--template", tmpl, "-o", fx.base)
	if res.ExitCode == 0 {
		s.Outcome = "ok"
		return false, nil
	}
	msg := strings.ReplaceAll(strings.TrimSpace(res.Stderr), fx.root, "<root>")
	msg = strings.ReplaceAll(msg, ctl, "<ctl>")
	msg = strings.ReplaceAll(msg, filepath.Dir(inputDirs[0]), "<inputs>")
	if pluginDidNotRun(res.Stderr) {
		return true, fmt.Errorf("plugin did not run: %s", msg)
	}
	s.Outcome = fmt.Sprintf("exit %d: %s", res.ExitCode, msg)
	return true, nil
}

// judgeInputs applies the oracles to a history. It returns false when the fixture must be rebuilt.
func (fx *respFixture) judgeInputs(s *InputsScenario, failed bool, st *InputsStats, rst *RespStats, report func(sig, what string)) bool {
	exp := s.Expect(fx.base)
	st.Runs++
	label, kind, _ := strings.Cut(s.Kind, "/")
	kind, _, _ = strings.Cut(kind, "/")
	if st.RunsByKind == nil {
		st.RunsByKind = map[string]int{}
	}
	st.RunsByKind[kind]++
	if failed {
		st.Errors++
	} else {
		st.Successes++
		if st.SuccessByConfig == nil {
			st.SuccessByConfig = map[string]int{}
		}
		st.SuccessByConfig[label]++
	}
	step := exp.FailingStep + 1
	switch exp.MustError {
	case "duplicate-output":
		st.MustDup++
		if !failed {
			report("duplicate-output/undetected/same-base-out", fmt.Sprintf("two plugins produced the same output path in the run for input %d and no error was reported", step))
		}
	case "insertion-earlier-input":
		st.MustEarlier++
		if !failed {
			report("insertion/into-file-of-earlier-input/accepted", fmt.Sprintf("the run for input %d has an insertion point into a file that only the run for an earlier input of the same invocation produced, and it was accepted", step))
		}
	case "insertion-absent":
		st.MustAbsent++
		if !failed {
			report("insertion/into-file-not-produced/accepted", fmt.Sprintf("the run for input %d has an insertion point into a file that no plugin produced in that run, and it was accepted", step))
		}
	}
	// the state oracles of half B on the plugins of the template
	flat := &Scenario{Half: s.Half, OutClass: s.OutClass, Kind: s.Kind, Name: s.Name}
	for k, o := range s.Outs {
		flat.Plugins = append(flat.Plugins, PluginSpec{ID: fmt.Sprintf("P%d", k+1), Out: o})
	}
	ok, all, _ := fx.judgeState(flat, failed, nil, rst, report)
	if all == nil {
		return false
	}
	// the content of an insertion that had no file of its own run to go to is nowhere (archives are stored uncompressed)
	for i, content := range exp.Forbidden {
		needle := strings.TrimSuffix(content, "\n")
		for _, p := range bufx.SortedKeys(all) {
			if strings.HasSuffix(p, "/") || !strings.Contains(all[p], needle) {
				continue
			}
			rel := strings.ReplaceAll(p, fx.root, "<root>")
			if exp.ForbiddenAt[i] == "earlier-input" {
				report("insertion/earlier-input-file-modified", fmt.Sprintf("%s carries %q: the run for a later input inserted into a file that only the run for an earlier input produced", rel, needle))
			} else {
				report("insertion/content-of-unplaceable-insertion-on-disk", fmt.Sprintf("%s carries %q although no plugin produced the insertion's target in that run", rel, needle))
			}
			break
		}
	}
	// non-vacuity: a successful history left the output of its last step on disk, and an insertion into a file
	// of the same step was applied above the marker
	if !failed {
		lastStep := s.Steps[len(s.Steps)-1]
		probe := lastStep[len(lastStep)-1]
		for _, f := range probe.Files {
			if f.InsertionPoint == "" {
				continue
			}
			normal, valid := validName(f.Name)
			if !valid || isArchive(outAbs(fx.base, probe.Out)) {
				continue
			}
			got := all[entryLocation(fx.base, &probe, normal)]
			if i, j := strings.Index(got, strings.TrimSuffix(f.Content, "\n")), strings.Index(got, strings.TrimSuffix(markerLine, "\n")); i >= 0 && j > i {
				st.SameInputInsertionApplied++
			}
		}
		if !isArchive(outAbs(fx.base, probe.Out)) {
			if got, exists := all[entryLocation(fx.base, &probe, neutralName)]; exists && strings.Contains(got, stepTag(probe.ID, len(s.Steps)-1)) {
				st.LaterStepOutputOnDisk++
			}
		}
	}
	return ok
}

// inputsOutConfigs are the out configurations of half B that the histories are run in.
var inputsOutConfigs = map[string]bool{"single": true, "shared": true, "disjoint": true, "nested-inner": true, "nested-outer": true,
	"zip": true, "zip-shared": true, "dir-then-zip-inside": true}

// inputsPlan: histories over nsteps inputs are explored for these probe names.
type inputsPlan struct {
	nsteps int
	names  []string
}

// runCLIInputs explores the histories.
func runCLIInputs(r *evid.Run, scratch, bin string, plans []inputsPlan) {
	ctx := context.Background()
	maxSteps := 0
	planFacts := map[string]int{}
	for _, pl := range plans {
		if pl.nsteps > maxSteps {
			maxSteps = pl.nsteps
		}
		planFacts[fmt.Sprintf("probe_names_for_%d_inputs", pl.nsteps)] = len(pl.names)
	}
	inputDirs, err := writeInputWorkspaces(filepath.Join(scratch, "c-inputs"), maxSteps)
	if err != nil {
		r.Incomplete("harness: " + err.Error())
		return
	}
	type item struct {
		oc     outConfig
		name   string
		nsteps int
	}
	var items []item
	nconf := 0
	for _, oc := range outConfigs {
		if !inputsOutConfigs[oc.label] {
			continue
		}
		nconf++
		for _, pl := range plans {
			for _, n := range pl.names {
				items = append(items, item{oc, n, pl.nsteps})
			}
		}
	}
	r.Set("C_inputs_space", map[string]any{"out_configs": nconf, "plans": planFacts,
		"kinds": []string{"plain", "insert-same-input", "insert-absent", "insert-earlier-input (every ordered pair of steps)", "insert-reproduced-file", "insert-earlier-input-other-plugin", "insert-later-input"}})
	total := &InputsStats{}
	rtotal := &RespStats{}
	lock := make(chan struct{}, 1)
	lock <- struct{}{}
	fixtures := make(chan *respFixture, 64)
	nfx := 0
	getFx := func() *respFixture {
		select {
		case fx := <-fixtures:
			return fx
		default:
		}
		<-lock
		nfx++
		id := nfx
		lock <- struct{}{}
		fx, err := newRespFixture(filepath.Join(scratch, fmt.Sprintf("i%d", id)))
		if err != nil {
			r.Incomplete("harness: cannot create fixture: " + err.Error())
			return nil
		}
		return fx
	}
	r.ParallelFor(len(items), 0, func(ix int) {
		it := items[ix]
		fx := getFx()
		if fx == nil {
			return
		}
		st, rst := &InputsStats{}, &RespStats{}
		for _, s := range inputsScenariosFor(it.oc, it.name, it.nsteps) {
			if err := fx.prepare(&Scenario{PreDirs: s.PreDirs}); err != nil {
				r.Incomplete("harness: cannot prepare scenario: " + err.Error())
				fx.cleanOuts()
				continue
			}
			failed, err := execCLIInputs(ctx, fx, fx.root+".ctl", bin, inputDirs, s)
			if err != nil {
				r.Incomplete("harness: " + err.Error())
				fx.cleanOuts()
				continue
			}
			r.Eval(1)
			good := fx.judgeInputs(s, failed, st, rst, func(sig, what string) {
				if strings.HasPrefix(sig, "harness/") {
					r.Incomplete(sig + ": " + what)
					return
				}
				r.Violate(sig, what, s)
			})
			stage := "ok"
			if failed {
				stage = "error"
			}
			r.Distinct(fmt.Sprintf("C-inputs|%d|%s|%s|%s", it.nsteps, s.Kind, c13Class(it.name), stage))
			r.SampleEvery(ix, 499, func() any { return s })
			if !good {
				nf, err := newRespFixture(fx.root)
				if err != nil {
					r.Incomplete("harness: cannot rebuild fixture: " + err.Error())
					return
				}
				fx = nf
			} else {
				fx.cleanOuts()
			}
		}
		<-lock
		total.add(st)
		rtotal.add(rst)
		lock <- struct{}{}
		fixtures <- fx
	})
	r.Set("C_inputs_counts", map[string]int{
		"invocations": total.Runs, "errors": total.Errors, "successes": total.Successes,
		"error_demanded_insertion_into_file_of_earlier_input": total.MustEarlier,
		"error_demanded_insertion_absent":                     total.MustAbsent,
		"error_demanded_duplicate_output":                     total.MustDup,
		"insertions_into_file_of_the_same_input_applied":      total.SameInputInsertionApplied,
		"successful_histories_with_last_input_output_on_disk": total.LaterStepOutputOnDisk,
		"archive_entries_read_for_containment":                rtotal.ArchiveEntriesRead,
	})
	r.Set("C_inputs_invocations_by_kind", total.RunsByKind)
	r.Set("C_inputs_successful_invocations_by_out_config", total.SuccessByConfig)
	if !r.Expired() {
		for label := range inputsOutConfigs {
			if total.SuccessByConfig[label] == 0 {
				r.Incomplete("half C (inputs): no invocation with out configuration " + label + " succeeded (configuration is vacuous)")
			}
		}
		for name, n := range map[string]int{"insertion into a file of an earlier input demanded to fail": total.MustEarlier,
			"insertion absent demanded": total.MustAbsent, "insertion into a file of the same input applied": total.SameInputInsertionApplied,
			"output of the last input on disk": total.LaterStepOutputOnDisk} {
			if n == 0 {
				r.Incomplete("half C (inputs) never exercised: " + name)
			}
		}
	}
}
