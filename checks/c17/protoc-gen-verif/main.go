// Command protoc-gen-verif is the recording / scripted protoc plugin of check C17.
//
// The plugin parameter is a comma separated list of key=value pairs:
//
//	id=<plugin id>       used in file names and content tags
//	rec=<directory>      if set, the raw CodeGeneratorRequest is stored there as <id>.<random>.req
//	script=<json file>   if set, the response script (see type script)
//
// The response lists first the scripted entries whose trigger is empty or is one of
// file_to_generate, then, if per_file is set, one file "<F>.<id>.txt" per file to generate.
package main

import (
	"encoding/json"
	"fmt"
	"io"
	"os"
	"path/filepath"
	"strings"

	"google.golang.org/protobuf/proto"
	"google.golang.org/protobuf/types/descriptorpb"
	"google.golang.org/protobuf/types/pluginpb"
)

type entry struct {
	Trigger        string `json:"trigger,omitempty"`
	Name           string `json:"name"`
	InsertionPoint string `json:"insertion_point,omitempty"`
	Content        string `json:"content"`
}

type script struct {
	PerFile bool    `json:"per_file"`
	Entries []entry `json:"entries"`
}

func fail(format string, args ...any) {
	fmt.Fprintf(os.Stderr, "VERIF-PLUGIN-FAILURE: "+format+"\n", args...)
	os.Exit(1)
}

// protocMain is the fake compiler (round 4). buf's protoc proxy handler calls
//
//	protoc [extra args] --version
//	protoc [extra args] --descriptor_set_in=<file> --<name>_out=<dir> [--experimental_allow_proto3_optional] [--<name>_opt=<parameter>] <files to generate>
//
// The second form is recorded under rec= of the parameter as a CodeGeneratorRequest-shaped message
// (<id>.*.protocreq: file_to_generate = the positional arguments, parameter = the opt, proto_file = the descriptor
// set exactly as received - what the compiler is given to derive both views from) plus the argument list
// (<id>.*.protocargs, JSON), and answered by writing the scripted plain entries and, with per_file, one
// "<F>.<id>.txt" per file to generate into <dir>. An extra argument --verif-version=<v> chooses the reported version.
func protocMain(args []string) {
	version := "27.1"
	var setIn, outName, outDir, param string
	var files []string
	isVersion := false
	nSetIn, nOut, nOpt := 0, 0, 0
	for _, a := range args {
		switch {
		case a == "--version":
			isVersion = true
		case strings.HasPrefix(a, "--verif-version="):
			version = strings.TrimPrefix(a, "--verif-version=")
		case strings.HasPrefix(a, "--descriptor_set_in="):
			setIn = strings.TrimPrefix(a, "--descriptor_set_in=")
			nSetIn++
		case strings.HasPrefix(a, "--"):
			k, v, ok := strings.Cut(a[2:], "=")
			switch {
			case ok && strings.HasSuffix(k, "_out"):
				outName, outDir = strings.TrimSuffix(k, "_out"), v
				nOut++
			case ok && strings.HasSuffix(k, "_opt"):
				if strings.TrimSuffix(k, "_opt") != outName {
					fail("protoc: %s does not belong to --%s_out", a, outName)
				}
				param = v
				nOpt++
			}
		default:
			files = append(files, a)
		}
	}
	if isVersion {
		fmt.Println("libprotoc " + version)
		return
	}
	if nSetIn != 1 || nOut != 1 || nOpt > 1 {
		fail("protoc: unexpected arguments %q", args)
	}
	var data []byte
	var err error
	if setIn == "/dev/stdin" {
		data, err = io.ReadAll(os.Stdin)
	} else {
		data, err = os.ReadFile(setIn)
	}
	if err != nil {
		fail("protoc: descriptor set: %v", err)
	}
	set := &descriptorpb.FileDescriptorSet{}
	if err := proto.Unmarshal(data, set); err != nil {
		fail("protoc: descriptor set: %v", err)
	}
	params := map[string]string{}
	for _, kv := range strings.Split(param, ",") {
		if k, v, ok := strings.Cut(kv, "="); ok {
			params[k] = v
		}
	}
	id := params["id"]
	if id == "" {
		fail("protoc: no id in parameter %q", param)
	}
	if rec := params["rec"]; rec != "" {
		req := &pluginpb.CodeGeneratorRequest{FileToGenerate: files, ProtoFile: set.GetFile()}
		if nOpt == 1 {
			req.Parameter = proto.String(param)
		}
		b, err := proto.Marshal(req)
		if err != nil {
			fail("protoc: record: %v", err)
		}
		f, err := os.CreateTemp(rec, id+".*.protocreq")
		if err != nil {
			fail("protoc: record: %v", err)
		}
		if _, err := f.Write(b); err != nil {
			fail("protoc: record: %v", err)
		}
		if err := f.Close(); err != nil {
			fail("protoc: record: %v", err)
		}
		ab, _ := json.Marshal(map[string]any{"args": args, "plugin_name": outName})
		if err := os.WriteFile(strings.TrimSuffix(f.Name(), ".protocreq")+".protocargs", ab, 0o644); err != nil {
			fail("protoc: record: %v", err)
		}
	}
	var sc script
	if path := params["script"]; path != "" {
		b, err := os.ReadFile(path)
		if err != nil {
			fail("protoc: script: %v", err)
		}
		if err := json.Unmarshal(b, &sc); err != nil {
			fail("protoc: script: %v", err)
		}
	}
	toGenerate := map[string]bool{}
	for _, f := range files {
		toGenerate[f] = true
	}
	write := func(name, content string) {
		// a compiler writes below its out directory: only clean relative names are meaningful here
		if name == "" || filepath.IsAbs(name) || filepath.Clean(name) != name || name == ".." || strings.HasPrefix(name, "../") {
			return
		}
		p := filepath.Join(outDir, name)
		if err := os.MkdirAll(filepath.Dir(p), 0o755); err != nil {
			fail("protoc: write: %v", err)
		}
		if err := os.WriteFile(p, []byte(content), 0o644); err != nil {
			fail("protoc: write: %v", err)
		}
	}
	for _, e := range sc.Entries {
		if (e.Trigger != "" && !toGenerate[e.Trigger]) || e.InsertionPoint != "" {
			continue
		}
		write(e.Name, e.Content)
	}
	if sc.PerFile {
		for _, f := range files {
			write(f+"."+id+".txt", "<<"+id+">> generated from "+f+"\n")
		}
	}
}

func main() {
	// round 4: a protoc plugin is started without arguments; with arguments this binary plays the compiler
	// `protoc` for buf's protoc proxy handler (protoc_builtin plugins)
	if len(os.Args) > 1 {
		protocMain(os.Args[1:])
		return
	}
	in, err := io.ReadAll(os.Stdin)
	if err != nil {
		fail("read: %v", err)
	}
	req := &pluginpb.CodeGeneratorRequest{}
	if err := proto.Unmarshal(in, req); err != nil {
		fail("unmarshal: %v", err)
	}
	params := map[string]string{}
	for _, kv := range strings.Split(req.GetParameter(), ",") {
		if k, v, ok := strings.Cut(kv, "="); ok {
			params[k] = v
		}
	}
	id := params["id"]
	if id == "" {
		fail("no id in parameter %q", req.GetParameter())
	}
	if rec := params["rec"]; rec != "" {
		f, err := os.CreateTemp(rec, id+".*.req")
		if err != nil {
			fail("record: %v", err)
		}
		if _, err := f.Write(in); err != nil {
			fail("record: %v", err)
		}
		if err := f.Close(); err != nil {
			fail("record: %v", err)
		}
	}
	var sc script
	if path := params["script"]; path != "" {
		b, err := os.ReadFile(path)
		if err != nil {
			fail("script: %v", err)
		}
		if err := json.Unmarshal(b, &sc); err != nil {
			fail("script: %v", err)
		}
	}
	toGenerate := map[string]bool{}
	for _, f := range req.GetFileToGenerate() {
		toGenerate[f] = true
	}
	resp := &pluginpb.CodeGeneratorResponse{
		SupportedFeatures: proto.Uint64(uint64(pluginpb.CodeGeneratorResponse_FEATURE_PROTO3_OPTIONAL)),
	}
	for _, e := range sc.Entries {
		if e.Trigger != "" && !toGenerate[e.Trigger] {
			continue
		}
		file := &pluginpb.CodeGeneratorResponse_File{Name: proto.String(e.Name), Content: proto.String(e.Content)}
		if e.InsertionPoint != "" {
			file.InsertionPoint = proto.String(e.InsertionPoint)
		}
		resp.File = append(resp.File, file)
	}
	if sc.PerFile {
		for _, f := range req.GetFileToGenerate() {
			resp.File = append(resp.File, &pluginpb.CodeGeneratorResponse_File{
				Name:    proto.String(f + "." + id + ".txt"),
				Content: proto.String("<<" + id + ">> generated from " + f + "\n"),
			})
		}
	}
	out, err := proto.Marshal(resp)
	if err != nil {
		fail("marshal: %v", err)
	}
	if _, err := os.Stdout.Write(out); err != nil {
		fail("write: %v", err)
	}
}
