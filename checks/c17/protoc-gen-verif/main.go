// Command protoc-gen-verif is the recording / scripted protoc plugin of check C17.
//
// The plugin parameter is a comma separated list of key=value pairs:
//
//	id=<plugin id>       used in file names and content tags
//	rec=<directory>      if set, the raw CodeGeneratorRequest is stored there as <id>.<random>.req
//	script=<json file>   if set, the response script (see type script)
//
// The response lists first the scripted entries whose trigger is empty or is one of
// file_to_generate, then, if per_file is set, one file "<F>.<id>.txt" per file to generate.
package main

import (
	"encoding/json"
	"fmt"
	"io"
	"os"
	"strings"

	"google.golang.org/protobuf/proto"
	"google.golang.org/protobuf/types/pluginpb"
)

type entry struct {
	Trigger        string `json:"trigger,omitempty"`
	Name           string `json:"name"`
	InsertionPoint string `json:"insertion_point,omitempty"`
	Content        string `json:"content"`
}

type script struct {
	PerFile bool    `json:"per_file"`
	Entries []entry `json:"entries"`
}

func fail(format string, args ...any) {
	fmt.Fprintf(os.Stderr, "VERIF-PLUGIN-FAILURE: "+format+"\n", args...)
	os.Exit(1)
}

func main() {
	in, err := io.ReadAll(os.Stdin)
	if err != nil {
		fail("read: %v", err)
	}
	req := &pluginpb.CodeGeneratorRequest{}
	if err := proto.Unmarshal(in, req); err != nil {
		fail("unmarshal: %v", err)
	}
	params := map[string]string{}
	for _, kv := range strings.Split(req.GetParameter(), ",") {
		if k, v, ok := strings.Cut(kv, "="); ok {
			params[k] = v
		}
	}
	id := params["id"]
	if id == "" {
		fail("no id in parameter %q", req.GetParameter())
	}
	if rec := params["rec"]; rec != "" {
		f, err := os.CreateTemp(rec, id+".*.req")
		if err != nil {
			fail("record: %v", err)
		}
		if _, err := f.Write(in); err != nil {
			fail("record: %v", err)
		}
		if err := f.Close(); err != nil {
			fail("record: %v", err)
		}
	}
	var sc script
	if path := params["script"]; path != "" {
		b, err := os.ReadFile(path)
		if err != nil {
			fail("script: %v", err)
		}
		if err := json.Unmarshal(b, &sc); err != nil {
			fail("script: %v", err)
		}
	}
	toGenerate := map[string]bool{}
	for _, f := range req.GetFileToGenerate() {
		toGenerate[f] = true
	}
	resp := &pluginpb.CodeGeneratorResponse{
		SupportedFeatures: proto.Uint64(uint64(pluginpb.CodeGeneratorResponse_FEATURE_PROTO3_OPTIONAL)),
	}
	for _, e := range sc.Entries {
		if e.Trigger != "" && !toGenerate[e.Trigger] {
			continue
		}
		file := &pluginpb.CodeGeneratorResponse_File{Name: proto.String(e.Name), Content: proto.String(e.Content)}
		if e.InsertionPoint != "" {
			file.InsertionPoint = proto.String(e.InsertionPoint)
		}
		resp.File = append(resp.File, file)
	}
	if sc.PerFile {
		for _, f := range req.GetFileToGenerate() {
			resp.File = append(resp.File, &pluginpb.CodeGeneratorResponse_File{
				Name:    proto.String(f + "." + id + ".txt"),
				Content: proto.String("<<" + id + ">> generated from " + f + "\n"),
			})
		}
	}
	out, err := proto.Marshal(resp)
	if err != nil {
		fail("marshal: %v", err)
	}
	if _, err := os.Stdout.Write(out); err != nil {
		fail("write: %v", err)
	}
}
