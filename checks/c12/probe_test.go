package c12

import (
	"context"
	"encoding/json"
	"fmt"
	"os"
	"testing"
	"time"

	"github.com/bufbuild/buf/private/bufpkg/bufimage"
	"github.com/bufbuild/buf/private/bufpkg/bufimage/bufimageutil"
	"github.com/bufbuild/bufverif/internal/bufx"
	"google.golang.org/protobuf/encoding/prototext"
	"google.golang.org/protobuf/proto"
)

func TestProbeBuild(t *testing.T) {
	ctx := context.Background()
	for _, spec := range catalogue {
		ws, err := bufx.Workspace(ctx, bufx.MemBucket(spec.Files), ".", spec.Targets, nil, bufx.NopProviders)
		if err != nil {
			t.Fatalf("%s: %v", spec.Name, err)
		}
		start := time.Now()
		img, err := bufx.BuildWorkspaceImage(ctx, ws)
		if err != nil {
			t.Fatalf("%s: %v", spec.Name, err)
		}
		fmt.Printf("== %s built in %v\n", spec.Name, time.Since(start))
		for _, f := range img.Files() {
			fmt.Printf("   %s import=%v deps=%v pub=%v weak=%v unused=%v locs=%d\n", f.Path(), f.IsImport(), f.FileDescriptorProto().Dependency, f.FileDescriptorProto().PublicDependency, f.FileDescriptorProto().WeakDependency, f.UnusedDependencyIndexes(), len(f.FileDescriptorProto().GetSourceCodeInfo().GetLocation()))
		}
		start = time.Now()
		n := 200
		for i := 0; i < n; i++ {
			_, err = bufimageutil.FilterImage(img, bufimageutil.WithExcludeTypes("nonexistent.zzz"))
		}
		fmt.Printf("   filter: %v each (%v)\n", time.Since(start)/time.Duration(n), err)
		start = time.Now()
		for i := 0; i < 50; i++ {
			_, _ = bufimage.CloneImage(img)
		}
		fmt.Printf("   clone: %v each\n", time.Since(start)/50)
	}
}

// TestProbeCase prints what FilterImage does for C12_CASE (a filterCase JSON).
func TestProbeCase(t *testing.T) {
	raw := os.Getenv("C12_CASE")
	if raw == "" {
		t.Skip()
	}
	var fc filterCase
	if err := json.Unmarshal([]byte(raw), &fc); err != nil {
		t.Fatal(err)
	}
	for _, spec := range catalogue {
		if spec.Name != fc.Image {
			continue
		}
		bi, err := buildImage(context.Background(), spec)
		if err != nil {
			t.Fatal(err)
		}
		ex := bi.model.expect(&fc)
		fmt.Println("names:", bi.names)
		fmt.Println("contradictory:", ex.Contradictory, "mustfail:", ex.MustFail)
		if ex.L != nil {
			fmt.Println("L:", sortedKeys(ex.L.Present), sortedKeys(ex.L.Files))
			fmt.Println("U:", sortedKeys(ex.U.Present), sortedKeys(ex.U.Files))
		}
		c, _ := newItemCtx(bi, &stats{m: map[string]int{}})
		out, err, p := safeFilter(c.img, filterOptions(&fc, fc.Include, fc.Exclude))
		fmt.Println("err:", err, "panic:", p)
		if out != nil {
			for _, f := range out.Files() {
				fd := proto.CloneOf(f.FileDescriptorProto())
				fd.SourceCodeInfo = nil
				if isWKT(f.Path()) {
					fmt.Println("FILE", f.Path(), "(wkt)", len(fd.MessageType), "messages")
					continue
				}
				fmt.Println("FILE", f.Path(), prototext.MarshalOptions{Multiline: true}.Format(fd))
			}
		}
		fnd, _, _, _ := c.evalCase(&fc)
		fmt.Printf("finding: %+v\n", fnd)
	}
}
