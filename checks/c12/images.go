package c12

// The image catalogue: small hand-written workspaces that together cover every reference kind named
// by property C12. Every element carries a leading comment "L:<name>" so that the source-info oracle
// can tell whose comment it is looking at.

// imageSpec is one workspace to build.
type imageSpec struct {
	Name  string
	Files map[string]string
	// Targets, if non-empty, are the --path values: only these files are targets, everything else
	// that they import becomes an import file (IsImport() == true).
	Targets []string
	// ExtraNames are names added to the filter universe in addition to all names of non-WKT files
	// (typically a few names of google/protobuf/*.proto).
	ExtraNames []string
	// Quick marks the images used by the quick tier with the full option grid (all images are used
	// by both tiers; non-quick images get the reduced option grid in the quick tier).
	Covers []string
}

var catalogue = []imageSpec{
	{
		Name:   "fields",
		Covers: []string{"field->message", "field->enum", "nested", "repeated", "unused type"},
		Files: map[string]string{"a.proto": `syntax = "proto3";
package p;
// L:p.M
message M {
  // L:p.M.n
  N n = 1;
  // L:p.M.e
  E e = 2;
  // L:p.M.x
  int32 x = 3;
  // L:p.M.In
  message In {
    // L:p.M.In.y
    int32 y = 1;
  }
  // L:p.M.in
  In in = 4;
  // L:p.M.ns
  repeated N ns = 5;
  reserved 9, 20 to 30;
  reserved "old";
}
// L:p.N
message N {
  // L:p.N.e
  E e = 1; // T:p.N.e
}
// L:p.E
enum E {
  // L:p.E_ZERO
  E_ZERO = 0;
  // L:p.E_ONE
  E_ONE = 1; // T:p.E_ONE
}
// L:p.U
message U {
  // L:p.U.m
  M m = 1;
  // L:p.U.k
  string k = 2 [json_name = "kay"];
}
`},
	},
	{
		Name:   "maps",
		Covers: []string{"map value message", "map value enum", "map scalar"},
		Files: map[string]string{"a.proto": `syntax = "proto3";
package p;
// L:p.M
message M {
  // L:p.M.vs
  map<string, V> vs = 1;
  // L:p.M.es
  map<string, E> es = 2;
  // L:p.M.ss
  map<int32, string> ss = 3;
  // L:p.M.w
  W w = 4;
}
// L:p.V
message V {
  int32 a = 1;
}
// L:p.W
message W {
  int32 a = 1;
}
// L:p.E
enum E {
  E_ZERO = 0;
}
`},
	},
	{
		Name:   "oneofs",
		Covers: []string{"oneof member", "oneof emptied", "oneof index shift", "proto3 optional"},
		Files: map[string]string{"a.proto": `syntax = "proto3";
package p;
// L:p.M
message M {
  // L:p.M.first
  oneof first {
    // L:p.M.a
    A a = 1;
    // L:p.M.b
    B b = 2;
  }
  // L:p.M.second
  oneof second {
    // L:p.M.s
    string s = 3;
    // L:p.M.c
    C c = 4;
  }
  // L:p.M.opt
  optional int32 opt = 5;
  // L:p.M.plain
  A plain = 6;
}
// L:p.A
message A {}
// L:p.B
message B {}
// L:p.C
message C {
  // L:p.C.only
  oneof only {
    // L:p.C.e
    E e = 1;
  }
  // L:p.C.z
  int32 z = 2;
}
// L:p.E
enum E {
  E_ZERO = 0;
}
`},
	},
	{
		Name:   "groups",
		Covers: []string{"group (proto2)", "required", "default enum value"},
		Files: map[string]string{"a.proto": `syntax = "proto2";
package p;
// L:p.M
message M {
  // L:p.M.g
  optional group G = 1 {
    // L:p.M.G.n
    optional N n = 1;
  }
  // L:p.M.r
  repeated group R = 2 {
    // L:p.M.R.x
    optional int32 x = 1;
  }
  // L:p.M.n
  optional N n = 3;
  // L:p.M.e
  required E e = 4 [default = E_ONE];
}
// L:p.N
message N {
  optional int32 v = 1 [default = 7];
}
// L:p.E
enum E {
  E_ZERO = 0;
  E_ONE = 1;
}
`},
	},
	{
		Name:   "nested",
		Covers: []string{"nested depth 3", "nested enum", "reference into nested scope", "enclosing shells"},
		Files: map[string]string{"a.proto": `syntax = "proto3";
package p;
// L:p.A
message A {
  // L:p.A.own
  int32 own = 1;
  // L:p.A.B
  message B {
    // L:p.A.B.C
    message C {
      // L:p.A.B.C.d
      D d = 1;
    }
    // L:p.A.B.BE
    enum BE {
      BE_ZERO = 0;
    }
    // L:p.A.B.c
    C c = 1;
    // L:p.A.B.Unused
    message Unused {}
  }
  // L:p.A.bc
  B.C bc = 2;
  oneof o {
    int32 o1 = 3;
  }
  reserved 100;
}
// L:p.D
message D {}
// L:p.User
message User {
  // L:p.User.x
  A.B.C x = 1;
  // L:p.User.be
  A.B.BE be = 2;
}
`},
	},
	{
		Name:   "extensions",
		Covers: []string{"extension + extendee", "extension typed message/enum", "extension nested in message", "known extensions"},
		Files: map[string]string{"a.proto": `syntax = "proto2";
package p;
// L:p.Base
message Base {
  optional int32 a = 1;
  extensions 100 to 200;
}
// extend block 1
extend Base {
  // L:p.e1
  optional Ext1 e1 = 100;
  // L:p.e2
  optional string e2 = 101;
}
// L:p.Ext1
message Ext1 {}
// L:p.Holder
message Holder {
  extend Base {
    // L:p.Holder.h
    optional Holder h = 102;
  }
  // L:p.Holder.z
  optional int32 z = 1;
}
// L:p.Other
message Other {
  // L:p.Other.b
  optional Base b = 1;
}
// L:p.XE
enum XE {
  XE_ZERO = 0;
}
extend Base {
  // L:p.xe
  optional XE xe = 103;
}
`},
	},
	{
		Name:       "options-msg",
		Covers:     []string{"custom option on file/message/field/oneof/extension range", "message-typed option", "enum-typed option"},
		ExtraNames: []string{"google.protobuf.MessageOptions", "google.protobuf.FieldOptions", "google.protobuf"},
		Files: map[string]string{
			"opt.proto": `syntax = "proto2";
package opt;
import "google/protobuf/descriptor.proto";
// L:opt.Meta
message Meta {
  optional string s = 1;
  optional Level level = 2;
}
// L:opt.Level
enum Level {
  LOW = 0;
  HIGH = 1;
}
extend google.protobuf.FileOptions {
  // L:opt.file_opt
  optional string file_opt = 50001;
}
extend google.protobuf.MessageOptions {
  // L:opt.msg_opt
  optional Meta msg_opt = 50002;
  // L:opt.msg_unused
  optional string msg_unused = 50012;
}
extend google.protobuf.FieldOptions {
  // L:opt.field_opt
  optional Level field_opt = 50003;
}
extend google.protobuf.OneofOptions {
  // L:opt.oneof_opt
  optional string oneof_opt = 50004;
}
extend google.protobuf.ExtensionRangeOptions {
  // L:opt.range_opt
  optional string range_opt = 50005;
}
`,
			"a.proto": `syntax = "proto2";
package p;
import "opt.proto";
option (opt.file_opt) = "f";
// L:p.M
message M {
  option (opt.msg_opt) = { s: "m" level: HIGH };
  // L:p.M.x
  optional int32 x = 1 [(opt.field_opt) = HIGH];
  // L:p.M.o
  oneof o {
    option (opt.oneof_opt) = "o";
    // L:p.M.y
    string y = 2;
  }
  extensions 100 to 200 [(opt.range_opt) = "r"];
}
// L:p.Plain
message Plain {
  optional int32 v = 1;
}
`},
	},
	{
		Name:       "options-svc",
		Covers:     []string{"custom option on enum/enum value/service/method", "option used on extension field"},
		ExtraNames: []string{"google.protobuf.MethodOptions"},
		Files: map[string]string{
			"opt.proto": `syntax = "proto2";
package opt;
import "google/protobuf/descriptor.proto";
extend google.protobuf.EnumOptions {
  // L:opt.enum_opt
  optional string enum_opt = 50001;
}
extend google.protobuf.EnumValueOptions {
  // L:opt.value_opt
  optional int32 value_opt = 50002;
}
extend google.protobuf.ServiceOptions {
  // L:opt.svc_opt
  optional string svc_opt = 50003;
}
extend google.protobuf.MethodOptions {
  // L:opt.method_opt
  optional Http method_opt = 50004;
}
extend google.protobuf.FieldOptions {
  // L:opt.field_opt
  optional bool field_opt = 50005;
}
// L:opt.Http
message Http {
  optional string get = 1;
}
`,
			"a.proto": `syntax = "proto2";
package p;
import "opt.proto";
// L:p.E
enum E {
  option (opt.enum_opt) = "e";
  // L:p.E_ZERO
  E_ZERO = 0 [(opt.value_opt) = 5];
}
// L:p.S
service S {
  option (opt.svc_opt) = "s";
  // L:p.S.Get
  rpc Get(Req) returns (Res) {
    option (opt.method_opt) = { get: "/x" };
  }
  // L:p.S.Plain
  rpc Plain(Req) returns (Res);
}
// L:p.Req
message Req {
  optional E e = 1;
  extensions 10 to 20;
}
// L:p.Res
message Res {}
extend Req {
  // L:p.tagged
  optional int32 tagged = 10 [(opt.field_opt) = true];
}
`},
	},
	{
		Name:       "any",
		Covers:     []string{"option with Any payload", "Any in list", "Any nested in option message", "Any in map value of option message"},
		ExtraNames: []string{"google.protobuf.Any"},
		Files: map[string]string{
			"opt.proto": `syntax = "proto3";
package opt;
import "google/protobuf/any.proto";
import "google/protobuf/descriptor.proto";
extend google.protobuf.MessageOptions {
  // L:opt.extra
  google.protobuf.Any extra = 10101;
  // L:opt.wrapped
  Wrap wrapped = 10102;
}
// L:opt.Wrap
message Wrap {
  repeated google.protobuf.Any list = 1;
}
extend google.protobuf.FieldOptions {
  // L:opt.mapped
  MapWrap mapped = 10103;
}
// L:opt.MapWrap
message MapWrap {
  map<string, Inner> m = 1;
}
// L:opt.Inner
message Inner {
  google.protobuf.Any any = 1;
}
`,
			"pay.proto": `syntax = "proto3";
package pay;
// L:pay.One
message One {
  string name = 1;
}
// L:pay.Two
message Two {
  int32 id = 1;
}
// L:pay.Three
message Three {}
// L:pay.Four
message Four {}
`,
			"a.proto": `syntax = "proto3";
package p;
import "opt.proto";
import "pay.proto";
// L:p.Direct
message Direct {
  option (opt.extra) = {
    [type.googleapis.com/pay.One]: { name: "x" }
  };
}
// L:p.Listed
message Listed {
  option (opt.wrapped) = {
    list: { [type.googleapis.com/pay.Two]: { id: 1 } }
    list: { [type.googleapis.com/pay.One]: { name: "y" } }
  };
  pay.Three t = 1;
}
// L:p.Mapped
message Mapped {
  // L:p.Mapped.f
  int32 f = 1 [(opt.mapped) = {
    m: { key: "k" value: { any: { [type.googleapis.com/pay.Four]: {} } } }
  }];
}
`},
	},
	{
		Name:   "rpc",
		Covers: []string{"RPC input/output", "client/server/bidi streaming", "shared request type"},
		Files: map[string]string{"a.proto": `syntax = "proto3";
package p;
// L:p.S
service S {
  // L:p.S.Unary
  rpc Unary(Req) returns (Res);
  // L:p.S.Client
  rpc Client(stream Req) returns (Res2);
  // L:p.S.Server
  rpc Server(Req2) returns (stream Res);
  // L:p.S.Bidi
  rpc Bidi(stream Req2) returns (stream Res2);
}
// L:p.Req
message Req {
  Shared shared = 1;
}
// L:p.Res
message Res {}
// L:p.Req2
message Req2 {}
// L:p.Res2
message Res2 {}
// L:p.Shared
message Shared {}
`},
	},
	{
		Name:   "public",
		Covers: []string{"public import chain", "import flattening"},
		Files: map[string]string{
			"a.proto": `syntax = "proto3";
package a;
// L:a.A
message A {}
// L:a.A2
message A2 {}
`,
			"b.proto": `syntax = "proto3";
package b;
import public "a.proto";
// L:b.B
message B {}
`,
			"c.proto": `syntax = "proto3";
package c;
import public "b.proto";
// L:c.C
message C {
  a.A2 a2 = 1;
}
`,
			"d.proto": `syntax = "proto3";
package d;
import "c.proto";
// L:d.D
message D {
  // L:d.D.a
  a.A a = 1;
  // L:d.D.b
  b.B b = 2;
  // L:d.D.c
  c.C c = 3;
}
// L:d.OnlyA
message OnlyA {
  a.A a = 1;
}
`},
	},
	{
		Name:   "typeless",
		Covers: []string{"file without types", "import of a file without types"},
		Files: map[string]string{
			"empty.proto": `syntax = "proto3";
package p;
option java_package = "com.example.p";
`,
			"a.proto": `syntax = "proto3";
package p;
import "empty.proto";
// L:p.A
message A {}
// L:p.B
message B {
  A a = 1;
}
`,
			"q.proto": `syntax = "proto3";
package q;
// L:q.Q
message Q {}
`},
	},
	{
		Name:   "packages",
		Covers: []string{"second package", "sub-package", "root package", "package as filter name"},
		Files: map[string]string{
			"foo/a.proto": `syntax = "proto3";
package foo;
// L:foo.A
message A {}
// L:foo.A2
message A2 {}
`,
			"foo/a2.proto": `syntax = "proto3";
package foo;
import "foo/a.proto";
// L:foo.More
message More {
  A a = 1;
}
`,
			"foo/bar/b.proto": `syntax = "proto3";
package foo.bar;
import "foo/a.proto";
// L:foo.bar.B
message B {
  foo.A a = 1;
}
`,
			"baz/c.proto": `syntax = "proto3";
package baz;
import "foo/bar/b.proto";
// L:baz.C
message C {
  foo.bar.B b = 1;
}
// L:baz.CS
service CS {
  rpc Do(C) returns (foo.bar.B);
}
`,
			"root.proto": `syntax = "proto3";
import "baz/c.proto";
// L:Root
message Root {
  baz.C c = 1;
}
`},
	},
	{
		Name:    "imports",
		Covers:  []string{"non-WKT import files", "import file with own dependency", "extension in import file", "allow include of imported type"},
		Targets: []string{"a.proto"},
		Files: map[string]string{
			"z.proto": `syntax = "proto2";
package z;
// L:z.Z
message Z {}
// L:z.ZBase
message ZBase {
  extensions 10 to 20;
}
`,
			"d.proto": `syntax = "proto2";
package d;
import "z.proto";
// L:d.DA
message DA {}
// L:d.DB
message DB {
  optional z.Z z = 1;
}
extend z.ZBase {
  // L:d.dext
  optional int32 dext = 10;
}
// L:d.Outer
message Outer {
  optional int32 o = 1;
  // L:d.Outer.Inner
  message Inner {}
}
`,
			"a.proto": `syntax = "proto2";
package a;
import "d.proto";
// L:a.A
message A {
  // L:a.A.da
  optional d.DA da = 1;
  // L:a.A.inner
  optional d.Outer.Inner inner = 2;
}
// L:a.A2
message A2 {}
`},
	},
	{
		Name:   "importmods",
		Covers: []string{"weak import", "unused import", "public + regular import"},
		Files: map[string]string{
			"r.proto":  "syntax = \"proto3\";\npackage r;\n// L:r.R\nmessage R {}\n",
			"w.proto":  "syntax = \"proto3\";\npackage w;\n// L:w.W\nmessage W {}\n",
			"pu.proto": "syntax = \"proto3\";\npackage pu;\n// L:pu.P\nmessage P {}\n",
			"un.proto": "syntax = \"proto3\";\npackage un;\n// L:un.Un\nmessage Un {}\n",
			"a.proto": `syntax = "proto3";
package a;
import "un.proto";
import "r.proto";
import weak "w.proto";
import public "pu.proto";
// L:a.UsesR
message UsesR {
  r.R x = 1;
}
// L:a.UsesW
message UsesW {
  w.W x = 1;
}
// L:a.UsesP
message UsesP {
  pu.P x = 1;
}
// L:a.None
message None {
  string x = 1;
}
`},
	},
	{
		Name:   "editions",
		Covers: []string{"editions 2023", "delimited message encoding", "features"},
		Files: map[string]string{"a.proto": `edition = "2023";
package p;
option features.field_presence = IMPLICIT;
// L:p.M
message M {
  // L:p.M.d
  D d = 1 [features.message_encoding = DELIMITED];
  // L:p.M.n
  N n = 2;
  // L:p.M.e
  E e = 3 [features.field_presence = EXPLICIT];
  // L:p.M.ds
  repeated D ds = 4 [features.message_encoding = DELIMITED];
}
// L:p.D
message D {}
// L:p.N
message N {}
// L:p.E
enum E {
  option features.enum_type = CLOSED;
  E_ZERO = 0;
}
`},
	},
	{
		Name:   "cycles",
		Covers: []string{"recursive types", "mutual recursion through service"},
		Files: map[string]string{"a.proto": `syntax = "proto3";
package p;
// L:p.A
message A {
  // L:p.A.b
  B b = 1;
}
// L:p.B
message B {
  // L:p.B.a
  A a = 1;
  // L:p.B.self
  B self = 2;
  // L:p.B.m
  map<string, A> m = 3;
}
// L:p.S
service S {
  // L:p.S.Loop
  rpc Loop(A) returns (B);
}
`},
	},
	{
		Name:       "scoped-options",
		Covers:     []string{"custom option declared inside a message scope", "option defined in the file that uses it", "option value typed by a nested message"},
		ExtraNames: []string{"google.protobuf.FieldOptions"},
		Files: map[string]string{"a.proto": `syntax = "proto2";
package p;
import "google/protobuf/descriptor.proto";
// L:p.Scope
message Scope {
  // L:p.Scope.own
  optional int32 own = 1;
  extend google.protobuf.FieldOptions {
    // L:p.Scope.tag
    optional Tag tag = 50001;
  }
  // L:p.Scope.Tag
  message Tag {
    optional string v = 1;
  }
}
// L:p.User
message User {
  // L:p.User.f
  optional int32 f = 1 [(p.Scope.tag) = { v: "t" }];
}
// L:p.Free
message Free {
  optional int32 g = 1;
}
`},
	},
	{
		Name:   "ext-chain",
		Covers: []string{"extension whose type is itself extendable", "extension in a second file"},
		Files: map[string]string{
			"a.proto": `syntax = "proto2";
package p;
// L:p.Base
message Base {
  extensions 100 to 200;
}
// L:p.Mid
message Mid {
  extensions 100 to 200;
}
// L:p.Leaf
message Leaf {}
`,
			"x.proto": `syntax = "proto2";
package x;
import "a.proto";
extend p.Base {
  // L:x.to_mid
  optional p.Mid to_mid = 100;
}
extend p.Mid {
  // L:x.to_leaf
  optional p.Leaf to_leaf = 100;
}
`},
	},
	{
		// Type URL shapes of Any payloads. any.proto: the payload type is the LAST path segment of the
		// type URL; the prefix is arbitrary (default type.googleapis.com, another host, a host with a
		// path, a URL with a scheme, nothing at all). Every payload message is reachable ONLY through
		// an Any value, each shape occurs directly, in a list, in a map value and next to a
		// default-prefixed sibling, on message and on field options.
		Name:   "any-urls",
		Covers: []string{"Any type URL: single-segment custom prefix", "Any type URL: prefix with a path", "Any type URL: scheme + host + path", "Any type URL: empty prefix", "Any directly as map value of an option message", "Any-typed field option", "Any payload with own field types"},
		Files: map[string]string{
			"opt.proto": `syntax = "proto3";
package opt;
import "google/protobuf/any.proto";
import "google/protobuf/descriptor.proto";
extend google.protobuf.MessageOptions {
  // L:opt.extra
  google.protobuf.Any extra = 10101;
  // L:opt.bag
  Bag bag = 10102;
}
// L:opt.Bag
message Bag {
  repeated google.protobuf.Any list = 1;
  map<string, google.protobuf.Any> by = 2;
  google.protobuf.Any one = 3;
}
extend google.protobuf.FieldOptions {
  // L:opt.fextra
  google.protobuf.Any fextra = 10103;
}
`,
			"pay.proto": `syntax = "proto3";
package pay;
// L:pay.A
message A {
  // L:pay.A.part
  Part part = 1;
}
// L:pay.Part
message Part {
  int32 id = 1;
}
// L:pay.B
message B {
  string name = 1;
}
// L:pay.C
message C {}
// L:pay.D
message D {}
`,
			"a.proto": `syntax = "proto3";
package p;
import "opt.proto";
import "pay.proto";
// L:p.Pathed
message Pathed {
  option (opt.extra) = {
    type_url: "schemas.example.com/registry/v1/pay.A"
    value: "\x0a\x02\x08\x2a"
  };
}
// L:p.Schemed
message Schemed {
  option (opt.extra) = {
    type_url: "https://example.com/schemas/pay.B"
    value: "\x0a\x01\x62"
  };
}
// L:p.Bare
message Bare {
  option (opt.extra) = { type_url: "/pay.C" };
}
// L:p.Single
message Single {
  option (opt.extra) = { type_url: "example.com/pay.D" };
}
// L:p.Listed
message Listed {
  option (opt.bag) = {
    list: { [type.googleapis.com/pay.D]: {} }
    list: { type_url: "schemas.example.com/registry/v1/pay.B" value: "\x0a\x01\x62" }
  };
}
// L:p.Mapped
message Mapped {
  option (opt.bag) = {
    by: { key: "k" value: { type_url: "schemas.example.com/registry/v1/pay.C" } }
    one: { type_url: "http://localhost:8080/pay.D" }
  };
}
// L:p.Fielded
message Fielded {
  // L:p.Fielded.f
  int32 f = 1 [(opt.fextra) = { type_url: "a.example/b/c/d/pay.A" }];
}
`},
	},
	{
		// Packages whose files are split between target files and import files (what a workspace
		// module sharing a package with a dependency module, or --path inside a package, produces).
		// FilterImage documents ErrImageFilterTypeIsImport for an included package only when ALL of
		// its files are imports. Compositions, in image order: common = import, TARGET, import;
		// mix = TARGET, import (an import file that imports a target file); mix.sub and deponly =
		// imports only (mix.sub below a mixed package); app, other = targets only. The import halves
		// carry content that nothing references (UnusedInDep) and content the target half needs.
		Name:    "split-packages",
		Covers:  []string{"package split between target and import files (import first / target first / import on both sides)", "import-only sub-package of a split package", "import file that imports a target file"},
		Targets: []string{"common/money.proto", "mix/base.proto", "app/app.proto", "other/other.proto"},
		Files: map[string]string{
			"common/unit.proto": `syntax = "proto3";
package common;
// L:common.Unit
message Unit {
  // L:common.Unit.code
  string code = 1;
}
// L:common.UnusedInDep
message UnusedInDep {}
`,
			"common/money.proto": `syntax = "proto3";
package common;
import "common/unit.proto";
import "deponly/deponly.proto";
// L:common.Money
message Money {
  // L:common.Money.unit
  Unit unit = 1;
  // L:common.Money.amount
  int64 amount = 2;
  // L:common.Money.dep_only
  deponly.DepOnly dep_only = 3;
}
`,
			"common/zone.proto": `syntax = "proto3";
package common;
import "common/money.proto";
// L:common.Zone
message Zone {
  // L:common.Zone.m
  Money m = 1;
}
`,
			"deponly/deponly.proto": `syntax = "proto3";
package deponly;
// L:deponly.DepOnly
message DepOnly {}
`,
			"mix/base.proto": `syntax = "proto3";
package mix;
// L:mix.Base
message Base {}
`,
			"mix/mid.proto": `syntax = "proto3";
package mix;
import "mix/base.proto";
// L:mix.Mid
message Mid {
  // L:mix.Mid.b
  Base b = 1;
}
`,
			"mix/sub/leaf.proto": `syntax = "proto3";
package mix.sub;
// L:mix.sub.Leaf
message Leaf {}
`,
			"app/app.proto": `syntax = "proto3";
package app;
import "mix/mid.proto";
import "mix/sub/leaf.proto";
import "common/zone.proto";
// L:app.App
message App {
  // L:app.App.m
  mix.Mid m = 1;
  // L:app.App.l
  mix.sub.Leaf l = 2;
  // L:app.App.z
  common.Zone z = 3;
}
`,
			"other/other.proto": `syntax = "proto3";
package other;
// L:other.Other
message Other {}
`},
	},
	{
		// A chain of import files below the target files in which every file is needed ONLY by the
		// content of the file above it that nothing asks for (an exclude-only filter keeps a kept import
		// file with all of its non-excluded content, so that content's needs must be in the image as
		// well, generation after generation). Image order is the reverse of the chain (dependency
		// order: descriptor, c5, c4, c3, c2, c1, t, t2), so a walk that is not run to its fixpoint
		// leaves c2 (one forward pass), c3 (two), c4 (three) kept with content whose file is gone.
		// Every hop is a different reference kind; the hops below c2 are all link-relevant:
		//
		//	t.Keep        -field type->      c1.M1               (the only thing a target needs of the chain)
		//	c1.U1         -custom option->   c2.tag              (c1.U1 is used by nothing)
		//	c2.x2         -extendee->        c3.Base3            (c2.x2 is used by nothing)
		//	c3.S3.Do      -request/response-> c4.Req4            (c3.S3 is used by nothing)
		//	c4.U4.by      -map value type->  c5.Last5            (c4.U4 is used by nothing)
		//	c5.U5.api     -field type->      google.protobuf.Api (api.proto -> type.proto -> any.proto, source_context.proto)
		//
		// The second target file t2 enters the chain in the middle (t2.Uses3 -> c3.Base3); excluding
		// package t or t2 (part of the exhaustive filter enumeration) moves the entry point, and c2 is
		// then reached only "from below", as the file of a known extension of c3.Base3.
		Name:    "import-chains",
		Covers:  []string{"import chain of depth 5 + WKT chain where every file is needed only by unreferenced content of the import file above it", "chain entered at the top / in the middle", "import file reached only as the home of a known extension"},
		Targets: []string{"t.proto", "t2.proto"},
		Files: map[string]string{
			"t.proto": `syntax = "proto3";
package t;
import "c1.proto";
// L:t.Keep
message Keep {
  // L:t.Keep.m
  c1.M1 m = 1;
}
// L:t.Unwanted
message Unwanted {}
`,
			"t2.proto": `syntax = "proto3";
package t2;
import "c3.proto";
// L:t2.Uses3
message Uses3 {
  // L:t2.Uses3.b
  c3.Base3 b = 1;
}
`,
			"c1.proto": `syntax = "proto3";
package c1;
import "c2.proto";
// L:c1.M1
message M1 {}
// L:c1.U1
message U1 {
  option (c2.tag) = "u1";
  // L:c1.U1.s
  string s = 1;
}
`,
			"c2.proto": `syntax = "proto2";
package c2;
import "google/protobuf/descriptor.proto";
import "c3.proto";
extend google.protobuf.MessageOptions {
  // L:c2.tag
  optional string tag = 50001;
}
extend c3.Base3 {
  // L:c2.x2
  optional int32 x2 = 10;
}
`,
			"c3.proto": `syntax = "proto2";
package c3;
import "c4.proto";
// L:c3.Base3
message Base3 {
  extensions 10 to 20;
}
// L:c3.S3
service S3 {
  // L:c3.S3.Do
  rpc Do(c4.Req4) returns (c4.Req4);
}
`,
			"c4.proto": `syntax = "proto3";
package c4;
import "c5.proto";
// L:c4.Req4
message Req4 {}
// L:c4.U4
message U4 {
  // L:c4.U4.by
  map<string, c5.Last5> by = 1;
}
`,
			"c5.proto": `syntax = "proto3";
package c5;
import "google/protobuf/api.proto";
// L:c5.Last5
message Last5 {}
// L:c5.U5
message U5 {
  // L:c5.U5.api
  google.protobuf.Api api = 1;
}
`},
	},
	{
		// Members that are dropped because a type they cannot exist without is excluded, each carrying
		// a custom option that NOTHING else uses (round 5): the option definition, its message type, its
		// Any payload, their files and the imports of those files must go with the member. One option
		// per member kind, spread over three option files plus a payload file (all import files, so
		// that nothing keeps them but a reference), next to a sibling option (o.kept) that survives:
		//
		//	p.M.bad       plain field of p.Bad                       (o.plain)      o/plain.proto
		//	p.M.bads      map<string, p.Bad>       (message value)   (o.mapmsg = Note{Any pay.P})  o/map.proto, pay.proto
		//	p.M.bes       map<string, p.BadE>      (enum value)      (o.mapenum)    o/map.proto
		//	p.M.inners    map<string, p.Bad.Inner> (nested in the excluded message) (o.mapnested)  o/map.proto
		//	p.M.alt       oneof whose only member has type p.Bad     (o.oneof, member: o.member)   o/plain.proto
		//	p.xbad        extension of p.Base with type p.Bad        (o.xopt)       o/plain.proto
		//	p.M.ss        map<string, string>                        (o.kept)       o/kept.proto
		Name:    "dropped-member-options",
		Covers:  []string{"custom option used only by a plain field / map field (message, enum, nested value) / oneof / extension that is dropped with its excluded type", "option message with Any payload used only by a dropped map field", "option files as import files"},
		Targets: []string{"a.proto", "b.proto"},
		Files: map[string]string{
			"o/map.proto": `syntax = "proto3";
package o;
import "google/protobuf/any.proto";
import "google/protobuf/descriptor.proto";
// L:o.Note
message Note {
  string text = 1;
  google.protobuf.Any any = 2;
}
extend google.protobuf.FieldOptions {
  // L:o.mapmsg
  Note mapmsg = 50001;
  // L:o.mapenum
  string mapenum = 50002;
  // L:o.mapnested
  string mapnested = 50003;
}
`,
			"o/plain.proto": `syntax = "proto3";
package o;
import "google/protobuf/descriptor.proto";
extend google.protobuf.FieldOptions {
  // L:o.plain
  string plain = 50011;
  // L:o.member
  string member = 50012;
  // L:o.xopt
  string xopt = 50013;
}
extend google.protobuf.OneofOptions {
  // L:o.oneof
  string oneof = 50014;
}
`,
			"o/kept.proto": `syntax = "proto3";
package o;
import "google/protobuf/descriptor.proto";
extend google.protobuf.FieldOptions {
  // L:o.kept
  string kept = 50021;
}
`,
			"pay.proto": `syntax = "proto3";
package pay;
// L:pay.P
message P {}
`,
			"a.proto": `syntax = "proto3";
package p;
import "o/kept.proto";
import "o/map.proto";
import "o/plain.proto";
import "pay.proto";
// L:p.Bad
message Bad {
  // L:p.Bad.b
  string b = 1;
  // L:p.Bad.Inner
  message Inner {}
}
// L:p.BadE
enum BadE {
  BAD_E_ZERO = 0;
}
// L:p.M
message M {
  // L:p.M.name
  string name = 1;
  // L:p.M.bad
  Bad bad = 2 [(o.plain) = "only here"];
  // L:p.M.bads
  map<string, Bad> bads = 3 [(o.mapmsg) = {
    text: "only here"
    any: { [type.googleapis.com/pay.P]: {} }
  }];
  // L:p.M.bes
  map<string, BadE> bes = 4 [(o.mapenum) = "only here"];
  // L:p.M.inners
  map<string, Bad.Inner> inners = 5 [(o.mapnested) = "only here"];
  // L:p.M.ss
  map<string, string> ss = 6 [(o.kept) = "stays"];
  // L:p.M.alt
  oneof alt {
    option (o.oneof) = "only here";
    // L:p.M.via
    Bad via = 7 [(o.member) = "only here"];
  }
  // L:p.M.last
  string last = 8;
}
`,
			"b.proto": `syntax = "proto2";
package p;
import "a.proto";
import "o/plain.proto";
// L:p.Base
message Base {
  extensions 100 to 200;
}
extend Base {
  // L:p.xbad
  optional Bad xbad = 100 [(o.xopt) = "only here"];
}
`},
	},
}
