package c12

// The reference model: an independent, deliberately boring description of an image as a graph of
// named elements, and of what a type filter is supposed to keep (the rules of the FilterImage doc
// comment and of property C12). It is computed from the pristine FileDescriptorProtos with its own
// code (options are inspected through their wire encoding, not through buf's image index).

import (
	"fmt"
	"sort"
	"strings"

	"google.golang.org/protobuf/encoding/protowire"
	"google.golang.org/protobuf/proto"
	"google.golang.org/protobuf/reflect/protodesc"
	"google.golang.org/protobuf/reflect/protoreflect"
	"google.golang.org/protobuf/types/descriptorpb"
	"google.golang.org/protobuf/types/dynamicpb"
)

type kind int

const (
	kMsg kind = iota
	kEnum
	kSvc
	kMethod
	kExt
)

func (k kind) String() string {
	return [...]string{"message", "enum", "service", "method", "extension"}[k]
}

// optUse is one custom option set on some descriptor.
type optUse struct {
	Ext string   // full name of the extension that defines the option
	Any []string // message names found as google.protobuf.Any payloads inside the option value (first level)
	// AnyShape[name] is the set of type URL shapes (see urlShape) under which the payload name occurs.
	AnyShape map[string][]string
}

type fieldM struct {
	Name  string
	Type  string // full name of the message/enum type, "" for scalars
	Oneof int    // index of the oneof, -1 if none
	Opts  []optUse
}

// el is one named element other than a file.
type el struct {
	Name     string
	Kind     kind
	File     string
	Parent   string   // enclosing message/service, "" if top level
	Children []string // nested messages, enums, extensions (message) or methods (service)
	Opts     []optUse

	Fields     []fieldM
	OneofOpts  [][]optUse
	RangeOpts  [][]optUse
	MapEntry   bool
	HasMembers bool // a message that has something a namespace-only shell would lose

	ValueOpts [][]optUse

	In, Out string

	Extendee, Type string
}

type fileM struct {
	Path   string
	Pkg    string
	Import bool
	All    []string // every element declared in the file, parents before children
	Opts   []optUse
	Deps   []string
}

type imageModel struct {
	Files  []*fileM
	ByPath map[string]*fileM
	El     map[string]*el
	Pkgs   map[string][]*fileM
	ExtsOf map[string][]string // extendee -> extensions
	// TransDeps[path] is the set of files reachable through the dependency lists.
	TransDeps map[string]map[string]bool
}

func trimDot(s string) string { return strings.TrimPrefix(s, ".") }

// buildModel indexes the pristine descriptors. isImport tells which files are imports.
func buildModel(fds []*descriptorpb.FileDescriptorProto, isImport map[string]bool) (*imageModel, error) {
	m := &imageModel{ByPath: map[string]*fileM{}, El: map[string]*el{}, Pkgs: map[string][]*fileM{}, ExtsOf: map[string][]string{}, TransDeps: map[string]map[string]bool{}}
	files, err := protodesc.NewFiles(&descriptorpb.FileDescriptorSet{File: fds})
	if err != nil {
		return nil, fmt.Errorf("pristine image does not link: %w", err)
	}
	// pass 1: extension table (extendee, number) -> extension name and type
	type extInfo struct{ name, typ string }
	extTable := map[string]extInfo{}
	var collectExt func(prefix string, exts []*descriptorpb.FieldDescriptorProto, msgs []*descriptorpb.DescriptorProto)
	collectExt = func(prefix string, exts []*descriptorpb.FieldDescriptorProto, msgs []*descriptorpb.DescriptorProto) {
		for _, x := range exts {
			typ := ""
			if x.GetTypeName() != "" {
				typ = trimDot(x.GetTypeName())
			}
			extTable[fmt.Sprintf("%s#%d", trimDot(x.GetExtendee()), x.GetNumber())] = extInfo{prefix + x.GetName(), typ}
		}
		for _, d := range msgs {
			collectExt(prefix+d.GetName()+".", d.Extension, d.NestedType)
		}
	}
	for _, fd := range fds {
		prefix := ""
		if fd.GetPackage() != "" {
			prefix = fd.GetPackage() + "."
		}
		collectExt(prefix, fd.Extension, fd.MessageType)
	}
	types := dynamicpb.NewTypes(files)
	uses := func(optionsType string, opts proto.Message) []optUse {
		if opts == nil || !opts.ProtoReflect().IsValid() {
			return nil
		}
		b, err := proto.MarshalOptions{Deterministic: true}.Marshal(opts)
		if err != nil || len(b) == 0 {
			return nil
		}
		var out []optUse
		idx := map[string]int{}
		for len(b) > 0 {
			num, wt, n := protowire.ConsumeTag(b)
			if n < 0 {
				break
			}
			b = b[n:]
			vn := protowire.ConsumeFieldValue(num, wt, b)
			if vn < 0 {
				break
			}
			val := b[:vn]
			b = b[vn:]
			info, ok := extTable[fmt.Sprintf("%s#%d", optionsType, num)]
			if !ok {
				continue
			}
			i, seen := idx[info.name]
			if !seen {
				i = len(out)
				idx[info.name] = i
				out = append(out, optUse{Ext: info.name})
			}
			if wt == protowire.BytesType && info.typ != "" {
				if d, err := files.FindDescriptorByName(protoreflect.FullName(info.typ)); err == nil {
					if md, ok := d.(protoreflect.MessageDescriptor); ok {
						payload, _ := protowire.ConsumeBytes(val)
						msg := dynamicpb.NewMessage(md)
						if err := (proto.UnmarshalOptions{Resolver: types}).Unmarshal(payload, msg); err == nil {
							for _, ref := range findAny(msg) {
								out[i].Any = appendUnique(out[i].Any, ref.Name)
								if out[i].AnyShape == nil {
									out[i].AnyShape = map[string][]string{}
								}
								out[i].AnyShape[ref.Name] = appendUnique(out[i].AnyShape[ref.Name], ref.Shape)
							}
						}
					}
				}
			}
		}
		return out
	}

	var addMsg func(f *fileM, prefix, parent string, d *descriptorpb.DescriptorProto)
	addEnum := func(f *fileM, prefix, parent string, d *descriptorpb.EnumDescriptorProto) string {
		e := &el{Name: prefix + d.GetName(), Kind: kEnum, File: f.Path, Parent: parent}
		if d.Options != nil {
			e.Opts = uses("google.protobuf.EnumOptions", d.Options)
		}
		for _, v := range d.Value {
			var u []optUse
			if v.Options != nil {
				u = uses("google.protobuf.EnumValueOptions", v.Options)
			}
			e.ValueOpts = append(e.ValueOpts, u)
		}
		m.El[e.Name] = e
		f.All = append(f.All, e.Name)
		return e.Name
	}
	addExt := func(f *fileM, prefix, parent string, d *descriptorpb.FieldDescriptorProto) string {
		e := &el{Name: prefix + d.GetName(), Kind: kExt, File: f.Path, Parent: parent, Extendee: trimDot(d.GetExtendee())}
		if d.GetTypeName() != "" {
			e.Type = trimDot(d.GetTypeName())
		}
		if d.Options != nil {
			e.Opts = uses("google.protobuf.FieldOptions", d.Options)
		}
		m.El[e.Name] = e
		m.ExtsOf[e.Extendee] = append(m.ExtsOf[e.Extendee], e.Name)
		f.All = append(f.All, e.Name)
		return e.Name
	}
	addMsg = func(f *fileM, prefix, parent string, d *descriptorpb.DescriptorProto) {
		e := &el{Name: prefix + d.GetName(), Kind: kMsg, File: f.Path, Parent: parent, MapEntry: d.GetOptions().GetMapEntry()}
		e.HasMembers = len(d.Field) > 0 || len(d.OneofDecl) > 0 || len(d.ExtensionRange) > 0 || len(d.ReservedRange) > 0 || len(d.ReservedName) > 0
		if d.Options != nil {
			e.Opts = uses("google.protobuf.MessageOptions", d.Options)
		}
		for _, fd := range d.Field {
			fm := fieldM{Name: fd.GetName(), Oneof: -1}
			if fd.GetTypeName() != "" {
				fm.Type = trimDot(fd.GetTypeName())
			}
			if fd.OneofIndex != nil {
				fm.Oneof = int(fd.GetOneofIndex())
			}
			if fd.Options != nil {
				fm.Opts = uses("google.protobuf.FieldOptions", fd.Options)
			}
			e.Fields = append(e.Fields, fm)
		}
		for _, o := range d.OneofDecl {
			var u []optUse
			if o.Options != nil {
				u = uses("google.protobuf.OneofOptions", o.Options)
			}
			e.OneofOpts = append(e.OneofOpts, u)
		}
		for _, xr := range d.ExtensionRange {
			var u []optUse
			if xr.Options != nil {
				u = uses("google.protobuf.ExtensionRangeOptions", xr.Options)
			}
			e.RangeOpts = append(e.RangeOpts, u)
		}
		m.El[e.Name] = e
		f.All = append(f.All, e.Name)
		for _, n := range d.NestedType {
			e.Children = append(e.Children, e.Name+"."+n.GetName())
			addMsg(f, e.Name+".", e.Name, n)
		}
		for _, n := range d.EnumType {
			e.Children = append(e.Children, addEnum(f, e.Name+".", e.Name, n))
		}
		for _, n := range d.Extension {
			e.Children = append(e.Children, addExt(f, e.Name+".", e.Name, n))
		}
	}
	for _, fd := range fds {
		f := &fileM{Path: fd.GetName(), Pkg: fd.GetPackage(), Import: isImport[fd.GetName()], Deps: append([]string(nil), fd.Dependency...)}
		if fd.Options != nil {
			f.Opts = uses("google.protobuf.FileOptions", fd.Options)
		}
		prefix := ""
		if f.Pkg != "" {
			prefix = f.Pkg + "."
		}
		for _, d := range fd.MessageType {
			addMsg(f, prefix, "", d)
		}
		for _, d := range fd.EnumType {
			addEnum(f, prefix, "", d)
		}
		for _, s := range fd.Service {
			e := &el{Name: prefix + s.GetName(), Kind: kSvc, File: f.Path}
			if s.Options != nil {
				e.Opts = uses("google.protobuf.ServiceOptions", s.Options)
			}
			m.El[e.Name] = e
			f.All = append(f.All, e.Name)
			for _, md := range s.Method {
				me := &el{Name: e.Name + "." + md.GetName(), Kind: kMethod, File: f.Path, Parent: e.Name, In: trimDot(md.GetInputType()), Out: trimDot(md.GetOutputType())}
				if md.Options != nil {
					me.Opts = uses("google.protobuf.MethodOptions", md.Options)
				}
				m.El[me.Name] = me
				f.All = append(f.All, me.Name)
				e.Children = append(e.Children, me.Name)
			}
		}
		for _, x := range fd.Extension {
			addExt(f, prefix, "", x)
		}
		m.Files = append(m.Files, f)
		m.ByPath[f.Path] = f
		m.Pkgs[f.Pkg] = append(m.Pkgs[f.Pkg], f)
	}
	for _, f := range m.Files {
		seen := map[string]bool{}
		var rec func(p string)
		rec = func(p string) {
			for _, d := range m.ByPath[p].Deps {
				if !seen[d] {
					seen[d] = true
					rec(d)
				}
			}
		}
		rec(f.Path)
		m.TransDeps[f.Path] = seen
	}
	return m, nil
}

func appendUnique(dst []string, xs ...string) []string {
	for _, x := range xs {
		dup := false
		for _, d := range dst {
			if d == x {
				dup = true
				break
			}
		}
		if !dup {
			dst = append(dst, x)
		}
	}
	return dst
}

// anyRef is one google.protobuf.Any value found inside an option value.
type anyRef struct {
	Name  string // the payload message name: what follows the LAST '/' of the type URL (any.proto)
	Shape string // urlShape of the type URL
}

// urlShape classifies the prefix of a type URL (everything up to and including the last '/').
// any.proto: "The last segment of the URL's path must represent the fully qualified name of the
// type"; the default prefix is type.googleapis.com, a prefix may have a scheme and a path.
func urlShape(url string) string {
	i := strings.LastIndexByte(url, '/')
	if i < 0 {
		return "no-slash"
	}
	prefix := url[:i]
	switch {
	case prefix == "type.googleapis.com":
		return "default"
	case prefix == "":
		return "empty-host"
	case strings.Contains(prefix, "://"):
		return "scheme"
	case strings.Contains(prefix, "/"):
		return "path"
	}
	return "single-segment"
}

// findAny returns the Any payloads used inside msg (not looking inside the payload bytes).
func findAny(msg protoreflect.Message) []anyRef {
	var out []anyRef
	if msg.Descriptor().FullName() == "google.protobuf.Any" {
		url := msg.Get(msg.Descriptor().Fields().ByNumber(1)).String()
		name := url
		if i := strings.LastIndexByte(url, '/'); i >= 0 {
			name = url[i+1:]
		}
		if name != "" {
			out = append(out, anyRef{Name: name, Shape: urlShape(url)})
		}
		return out
	}
	msg.Range(func(fd protoreflect.FieldDescriptor, v protoreflect.Value) bool {
		switch {
		case fd.IsMap():
			if fd.MapValue().Message() != nil {
				v.Map().Range(func(_ protoreflect.MapKey, mv protoreflect.Value) bool {
					out = append(out, findAny(mv.Message())...)
					return true
				})
			}
		case fd.Message() != nil && fd.IsList():
			for i := 0; i < v.List().Len(); i++ {
				out = append(out, findAny(v.List().Get(i).Message())...)
			}
		case fd.Message() != nil:
			out = append(out, findAny(v.Message())...)
		}
		return true
	})
	return out
}

// ---- the filter semantics ----

// filterCase is one point of the explored space.
type filterCase struct {
	Image         string   `json:"image"`
	Include       []string `json:"include"`
	Exclude       []string `json:"exclude"`
	NoCustom      bool     `json:"exclude_custom_options"`
	NoKnown       bool     `json:"exclude_known_extensions"`
	AllowImported bool     `json:"allow_include_of_imported_type"`
	InPlace       bool     `json:"mutate_in_place"`
}

// bounds is one run of the closure computation (lower: what must be there; upper: what may be there).
type bounds struct {
	Present map[string]bool   // element names
	Full    map[string]bool   // elements that are kept for their own sake (not only as a namespace)
	Files   map[string]bool   // file paths
	Why     map[string]string // first reason an element is required
	// AnyShapes: type URL shapes of the Any payloads the walk demanded (coverage counter only).
	AnyShapes map[string]bool
	core      [3]int // sizes of the walk result proper (before exclude-only widening)
}

type expectation struct {
	Xc map[string]bool // excluded closure: element names and file paths
	// Contradictory is non-empty when the filter asks for an element it also (directly or through
	// something the element cannot exist without) excludes; such a filter may fail.
	Contradictory string
	// RPCTrigger names a method of a walked, not excluded service whose request or response type is
	// excluded (the graph position of known defect F3a); "" if there is none.
	RPCTrigger string
	// DroppedExtExtendees are the extendees of extensions that are dropped because their type is excluded.
	DroppedExtExtendees map[string]bool
	// Exact: lower and upper bound coincide (the implementation has no order-dependent freedom).
	Exact bool
	// MustFail is non-empty when the documented contract requires an error ("not-found", "is-import").
	MustFail string
	// PkgShapes: for every included package name, how its files are split between target and
	// import files (see pkgShape). Coverage counter only; the demand itself is MustFail.
	PkgShapes []string
	// ImportGenerations (exclude-only filters): see importGenerations. Coverage counter only.
	ImportGenerations int
	// DroppedMemberOpts (custom options retained): member kind -> custom options set on a member that
	// is dropped with its excluded type (see droppedMemberOpts).
	DroppedMemberOpts map[string][]string
	// ContentFiles (exclude-only filters): files reached without the known-extension step.
	ContentFiles map[string]bool
	L, U         *bounds
	EffExcl      func(string) bool
}

// pkgShape classifies the files of a package (in image order) by their import flag. The documented
// contract of FilterImage: including a package is rejected with ErrImageFilterTypeIsImport only when
// ALL of its files are imports; a package that has at least one target file is a name "that exists
// in the image" in the sense of the property, whatever else declares the same package.
func pkgShape(files []*fileM) string {
	imports := 0
	for _, f := range files {
		if f.Import {
			imports++
		}
	}
	switch {
	case imports == 0:
		return "all-target"
	case imports == len(files):
		return "all-import"
	case files[0].Import && files[len(files)-1].Import:
		return "mixed-import-first-and-last"
	case files[0].Import:
		return "mixed-import-first"
	case files[len(files)-1].Import:
		return "mixed-import-last"
	}
	return "mixed-import-inside"
}

func (m *imageModel) isName(n string) bool {
	if _, ok := m.El[n]; ok {
		return true
	}
	_, ok := m.Pkgs[n]
	return ok
}

func (m *imageModel) expandExcludes(names []string) map[string]bool {
	xc := map[string]bool{}
	var rec func(n string)
	rec = func(n string) {
		if xc[n] {
			return
		}
		xc[n] = true
		for _, c := range m.El[n].Children {
			rec(c)
		}
	}
	for _, n := range names {
		if _, ok := m.El[n]; ok {
			rec(n)
			continue
		}
		for _, f := range m.Pkgs[n] {
			xc[f.Path] = true
			for _, e := range f.All {
				rec(e)
			}
		}
	}
	return xc
}

type walker struct {
	m        *imageModel
	fc       *filterCase
	xc       map[string]bool
	upper    bool
	full     map[string]bool
	explicit map[string]bool
	dropped  map[string]bool
	ns       map[string]bool
	files    map[string]bool
	why      map[string]string
	shapes   map[string]bool // type URL shapes of the Any payloads that were demanded
}

// effExcl: the element is excluded, or it is a map entry that cannot exist without an excluded type.
func (w *walker) effExcl(n string) bool {
	if w.xc[n] {
		return true
	}
	if e := w.m.El[n]; e != nil && e.MapEntry {
		for _, f := range e.Fields {
			if f.Type != "" && w.xc[f.Type] {
				return true
			}
		}
	}
	return false
}

func (w *walker) extDroppable(n string) bool {
	e := w.m.El[n]
	return e == nil || w.effExcl(e.Extendee) || (e.Type != "" && w.effExcl(e.Type))
}

func (w *walker) opts(us []optUse) {
	if w.fc.NoCustom {
		return
	}
	for _, u := range us {
		if w.xc[u.Ext] {
			continue
		}
		if w.extDroppable(u.Ext) && !w.upper {
			continue
		}
		for _, p := range u.Any {
			if e := w.m.El[p]; e != nil && e.Kind == kMsg {
				if !w.effExcl(p) {
					for _, sh := range u.AnyShape[p] {
						w.shapes[sh] = true
					}
				}
				w.add(p, false, "any-payload")
			}
		}
		w.add(u.Ext, true, "custom-option")
	}
}

func (w *walker) namespace(e *el) {
	for p := e.Parent; p != ""; {
		pe := w.m.El[p]
		if !w.full[p] && !w.ns[p] {
			w.ns[p] = true
			if _, ok := w.why[p]; !ok {
				w.why[p] = "enclosing"
			}
			w.opts(pe.Opts)
		}
		p = pe.Parent
	}
	if !w.files[e.File] {
		w.files[e.File] = true
		w.opts(w.m.ByPath[e.File].Opts)
	}
}

func (w *walker) add(n string, implied bool, why string) {
	e := w.m.El[n]
	if e == nil || w.effExcl(n) || w.dropped[n] {
		return
	}
	if w.full[n] {
		if !implied && !w.explicit[n] {
			w.explicit[n] = true
			if e.Kind == kExt && w.upper {
				// order dependent in the implementation: the extendee may have been walked as explicit
				w.explicit[e.Extendee] = true
			}
		}
		return
	}
	w.full[n] = true
	if !implied {
		w.explicit[n] = true
	}
	if _, ok := w.why[n]; !ok || w.why[n] == "enclosing" {
		w.why[n] = why
	}
	switch e.Kind {
	case kMsg:
		kept := make([]int, len(e.OneofOpts))
		for _, f := range e.Fields {
			if f.Type != "" {
				if w.effExcl(f.Type) {
					continue
				}
				w.add(f.Type, false, "field-type")
			}
			if f.Oneof >= 0 && f.Oneof < len(kept) {
				kept[f.Oneof]++
			}
			w.opts(f.Opts)
		}
		for i, o := range e.OneofOpts {
			if kept[i] > 0 {
				w.opts(o)
			}
		}
		for _, ro := range e.RangeOpts {
			w.opts(ro)
		}
	case kEnum:
		for _, vo := range e.ValueOpts {
			w.opts(vo)
		}
	case kSvc:
		for _, mn := range e.Children {
			me := w.m.El[mn]
			if w.xc[mn] || w.effExcl(me.In) || w.effExcl(me.Out) {
				continue
			}
			w.add(mn, false, "service-method")
		}
	case kMethod:
		if w.effExcl(e.In) || w.effExcl(e.Out) {
			delete(w.full, n)
			delete(w.explicit, n)
			w.dropped[n] = true
			return
		}
		w.add(e.In, false, "method-type")
		w.add(e.Out, false, "method-type")
	case kExt:
		if w.effExcl(e.Extendee) || (e.Type != "" && w.effExcl(e.Type)) {
			// an extension cannot exist without its extendee and its type: it is dropped, and a
			// dropped extension needs nothing
			delete(w.full, n)
			delete(w.explicit, n)
			w.dropped[n] = true
			return
		}
		// Lower bound: the extendee is needed, but its other known extensions are not demanded.
		w.add(e.Extendee, implied || !w.upper, "extendee")
		if e.Type != "" {
			w.add(e.Type, false, "field-type")
		}
	}
	w.namespace(e)
	w.opts(e.Opts)
}

func (w *walker) addFile(f *fileM) {
	if w.xc[f.Path] {
		return
	}
	w.files[f.Path] = true
	w.opts(f.Opts)
	for _, n := range f.All {
		w.add(n, false, "file-member")
	}
}

func (w *walker) knownExtensions() {
	if w.fc.NoKnown {
		return
	}
	for {
		var msgs []string
		for n := range w.explicit {
			if e := w.m.El[n]; e != nil && e.Kind == kMsg && w.full[n] {
				msgs = append(msgs, n)
			}
		}
		sort.Strings(msgs)
		before := len(w.full) + len(w.explicit)
		for _, n := range msgs {
			for _, x := range w.m.ExtsOf[n] {
				if w.xc[x] {
					continue
				}
				w.add(x, false, "known-extension")
			}
		}
		if !w.upper || len(w.full)+len(w.explicit) == before {
			return
		}
	}
}

func (m *imageModel) run(fc *filterCase, xc map[string]bool, upper bool) *bounds {
	w := &walker{m: m, fc: fc, xc: xc, upper: upper, full: map[string]bool{}, explicit: map[string]bool{}, dropped: map[string]bool{}, ns: map[string]bool{}, files: map[string]bool{}, why: map[string]string{}, shapes: map[string]bool{}}
	if len(fc.Include) > 0 {
		for _, n := range fc.Include {
			if _, ok := m.El[n]; ok {
				w.add(n, false, "included")
				continue
			}
			for _, f := range m.Pkgs[n] {
				w.addFile(f)
			}
		}
	} else {
		for _, f := range m.Files {
			if !f.Import {
				w.addFile(f)
			}
		}
	}
	w.knownExtensions()
	b := &bounds{Present: map[string]bool{}, Full: w.full, Files: w.files, Why: w.why, AnyShapes: w.shapes}
	for n := range w.full {
		b.Present[n] = true
	}
	for n := range w.ns {
		b.Present[n] = true
	}
	b.core = [3]int{len(w.full), len(w.ns), len(w.files)}
	if len(fc.Include) == 0 && upper {
		// Exclude-only: whatever is not excluded in a kept file stays. An import file that is NEEDED
		// (by kept target content, by the content of another kept import file, or as the home of a
		// known extension of a kept message) is kept with all of its non-excluded content and with
		// what that content needs, to a fixpoint; the model allows (upper) but does not demand
		// (lower) the unreferenced part. An import file that nothing kept needs is not allowed:
		// "If a file is no longer required, it will be removed from the image" (round 5; before, the
		// upper bound let every import file stay, so an import file that only a dropped member's
		// custom option needed could not be noticed under an exclude-only filter).
		walked := map[string]bool{}
		for {
			var next []*fileM
			for _, f := range m.Files {
				if f.Import && w.files[f.Path] && !walked[f.Path] && !xc[f.Path] {
					next = append(next, f)
				}
			}
			if len(next) == 0 {
				break
			}
			for _, f := range next {
				walked[f.Path] = true
				w.addFile(f)
			}
			w.knownExtensions()
		}
		for n := range w.full {
			b.Present[n] = true
		}
		for n := range w.ns {
			b.Present[n] = true
		}
	}
	return b
}

// importGenerations says, for an exclude-only filter, how many generations of import files the
// result needs: generation 1 = import files that the kept content of the target files needs;
// generation n+1 = import files that are needed only by the (non-excluded) content of the import
// files of generation <= n. The FilterImage contract keeps a kept import file with all of its
// non-excluded content, so every generation must be in the image for it to link. The number is a
// coverage fact (how deep the "needed only by unreferenced content of an import file" relation is
// nested in the case); the demand itself is the links oracle.
//
// The second result is the set of files that this closure reaches WITHOUT the known-extension step
// (target content, then import file content, generation after generation). A kept import file that
// is not in it is in the image only as the home of a known extension of a kept message.
func (m *imageModel) importGenerations(fc *filterCase, xc map[string]bool) (int, map[string]bool) {
	w := &walker{m: m, fc: fc, xc: xc, full: map[string]bool{}, explicit: map[string]bool{}, dropped: map[string]bool{}, ns: map[string]bool{}, files: map[string]bool{}, why: map[string]string{}, shapes: map[string]bool{}}
	for _, f := range m.Files {
		if !f.Import {
			w.addFile(f)
		}
	}
	walked := map[string]bool{}
	gen := 0
	for {
		var next []*fileM
		for _, f := range m.Files {
			if f.Import && w.files[f.Path] && !walked[f.Path] && !xc[f.Path] {
				next = append(next, f)
			}
		}
		if len(next) == 0 {
			return gen, w.files
		}
		gen++
		for _, f := range next {
			walked[f.Path] = true
			w.addFile(f)
		}
	}
}

// expect computes what property C12 demands for one filter.
func (m *imageModel) expect(fc *filterCase) *expectation {
	ex := &expectation{}
	for _, n := range append(append([]string(nil), fc.Include...), fc.Exclude...) {
		if !m.isName(n) {
			ex.MustFail = "not-found"
			return ex
		}
	}
	ex.Xc = m.expandExcludes(fc.Exclude)
	probe := &walker{m: m, xc: ex.Xc}
	ex.EffExcl = probe.effExcl
	for _, n := range fc.Include {
		if e, ok := m.El[n]; ok {
			if !fc.AllowImported && m.ByPath[e.File].Import {
				ex.MustFail = "is-import"
			}
			switch {
			case ex.Xc[n]:
				ex.Contradictory = "included element is excluded"
			case probe.effExcl(n):
				ex.Contradictory = "included map entry needs an excluded type"
			case e.Kind == kMethod && (probe.effExcl(e.In) || probe.effExcl(e.Out)):
				ex.Contradictory = "included method needs an excluded type"
			case e.Kind == kExt && probe.extDroppable(n):
				ex.Contradictory = "included extension needs an excluded type"
			}
			continue
		}
		ex.PkgShapes = appendUnique(ex.PkgShapes, pkgShape(m.Pkgs[n]))
		onlyImports := true
		for _, f := range m.Pkgs[n] {
			if !f.Import {
				onlyImports = false
			}
			if ex.Xc[f.Path] {
				ex.Contradictory = "included package is excluded"
			}
		}
		if onlyImports && !fc.AllowImported {
			ex.MustFail = "is-import"
		}
	}
	ex.L = m.run(fc, ex.Xc, false)
	ex.U = m.run(fc, ex.Xc, true)
	ex.Exact = ex.L.core == ex.U.core
	if len(fc.Include) == 0 && ex.MustFail == "" {
		ex.ImportGenerations, ex.ContentFiles = m.importGenerations(fc, ex.Xc)
	}
	ex.DroppedExtExtendees = map[string]bool{}
	var methods []string
	for n, e := range m.El {
		switch e.Kind {
		case kExt:
			if !ex.Xc[n] && !probe.effExcl(e.Extendee) && e.Type != "" && probe.effExcl(e.Type) {
				ex.DroppedExtExtendees[e.Extendee] = true
			}
		case kMethod:
			if (probe.effExcl(e.In) || probe.effExcl(e.Out)) && !ex.Xc[e.Parent] && ex.U.Full[e.Parent] && !contains(fc.Include, n) {
				methods = append(methods, n)
			}
		}
	}
	if len(methods) > 0 {
		sort.Strings(methods)
		ex.RPCTrigger = methods[0]
	}
	if !fc.NoCustom {
		ex.DroppedMemberOpts = m.droppedMemberOpts(ex, probe)
	}
	return ex
}

// droppedMemberOpts lists, per kind of member, the custom options (extension names) that are set on
// a member of a kept element which is dropped because a type it cannot exist without is excluded: a
// plain field, a map field (the entry cannot exist without its value type), a oneof whose members
// are all dropped, an extension whose type is excluded, a method whose request/response type is
// excluded. A dropped member needs nothing; its options count only if something else uses them.
// The Any payloads of the option values are listed next to the option definitions.
func (m *imageModel) droppedMemberOpts(ex *expectation, probe *walker) map[string][]string {
	out := map[string][]string{}
	note := func(kind string, us []optUse) {
		for _, u := range us {
			out[kind] = appendUnique(out[kind], u.Ext)
			out[kind] = appendUnique(out[kind], u.Any...)
		}
	}
	for n, e := range m.El {
		if ex.Xc[n] || probe.effExcl(n) {
			continue
		}
		switch e.Kind {
		case kMsg:
			if !ex.U.Full[n] {
				continue
			}
			gone := make([]int, len(e.OneofOpts))
			size := make([]int, len(e.OneofOpts))
			for _, f := range e.Fields {
				if f.Oneof >= 0 && f.Oneof < len(size) {
					size[f.Oneof]++
				}
				if f.Type == "" || !probe.effExcl(f.Type) {
					continue
				}
				if f.Oneof >= 0 && f.Oneof < len(gone) {
					gone[f.Oneof]++
				}
				kind := "plain-field"
				if te := m.El[f.Type]; te != nil && te.MapEntry && !ex.Xc[f.Type] {
					kind = "map-field-message-value"
					for _, ef := range te.Fields {
						if ef.Type != "" && ex.Xc[ef.Type] && m.El[ef.Type] != nil && m.El[ef.Type].Kind == kEnum {
							kind = "map-field-enum-value"
						}
					}
				}
				note(kind, f.Opts)
			}
			for i, o := range e.OneofOpts {
				if size[i] > 0 && gone[i] == size[i] {
					note("oneof", o)
				}
			}
		case kExt:
			if ex.U.Full[e.Extendee] && !probe.effExcl(e.Extendee) && e.Type != "" && probe.effExcl(e.Type) {
				note("extension", e.Opts)
			}
		case kMethod:
			if ex.U.Full[e.Parent] && (probe.effExcl(e.In) || probe.effExcl(e.Out)) {
				note("method", e.Opts)
			}
		}
	}
	return out
}
