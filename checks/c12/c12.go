// Package c12: type filtering yields a self-contained, minimal, otherwise unchanged image.
//
// Bounded-exhaustive exploration of bufimageutil.FilterImage: for every image of a hand-written
// catalogue (covering every reference kind the property names) and EVERY filter whose include and
// exclude sets are subsets (size <= 2) of ALL names of the image (packages, messages, nested
// messages, map entries, groups, enums, services, methods, extensions), under every combination of
// WithExcludeCustomOptions / WithExcludeKnownExtensions / WithAllowIncludeOfImportedType /
// WithMutateInPlace, the real FilterImage is run and its result is judged by an independent
// reference model (model.go) and by structural oracles (oracle.go):
//
//	links          every file links against the earlier files of the image (protodesc, nothing unresolvable)
//	closure        every included element and everything it needs is present (lower bound of the model)
//	minimal        nothing is present that the model does not allow (upper bound), namespace-only messages are shells
//	no-excluded    no excluded element is present and nothing references one
//	unchanged      every surviving file equals the pristine one minus dropped declarations/members
//	comments       every surviving location is the original location of the same-named element, none lost
//	no-error       a filter of existing names that is not contradictory does not fail
//	idempotent     filtering the result again with the still-existing names changes nothing
//	in-place       WithMutateInPlace gives the same image as copying; copying leaves the input untouched
package c12

import (
	"context"
	"encoding/json"
	"errors"
	"fmt"
	"sort"
	"strings"
	"sync"
	"time"

	"github.com/bufbuild/buf/private/bufpkg/bufimage"
	"github.com/bufbuild/buf/private/bufpkg/bufimage/bufimageutil"
	"github.com/bufbuild/bufverif/internal/bufx"
	"github.com/bufbuild/bufverif/internal/enum"
	"github.com/bufbuild/bufverif/internal/evid"
	"google.golang.org/protobuf/proto"
	"google.golang.org/protobuf/reflect/protodesc"
	"google.golang.org/protobuf/reflect/protoreflect"
	"google.golang.org/protobuf/types/descriptorpb"
)

func init() {
	evid.Register(&evid.Check{ID: "C12", Level: "exploration", Run: run, QuickBudget: 300 * time.Second, ThoroughBudget: 20 * time.Minute})
	evid.RegisterReplay("C12", replay)
}

// builtImage is one catalogue image, built once.
type builtImage struct {
	spec     imageSpec
	master   bufimage.Image // only ever cloned
	pristine map[string]*descriptorpb.FileDescriptorProto
	order    []string
	isImport map[string]bool
	model    *imageModel
	names    []string // the filter universe
	hasExt   bool
	importNm map[string]bool // universe names that live in import files only
	sci      map[string]sciIndex
}

func isWKT(path string) bool { return strings.HasPrefix(path, "google/protobuf/") }

func buildImage(ctx context.Context, spec imageSpec) (*builtImage, error) {
	ws, err := bufx.Workspace(ctx, bufx.MemBucket(spec.Files), ".", spec.Targets, nil, bufx.NopProviders)
	if err != nil {
		return nil, err
	}
	img, err := bufx.BuildWorkspaceImage(ctx, ws)
	if err != nil {
		return nil, err
	}
	bi := &builtImage{spec: spec, master: img, pristine: map[string]*descriptorpb.FileDescriptorProto{}, isImport: map[string]bool{}, importNm: map[string]bool{}, sci: map[string]sciIndex{}}
	var fds []*descriptorpb.FileDescriptorProto
	for _, f := range img.Files() {
		c := proto.CloneOf(f.FileDescriptorProto())
		bi.pristine[f.Path()] = c
		bi.order = append(bi.order, f.Path())
		bi.isImport[f.Path()] = f.IsImport()
		bi.sci[f.Path()] = buildSciIndex(c)
		fds = append(fds, c)
	}
	if bi.model, err = buildModel(fds, bi.isImport); err != nil {
		return nil, err
	}
	seen := map[string]bool{}
	add := func(n string) {
		if !seen[n] {
			seen[n] = true
			bi.names = append(bi.names, n)
		}
	}
	for _, f := range bi.model.Files {
		if isWKT(f.Path) {
			continue
		}
		add(f.Pkg)
		for _, n := range f.All {
			add(n)
			if bi.model.El[n].Kind == kExt {
				bi.hasExt = true
			}
		}
	}
	for _, n := range spec.ExtraNames {
		if !bi.model.isName(n) {
			return nil, fmt.Errorf("extra name %q does not exist in image %s", n, spec.Name)
		}
		add(n)
	}
	sort.Strings(bi.names)
	for _, n := range bi.names {
		if e, ok := bi.model.El[n]; ok {
			bi.importNm[n] = bi.isImport[e.File]
			continue
		}
		only := true
		for _, f := range bi.model.Pkgs[n] {
			if !f.Import {
				only = false
			}
		}
		bi.importNm[n] = only
	}
	return bi, nil
}

// stats are per-clause coverage counters, merged under a lock at the end of each work item.
type stats struct {
	m map[string]int
}

func (s *stats) inc(k string)        { s.m[k]++ }
func (s *stats) add(k string, n int) { s.m[k] += n }

// itemCtx is the private state of one work item (one goroutine).
type itemCtx struct {
	bi        *builtImage
	img       bufimage.Image
	prelinked map[*descriptorpb.FileDescriptorProto]protoreflect.FileDescriptor
	st        *stats
}

func newItemCtx(bi *builtImage, st *stats) (*itemCtx, error) {
	img, err := bufimage.CloneImage(bi.master)
	if err != nil {
		return nil, err
	}
	c := &itemCtx{bi: bi, img: img, st: st, prelinked: map[*descriptorpb.FileDescriptorProto]protoreflect.FileDescriptor{}}
	files, err := protodesc.NewFiles(bufimage.ImageToFileDescriptorSet(img))
	if err != nil {
		return nil, err
	}
	for _, f := range img.Files() {
		d, err := files.FindFileByPath(f.Path())
		if err != nil {
			return nil, err
		}
		c.prelinked[f.FileDescriptorProto()] = d
	}
	return c, nil
}

func filterOptions(fc *filterCase, inc, exc []string) []bufimageutil.ImageFilterOption {
	var o []bufimageutil.ImageFilterOption
	if len(inc) > 0 {
		o = append(o, bufimageutil.WithIncludeTypes(inc...))
	}
	if len(exc) > 0 {
		o = append(o, bufimageutil.WithExcludeTypes(exc...))
	}
	if fc.NoCustom {
		o = append(o, bufimageutil.WithExcludeCustomOptions())
	}
	if fc.NoKnown {
		o = append(o, bufimageutil.WithExcludeKnownExtensions())
	}
	if fc.AllowImported {
		o = append(o, bufimageutil.WithAllowIncludeOfImportedType())
	}
	if fc.InPlace {
		o = append(o, bufimageutil.WithMutateInPlace())
	}
	return o
}

func safeFilter(img bufimage.Image, opts []bufimageutil.ImageFilterOption) (out bufimage.Image, err error, panicked any) {
	defer func() {
		if p := recover(); p != nil {
			panicked = p
		}
	}()
	out, err = bufimageutil.FilterImage(img, opts...)
	return
}

// classifyError gives an unexpected FilterImage error its signature.
func (c *itemCtx) classifyError(fc *filterCase, ex *expectation, err error) *finding {
	msg := err.Error()
	m := c.bi.model
	if strings.Contains(msg, "cannot include method") {
		// which excluded name is an RPC request/response type of a method that the filter does not name?
		for _, e := range m.El {
			if e.Kind != kMethod || contains(fc.Include, e.Name) {
				continue
			}
			if ex.EffExcl(e.In) || ex.EffExcl(e.Out) {
				return &finding{"no-error/excluded-rpc-type/cannot-include-method",
					fmt.Sprintf("the filter excludes the request/response type of method %s (which the filter does not name); the method should be dropped, instead FilterImage fails: %v", e.Name, err)}
			}
		}
	}
	if strings.HasPrefix(msg, "missing ") || strings.Contains(msg, ": missing ") {
		for _, f := range m.Files {
			if len(f.All) == 0 && strings.Contains(msg, fmt.Sprintf("missing %q", f.Path)) {
				return &finding{"no-error/file-without-types/missing-file",
					fmt.Sprintf("the image contains file %s which declares no types; FilterImage fails on it although the filter only names existing, unrelated types: %v", f.Path, err)}
			}
		}
	}
	if errors.Is(err, bufimageutil.ErrImageFilterTypeIsImport) {
		// ex.MustFail is empty here: no included element lives in an import file and every included
		// package has a target file (or imported types are allowed), so the contract has no reason
		// to reject the filter as "import".
		role := "element-of-target-file"
		for _, n := range fc.Include {
			if fs, isPkg := m.Pkgs[n]; isPkg {
				if _, isEl := m.El[n]; !isEl && strings.HasPrefix(pkgShape(fs), "mixed") {
					role = "package-with-target-and-import-files"
				}
			}
		}
		if fc.AllowImported {
			role = "imported-types-allowed"
		}
		return &finding{"no-error/is-import/" + role,
			fmt.Sprintf("the filter includes only names that exist outside import files (a package counts as imported only when ALL of its files are imports), but FilterImage rejects it as import: %v", err)}
	}
	return &finding{"no-error/other/" + normErr(err), fmt.Sprintf("filter of existing, non-contradictory names failed: %v", err)}
}

func contains(xs []string, x string) bool {
	for _, y := range xs {
		if x == y {
			return true
		}
	}
	return false
}

// evalCase runs one copy-mode case with all oracles. It returns the first finding (nil if none),
// the filtered image (nil on error) and the error.
func (c *itemCtx) evalCase(fc *filterCase) (*finding, bufimage.Image, error, *expectation) {
	ex := c.bi.model.expect(fc)
	fnd, out, err := c.evalWith(fc, ex)
	if fnd != nil && ex.RPCTrigger != "" && !specificRootCause[fnd.Sig] {
		// Known defect family F3a: the service walk marks the request type of a method excluded
		// instead of dropping the method. Everything that goes wrong in a case that sits on this
		// graph position is attributed to it (coarse class = the oracle that noticed).
		class := strings.SplitN(fnd.Sig, "/", 2)[0]
		fnd = &finding{"rpc-type-excluded/" + class, fmt.Sprintf("[filter excludes the request/response type of method %s, which the filter does not name] %s", ex.RPCTrigger, fnd.What)}
	}
	return fnd, out, err, ex
}

// droppedMemberKinds: the kinds of members that droppedMemberOpts distinguishes.
var droppedMemberKinds = []string{"plain-field", "map-field-message-value", "map-field-enum-value", "oneof", "extension", "method"}

// specificRootCause are signatures that already name one defect precisely; they are never
// re-attributed to the excluded-RPC-type family.
var specificRootCause = map[string]bool{
	"links/map-entry-lost-field":                      true,
	"links/oneof-index-not-remapped":                  true,
	"links/import-file-content-not-walked":            true,
	"links/import-file-of-known-extension-not-walked": true,
	"minimal/extra/extendee-of-dropped-extension":     true,
	"no-error/file-without-types/missing-file":        true,
	"empty-result/unfiltered-image-returned":          true,
	"comments/dangling-path/weak-dependency":          true,
	"in-place/copy-mode-mutated-input":                true,
}

func (c *itemCtx) evalWith(fc *filterCase, ex *expectation) (*finding, bufimage.Image, error) {
	m := c.bi.model
	st := c.st
	out, err, panicked := safeFilter(c.img, filterOptions(fc, fc.Include, fc.Exclude))
	if panicked != nil {
		return &finding{"panic/filter", fmt.Sprintf("FilterImage panicked: %v", panicked)}, nil, nil
	}
	if ex.MustFail != "" {
		st.inc("clause_must_fail")
		if err == nil {
			return &finding{"error-missing/" + ex.MustFail, "FilterImage accepted a filter that the documented contract rejects (" + ex.MustFail + ")"}, nil, nil
		}
		if ex.Contradictory == "" && ex.RPCTrigger == "" {
			want := bufimageutil.ErrImageFilterTypeNotFound
			if ex.MustFail == "is-import" {
				want = bufimageutil.ErrImageFilterTypeIsImport
			}
			if !errors.Is(err, want) {
				// another legitimate reason may be reported first only if there is one; there is none here
				return &finding{"error-kind/" + ex.MustFail + "/" + normErr(err), fmt.Sprintf("expected an error wrapping %q, got: %v", want, err)}, nil, err
			}
			if ex.MustFail == "is-import" && len(ex.PkgShapes) > 0 {
				st.inc("include_package_all-import_rejected_cases")
			}
		}
		return nil, nil, err
	}
	if err != nil {
		if ex.Contradictory != "" {
			st.inc("clause_contradictory_filter_rejected")
			return nil, nil, err
		}
		if strings.Contains(err.Error(), "image contains no files") && len(ex.L.Files) == 0 {
			st.inc("clause_empty_result_rejected")
			return nil, nil, err
		}
		return c.classifyError(fc, ex, err), nil, err
	}
	st.inc("clause_no_error_checked")
	if out == c.img && len(ex.L.Files) == 0 {
		return &finding{"empty-result/unfiltered-image-returned", fmt.Sprintf("the filter excludes every target file of the image (nothing is left that needs anything), but FilterImage returned the complete, unfiltered input image (%d files) without error", len(out.Files()))}, out, nil
	}

	// the input must not have been touched (copy mode)
	for _, f := range c.img.Files() {
		if isWKT(f.Path()) {
			continue
		}
		if !proto.Equal(f.FileDescriptorProto(), c.bi.pristine[f.Path()]) {
			return &finding{"in-place/copy-mode-mutated-input", fmt.Sprintf("FilterImage without WithMutateInPlace modified the input file %s", f.Path())}, out, nil
		}
	}

	var fds []*descriptorpb.FileDescriptorProto
	for _, f := range out.Files() {
		fds = append(fds, f.FileDescriptorProto())
	}
	ri, bad := indexResult(fds)
	if bad != nil {
		return bad, out, nil
	}

	// 1. links
	if lerr := linkFiles(fds, c.prelinked); lerr != nil {
		for n, d := range ri.Msgs {
			if d.GetOptions().GetMapEntry() && len(d.Field) != 2 {
				return &finding{"links/map-entry-lost-field", fmt.Sprintf("the filtered image does not link: map entry %s is left with %d field(s) because the map's value type was excluded; the map field should have been dropped: %v", n, len(d.Field), lerr)}, out, nil
			}
		}
		if len(fc.Include) == 0 {
			for _, f := range out.Files() {
				if f.IsImport() && !isWKT(f.Path()) && strings.HasPrefix(lerr.Error(), f.Path()+": ") {
					if ex.ContentFiles != nil && !ex.ContentFiles[f.Path()] {
						// Nothing that is kept references the file by type, option or payload: it is in the
						// image only because it declares a known extension of a kept message (a step that
						// FilterImage takes after the import files were walked).
						return &finding{"links/import-file-of-known-extension-not-walked", fmt.Sprintf("exclude-only filter: import file %s is in the filtered image only as the home of a known extension of a kept message; it is kept with all of its content, but that content was never walked (the import of the file it needs is gone): %v", f.Path(), lerr)}, out, nil
					}
					return &finding{"links/import-file-content-not-walked", fmt.Sprintf("exclude-only filter: import file %s is kept with content that was never walked (it is kept as is, but the import of the file it needs / the excluded type it references is gone): %v", f.Path(), lerr)}, out, nil
				}
			}
		}
		if strings.Contains(lerr.Error(), "has an invalid oneof index") {
			return &finding{"links/oneof-index-not-remapped", fmt.Sprintf("a oneof whose members all had excluded types was dropped, but the oneof_index of the fields of the following oneofs was not renumbered: %v", lerr)}, out, nil
		}
		msg := normErr(lerr)
		if i := strings.Index(msg, ": "); i >= 0 && strings.HasSuffix(msg[:i], ".proto") {
			msg = msg[i+2:]
		}
		return &finding{"links/other/" + msg, fmt.Sprintf("the filtered image does not link: %v", lerr)}, out, nil
	}
	st.inc("clause_links_checked")

	// 2. no excluded element, no reference to one
	for _, p := range ri.Order {
		if ex.Xc[p] {
			return &finding{"no-excluded/present/file", fmt.Sprintf("file %s of an excluded package is in the filtered image", p)}, out, nil
		}
	}
	for n, k := range ri.Names {
		if ex.Xc[n] {
			return &finding{"no-excluded/present/" + k.String(), fmt.Sprintf("excluded %s %s is in the filtered image", k, n)}, out, nil
		}
	}
	for _, r := range ri.Refs {
		if ex.Xc[r.To] {
			return &finding{"no-excluded/referenced/" + r.Kind, fmt.Sprintf("%s (%s) still references excluded %s", r.From, r.Kind, r.To)}, out, nil
		}
	}
	if len(fc.Exclude) > 0 {
		st.inc("clause_no_excluded_checked")
	}
	if ex.Contradictory != "" {
		// the property says nothing more about a contradictory filter that was accepted
		st.inc("contradictory_filter_accepted")
		return nil, nil, nil
	}

	// 3. closure (lower bound) and minimality (upper bound)
	for _, n := range sortedKeys(ex.L.Present) {
		if _, ok := ri.Names[n]; !ok {
			e := m.El[n]
			return &finding{"closure/missing/" + e.Kind.String() + "/" + ex.L.Why[n], fmt.Sprintf("%s %s is required (%s) but is not in the filtered image", e.Kind, n, ex.L.Why[n])}, out, nil
		}
	}
	for _, p := range sortedKeys(ex.L.Files) {
		if _, ok := ri.Files[p]; !ok {
			return &finding{"closure/missing/file", fmt.Sprintf("file %s is required but is not in the filtered image", p)}, out, nil
		}
	}
	var extra []string
	for n := range ri.Names {
		if !ex.U.Present[n] {
			extra = append(extra, n)
		}
	}
	if len(extra) > 0 {
		sort.Strings(extra)
		for _, n := range extra {
			if ex.DroppedExtExtendees[n] {
				return &finding{"minimal/extra/extendee-of-dropped-extension", fmt.Sprintf("message %s (and what it needs: %d elements in all) is in the filtered image only because it is the extendee of an extension that was itself dropped (its type is excluded); nothing that survives needs it, and filtering the result again removes it", n, len(extra))}, out, nil
			}
		}
		for _, kind := range droppedMemberKinds {
			for _, x := range ex.DroppedMemberOpts[kind] {
				if contains(extra, x) {
					return &finding{"minimal/extra/option-of-dropped-member", fmt.Sprintf("%s %s (with what it needs: %d elements in all, first %s) is in the filtered image only because it is the definition / the Any payload of a custom option set on a member (%s) that was itself dropped together with its excluded type; nothing that survives uses it", ri.Names[x], x, len(extra), extra[0], kind)}, out, nil
				}
			}
		}
		return &finding{"minimal/extra/" + ri.Names[extra[0]].String(), fmt.Sprintf("%s %s is in the filtered image although nothing that was asked for needs it", ri.Names[extra[0]], extra[0])}, out, nil
	}
	for _, p := range ri.Order {
		if !ex.U.Files[p] {
			return &finding{"minimal/extra/file", fmt.Sprintf("file %s is in the filtered image although nothing that was asked for needs it", p)}, out, nil
		}
	}
	st.inc("clause_closure_checked")
	for sh := range ex.L.AnyShapes {
		// non-vacuity of the Any clause per type URL shape: the payload was demanded and found
		st.inc("any_payload_url_" + sh + "_cases")
	}
	droppedUnused := false
	for _, kind := range droppedMemberKinds {
		// non-vacuity of "a dropped member keeps nothing alive": a member of this kind that carries a
		// custom option nothing else uses was dropped with its excluded type, and the definition of
		// the option is (rightly, see the minimal oracle above) not in the result
		for _, x := range ex.DroppedMemberOpts[kind] {
			if e := m.El[x]; e != nil && e.Kind == kExt && !ex.Xc[x] && !ex.U.Present[x] {
				st.inc("dropped_member_option_" + kind + "_cases")
				droppedUnused = true
				break
			}
		}
	}
	if droppedUnused && len(fc.Include) == 0 {
		st.inc("dropped_member_option_exclude_only_cases")
	}
	if !fc.AllowImported {
		// non-vacuity of "an included package fails as import only if ALL its files are imports":
		// the package was accepted without WithAllowIncludeOfImportedType and its content delivered
		for _, sh := range ex.PkgShapes {
			st.inc("include_package_" + sh + "_accepted_cases")
		}
	}
	if len(fc.Include) == 0 {
		// non-vacuity of "a kept import file is kept with everything its content needs": how many
		// generations of import files the case needed (>= 3: a file needed only by the unreferenced
		// content of a file that is itself needed only by unreferenced content), result linked
		st.inc(fmt.Sprintf("exclude_only_import_generations_%d_cases", min(ex.ImportGenerations, 6)))
	}
	if ex.Exact {
		st.inc("closure_exact_cases")
	}
	if len(ri.Names) < len(m.El) {
		st.inc("filter_removed_something")
	}

	// 4. surviving elements unchanged
	shell := map[string]bool{}
	for n, d := range ri.Msgs {
		e := m.El[n]
		if e == nil {
			return &finding{"unchanged/unknown-element", fmt.Sprintf("message %s does not exist in the original image", n)}, out, nil
		}
		if !e.HasMembers {
			continue
		}
		isShell := len(d.Field) == 0 && len(d.OneofDecl) == 0 && len(d.ExtensionRange) == 0 && len(d.ReservedRange) == 0 && len(d.ReservedName) == 0
		if isShell && !ex.L.Full[n] {
			shell[n] = true
		}
		if !isShell && !ex.U.Full[n] {
			return &finding{"minimal/unstripped-namespace-message", fmt.Sprintf("message %s is only needed as the namespace of a nested declaration but keeps its members", n)}, out, nil
		}
	}
	if len(shell) > 0 {
		st.inc("shell_cases")
	}
	eb := &expectedBuilder{ex: ex, ri: ri, shell: shell}
	for _, f := range out.Files() {
		p := f.Path()
		orig := c.bi.pristine[p]
		if orig == nil {
			return &finding{"unchanged/unknown-file", fmt.Sprintf("file %s does not exist in the original image", p)}, out, nil
		}
		if f.IsImport() != c.bi.isImport[p] {
			return &finding{"unchanged/is-import-flag", fmt.Sprintf("file %s changed its import flag", p)}, out, nil
		}
		if in := c.img.GetFile(p); in != nil && (in.ExternalPath() != f.ExternalPath() || in.LocalPath() != f.LocalPath() || in.IsSyntaxUnspecified() != f.IsSyntaxUnspecified() || in.CommitID() != f.CommitID()) {
			return &finding{"unchanged/image-file-attributes", fmt.Sprintf("file %s changed its external path / local path / syntax-unspecified flag / commit", p)}, out, nil
		}
		act := f.FileDescriptorProto()
		if _, same := c.prelinked[act]; same {
			// Untouched descriptor of the (verified unmodified / WKT) input: equal by identity. For
			// it to be right nothing of it may be excluded, which clause 2 has established.
			if isWKT(p) {
				continue
			}
		}
		exp := eb.file(orig)
		a2 := shallow(act)
		a2.Dependency, a2.PublicDependency, a2.WeakDependency, a2.SourceCodeInfo = nil, nil, nil, nil
		if !proto.Equal(exp, a2) {
			sig, what := diffFile(exp, a2)
			return &finding{"unchanged/" + sig, what}, out, nil
		}
	}
	st.inc("clause_unchanged_checked")
	if eb.dropped.fields > 0 {
		st.inc("member_fields_dropped_cases")
	}
	if eb.dropped.oneofs > 0 {
		st.inc("oneofs_dropped_cases")
	}

	// 5. dependency lists
	for _, f := range out.Files() {
		p := f.Path()
		act, orig := f.FileDescriptorProto(), c.bi.pristine[p]
		seen := map[string]bool{}
		for _, d := range act.Dependency {
			if seen[d] {
				return &finding{"deps/duplicate", fmt.Sprintf("%s imports %s twice", p, d)}, out, nil
			}
			seen[d] = true
			if !m.TransDeps[p][d] {
				return &finding{"deps/foreign", fmt.Sprintf("%s imports %s which it did not (transitively) import before", p, d)}, out, nil
			}
		}
		for kindName, pair := range map[string][2][]int32{"public": {act.PublicDependency, orig.PublicDependency}, "weak": {act.WeakDependency, orig.WeakDependency}} {
			was := map[string]bool{}
			for _, i := range pair[1] {
				was[orig.Dependency[i]] = true
			}
			for _, i := range pair[0] {
				if int(i) >= len(act.Dependency) || !was[act.Dependency[i]] {
					return &finding{"deps/" + kindName + "-index", fmt.Sprintf("%s: %s dependency index %d does not point at a dependency that was %s in the original (dependencies now %v)", p, kindName, i, kindName, act.Dependency)}, out, nil
				}
			}
		}
		if len(orig.PublicDependency) > 0 || len(orig.Dependency) != len(act.Dependency) {
			st.inc("dependency_lists_rewritten")
		}
	}

	// 6. comments / source info
	sci := &sciStats{}
	for _, f := range out.Files() {
		p := f.Path()
		act, orig := f.FileDescriptorProto(), c.bi.pristine[p]
		if _, same := c.prelinked[act]; same && isWKT(p) {
			continue
		}
		survives := func(step string) bool {
			switch {
			case strings.HasPrefix(step, "dep:"):
				return contains(act.Dependency, step[4:])
			case strings.HasPrefix(step, "public:"):
				for _, i := range act.PublicDependency {
					if int(i) < len(act.Dependency) && act.Dependency[i] == step[7:] {
						return true
					}
				}
				return false
			case strings.HasPrefix(step, "weak:"):
				for _, i := range act.WeakDependency {
					if int(i) < len(act.Dependency) && act.Dependency[i] == step[5:] {
						return true
					}
				}
				return false
			}
			if i := strings.Index(step, "/field:"); i >= 0 {
				d := ri.Msgs[step[:i]]
				for _, fd := range d.GetField() {
					if fd.GetName() == step[i+7:] {
						return true
					}
				}
				return false
			}
			if i := strings.Index(step, "/oneof:"); i >= 0 {
				d := ri.Msgs[step[:i]]
				for _, o := range d.GetOneofDecl() {
					if o.GetName() == step[i+7:] {
						return true
					}
				}
				return false
			}
			_, ok := ri.Names[step]
			return ok
		}
		if fnd := checkSourceInfo(orig, act, c.bi.sci[p], survives, func(n string) bool { return shell[n] }, sci); fnd != nil {
			return fnd, out, nil
		}
	}
	st.inc("clause_comments_checked")
	st.add("locations_compared", sci.Compared)
	st.add("locations_with_comments_compared", sci.Comments)
	st.add("locations_moved", sci.Moved)

	// 7. idempotence: the same filter again, restricted to the names that still exist
	missingInclude := false
	for _, n := range fc.Include {
		if _, ok := ri.Names[n]; !ok {
			if _, isPkg := m.Pkgs[n]; !isPkg {
				missingInclude = true
			}
		}
	}
	if !ex.Exact {
		st.inc("idempotence_skipped_order_dependent")
	}
	if len(fc.Include) > 0 && !missingInclude && ex.Exact {
		var exc2 []string
		for _, n := range fc.Exclude {
			if _, ok := ri.Names[n]; ok {
				exc2 = append(exc2, n)
			}
		}
		again, err2, p2 := safeFilter(out, filterOptions(fc, fc.Include, exc2))
		switch {
		case p2 != nil:
			return &finding{"idempotent/panic", fmt.Sprintf("filtering the filtered image again panicked: %v", p2)}, out, nil
		case err2 != nil:
			for _, f := range out.Files() {
				fd := f.FileDescriptorProto()
				if len(fd.MessageType)+len(fd.EnumType)+len(fd.Service)+len(fd.Extension) == 0 && strings.Contains(err2.Error(), fmt.Sprintf("missing %q", f.Path())) {
					return &finding{"no-error/file-without-types/missing-file", fmt.Sprintf("the filtered image contains file %s which has no types left; filtering it again with the same include names fails on that file: %v", f.Path(), err2)}, out, nil
				}
			}
			return &finding{"idempotent/error/" + normErr(err2), fmt.Sprintf("filtering the filtered image again with the same include names failed: %v", err2)}, out, nil
		}
		if d := diffImages(out, again); d != "" {
			return &finding{"idempotent/differs/" + strings.SplitN(d, ":", 2)[0], "filtering the filtered image again changed it: " + d + nameDelta(out, again)}, out, nil
		}
		st.inc("clause_idempotence_checked")
	}
	return nil, out, nil
}

// nameDelta lists the elements that a second filtering removed or added.
func nameDelta(a, b bufimage.Image) string {
	names := func(img bufimage.Image) map[string]kind {
		var fds []*descriptorpb.FileDescriptorProto
		for _, f := range img.Files() {
			fds = append(fds, f.FileDescriptorProto())
		}
		ri, _ := indexResult(fds)
		return ri.Names
	}
	an, bn := names(a), names(b)
	var gone, added []string
	for n := range an {
		if _, ok := bn[n]; !ok {
			gone = append(gone, n)
		}
	}
	for n := range bn {
		if _, ok := an[n]; !ok {
			added = append(added, n)
		}
	}
	sort.Strings(gone)
	sort.Strings(added)
	return fmt.Sprintf(" (removed by the second pass: %v; added: %v)", gone, added)
}

// diffImages compares two images file by file ("" if equal); the text before the first ':' is a stable class.
func diffImages(a, b bufimage.Image) string {
	af, bf := a.Files(), b.Files()
	if len(af) != len(bf) {
		return fmt.Sprintf("file-count: %d vs %d files", len(af), len(bf))
	}
	for i := range af {
		if af[i].Path() != bf[i].Path() {
			return fmt.Sprintf("file-order: file #%d is %s vs %s", i, af[i].Path(), bf[i].Path())
		}
		if af[i].IsImport() != bf[i].IsImport() {
			return fmt.Sprintf("import-flag: %s", af[i].Path())
		}
		x, y := af[i].FileDescriptorProto(), bf[i].FileDescriptorProto()
		if x == y {
			continue
		}
		if !proto.Equal(x, y) {
			x2, y2 := shallow(x), shallow(y)
			x2.SourceCodeInfo, y2.SourceCodeInfo = nil, nil
			if proto.Equal(x2, y2) {
				return fmt.Sprintf("source-info: %s differs only in source code info", af[i].Path())
			}
			x2.Dependency, x2.PublicDependency, x2.WeakDependency = nil, nil, nil
			y2.Dependency, y2.PublicDependency, y2.WeakDependency = nil, nil, nil
			if proto.Equal(x2, y2) {
				return fmt.Sprintf("dependencies: %s imports %v vs %v", af[i].Path(), x.Dependency, y.Dependency)
			}
			return fmt.Sprintf("descriptor: %s differs", af[i].Path())
		}
	}
	return ""
}

// evalInPlace runs the same filter with WithMutateInPlace on a private deep copy and compares with the copy-mode outcome.
func (c *itemCtx) evalInPlace(fc *filterCase, copyOut bufimage.Image, copyErr error) *finding {
	private, err := bufimage.CloneImage(c.bi.master)
	if err != nil {
		return nil
	}
	fc2 := *fc
	fc2.InPlace = true
	out, ierr, panicked := safeFilter(private, filterOptions(&fc2, fc.Include, fc.Exclude))
	if panicked != nil {
		return &finding{"in-place/panic", fmt.Sprintf("FilterImage(WithMutateInPlace) panicked: %v", panicked)}
	}
	if (ierr != nil) != (copyErr != nil) {
		return &finding{"in-place/error-parity", fmt.Sprintf("copy mode error: %v; in-place error: %v", copyErr, ierr)}
	}
	if ierr != nil || copyOut == nil {
		return nil
	}
	if d := diffImages(copyOut, out); d != "" {
		return &finding{"in-place/differs/" + strings.SplitN(d, ":", 2)[0], "WithMutateInPlace gives a different image than copy mode: " + d}
	}
	c.st.inc("clause_in_place_compared")
	return nil
}

// ---- enumeration ----

type workItem struct {
	bi   *builtImage
	inc  []int
	excs [][]int
	grid []filterCase // option combinations (names empty)
	inPl bool
}

func optionGrid(bi *builtImage, full bool, incHasImport bool) []filterCase {
	var grid []filterCase
	customs, knowns := []bool{false}, []bool{false}
	if full && bi.hasExt {
		customs, knowns = []bool{false, true}, []bool{false, true}
	}
	allows := []bool{false}
	if incHasImport {
		allows = []bool{false, true}
	}
	for _, nc := range customs {
		for _, nk := range knowns {
			for _, al := range allows {
				grid = append(grid, filterCase{NoCustom: nc, NoKnown: nk, AllowImported: al})
			}
		}
	}
	return grid
}

func pick(names []string, idx []int) []string {
	out := make([]string, len(idx))
	for i, j := range idx {
		out[i] = names[j]
	}
	return out
}

func run(r *evid.Run) {
	ctx := context.Background()
	r.Rule("case = (catalogue image, include set, exclude set, custom-options kept/dropped, known-extensions kept/dropped, allow-imported, copy/in-place); include and exclude sets are ALL subsets of size <= 2 (thorough: full option grid except (2,2) which uses default options; quick: <= 1 each with the full option grid, plus every (<=1, 2) and (2, <=1) combination with default options; plus, per image, every not-existing / not-filterable name alone and next to every existing name) of ALL names of the image (packages, messages, nested messages, map entries, groups, enums, services, methods, extensions, selected well-known names). A case is distinct non-trivial when its filter (image, include, exclude, options) is not contradictory, FilterImage removed at least one element, and all oracles ran on the result")
	r.Assume("the second application for idempotence re-uses the include names and only those exclude names that still exist in the filtered image (an exclude name that was removed makes the second call fail with 'not found' by documented contract)")
	r.Assume("option VALUES set on surviving descriptors are not counted as references to an excluded custom option or Any payload type (they are data, and stay byte-identical)")
	r.Assume("known extensions are demanded only for messages that are included or referenced by type (the lower bound of the model); extensions pulled in transitively through other extensions are allowed but not demanded, because the implementation decides them by map iteration order")
	r.Assume("images are built in-process by buf itself from .proto text; descriptor-level shapes the compiler never emits are out of scope")

	var images []*builtImage
	var covers []string
	for _, spec := range catalogue {
		bi, err := buildImage(ctx, spec)
		if err != nil {
			r.Incomplete(fmt.Sprintf("cannot build catalogue image %s: %v", spec.Name, err))
			return
		}
		images = append(images, bi)
		covers = append(covers, spec.Covers...)
	}
	sort.Strings(covers)
	r.Set("images", len(images))
	r.Set("reference_kinds_covered", covers)
	universe := map[string]int{}
	kinds := map[string]int{}
	for _, bi := range images {
		universe[bi.spec.Name] = len(bi.names)
		for _, n := range bi.names {
			if e, ok := bi.model.El[n]; ok {
				kinds[e.Kind.String()]++
			} else {
				kinds["package"]++
			}
		}
	}
	r.Set("filter_universe_size_per_image", universe)
	r.Set("filter_universe_by_kind", kinds)
	maxSet := 2
	r.Set("max_include_set", maxSet)
	r.Set("max_exclude_set", maxSet)

	var items []workItem
	for _, bi := range images {
		n := len(bi.names)
		subsets := enum.Subsets(n, 0, 2)
		small := enum.Subsets(n, 0, 1)
		pairs := enum.Subsets(n, 2, 2)
		hasImp := func(inc []int) bool {
			for _, i := range inc {
				if bi.importNm[bi.names[i]] {
					return true
				}
			}
			return false
		}
		if r.Quick() {
			for _, inc := range small {
				items = append(items, workItem{bi: bi, inc: inc, excs: small, grid: optionGrid(bi, true, hasImp(inc)), inPl: true})
				items = append(items, workItem{bi: bi, inc: inc, excs: pairs, grid: optionGrid(bi, false, hasImp(inc)), inPl: true})
			}
			// (2, <=1) with default options, chunked to keep items balanced
			for lo := 0; lo < len(pairs); lo += 8 {
				for _, inc := range pairs[lo:min(lo+8, len(pairs))] {
					items = append(items, workItem{bi: bi, inc: inc, excs: small, grid: optionGrid(bi, false, hasImp(inc)), inPl: true})
				}
			}
		} else {
			for _, inc := range subsets {
				if len(inc) < 2 {
					items = append(items, workItem{bi: bi, inc: inc, excs: subsets, grid: optionGrid(bi, true, hasImp(inc)), inPl: true})
					continue
				}
				// (2, <=1) with the full option grid, (2, 2) with default options
				items = append(items, workItem{bi: bi, inc: inc, excs: small, grid: optionGrid(bi, true, hasImp(inc)), inPl: true})
				items = append(items, workItem{bi: bi, inc: inc, excs: pairs, grid: optionGrid(bi, false, hasImp(inc)), inPl: true})
			}
		}
	}
	r.Set("work_items", len(items))

	// Names that do not exist as filterable elements (unknown names, and names of members that
	// cannot be filtered: regular fields, oneofs, enum values): the documented contract is an error
	// wrapping ErrImageFilterTypeNotFound, alone or next to an existing name, as include or exclude.
	for _, bi := range images {
		bogus := []string{"no.such.Type", bi.names[len(bi.names)-1] + "x"}
		for _, e := range bi.model.El {
			if e.Kind == kMsg && len(e.Fields) > 0 && !isWKT(e.File) {
				bogus = append(bogus, e.Name+"."+e.Fields[0].Name)
			}
		}
		sort.Strings(bogus)
		c, err := newItemCtx(bi, &stats{m: map[string]int{}})
		if err != nil {
			r.Incomplete(err.Error())
			continue
		}
		for _, b := range bogus {
			for _, other := range append([]string{""}, bi.names...) {
				for _, asInclude := range []bool{true, false} {
					fc := filterCase{Image: bi.spec.Name}
					if asInclude {
						fc.Include = []string{b}
						if other != "" {
							fc.Exclude = []string{other}
						}
					} else {
						fc.Exclude = []string{b}
						if other != "" {
							fc.Include = []string{other}
						}
					}
					if other == "" && bi.model.isName(b) {
						continue
					}
					r.Eval(1)
					if fnd, _, _, _ := c.evalCase(&fc); fnd != nil {
						r.Violate(fnd.Sig, fnd.What, fc)
					} else {
						r.Add("clause_not_found_checked", 1)
					}
				}
			}
		}
	}

	var mu sync.Mutex
	total := map[string]int{}
	// Violations are collected first and reported at the end, so that the case written to the
	// replay file is the smallest one of its signature and not whichever goroutine came first.
	type vrec struct {
		count int
		what  string
		fc    filterCase
		key   string
	}
	collected := map[string]*vrec{}
	record := func(f *finding, fc filterCase) {
		b, _ := json.Marshal(fc)
		key := fmt.Sprintf("%02d|%s", len(fc.Include)+len(fc.Exclude), b)
		mu.Lock()
		defer mu.Unlock()
		v := collected[f.Sig]
		if v == nil {
			v = &vrec{key: key, what: f.What, fc: fc}
			collected[f.Sig] = v
		}
		v.count++
		if key < v.key {
			v.key, v.what, v.fc = key, f.What, fc
		}
	}
	r.ParallelFor(len(items), 0, func(i int) {
		it := items[i]
		st := &stats{m: map[string]int{}}
		c, err := newItemCtx(it.bi, st)
		if err != nil {
			r.Incomplete(fmt.Sprintf("cannot prepare image %s: %v", it.bi.spec.Name, err))
			return
		}
		inc := pick(it.bi.names, it.inc)
		caseNo := 0
		for _, xi := range it.excs {
			if len(it.inc) == 0 && len(xi) == 0 {
				continue // no filter at all
			}
			exc := pick(it.bi.names, xi)
			for _, g := range it.grid {
				fc := g
				fc.Image, fc.Include, fc.Exclude = it.bi.spec.Name, inc, exc
				r.Eval(1)
				caseNo++
				fnd, out, ferr, ex := c.evalCase(&fc)
				if fnd != nil {
					record(fnd, fc)
					if fnd.Sig == "in-place/copy-mode-mutated-input" {
						if c, err = newItemCtx(it.bi, st); err != nil {
							return
						}
					}
				} else if out != nil {
					nontrivial := false
					if len(out.Files()) != len(it.bi.order) {
						nontrivial = true
					} else {
						for _, f := range out.Files() {
							if _, same := c.prelinked[f.FileDescriptorProto()]; !same {
								nontrivial = true
							}
						}
					}
					if nontrivial {
						b, _ := json.Marshal(fc)
						r.Distinct(string(b))
					}
				}
				r.SampleEvery(i*131+caseNo, 4999, func() any { return fc })
				if it.inPl && fnd == nil && ex.Contradictory == "" && (!r.Quick() || !(fc.NoCustom || fc.NoKnown)) {
					if ex.MustFail == "" && !ex.Exact && ferr == nil {
						st.inc("in_place_skipped_order_dependent")
						continue
					}
					r.Eval(1)
					if f2 := c.evalInPlace(&fc, out, ferr); f2 != nil {
						fc2 := fc
						fc2.InPlace = true
						record(f2, fc2)
					}
				}
			}
		}
		// the well-known files of the shared input were never compared per case; do it once now
		for _, f := range c.img.Files() {
			if isWKT(f.Path()) && !proto.Equal(f.FileDescriptorProto(), it.bi.pristine[f.Path()]) {
				record(&finding{"in-place/copy-mode-mutated-input", fmt.Sprintf("FilterImage without WithMutateInPlace modified the input file %s (image %s, include %v)", f.Path(), it.bi.spec.Name, inc)}, filterCase{Image: it.bi.spec.Name, Include: inc})
			}
		}
		mu.Lock()
		for k, v := range st.m {
			total[k] += v
		}
		mu.Unlock()
	})
	var sigs []string
	for sig := range collected {
		sigs = append(sigs, sig)
	}
	sort.Strings(sigs)
	for _, sig := range sigs {
		v := collected[sig]
		for k := 0; k < v.count; k++ {
			r.Violate(sig, v.what, v.fc)
		}
	}
	for k, v := range total {
		r.Set(k, v)
	}
	for _, clause := range []string{"clause_links_checked", "clause_closure_checked", "clause_no_excluded_checked", "clause_unchanged_checked", "clause_comments_checked", "clause_no_error_checked", "clause_idempotence_checked", "clause_in_place_compared", "clause_contradictory_filter_rejected", "clause_must_fail", "member_fields_dropped_cases", "oneofs_dropped_cases", "shell_cases", "dependency_lists_rewritten", "locations_moved",
		"any_payload_url_default_cases", "any_payload_url_single-segment_cases", "any_payload_url_path_cases", "any_payload_url_scheme_cases", "any_payload_url_empty-host_cases",
		"include_package_all-target_accepted_cases", "include_package_mixed-import-first-and-last_accepted_cases", "include_package_mixed-import-last_accepted_cases", "include_package_all-import_rejected_cases",
		"dropped_member_option_plain-field_cases", "dropped_member_option_map-field-message-value_cases", "dropped_member_option_map-field-enum-value_cases", "dropped_member_option_oneof_cases", "dropped_member_option_extension_cases", "dropped_member_option_method_cases", "dropped_member_option_exclude_only_cases",
		"exclude_only_import_generations_2_cases", "exclude_only_import_generations_3_cases", "exclude_only_import_generations_4_cases", "exclude_only_import_generations_5_cases", "exclude_only_import_generations_6_cases"} {
		if total[clause] == 0 && !r.Expired() {
			r.Incomplete("clause never exercised: " + clause)
		}
	}
}

// replay re-runs one recorded case.
func replay(raw json.RawMessage) (string, bool) {
	var fc filterCase
	if err := json.Unmarshal(raw, &fc); err != nil {
		return err.Error(), false
	}
	for _, spec := range catalogue {
		if spec.Name != fc.Image {
			continue
		}
		bi, err := buildImage(context.Background(), spec)
		if err != nil {
			return err.Error(), false
		}
		c, err := newItemCtx(bi, &stats{m: map[string]int{}})
		if err != nil {
			return err.Error(), false
		}
		base := fc
		base.InPlace = false
		fnd, out, ferr, _ := c.evalCase(&base)
		if fnd == nil && fc.InPlace {
			fnd = c.evalInPlace(&base, out, ferr)
		}
		if fnd != nil {
			return fnd.Sig + ": " + fnd.What, true
		}
		return fmt.Sprintf("all oracles hold (error: %v)", ferr), false
	}
	return "unknown image " + fc.Image, false
}
