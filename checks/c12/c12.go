// Package c12 is the check for property C12 (see DESIGN.md section 3).
package c12
