package c12

import (
	"fmt"
	"regexp"
	"slices"
	"sort"
	"strconv"
	"strings"

	"google.golang.org/protobuf/proto"
	"google.golang.org/protobuf/reflect/protodesc"
	"google.golang.org/protobuf/reflect/protoreflect"
	"google.golang.org/protobuf/reflect/protoregistry"
	"google.golang.org/protobuf/types/descriptorpb"
)

// finding is one failed oracle.
type finding struct {
	Sig  string
	What string
}

// resultIndex is what the filtered image contains, read straight off its descriptors.
type resultIndex struct {
	Names map[string]kind   // element name -> kind
	File  map[string]string // element name -> file
	Msgs  map[string]*descriptorpb.DescriptorProto
	Refs  []ref
	Files map[string]*descriptorpb.FileDescriptorProto
	Order []string
}

type ref struct {
	From, To, Kind, File string
}

func indexResult(fds []*descriptorpb.FileDescriptorProto) (*resultIndex, *finding) {
	ri := &resultIndex{Names: map[string]kind{}, File: map[string]string{}, Msgs: map[string]*descriptorpb.DescriptorProto{}, Files: map[string]*descriptorpb.FileDescriptorProto{}}
	var bad *finding
	note := func(name string, k kind, file string) {
		if _, dup := ri.Names[name]; dup && bad == nil {
			bad = &finding{"shape/duplicate-element", fmt.Sprintf("element %q occurs twice in the filtered image", name)}
		}
		ri.Names[name] = k
		ri.File[name] = file
	}
	var walkMsg func(file, prefix string, d *descriptorpb.DescriptorProto)
	walkExt := func(file, prefix string, x *descriptorpb.FieldDescriptorProto) {
		if x == nil {
			bad = &finding{"shape/nil-entry", "nil extension entry in a filtered descriptor list"}
			return
		}
		n := prefix + x.GetName()
		note(n, kExt, file)
		ri.Refs = append(ri.Refs, ref{n, trimDot(x.GetExtendee()), "extendee", file})
		if x.GetTypeName() != "" {
			ri.Refs = append(ri.Refs, ref{n, trimDot(x.GetTypeName()), "extension-type", file})
		}
	}
	walkMsg = func(file, prefix string, d *descriptorpb.DescriptorProto) {
		if d == nil {
			bad = &finding{"shape/nil-entry", "nil message entry in a filtered descriptor list"}
			return
		}
		n := prefix + d.GetName()
		note(n, kMsg, file)
		ri.Msgs[n] = d
		for _, f := range d.Field {
			if f == nil {
				bad = &finding{"shape/nil-entry", "nil field entry in a filtered descriptor list"}
				continue
			}
			if f.GetTypeName() != "" {
				ri.Refs = append(ri.Refs, ref{n + "." + f.GetName(), trimDot(f.GetTypeName()), "field-type", file})
			}
		}
		for _, c := range d.NestedType {
			walkMsg(file, n+".", c)
		}
		for _, c := range d.EnumType {
			if c == nil {
				bad = &finding{"shape/nil-entry", "nil enum entry in a filtered descriptor list"}
				continue
			}
			note(n+"."+c.GetName(), kEnum, file)
		}
		for _, c := range d.Extension {
			walkExt(file, n+".", c)
		}
	}
	for _, fd := range fds {
		path := fd.GetName()
		if _, dup := ri.Files[path]; dup && bad == nil {
			bad = &finding{"shape/duplicate-file", fmt.Sprintf("file %q occurs twice in the filtered image", path)}
		}
		ri.Files[path] = fd
		ri.Order = append(ri.Order, path)
		prefix := ""
		if fd.GetPackage() != "" {
			prefix = fd.GetPackage() + "."
		}
		for _, d := range fd.MessageType {
			walkMsg(path, prefix, d)
		}
		for _, d := range fd.EnumType {
			if d == nil {
				bad = &finding{"shape/nil-entry", "nil enum entry in a filtered descriptor list"}
				continue
			}
			note(prefix+d.GetName(), kEnum, path)
		}
		for _, s := range fd.Service {
			if s == nil {
				bad = &finding{"shape/nil-entry", "nil service entry in a filtered descriptor list"}
				continue
			}
			sn := prefix + s.GetName()
			note(sn, kSvc, path)
			for _, md := range s.Method {
				if md == nil {
					bad = &finding{"shape/nil-entry", "nil method entry in a filtered descriptor list"}
					continue
				}
				mn := sn + "." + md.GetName()
				note(mn, kMethod, path)
				ri.Refs = append(ri.Refs, ref{mn, trimDot(md.GetInputType()), "method-input", path}, ref{mn, trimDot(md.GetOutputType()), "method-output", path})
			}
		}
		for _, x := range fd.Extension {
			walkExt(path, prefix, x)
		}
	}
	return ri, bad
}

var quoted = regexp.MustCompile(`"[^"]*"`)

func normErr(err error) string {
	s := quoted.ReplaceAllString(err.Error(), "<q>")
	if len(s) > 120 {
		s = s[:120]
	}
	return s
}

// linkFiles links the files in image order: every dependency must already be registered and every
// reference must resolve (AllowUnresolvable is false). prelinked holds descriptors of unchanged
// files that were linked once for the pristine image.
func linkFiles(fds []*descriptorpb.FileDescriptorProto, prelinked map[*descriptorpb.FileDescriptorProto]protoreflect.FileDescriptor) error {
	reg := &protoregistry.Files{}
	for _, fd := range fds {
		if pre, ok := prelinked[fd]; ok {
			// still demand that its dependencies are there, in order
			for _, dep := range fd.Dependency {
				if _, err := reg.FindFileByPath(dep); err != nil {
					return fmt.Errorf("%s: dependency %q is not an earlier file of the image", fd.GetName(), dep)
				}
			}
			if err := reg.RegisterFile(pre); err != nil {
				return fmt.Errorf("%s: %w", fd.GetName(), err)
			}
			continue
		}
		f, err := protodesc.NewFile(fd, reg)
		if err != nil {
			return fmt.Errorf("%s: %w", fd.GetName(), err)
		}
		if err := reg.RegisterFile(f); err != nil {
			return fmt.Errorf("%s: %w", fd.GetName(), err)
		}
	}
	return nil
}

// shallow returns a copy of msg that shares all field values with it.
func shallow[T proto.Message](msg T) T {
	src := msg.ProtoReflect()
	dst := src.New()
	src.Range(func(fd protoreflect.FieldDescriptor, v protoreflect.Value) bool {
		dst.Set(fd, v)
		return true
	})
	dst.SetUnknown(src.GetUnknown())
	return dst.Interface().(T)
}

// expectedBuilder rebuilds, from the pristine descriptor, what a surviving element must look like.
type expectedBuilder struct {
	ex      *expectation
	ri      *resultIndex
	shell   map[string]bool // messages that the result holds as namespace-only shells (and may)
	dropped struct{ fields, oneofs int }
}

func (b *expectedBuilder) msg(prefix string, d *descriptorpb.DescriptorProto) *descriptorpb.DescriptorProto {
	name := prefix + d.GetName()
	out := shallow(d)
	if b.shell[name] {
		out.Field, out.OneofDecl, out.ExtensionRange, out.ReservedRange, out.ReservedName = nil, nil, nil, nil, nil
	} else {
		kept := make([]int, len(d.OneofDecl))
		var fields []*descriptorpb.FieldDescriptorProto
		for _, f := range d.Field {
			if f.GetTypeName() != "" && b.ex.EffExcl(trimDot(f.GetTypeName())) {
				b.dropped.fields++
				continue
			}
			fields = append(fields, f)
			if f.OneofIndex != nil {
				kept[f.GetOneofIndex()]++
			}
		}
		newIndex := make([]int32, len(d.OneofDecl))
		var oneofs []*descriptorpb.OneofDescriptorProto
		for i, o := range d.OneofDecl {
			if kept[i] == 0 {
				newIndex[i] = -1
				b.dropped.oneofs++
				continue
			}
			newIndex[i] = int32(len(oneofs))
			oneofs = append(oneofs, o)
		}
		for i, f := range fields {
			if f.OneofIndex != nil && newIndex[f.GetOneofIndex()] != f.GetOneofIndex() {
				c := shallow(f)
				c.OneofIndex = proto.Int32(newIndex[f.GetOneofIndex()])
				fields[i] = c
			}
		}
		out.Field, out.OneofDecl = fields, oneofs
	}
	out.NestedType = nil
	for _, c := range d.NestedType {
		if _, ok := b.ri.Names[name+"."+c.GetName()]; ok {
			out.NestedType = append(out.NestedType, b.msg(name+".", c))
		}
	}
	out.EnumType = nil
	for _, c := range d.EnumType {
		if _, ok := b.ri.Names[name+"."+c.GetName()]; ok {
			out.EnumType = append(out.EnumType, c)
		}
	}
	out.Extension = nil
	for _, c := range d.Extension {
		if _, ok := b.ri.Names[name+"."+c.GetName()]; ok {
			out.Extension = append(out.Extension, c)
		}
	}
	return out
}

func (b *expectedBuilder) file(fd *descriptorpb.FileDescriptorProto) *descriptorpb.FileDescriptorProto {
	out := shallow(fd)
	prefix := ""
	if fd.GetPackage() != "" {
		prefix = fd.GetPackage() + "."
	}
	out.MessageType, out.EnumType, out.Service, out.Extension = nil, nil, nil, nil
	for _, d := range fd.MessageType {
		if _, ok := b.ri.Names[prefix+d.GetName()]; ok {
			out.MessageType = append(out.MessageType, b.msg(prefix, d))
		}
	}
	for _, d := range fd.EnumType {
		if _, ok := b.ri.Names[prefix+d.GetName()]; ok {
			out.EnumType = append(out.EnumType, d)
		}
	}
	for _, s := range fd.Service {
		sn := prefix + s.GetName()
		if _, ok := b.ri.Names[sn]; !ok {
			continue
		}
		var methods []*descriptorpb.MethodDescriptorProto
		changed := false
		for _, md := range s.Method {
			if _, ok := b.ri.Names[sn+"."+md.GetName()]; ok {
				methods = append(methods, md)
			} else {
				changed = true
			}
		}
		if changed {
			c := shallow(s)
			c.Method = methods
			s = c
		}
		out.Service = append(out.Service, s)
	}
	for _, x := range fd.Extension {
		if _, ok := b.ri.Names[prefix+x.GetName()]; ok {
			out.Extension = append(out.Extension, x)
		}
	}
	out.Dependency, out.PublicDependency, out.WeakDependency, out.SourceCodeInfo = nil, nil, nil, nil
	return out
}

// diffMessage names the first aspect in which two message descriptors differ.
func diffMessage(name string, exp, act *descriptorpb.DescriptorProto) (string, string) {
	if len(exp.Field) != len(act.Field) {
		return "message/field-set", fmt.Sprintf("message %s: %d fields expected %s, got %s", name, len(exp.Field), fieldNames(exp.Field), fieldNames(act.Field))
	}
	for i := range exp.Field {
		if exp.Field[i].GetName() != act.Field[i].GetName() {
			return "message/field-set", fmt.Sprintf("message %s: fields expected %s, got %s", name, fieldNames(exp.Field), fieldNames(act.Field))
		}
		if exp.Field[i].OneofIndex != nil && (act.Field[i].OneofIndex == nil || exp.Field[i].GetOneofIndex() != act.Field[i].GetOneofIndex()) {
			return "message/field-oneof-index", fmt.Sprintf("message %s: field %s must belong to oneof #%d of the filtered message, but has oneof_index %v", name, exp.Field[i].GetName(), exp.Field[i].GetOneofIndex(), act.Field[i].OneofIndex)
		}
		if !proto.Equal(exp.Field[i], act.Field[i]) {
			return "message/field-changed", fmt.Sprintf("message %s: field %s changed: expected {%v}, got {%v}", name, exp.Field[i].GetName(), exp.Field[i], act.Field[i])
		}
	}
	if len(exp.OneofDecl) != len(act.OneofDecl) {
		return "message/oneof-set", fmt.Sprintf("message %s: %d oneofs expected, got %d", name, len(exp.OneofDecl), len(act.OneofDecl))
	}
	for i := range exp.OneofDecl {
		if !proto.Equal(exp.OneofDecl[i], act.OneofDecl[i]) {
			return "message/oneof-changed", fmt.Sprintf("message %s: oneof #%d expected {%v}, got {%v}", name, i, exp.OneofDecl[i], act.OneofDecl[i])
		}
	}
	if !proto.Equal(exp.Options, act.Options) {
		return "message/options", fmt.Sprintf("message %s: options changed", name)
	}
	if len(exp.NestedType) == len(act.NestedType) {
		for i := range exp.NestedType {
			if !proto.Equal(exp.NestedType[i], act.NestedType[i]) {
				if exp.NestedType[i].GetName() != act.NestedType[i].GetName() {
					return "message/nested-order", fmt.Sprintf("message %s: nested messages reordered", name)
				}
				return diffMessage(name+"."+exp.NestedType[i].GetName(), exp.NestedType[i], act.NestedType[i])
			}
		}
	}
	e2, a2 := shallow(exp), shallow(act)
	e2.Field, e2.OneofDecl, e2.Options, e2.NestedType = nil, nil, nil, nil
	a2.Field, a2.OneofDecl, a2.Options, a2.NestedType = nil, nil, nil, nil
	if !proto.Equal(e2, a2) {
		return "message/other", fmt.Sprintf("message %s: expected {%v}, got {%v}", name, e2, a2)
	}
	return "message/nested", fmt.Sprintf("message %s: nested declarations differ", name)
}

func fieldNames(fs []*descriptorpb.FieldDescriptorProto) string {
	var s []string
	for _, f := range fs {
		s = append(s, f.GetName())
	}
	return "[" + strings.Join(s, " ") + "]"
}

func diffFile(exp, act *descriptorpb.FileDescriptorProto) (string, string) {
	path := exp.GetName()
	if len(exp.MessageType) == len(act.MessageType) {
		prefix := ""
		if exp.GetPackage() != "" {
			prefix = exp.GetPackage() + "."
		}
		for i := range exp.MessageType {
			if !proto.Equal(exp.MessageType[i], act.MessageType[i]) {
				if exp.MessageType[i].GetName() != act.MessageType[i].GetName() {
					return "file/message-order", fmt.Sprintf("%s: top-level messages reordered", path)
				}
				return diffMessage(prefix+exp.MessageType[i].GetName(), exp.MessageType[i], act.MessageType[i])
			}
		}
	}
	for i := range exp.Service {
		if i < len(act.Service) && !proto.Equal(exp.Service[i], act.Service[i]) {
			return "service/changed", fmt.Sprintf("%s: service %s expected {%v}, got {%v}", path, exp.Service[i].GetName(), exp.Service[i], act.Service[i])
		}
	}
	for i := range exp.EnumType {
		if i < len(act.EnumType) && !proto.Equal(exp.EnumType[i], act.EnumType[i]) {
			return "enum/changed", fmt.Sprintf("%s: enum %s changed", path, exp.EnumType[i].GetName())
		}
	}
	for i := range exp.Extension {
		if i < len(act.Extension) && !proto.Equal(exp.Extension[i], act.Extension[i]) {
			return "extension/changed", fmt.Sprintf("%s: extension %s changed", path, exp.Extension[i].GetName())
		}
	}
	if !proto.Equal(exp.Options, act.Options) {
		return "file/options", fmt.Sprintf("%s: file options changed", path)
	}
	return "file/other", fmt.Sprintf("%s: file-level attributes changed (name/package/syntax/edition/list shapes)", path)
}

// ---- source code info ----

type locKey struct {
	Key       string
	ElemSteps []string // element names along the path that must survive
	Decl      bool     // the path is exactly the declaration of an element
	DeclName  string
	DeclKind  string
	ListLevel bool // path ends at a repeated-field tag without index
	ShellGone bool // below a message, in a member list a namespace-only shell loses
	DepStep   string
	DepKind   string
}

// keyOf translates a source path into a name-based key by walking the descriptor.
func keyOf(fd *descriptorpb.FileDescriptorProto, path []int32) (locKey, bool) {
	var k locKey
	var parts []string
	prefix := ""
	if fd.GetPackage() != "" {
		prefix = fd.GetPackage() + "."
	}
	raw := func(p []int32) {
		for _, x := range p {
			parts = append(parts, "#"+strconv.Itoa(int(x)))
		}
	}
	var inMsg func(name string, d *descriptorpb.DescriptorProto, p []int32) bool
	inField := func(tag, name string, p []int32) bool {
		parts = append(parts, tag+":"+name)
		if len(p) == 0 {
			k.Decl, k.DeclName, k.DeclKind = true, name, tag
		}
		raw(p)
		return true
	}
	inEnum := func(name string, d *descriptorpb.EnumDescriptorProto, p []int32) bool {
		parts = append(parts, "enum:"+name)
		k.ElemSteps = append(k.ElemSteps, name)
		if len(p) == 0 {
			k.Decl, k.DeclName, k.DeclKind = true, name, "enum"
			return true
		}
		if p[0] == 2 && len(p) >= 2 {
			if int(p[1]) >= len(d.Value) {
				return false
			}
			return inField("value", name+"/"+d.Value[p[1]].GetName(), p[2:])
		}
		if p[0] == 2 {
			k.ListLevel = true
		}
		raw(p)
		return true
	}
	inMsg = func(name string, d *descriptorpb.DescriptorProto, p []int32) bool {
		parts = append(parts, "msg:"+name)
		k.ElemSteps = append(k.ElemSteps, name)
		if len(p) == 0 {
			k.Decl, k.DeclName, k.DeclKind = true, name, "message"
			return true
		}
		if len(p) == 1 {
			switch p[0] {
			case 2, 3, 4, 5, 6, 8, 9, 10:
				k.ListLevel = true
			}
			raw(p)
			return true
		}
		i := int(p[1])
		switch p[0] {
		case 2:
			if i >= len(d.Field) {
				return false
			}
			k.ElemSteps = append(k.ElemSteps, name+"/field:"+d.Field[i].GetName())
			return inField("field", name+"."+d.Field[i].GetName(), p[2:])
		case 3:
			if i >= len(d.NestedType) {
				return false
			}
			return inMsg(name+"."+d.NestedType[i].GetName(), d.NestedType[i], p[2:])
		case 4:
			if i >= len(d.EnumType) {
				return false
			}
			return inEnum(name+"."+d.EnumType[i].GetName(), d.EnumType[i], p[2:])
		case 6:
			if i >= len(d.Extension) {
				return false
			}
			k.ElemSteps = append(k.ElemSteps, name+"."+d.Extension[i].GetName())
			return inField("ext", name+"."+d.Extension[i].GetName(), p[2:])
		case 8:
			if i >= len(d.OneofDecl) {
				return false
			}
			k.ElemSteps = append(k.ElemSteps, name+"/oneof:"+d.OneofDecl[i].GetName())
			return inField("oneof", name+"/"+d.OneofDecl[i].GetName(), p[2:])
		case 5:
			if i >= len(d.ExtensionRange) {
				return false
			}
			k.ShellGone = true
		case 9:
			if i >= len(d.ReservedRange) {
				return false
			}
			k.ShellGone = true
		case 10:
			if i >= len(d.ReservedName) {
				return false
			}
			k.ShellGone = true
		}
		raw(p)
		return true
	}
	ok := func() bool {
		if len(path) == 0 {
			parts = append(parts, "file")
			return true
		}
		if len(path) == 1 {
			switch path[0] {
			case 3, 4, 5, 6, 7, 10, 11:
				k.ListLevel = true
			}
			raw(path)
			return true
		}
		i := int(path[1])
		switch path[0] {
		case 3:
			if i >= len(fd.Dependency) {
				return false
			}
			k.DepStep, k.DepKind = fd.Dependency[i], "dep"
			parts = append(parts, "dep:"+fd.Dependency[i])
			raw(path[2:])
			return true
		case 10, 11:
			list := fd.PublicDependency
			k.DepKind = "public"
			if path[0] == 11 {
				list = fd.WeakDependency
				k.DepKind = "weak"
			}
			if i >= len(list) || int(list[i]) >= len(fd.Dependency) {
				return false
			}
			k.DepStep = fd.Dependency[list[i]]
			parts = append(parts, k.DepKind+":"+k.DepStep)
			raw(path[2:])
			return true
		case 4:
			if i >= len(fd.MessageType) {
				return false
			}
			return inMsg(prefix+fd.MessageType[i].GetName(), fd.MessageType[i], path[2:])
		case 5:
			if i >= len(fd.EnumType) {
				return false
			}
			return inEnum(prefix+fd.EnumType[i].GetName(), fd.EnumType[i], path[2:])
		case 6:
			if i >= len(fd.Service) {
				return false
			}
			s := fd.Service[i]
			sn := prefix + s.GetName()
			parts = append(parts, "svc:"+sn)
			k.ElemSteps = append(k.ElemSteps, sn)
			p := path[2:]
			if len(p) == 0 {
				k.Decl, k.DeclName, k.DeclKind = true, sn, "service"
				return true
			}
			if p[0] == 2 && len(p) >= 2 {
				if int(p[1]) >= len(s.Method) {
					return false
				}
				mn := sn + "." + s.Method[p[1]].GetName()
				k.ElemSteps = append(k.ElemSteps, mn)
				return inField("method", mn, p[2:])
			}
			if p[0] == 2 {
				k.ListLevel = true
			}
			raw(p)
			return true
		case 7:
			if i >= len(fd.Extension) {
				return false
			}
			k.ElemSteps = append(k.ElemSteps, prefix+fd.Extension[i].GetName())
			return inField("ext", prefix+fd.Extension[i].GetName(), path[2:])
		}
		raw(path)
		return true
	}()
	k.Key = strings.Join(parts, "/")
	return k, ok
}

func locText(l *descriptorpb.SourceCodeInfo_Location, withComments bool) string {
	s := fmt.Sprint(l.Span)
	if withComments {
		s += fmt.Sprintf("|L=%q|T=%q|D=%q", l.GetLeadingComments(), l.GetTrailingComments(), l.LeadingDetachedComments)
	}
	return s
}

type sciStats struct {
	Compared, Comments, Moved int
}

type sciEntry struct {
	k   locKey
	loc *descriptorpb.SourceCodeInfo_Location
}

func sameSpan(a, b *descriptorpb.SourceCodeInfo_Location) bool { return slices.Equal(a.Span, b.Span) }

func sameComments(a, b *descriptorpb.SourceCodeInfo_Location) bool {
	return a.GetLeadingComments() == b.GetLeadingComments() && (a.LeadingComments == nil) == (b.LeadingComments == nil) &&
		a.GetTrailingComments() == b.GetTrailingComments() && (a.TrailingComments == nil) == (b.TrailingComments == nil) &&
		slices.Equal(a.LeadingDetachedComments, b.LeadingDetachedComments)
}

func noComments(a *descriptorpb.SourceCodeInfo_Location) bool {
	return a.LeadingComments == nil && a.TrailingComments == nil && len(a.LeadingDetachedComments) == 0
}

// sciIndex is the name-keyed source info of a pristine file (computed once per image).
type sciIndex map[string][]sciEntry

func buildSciIndex(orig *descriptorpb.FileDescriptorProto) sciIndex {
	idx := sciIndex{}
	for _, l := range orig.GetSourceCodeInfo().GetLocation() {
		k, ok := keyOf(orig, l.Path)
		if !ok {
			continue
		}
		idx[k.Key] = append(idx[k.Key], sciEntry{k, l})
	}
	return idx
}

// checkSourceInfo compares the source info of one filtered file with the pristine one.
// survives(step) tells whether an element step of the pristine file still exists in the result.
func checkSourceInfo(orig, act *descriptorpb.FileDescriptorProto, origByKey sciIndex, survives func(step string) bool, isShell func(msg string) bool, st *sciStats) *finding {
	path := orig.GetName()
	if act.GetSourceCodeInfo() == nil {
		if len(origByKey) > 0 {
			return &finding{"comments/source-info-dropped", fmt.Sprintf("%s: the filtered file has no source code info at all", path)}
		}
		return nil
	}
	used := map[string]int{}
	for _, l := range act.GetSourceCodeInfo().GetLocation() {
		if l == nil {
			return &finding{"comments/nil-location", fmt.Sprintf("%s: nil location in filtered source info", path)}
		}
		k, ok := keyOf(act, l.Path)
		if !ok {
			return &finding{"comments/dangling-path/" + pathClass(l.Path), fmt.Sprintf("%s: location path %v (%s) does not resolve in the filtered descriptor: the entry it describes was removed but its location was kept", path, l.Path, pathClass(l.Path))}
		}
		cands := origByKey[k.Key]
		if len(cands) == 0 {
			return &finding{"comments/misattached/" + declKindOf(k), fmt.Sprintf("%s: location %v resolves to %q in the filtered file, but the original file has no location for that element (a location of another element was re-pointed here); text %s", path, l.Path, k.Key, locText(l, true))}
		}
		i := used[k.Key]
		if i >= len(cands) {
			return &finding{"comments/duplicated/" + declKindOf(k), fmt.Sprintf("%s: more locations for %q than in the original", path, k.Key)}
		}
		used[k.Key]++
		st.Compared++
		if l.LeadingComments != nil || l.TrailingComments != nil {
			st.Comments++
		}
		was := cands[i].loc
		if !slices.Equal(was.Path, l.Path) {
			st.Moved++
		}
		if sameSpan(was, l) && sameComments(was, l) {
			continue
		}
		if k.Decl && k.DeclKind == "message" && isShell(k.DeclName) && sameSpan(was, l) && noComments(l) {
			continue // documented: a message kept only as a namespace loses its comments
		}
		return &finding{"comments/changed/" + declKindOf(k), fmt.Sprintf("%s: location of %q: original %s, filtered %s", path, k.Key, locText(was, true), locText(l, true))}
	}
	// completeness: everything that still exists keeps its locations
	for key, cands := range origByKey {
		k := cands[0].k
		if k.ListLevel {
			continue
		}
		alive := true
		for _, s := range k.ElemSteps {
			if !survives(s) {
				alive = false
				break
			}
		}
		if !alive {
			continue
		}
		if k.DepStep != "" {
			if !survives(k.DepKind + ":" + k.DepStep) {
				continue
			}
		}
		if k.ShellGone {
			// the innermost message on the path
			inner := ""
			for _, s := range k.ElemSteps {
				if !strings.Contains(s, "/") {
					inner = s
				}
			}
			if isShell(inner) {
				continue
			}
		}
		if used[key] != len(cands) {
			return &finding{"comments/lost/" + declKindOf(k), fmt.Sprintf("%s: %q survives but %d of its %d source locations are missing from the filtered file (e.g. %s)", path, key, len(cands)-used[key], len(cands), locText(cands[used[key]].loc, true))}
		}
	}
	return nil
}

func pathClass(p []int32) string {
	if len(p) == 0 {
		return "file"
	}
	switch p[0] {
	case 3:
		return "dependency"
	case 10:
		return "public-dependency"
	case 11:
		return "weak-dependency"
	case 4:
		return "message"
	case 5:
		return "enum"
	case 6:
		return "service"
	case 7:
		return "extension"
	}
	return "other"
}

func declKindOf(k locKey) string {
	if k.DeclKind != "" {
		if k.Decl {
			return k.DeclKind
		}
		return k.DeclKind + "-detail"
	}
	if k.DepKind != "" {
		return k.DepKind
	}
	if k.ListLevel {
		return "list"
	}
	return "other"
}

func sortedKeys(m map[string]bool) []string {
	out := make([]string, 0, len(m))
	for k, v := range m {
		if v {
			out = append(out, k)
		}
	}
	sort.Strings(out)
	return out
}
