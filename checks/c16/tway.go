package c16

// A Dim is one accepted feature of a configuration document. Value 0 always means "feature
// absent / default"; values 1..N-1 are the alternatives of the feature.
type Dim struct {
	Name string
	N    int
}

// TWay enumerates every vector over dims that has at most t non-zero coordinates, each non-zero
// coordinate at every one of its values: t=1 gives "every single dimension at every value",
// t=2 adds all pairs of dimensions at all value combinations (2-way exhaustive), t=3 all triples.
// The all-zero vector comes first, then fewer non-zero coordinates before more (simplest first).
// The slice handed to f is reused.
func TWay(dims []Dim, t int, f func(v []int)) int {
	return TWayInteracting(dims, t, nil, f)
}

// TWayInteracting is TWay restricted to combinations of dimensions that pairwise interact
// (interacts == nil means every pair interacts). Single dimensions are always enumerated.
func TWayInteracting(dims []Dim, t int, interacts func(a, b string) bool, f func(v []int)) int {
	v := make([]int, len(dims))
	n := 0
	var chosen []int
	var rec func(start, left int)
	rec = func(start, left int) {
		if left == 0 {
			n++
			f(v)
			return
		}
	next:
		for i := start; i < len(dims); i++ {
			if interacts != nil {
				for _, c := range chosen {
					if !interacts(dims[c].Name, dims[i].Name) {
						continue next
					}
				}
			}
			chosen = append(chosen, i)
			for val := 1; val < dims[i].N; val++ {
				v[i] = val
				rec(i+1, left-1)
			}
			v[i] = 0
			chosen = chosen[:len(chosen)-1]
		}
	}
	for k := 0; k <= t && k <= len(dims); k++ {
		rec(0, k)
	}
	return n
}

// TWayAll materialises TWay.
func TWayAll(dims []Dim, t int) [][]int {
	var out [][]int
	TWay(dims, t, func(v []int) { out = append(out, append([]int(nil), v...)) })
	return out
}

type dimIndex map[string]int

func indexDims(dims []Dim) dimIndex {
	m := dimIndex{}
	for i, d := range dims {
		m[d.Name] = i
	}
	return m
}

// val returns the value of the named dimension in v, 0 if the frame does not have the dimension.
func (m dimIndex) val(v []int, name string) int {
	i, ok := m[name]
	if !ok {
		return 0
	}
	return v[i]
}
