package c16

import "github.com/bufbuild/bufverif/internal/evid"

func runMigration(r *evid.Run) {}
