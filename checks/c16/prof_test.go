package c16

import (
	"os"
	"runtime/pprof"
	"testing"
	"time"

	"github.com/bufbuild/bufverif/internal/evid"
)

func TestProfMig(t *testing.T) {
	r := evid.NewRun("C16", "quick", "exploration", 10*time.Minute)
	deps, err := newMigDeps()
	if err != nil {
		t.Fatal(err)
	}
	dims := migDims()
	ix := indexDims(dims)
	v := make([]int, len(dims))
	v[0] = 2
	c, ok := buildMigCase(dims, ix, v, deps)
	if !ok {
		t.Fatal("not ok")
	}
	cov, skips := newCounter(), newCounter()
	migrateOne(r, c, deps, cov, skips, false) // warm up
	fp, _ := os.Create("/tmp/c16mig.prof")
	pprof.StartCPUProfile(fp)
	t0 := time.Now()
	for i := 0; i < 5; i++ {
		migrateOne(r, c, deps, cov, skips, false)
	}
	pprof.StopCPUProfile()
	fp.Close()
	t.Logf("5 cases: %v; cov=%v", time.Since(t0), cov.snapshot())
}
