package c16

import (
	"context"
	"encoding/json"
	"fmt"
	"sort"
	"strings"
	"sync"

	"github.com/bufbuild/buf/private/bufpkg/bufconfig"
	"github.com/bufbuild/bufverif/internal/evid"
)

func init() { evid.RegisterReplay("C16", replay) }

// collector is a sink that just remembers what was reported.
type collector struct {
	mu         sync.Mutex
	violations map[string]string
	incomplete []string
}

func (c *collector) Violate(signature, what string, _ any) {
	c.mu.Lock()
	defer c.mu.Unlock()
	if c.violations == nil {
		c.violations = map[string]string{}
	}
	if _, ok := c.violations[signature]; !ok {
		c.violations[signature] = what
	}
}
func (c *collector) Incomplete(reason string) {
	c.mu.Lock()
	c.incomplete = append(c.incomplete, reason)
	c.mu.Unlock()
}
func (c *collector) Distinct(string) {}

// replay re-judges one recorded case (the "case" object of a replay file) on the current tree.
func replay(raw json.RawMessage) (string, bool) {
	var head struct {
		Kind string          `json:"kind"`
		Case json.RawMessage `json:"case"`
	}
	if err := json.Unmarshal(raw, &head); err != nil {
		return "cannot decode the case: " + err.Error(), false
	}
	col := &collector{}
	switch head.Kind {
	case "buf.yaml", "buf.gen.yaml", "buf.work.yaml":
		var doc struct {
			Text string `json:"text"`
		}
		if err := json.Unmarshal(head.Case, &doc); err != nil || doc.Text == "" {
			return "cannot decode the document of the case", false
		}
		var res rtResult
		switch head.Kind {
		case "buf.yaml":
			res = roundTripBufYAML(doc.Text)
		case "buf.gen.yaml":
			res, _ = roundTripBufGen(doc.Text)
		default:
			res = roundTripBufWork(doc.Text)
		}
		if !res.accepted {
			return "the document is rejected by the reader now: " + res.rejectWhy, false
		}
		reportRoundTrip(col, head.Kind, res, nil)
	case "buf.lock":
		var c LockCase
		if err := json.Unmarshal(head.Case, &c); err != nil || c.Text == "" {
			return "cannot decode the buf.lock case", false
		}
		_, omni, err := lockDeps()
		if err != nil {
			return err.Error(), false
		}
		var opts []bufconfig.BufLockFileOption
		if c.Resolver {
			opts = append(opts, lockResolver(omni, nil))
		}
		res := roundTripBufLock(context.Background(), c.Text, opts...)
		judgeLockAcceptance(col, c, res)
		if !res.accepted {
			if len(col.violations) > 0 {
				break
			}
			return "the document is rejected by the reader now: " + res.rejectWhy, false
		}
		reportRoundTrip(col, head.Kind, res, nil)
	case "migration":
		var c struct {
			Vector map[string]int `json:"features"`
		}
		if err := json.Unmarshal(head.Case, &c); err != nil {
			return "cannot decode the migration case", false
		}
		deps, err := newMigDeps()
		if err != nil {
			return err.Error(), false
		}
		dims := migDims()
		ix := indexDims(dims)
		v := make([]int, len(dims))
		for name, val := range c.Vector {
			i, ok := ix[name]
			if !ok || val < 0 || val >= dims[i].N {
				return fmt.Sprintf("the case names dimension %s=%d which the grammar does not have (any more)", name, val), false
			}
			v[i] = val
		}
		mc, ok := buildMigCase(dims, ix, v, deps)
		if !ok {
			return "the feature vector is outside the workspace grammar", false
		}
		migrateOne(col, mc, deps, newCounter(), newCounter(), true)
	case "migration-deps":
		var c struct {
			Vector map[string]int `json:"features"`
		}
		if err := json.Unmarshal(head.Case, &c); err != nil {
			return "cannot decode the migration case", false
		}
		deps, err := newDepWorldDeps()
		if err != nil {
			return err.Error(), false
		}
		dims := depDims()
		ix := indexDims(dims)
		v := make([]int, len(dims))
		for name, val := range c.Vector {
			i, ok := ix[name]
			if !ok || val < 0 || val >= dims[i].N {
				return fmt.Sprintf("the case names dimension %s=%d which the dependency-world grammar does not have (any more)", name, val), false
			}
			v[i] = val
		}
		mc, ok := buildDepWorld(dims, ix, v, deps)
		if !ok {
			return "the feature vector is outside the dependency-world grammar", false
		}
		migrateOne(col, mc, deps, newCounter(), newCounter(), true)
	default:
		return "unknown case kind " + head.Kind, false
	}
	if len(col.incomplete) > 0 {
		return "harness problem: " + strings.Join(col.incomplete, "; "), false
	}
	if len(col.violations) == 0 {
		return "no oracle fails", false
	}
	sigs := make([]string, 0, len(col.violations))
	for s := range col.violations {
		sigs = append(sigs, s)
	}
	sort.Strings(sigs)
	return fmt.Sprintf("%d signature(s): %s; first: %s", len(sigs), strings.Join(sigs, ", "), col.violations[sigs[0]]), true
}
