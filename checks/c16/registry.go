package c16

import (
	"context"
	"fmt"
	"io/fs"
	"sort"
	"time"

	"github.com/bufbuild/buf/private/bufpkg/bufmodule"
	"github.com/bufbuild/buf/private/bufpkg/bufmodule/bufmoduletesting"
	"github.com/bufbuild/buf/private/bufpkg/bufparse"
	"github.com/bufbuild/buf/private/pkg/dag"
	"github.com/bufbuild/buf/private/pkg/uuidutil"
	"github.com/google/uuid"
)

// ---------------------------------------------------------------------------------------------
// An in-process registry with a HISTORY per module (strengthening round 3).
//
// bufmoduletesting.OmniProvider is a module set: it holds exactly one commit per module name, so
// every ref of a module resolves to the same commit and "latest commit wins" can never be observed.
// multiRegistry is a list of OmniProviders ("snapshots": each a self-contained set of modules at one
// commit each) plus labels; every request is dispatched by commit id to the snapshot that holds the
// commit. All content, digests (b4 and b5), dependency keys and tamper-proofing are the real buf
// code of the snapshot; only the dispatch and the label table are written here.
// ---------------------------------------------------------------------------------------------

// regCommit is one commit of one module of the registry.
type regCommit struct {
	Name   string
	Commit uuid.UUID
	Time   time.Time
	Level  int // 1-based position in the history of the module (oldest = 1)
	B4     string
	snap   int
}

func (c regCommit) dashless() string { return uuidutil.ToDashless(c.Commit) }

type multiRegistry struct {
	snaps    []bufmoduletesting.OmniProvider
	byCommit map[uuid.UUID]regCommit
	// history: module name -> commits, oldest first
	history map[string][]regCommit
	// labels: module name -> ref -> commit; "" is the head of the default label (the newest commit)
	labels map[string]map[string]uuid.UUID
}

// regModule is one module of a snapshot handed to newMultiRegistry.
type regModule struct {
	Name  string
	Seed  string // commit id = fixedUUID(Seed)
	Time  time.Time
	Files map[string]string
}

// newMultiRegistry builds one OmniProvider per snapshot. A module may occur in several snapshots with
// the same Seed (same commit, same content): the first snapshot answers for it.
func newMultiRegistry(snapshots [][]regModule, labels map[string]map[string]string) (*multiRegistry, error) {
	reg := &multiRegistry{byCommit: map[uuid.UUID]regCommit{}, history: map[string][]regCommit{}, labels: map[string]map[string]uuid.UUID{}}
	for si, mods := range snapshots {
		var datas []bufmoduletesting.ModuleData
		for _, mod := range mods {
			files := map[string][]byte{}
			for p, text := range mod.Files {
				files[p] = []byte(text)
			}
			datas = append(datas, bufmoduletesting.ModuleData{Name: mod.Name, CommitID: fixedUUID(mod.Seed), CreateTime: mod.Time, PathToData: files})
		}
		omni, err := bufmoduletesting.NewOmniProvider(datas...)
		if err != nil {
			return nil, fmt.Errorf("snapshot %d: %w", si, err)
		}
		reg.snaps = append(reg.snaps, omni)
		for _, mod := range mods {
			id := fixedUUID(mod.Seed)
			if _, ok := reg.byCommit[id]; ok {
				continue
			}
			module := omni.GetModuleForCommitID(id)
			if module == nil {
				return nil, fmt.Errorf("snapshot %d: module %s not found", si, mod.Name)
			}
			b4, err := module.Digest(bufmodule.DigestTypeB4)
			if err != nil {
				return nil, err
			}
			rc := regCommit{Name: mod.Name, Commit: id, Time: mod.Time, B4: b4.String(), snap: si}
			reg.byCommit[id] = rc
			reg.history[mod.Name] = append(reg.history[mod.Name], rc)
		}
	}
	for name, h := range reg.history {
		sort.Slice(h, func(i, j int) bool { return h[i].Time.Before(h[j].Time) })
		for i := range h {
			h[i].Level = i + 1
			reg.byCommit[h[i].Commit] = h[i]
			if i > 0 && !h[i].Time.After(h[i-1].Time) {
				return nil, fmt.Errorf("module %s: two commits with the same create time (the order would be a tie)", name)
			}
		}
		reg.labels[name] = map[string]uuid.UUID{"": h[len(h)-1].Commit}
	}
	for name, refs := range labels {
		for ref, seed := range refs {
			id := fixedUUID(seed)
			if rc, ok := reg.byCommit[id]; !ok || rc.Name != name {
				return nil, fmt.Errorf("label %s:%s points to an unknown commit", name, ref)
			}
			reg.labels[name][ref] = id
		}
	}
	return reg, nil
}

// head is the newest commit of a module.
func (g *multiRegistry) head(name string) regCommit {
	h := g.history[name]
	return h[len(h)-1]
}

// at is the commit at the 1-based level of the history.
func (g *multiRegistry) at(name string, level int) regCommit { return g.history[name][level-1] }

// resolve is the registry's answer for name:ref ("" = head of the default label).
func (g *multiRegistry) resolve(name, ref string) (regCommit, bool) {
	if id, ok := g.labels[name][ref]; ok {
		return g.byCommit[id], true
	}
	if id, err := uuidutil.FromDashless(ref); err == nil {
		if rc, ok := g.byCommit[id]; ok && rc.Name == name {
			return rc, true
		}
	}
	return regCommit{}, false
}

func (g *multiRegistry) module(id uuid.UUID) (bufmodule.Module, bufmoduletesting.OmniProvider, bool) {
	rc, ok := g.byCommit[id]
	if !ok {
		return nil, nil, false
	}
	omni := g.snaps[rc.snap]
	mod := omni.GetModuleForCommitID(id)
	return mod, omni, mod != nil
}

func notExist(what string) error { return &fs.PathError{Op: "read", Path: what, Err: fs.ErrNotExist} }

func (g *multiRegistry) GetModuleKeysForModuleRefs(ctx context.Context, refs []bufparse.Ref, digestType bufmodule.DigestType) ([]bufmodule.ModuleKey, error) {
	out := make([]bufmodule.ModuleKey, len(refs))
	for i, ref := range refs {
		rc, ok := g.resolve(ref.FullName().String(), ref.Ref())
		if !ok {
			return nil, notExist(ref.String())
		}
		mod, _, ok := g.module(rc.Commit)
		if !ok {
			return nil, notExist(ref.String())
		}
		key, err := bufmodule.ModuleToModuleKey(mod, digestType)
		if err != nil {
			return nil, err
		}
		out[i] = key
	}
	return out, nil
}

func (g *multiRegistry) GetModuleDatasForModuleKeys(ctx context.Context, keys []bufmodule.ModuleKey) ([]bufmodule.ModuleData, error) {
	if len(keys) == 0 {
		return nil, nil
	}
	if _, err := bufmodule.UniqueDigestTypeForModuleKeys(keys); err != nil {
		return nil, err
	}
	if _, err := bufparse.FullNameStringToUniqueValue(keys); err != nil {
		return nil, err
	}
	out := make([]bufmodule.ModuleData, len(keys))
	for i, key := range keys {
		_, omni, ok := g.module(key.CommitID())
		if !ok {
			return nil, notExist(key.String())
		}
		datas, err := omni.GetModuleDatasForModuleKeys(ctx, []bufmodule.ModuleKey{key})
		if err != nil {
			return nil, err
		}
		out[i] = datas[0]
	}
	return out, nil
}

func (g *multiRegistry) GetCommitsForModuleKeys(ctx context.Context, keys []bufmodule.ModuleKey) ([]bufmodule.Commit, error) {
	if len(keys) == 0 {
		return nil, nil
	}
	if _, err := bufmodule.UniqueDigestTypeForModuleKeys(keys); err != nil {
		return nil, err
	}
	out := make([]bufmodule.Commit, len(keys))
	for i, key := range keys {
		_, omni, ok := g.module(key.CommitID())
		if !ok {
			return nil, notExist(key.String())
		}
		commits, err := omni.GetCommitsForModuleKeys(ctx, []bufmodule.ModuleKey{key})
		if err != nil {
			return nil, err
		}
		out[i] = commits[0]
	}
	return out, nil
}

func (g *multiRegistry) GetCommitsForCommitKeys(ctx context.Context, keys []bufmodule.CommitKey) ([]bufmodule.Commit, error) {
	if len(keys) == 0 {
		return nil, nil
	}
	if _, err := bufmodule.UniqueDigestTypeForCommitKeys(keys); err != nil {
		return nil, err
	}
	out := make([]bufmodule.Commit, len(keys))
	for i, key := range keys {
		_, omni, ok := g.module(key.CommitID())
		if !ok {
			return nil, notExist(uuidutil.ToDashless(key.CommitID()))
		}
		commits, err := omni.GetCommitsForCommitKeys(ctx, []bufmodule.CommitKey{key})
		if err != nil {
			return nil, err
		}
		out[i] = commits[0]
	}
	return out, nil
}

// GetGraphForModuleKeys: only remote-module workspaces ask for a graph (never the bucket workspaces
// of this check); answered by the snapshot of each key, merged.
func (g *multiRegistry) GetGraphForModuleKeys(ctx context.Context, keys []bufmodule.ModuleKey) (*dag.Graph[bufmodule.RegistryCommitID, bufmodule.ModuleKey], error) {
	graph := dag.NewGraph[bufmodule.RegistryCommitID, bufmodule.ModuleKey](bufmodule.ModuleKeyToRegistryCommitID)
	for _, key := range keys {
		_, omni, ok := g.module(key.CommitID())
		if !ok {
			return nil, notExist(key.String())
		}
		sub, err := omni.GetGraphForModuleKeys(ctx, []bufmodule.ModuleKey{key})
		if err != nil {
			return nil, err
		}
		if err := sub.WalkNodes(func(node bufmodule.ModuleKey, _ []bufmodule.ModuleKey, _ []bufmodule.ModuleKey) error {
			graph.AddNode(node)
			return nil
		}); err != nil {
			return nil, err
		}
		if err := sub.WalkEdges(func(from, to bufmodule.ModuleKey) error {
			graph.AddEdge(from, to)
			return nil
		}); err != nil {
			return nil, err
		}
	}
	return graph, nil
}

var (
	_ bufmodule.ModuleKeyProvider  = (*multiRegistry)(nil)
	_ bufmodule.ModuleDataProvider = (*multiRegistry)(nil)
	_ bufmodule.CommitProvider     = (*multiRegistry)(nil)
	_ bufmodule.GraphProvider      = (*multiRegistry)(nil)
)
