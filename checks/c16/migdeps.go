package c16

import (
	"context"
	"fmt"
	"sort"
	"strings"

	"github.com/bufbuild/buf/private/bufpkg/bufconfig"
	"github.com/bufbuild/buf/private/bufpkg/bufmodule"
	"github.com/bufbuild/buf/private/bufpkg/bufmodule/bufmoduletesting"
	"github.com/bufbuild/buf/private/pkg/uuidutil"
	"github.com/bufbuild/bufverif/internal/bufx"
	"github.com/bufbuild/bufverif/internal/evid"
	"github.com/google/uuid"
)

// ---------------------------------------------------------------------------------------------
// Dependency oracle of the migration clause (applies to every migrated workspace of both grammars).
//
// The property demands that migration preserves, for every module, the set of files built. Which
// files of remote modules a v2 workspace builds is decided by its `deps` (buf.yaml) and the pins
// derived from them (buf.lock, a generated file: the next `buf dep update` / `buf dep prune`
// recomputes it from `deps`). A dependency of a v1 module that is neither a module of the
// workspace nor a dependency of the migrated workspace is therefore a change of the files built,
// even while a stale pin still hides it. The oracle is stated on names, refs and pins only:
//
//   - every dependency declared by some v1/v1beta1 module that is not itself a module of the
//     workspace is declared by the migrated buf.yaml, once; nothing undeclared is added;
//   - a ref (label / commit) on a migrated dependency is one that some module declared, and a
//     dependency that some module pinned with a ref stays pinned with a ref;
//   - every module pinned by some v1 buf.lock that is not a module of the workspace is pinned by
//     the migrated buf.lock, at a commit some buf.lock pinned (any commit when a declared ref
//     decides), and nothing unpinned before is pinned after.
// ---------------------------------------------------------------------------------------------

func checkMigratedDeps(r sink, c MigCase, after, migrated map[string]string, cov *counter) {
	ctx := context.Background()
	text, ok := after["buf.yaml"]
	if !ok {
		r.Incomplete("migration harness: no buf.yaml at the root of the migrated workspace for case " + c.Key)
		return
	}
	file, err := readBufYAML(text)
	if err != nil {
		// the workspace was built from this file a moment ago, so this cannot happen
		r.Incomplete("migration harness: the migrated buf.yaml is not readable: " + err.Error())
		return
	}
	wsNames := map[string]bool{}
	for _, n := range c.Names {
		wsNames[n] = true
	}
	declared := refsByName(c.Decl) // name -> set of refs ("" = unpinned)
	evidence := func() any { return m{"kind": c.kind(), "case": c, "migrated": migrated} }
	got := map[string][]string{} // name -> refs in the migrated file
	for _, ref := range file.ConfiguredDepModuleRefs() {
		got[ref.FullName().String()] = append(got[ref.FullName().String()], ref.Ref())
	}
	shape := func(refs map[string]bool) string {
		pinned := 0
		for ref := range refs {
			if ref != "" {
				pinned++
			}
		}
		switch {
		case pinned == 0:
			return "declared-unpinned"
		case refs[""]:
			return "declared-pinned-and-unpinned"
		default:
			return "declared-pinned"
		}
	}
	names := make([]string, 0, len(declared))
	for n := range declared {
		names = append(names, n)
	}
	sort.Strings(names)
	for _, name := range names {
		refs := declared[name]
		if wsNames[name] {
			cov.add("deps_oracle/dep_on_workspace_module", 1)
			continue
		}
		cov.add("deps_oracle/external_dep_checked", 1)
		declarers := 0
		for _, d := range c.Decl {
			if d.Name == name {
				declarers++
			}
		}
		if declarers >= 2 {
			cov.add("deps_oracle/declared_by_two_or_more_modules/"+shape(refs), 1)
		}
		if declarers >= 3 {
			cov.add("deps_oracle/declared_by_three_modules", 1)
		}
		if len(refs) >= 2 && !refs[""] || len(refs) >= 3 {
			cov.add("deps_oracle/two_distinct_refs_declared", 1)
		}
		g, ok := got[name]
		if !ok {
			r.Violate("migrate/deps/dropped/"+shape(refs),
				fmt.Sprintf("dependency %s is declared by %d module(s) of the workspace (refs %q) and is not a module of the workspace, but the migrated buf.yaml does not declare it: the files of %s stop being built as soon as buf.lock is recomputed from deps",
					name, declarers, sortedKeys(refs), name), evidence())
			continue
		}
		if len(g) > 1 {
			r.Violate("migrate/deps/duplicated", fmt.Sprintf("dependency %s is declared %d times by the migrated buf.yaml (refs %v)", name, len(g), g), evidence())
			continue
		}
		switch {
		case g[0] != "" && !refs[g[0]]:
			r.Violate("migrate/deps/ref-invented", fmt.Sprintf("dependency %s is migrated with ref %q, which no module declared (declared refs %q)", name, g[0], sortedKeys(refs)), evidence())
		case g[0] == "" && shape(refs) != "declared-unpinned":
			r.Violate("migrate/deps/ref-dropped/"+shape(refs), fmt.Sprintf("dependency %s was pinned with a ref by some module (declared refs %q) and is migrated without a ref", name, sortedKeys(refs)), evidence())
		}
	}
	gotNames := make([]string, 0, len(got))
	for n := range got {
		gotNames = append(gotNames, n)
	}
	sort.Strings(gotNames)
	for _, name := range gotNames {
		if declared[name] == nil {
			r.Violate("migrate/deps/added", fmt.Sprintf("the migrated buf.yaml declares dependency %s, which no module of the workspace declared", name), evidence())
		}
	}
	cov.add("deps_oracle/workspaces_checked", 1)

	// ---- pins
	pinned := map[string]map[string]bool{} // name -> set of dashless commits
	for _, p := range c.Pins {
		if wsNames[p.Name] {
			continue
		}
		if pinned[p.Name] == nil {
			pinned[p.Name] = map[string]bool{}
		}
		pinned[p.Name][p.Commit] = true
	}
	gotPins := map[string]string{}
	if lockText, ok := after["buf.lock"]; ok {
		lock, err := bufconfig.ReadBufLockFile(ctx, strings.NewReader(lockText), "buf.lock")
		if err != nil {
			r.Incomplete("migration harness: the migrated buf.lock is not readable: " + err.Error())
			return
		}
		for _, k := range lock.DepModuleKeys() {
			gotPins[k.FullName().String()] = uuidutil.ToDashless(k.CommitID())
		}
	} else if len(c.Pins) > 0 {
		r.Violate("migrate/lock/missing", "the v1 workspace had a buf.lock and the migrated workspace has none", evidence())
		return
	}
	pinNames := make([]string, 0, len(pinned))
	for n := range pinned {
		pinNames = append(pinNames, n)
	}
	sort.Strings(pinNames)
	for _, name := range pinNames {
		cov.add("deps_oracle/pin_checked", 1)
		if declared[name] == nil {
			cov.add("deps_oracle/indirect_pin_checked", 1)
		}
		commit, ok := gotPins[name]
		if !ok {
			role := "declared-dependency"
			if declared[name] == nil {
				role = "indirect-dependency"
			}
			r.Violate("migrate/lock/pin-dropped/"+role, fmt.Sprintf("module %s is pinned by a v1 buf.lock of the workspace and not by the migrated buf.lock", name), evidence())
			continue
		}
		refDecides := declared[name] != nil && shape(declared[name]) != "declared-unpinned"
		if !pinned[name][commit] && !refDecides {
			r.Violate("migrate/lock/commit-changed", fmt.Sprintf("module %s is pinned at %s after migration; the v1 buf.lock files pinned %v", name, commit, sortedKeys(pinned[name])), evidence())
		}
	}
	for name := range gotPins {
		if pinned[name] == nil && !wsNames[name] {
			r.Violate("migrate/lock/pin-added", fmt.Sprintf("the migrated buf.lock pins %s, which no v1 buf.lock pinned", name), evidence())
		}
	}
}

func refsByName(decl []declDep) map[string]map[string]bool {
	out := map[string]map[string]bool{}
	for _, d := range decl {
		if out[d.Name] == nil {
			out[d.Name] = map[string]bool{}
		}
		out[d.Name][d.Ref] = true
	}
	return out
}

func sortedKeys(set map[string]bool) []string {
	out := make([]string, 0, len(set))
	for k := range set {
		out = append(out, k)
	}
	sort.Strings(out)
	return out
}

// ---------------------------------------------------------------------------------------------
// Dependency-merge worlds: the second workspace grammar of the migration clause.
//
// The migrator merges the `deps` lists and the buf.lock files of all modules into one list and one
// lock. The unit of that merge is the multiset of declarations of ONE dependency name over the
// modules, so it is enumerated as a full product: three modules a, b, c, each declaring the shared
// dependency not at all / unpinned / with ref :r1 / with ref :r2 (4^3 = 64), combined with the
// dimensions the merge also reads: which modules carry a buf.lock, module file versions, a
// second dependency (the merge has one global "resolved locally" flag) or a dependency on a module
// of the workspace, and whether there is a buf.work.yaml at all.
// The shared dependency itself imports a third remote module that no buf.yaml declares (an
// indirect dependency, present in the locks only).
// ---------------------------------------------------------------------------------------------

func depDims() []Dim {
	return []Dim{
		{"d.a", 4},      // declaration of the shared dependency by module a: 0 none; 1 unpinned; 2 :r1; 3 :r2
		{"d.b", 4},      // the same for module b
		{"d.c", 5},      // 0 there is no module c; 1 unpinned; 2 :r1; 3 :r2; 4 module c exists and declares nothing
		{"d.layout", 2}, // 0 buf.work.yaml [a,b(,c)]; 1 no buf.work.yaml: the module directories are migrated together
		{"d.lock", 3},   // 0 every module that declares a remote dependency has a buf.lock (and imports the dependency); 1 no buf.lock anywhere; 2 only the first declaring module has one
		{"d.ver", 3},    // 0 all v1; 1 module b is v1beta1; 2 all v1beta1
		{"d.extra", 5},  // 0 none; 1 a declares a second dependency unpinned; 2 a and b declare it unpinned; 3 a declares it with :r1; 4 a is named and b declares (and imports) workspace module a
	}
}

const (
	sharedName = "buf.build/acme/shared"
	baseName   = "buf.build/acme/base"
	extraName  = "buf.build/acme/extra"
	modaName   = "buf.build/acme/moda"
)

const protoShared = `syntax = "proto3";
package shared.v1;
import "base/v1/t.proto";
message D {
  base.v1.T t = 1;
}
`

const protoBase = `syntax = "proto3";
package base.v1;
message T {
  string x = 1;
}
`

const protoExtra = `syntax = "proto3";
package extra.v1;
message E {
  string y = 1;
}
`

func depWorldProto(pkg string, edited, useShared, useExtra bool, importA bool) string {
	var b strings.Builder
	b.WriteString("syntax = \"proto3\";\npackage " + pkg + ";\n")
	if useShared {
		b.WriteString("import \"shared/v1/d.proto\";\n")
	}
	if useExtra {
		b.WriteString("import \"extra/v1/e.proto\";\n")
	}
	if importA {
		b.WriteString("import \"ma/v1/x.proto\";\n")
	}
	b.WriteString("message X {\n  string name = 1;\n")
	if !edited {
		b.WriteString("  int32 old = 2;\n")
	}
	if useShared {
		b.WriteString("  shared.v1.D d = 3;\n")
	}
	if useExtra {
		b.WriteString("  extra.v1.E e = 4;\n")
	}
	if importA {
		b.WriteString("  ma.v1.X a = 5;\n")
	}
	b.WriteString("  string BadName = 6;\n}\n")
	return b.String()
}

// newDepWorldDeps builds the three remote modules of the dependency-merge worlds in-process.
func newDepWorldDeps() (*migDeps, error) {
	specs := []struct {
		name, path, text string
	}{
		{baseName, "base/v1/t.proto", protoBase},
		{sharedName, "shared/v1/d.proto", protoShared},
		{extraName, "extra/v1/e.proto", protoExtra},
		// the published state of module a of the worlds in which a is named (d.extra=4): what a sibling
		// module directory that is not in a common buf.work.yaml resolves `buf.build/acme/moda` to
		{modaName, "ma/v1/x.proto", depWorldProto("ma.v1", false, false, false, false)},
	}
	var datas []bufmoduletesting.ModuleData
	for _, s := range specs {
		datas = append(datas, bufmoduletesting.ModuleData{
			Name:       s.name,
			CommitID:   fixedUUID("depworld-" + s.name),
			PathToData: map[string][]byte{s.path: []byte(s.text)},
		})
	}
	omni, err := bufmoduletesting.NewOmniProvider(datas...)
	if err != nil {
		return nil, err
	}
	d := &migDeps{omni: omni, prov: bufx.Providers{Graph: omni, ModuleData: omni, Commit: omni}, mods: map[string]depMod{}}
	for _, data := range datas {
		mod := omni.GetModuleForCommitID(data.CommitID)
		if mod == nil {
			return nil, fmt.Errorf("module %s not found", data.Name)
		}
		b4, err := mod.Digest(bufmodule.DigestTypeB4)
		if err != nil {
			return nil, err
		}
		d.mods[data.Name] = depMod{commit: data.CommitID, b4: b4.String()}
	}
	return d, nil
}

type depMod struct {
	commit uuid.UUID
	b4     string
}

func (d *migDeps) lockEntry(name string) m {
	parts := strings.Split(name, "/")
	mod := d.mods[name]
	return m{"remote": parts[0], "owner": parts[1], "repository": parts[2], "commit": uuidutil.ToDashless(mod.commit), "digest": mod.b4}
}

// buildDepWorld renders one dependency-merge world and its edited copy.
func buildDepWorld(dims []Dim, ix dimIndex, v []int, deps *migDeps) (MigCase, bool) {
	c := MigCase{Vector: map[string]int{}, Old: map[string]string{}, New: map[string]string{}, Grammar: "deps", Names: map[string]string{}}
	for i, d := range dims {
		if v[i] != 0 {
			c.Vector[d.Name] = v[i]
		}
	}
	dirs := []string{"a", "b"}
	if ix.val(v, "d.c") != 0 {
		dirs = append(dirs, "c")
	}
	lockMode, ver, extra, layout := ix.val(v, "d.lock"), ix.val(v, "d.ver"), ix.val(v, "d.extra"), ix.val(v, "d.layout")
	refOf := func(val int) (string, bool) {
		switch val {
		case 1:
			return "", true
		case 2:
			return "r1", true
		case 3:
			return "r2", true
		}
		return "", false
	}
	// what every module declares, in the order of its deps list
	decl := map[string][]declDep{}
	for _, dir := range dirs {
		if ref, ok := refOf(ix.val(v, "d."+dir)); ok {
			decl[dir] = append(decl[dir], declDep{Dir: dir, Name: sharedName, Ref: ref})
		}
	}
	if layout == 0 {
		// buf rule for buf.work.yaml workspaces (workspace_targeting.go: "found different refs for the
		// same module within buf.yaml deps in the workspace"): all modules must spell a dependency the
		// same way. Mixed spellings exist only where the module directories are separate workspaces.
		spellings := map[string]bool{}
		for _, dir := range dirs {
			for _, d := range decl[dir] {
				spellings[d.Ref] = true
			}
		}
		if len(spellings) > 1 {
			return c, false
		}
	}
	if extra == 4 && layout == 1 {
		// Without a buf.work.yaml module b resolves `buf.build/acme/moda` to the published module, after
		// the migration to the local directory a: the two may differ (b's breaking check then sees the
		// local edits of a's files). Joining separate directories changes that by design; the property
		// speaks about workspaces, in which the local module wins before and after.
		return c, false
	}
	switch extra {
	case 1:
		decl["a"] = append(decl["a"], declDep{Dir: "a", Name: extraName})
	case 2:
		decl["a"] = append(decl["a"], declDep{Dir: "a", Name: extraName})
		decl["b"] = append(decl["b"], declDep{Dir: "b", Name: extraName})
	case 3:
		decl["a"] = append(decl["a"], declDep{Dir: "a", Name: extraName, Ref: "r1"})
	case 4:
		c.Names["a"] = modaName
		decl["b"] = append(decl["b"], declDep{Dir: "b", Name: modaName})
	}
	declaresRemote := func(dir string) bool { return len(decl[dir]) > 0 }
	firstDeclarer := ""
	for _, dir := range dirs {
		if declaresRemote(dir) {
			firstDeclarer = dir
			break
		}
	}
	for _, dir := range dirs {
		hasLock := false
		switch lockMode {
		case 0:
			hasLock = declaresRemote(dir)
		case 2:
			hasLock = dir == firstDeclarer
		}
		useShared, useExtra := false, false
		y := m{"version": "v1"}
		role := "v1-module"
		if ver == 2 || ver == 1 && dir == "b" {
			y["version"] = "v1beta1"
			role = "v1beta1-module"
		}
		c.Roles = append(c.Roles, role)
		if name := c.Names[dir]; name != "" {
			y["name"] = name
		}
		var depStrings []string
		var lockEntries []any
		for _, d := range decl[dir] {
			s := d.Name
			if d.Ref != "" {
				s += ":" + d.Ref
			}
			depStrings = append(depStrings, s)
			c.Decl = append(c.Decl, d)
			if !hasLock {
				continue
			}
			switch d.Name {
			case sharedName:
				useShared = true
				// the lock of a v1 module lists the transitive closure: shared and the module it imports
				lockEntries = append(lockEntries, deps.lockEntry(baseName), deps.lockEntry(sharedName))
				c.Pins = append(c.Pins, pinDep{Dir: dir, Name: baseName, Commit: uuidutil.ToDashless(deps.mods[baseName].commit)},
					pinDep{Dir: dir, Name: sharedName, Commit: uuidutil.ToDashless(deps.mods[sharedName].commit)})
			case extraName:
				useExtra = true
				lockEntries = append(lockEntries, deps.lockEntry(extraName))
				c.Pins = append(c.Pins, pinDep{Dir: dir, Name: extraName, Commit: uuidutil.ToDashless(deps.mods[extraName].commit)})
			case modaName:
				// a pin of a module that is also a module of the workspace (the local module wins)
				lockEntries = append(lockEntries, deps.lockEntry(modaName))
				c.Pins = append(c.Pins, pinDep{Dir: dir, Name: modaName, Commit: uuidutil.ToDashless(deps.mods[modaName].commit)})
			}
		}
		if len(depStrings) > 0 {
			y["deps"] = strs(depStrings)
		}
		c.Old[jp(dir, "buf.yaml")] = EmitYAML(y)
		if hasLock {
			sort.Slice(lockEntries, func(i, j int) bool {
				return lockEntries[i].(m)["repository"].(string) < lockEntries[j].(m)["repository"].(string)
			})
			c.Old[jp(dir, "buf.lock")] = "# Generated by buf. DO NOT EDIT.\n" + EmitYAML(m{"version": "v1", "deps": lockEntries})
		}
		importA := extra == 4 && dir == "b"
		pkg := "m" + dir + ".v1"
		path := jp(dir, "m"+dir+"/v1/x.proto")
		c.Old[path] = depWorldProto(pkg, false, useShared, useExtra, importA)
		c.New[path] = depWorldProto(pkg, true, useShared, useExtra, importA)
	}
	for _, refs := range refsByName(c.Decl) {
		n := 0
		for ref := range refs {
			if ref != "" {
				n++
			}
		}
		if n >= 2 {
			// the in-process registry resolves every ref of a module to its one commit: the migrator's
			// "latest commit wins" is a tie and either declared ref may be written
			c.RefTie = true
		}
	}
	if layout == 0 {
		c.Old["buf.work.yaml"] = EmitYAML(m{"version": "v1", "directories": strs(dirs)})
	} else {
		c.StandaloneModules = true
	}
	for p, text := range c.Old {
		if !strings.HasSuffix(p, ".proto") {
			c.New[p] = text
		}
	}
	if len(c.Names) == 0 {
		c.Names = nil
	}
	c.ModuleDirs = dirs
	keys := make([]string, 0, len(c.Vector))
	for k, val := range c.Vector {
		keys = append(keys, fmt.Sprintf("%s=%d", k, val))
	}
	sort.Strings(keys)
	c.Key = strings.Join(keys, ",")
	return c, true
}

// depWorldVectors enumerates the feature vectors of the dependency-merge worlds.
//
// core (declarations x layout): a module that declares nothing is inert for the merge, so a third
// module is generated only when it declares the dependency, and for three declaring modules only
// the multisets of declarations (a <= b <= c; the modules are interchangeable, the migrator visits
// them in directory order and merges through maps).
//
//	quick:    every core vector alone; locks / versions / second dependency one at a time at every
//	          value on every two-module core vector in which a buf.work.yaml is possible, and on the
//	          two-module vectors with two different spellings (no buf.work.yaml)
//	thorough: every core vector x the full product of locks x versions x second dependency, and
//	          every declaration triple with an inert or declaring module c (full 4x4x4 product) alone
func depWorldVectors(dims []Dim, ix dimIndex, quick bool) [][]int {
	mk := func(a, b, c, layout int, rest []int) []int {
		v := make([]int, len(dims))
		v[ix["d.a"]], v[ix["d.b"]], v[ix["d.c"]], v[ix["d.layout"]] = a, b, c, layout
		if rest != nil {
			v[ix["d.lock"]], v[ix["d.ver"]], v[ix["d.extra"]] = rest[0], rest[1], rest[2]
		}
		return v
	}
	restDims := []Dim{dims[ix["d.lock"]], dims[ix["d.ver"]], dims[ix["d.extra"]]}
	var restFull [][]int
	for l := 0; l < restDims[0].N; l++ {
		for w := 0; w < restDims[1].N; w++ {
			for e := 0; e < restDims[2].N; e++ {
				restFull = append(restFull, []int{l, w, e})
			}
		}
	}
	restSingles := TWayAll(restDims, 1)
	type core struct{ a, b, c, layout int }
	var cores []core
	for layout := 0; layout < 2; layout++ {
		for a := 0; a < 4; a++ {
			for b := 0; b < 4; b++ {
				cores = append(cores, core{a, b, 0, layout})
			}
		}
		for a := 1; a < 4; a++ {
			for b := a; b < 4; b++ {
				for c := b; c < 4; c++ {
					cores = append(cores, core{a, b, c, layout})
				}
			}
		}
	}
	seen := map[string]bool{}
	var out [][]int
	add := func(v []int) {
		k := fmt.Sprint(v)
		if !seen[k] {
			seen[k] = true
			out = append(out, v)
		}
	}
	for _, co := range cores {
		add(mk(co.a, co.b, co.c, co.layout, nil))
	}
	for _, co := range cores {
		if quick {
			mixed := co.a != 0 && co.b != 0 && co.a != co.b
			if co.c != 0 || (co.layout == 1) != mixed {
				continue
			}
			for _, rv := range restSingles {
				add(mk(co.a, co.b, co.c, co.layout, rv))
			}
		} else {
			for _, rv := range restFull {
				add(mk(co.a, co.b, co.c, co.layout, rv))
			}
		}
	}
	if !quick {
		for layout := 0; layout < 2; layout++ {
			for a := 0; a < 4; a++ {
				for b := 0; b < 4; b++ {
					for c := 1; c < 5; c++ {
						add(mk(a, b, c, layout, nil))
					}
				}
			}
		}
	}
	return out
}

func runMigrationDeps(r *evid.Run) {
	deps, err := newDepWorldDeps()
	if err != nil {
		r.Incomplete("migration (dependency worlds): cannot build the remote modules in-process: " + err.Error())
		return
	}
	dims := depDims()
	ix := indexDims(dims)
	var cases []MigCase
	outside := 0
	for _, v := range depWorldVectors(dims, ix, r.Quick()) {
		if c, ok := buildDepWorld(dims, ix, v, deps); ok {
			cases = append(cases, c)
		} else {
			outside++
		}
	}
	if r.Quick() {
		r.Set("migration_deps_enumeration", "declarations of the shared dependency (none / unpinned / :r1 / :r2) by two modules as a full product and by three declaring modules as multisets, x layout (buf.work.yaml / separate module directories; a buf.work.yaml workspace admits one spelling per dependency); locks, versions and the second dependency one at a time at every value on the two-module vectors")
	} else {
		r.Set("migration_deps_enumeration", "the quick declaration vectors x the full product of locks x versions x second dependency, plus the full 4x4x4 product of declarations by three modules (module c inert or declaring) x layout")
	}
	r.Set("migration_deps_worlds_generated", len(cases))
	r.Set("migration_deps_vectors_outside_grammar", outside)
	cov := newCounter()
	skips := newCounter()
	r.ParallelFor(len(cases), 0, func(i int) {
		c := cases[i]
		r.Eval(1)
		migrateOne(r, c, deps, cov, skips, i%8 == 0)
		r.SampleEvery(i, 499, func() any { return m{"kind": c.kind(), "case": c} })
	})
	snap := cov.snapshot()
	r.Set("migration_deps_coverage", snap)
	r.Set("migration_deps_skipped_reasons_top", skips.top(8))
	if snap["skipped_invalid_before_migration"] > 0 {
		r.Incomplete(fmt.Sprintf("migration (dependency worlds): %d generated worlds do not build before migration (the grammar is meant to generate valid workspaces only)", snap["skipped_invalid_before_migration"]))
	}
	for _, clause := range []string{"migrated", "deps_oracle/workspaces_checked", "deps_oracle/external_dep_checked", "deps_oracle/dep_on_workspace_module",
		"deps_oracle/declared_by_two_or_more_modules/declared-unpinned", "deps_oracle/declared_by_two_or_more_modules/declared-pinned",
		"deps_oracle/declared_by_two_or_more_modules/declared-pinned-and-unpinned", "deps_oracle/declared_by_three_modules",
		"deps_oracle/two_distinct_refs_declared", "deps_oracle/pin_checked", "deps_oracle/indirect_pin_checked",
		"lint_nonempty_before", "breaking_nonempty_before", "descriptors_compared"} {
		if snap[clause] == 0 {
			r.Incomplete("migration (dependency worlds) clause never exercised: " + clause)
		}
	}
}
