package c16

import (
	"context"
	"fmt"
	"sort"
	"strings"
	"time"

	"github.com/bufbuild/buf/private/bufpkg/bufconfig"
	"github.com/bufbuild/buf/private/pkg/uuidutil"
	"github.com/bufbuild/bufverif/internal/bufx"
	"github.com/bufbuild/bufverif/internal/evid"
)

// ---------------------------------------------------------------------------------------------
// Dependency oracle of the migration clause (applies to every migrated workspace of both grammars).
//
// The property demands that migration preserves, for every module, the set of files built. Which
// files of remote modules a v2 workspace builds is decided by its `deps` (buf.yaml) and the pins
// derived from them (buf.lock, a generated file: the next `buf dep update` / `buf dep prune`
// recomputes it from `deps`). A dependency of a v1 module that is neither a module of the
// workspace nor a dependency of the migrated workspace is therefore a change of the files built,
// even while a stale pin still hides it. The oracle is stated on names, refs and pins only:
//
//   - every dependency declared by some v1/v1beta1 module that is not itself a module of the
//     workspace is declared by the migrated buf.yaml, once; nothing undeclared is added;
//   - a ref (label / commit) on a migrated dependency is one that some module declared, and a
//     dependency that some module pinned with a ref stays pinned with a ref;
//   - every module pinned by some v1 buf.lock that is not a module of the workspace is pinned by
//     the migrated buf.lock, at a commit some buf.lock pinned (or the commit of the migrated ref when
//     a declared ref decides), and nothing unpinned before is pinned after;
//   - (round 3) a v2 workspace holds ONE ref and ONE pin per dependency. When the modules disagree
//     (two different refs declared; lock files that pin different commits and no ref to decide) the
//     survivor must be the NEWEST by registry create time: that is what a v1 buf.work.yaml workspace
//     already builds every module against (bufmodule keeps the remote module with the latest create
//     time), and, registry commits being backward compatible, the only choice under which the
//     module that was written against the newer commit still builds the same files.
// ---------------------------------------------------------------------------------------------

func checkMigratedDeps(r sink, c MigCase, after, migrated map[string]string, cov *counter) {
	ctx := context.Background()
	text, ok := after["buf.yaml"]
	if !ok {
		r.Incomplete("migration harness: no buf.yaml at the root of the migrated workspace for case " + c.Key)
		return
	}
	file, err := readBufYAML(text)
	if err != nil {
		// the workspace was built from this file a moment ago, so this cannot happen
		r.Incomplete("migration harness: the migrated buf.yaml is not readable: " + err.Error())
		return
	}
	wsNames := map[string]bool{}
	for _, n := range c.Names {
		wsNames[n] = true
	}
	declared := refsByName(c.Decl) // name -> set of refs ("" = unpinned)
	evidence := func() any { return m{"kind": c.kind(), "case": c, "migrated": migrated} }
	got := map[string][]string{} // name -> refs in the migrated file
	for _, ref := range file.ConfiguredDepModuleRefs() {
		got[ref.FullName().String()] = append(got[ref.FullName().String()], ref.Ref())
	}
	shape := func(refs map[string]bool) string {
		pinned := 0
		for ref := range refs {
			if ref != "" {
				pinned++
			}
		}
		switch {
		case pinned == 0:
			return "declared-unpinned"
		case refs[""]:
			return "declared-pinned-and-unpinned"
		default:
			return "declared-pinned"
		}
	}
	names := make([]string, 0, len(declared))
	for n := range declared {
		names = append(names, n)
	}
	sort.Strings(names)
	for _, name := range names {
		refs := declared[name]
		if wsNames[name] {
			cov.add("deps_oracle/dep_on_workspace_module", 1)
			continue
		}
		cov.add("deps_oracle/external_dep_checked", 1)
		declarers := 0
		for _, d := range c.Decl {
			if d.Name == name {
				declarers++
			}
		}
		if declarers >= 2 {
			cov.add("deps_oracle/declared_by_two_or_more_modules/"+shape(refs), 1)
		}
		if declarers >= 3 {
			cov.add("deps_oracle/declared_by_three_modules", 1)
		}
		if len(refs) >= 2 && !refs[""] || len(refs) >= 3 {
			cov.add("deps_oracle/two_distinct_refs_declared", 1)
		}
		g, ok := got[name]
		if !ok {
			r.Violate("migrate/deps/dropped/"+shape(refs),
				fmt.Sprintf("dependency %s is declared by %d module(s) of the workspace (refs %q) and is not a module of the workspace, but the migrated buf.yaml does not declare it: the files of %s stop being built as soon as buf.lock is recomputed from deps",
					name, declarers, sortedKeys(refs), name), evidence())
			continue
		}
		if len(g) > 1 {
			r.Violate("migrate/deps/duplicated", fmt.Sprintf("dependency %s is declared %d times by the migrated buf.yaml (refs %v)", name, len(g), g), evidence())
			continue
		}
		switch {
		case g[0] != "" && !refs[g[0]]:
			r.Violate("migrate/deps/ref-invented", fmt.Sprintf("dependency %s is migrated with ref %q, which no module declared (declared refs %q)", name, g[0], sortedKeys(refs)), evidence())
		case g[0] == "" && shape(refs) != "declared-unpinned":
			r.Violate("migrate/deps/ref-dropped/"+shape(refs), fmt.Sprintf("dependency %s was pinned with a ref by some module (declared refs %q) and is migrated without a ref", name, sortedKeys(refs)), evidence())
		default:
			if want, ok := c.newestDeclaredRef(name, refs); ok {
				cov.add("deps_oracle/two_refs_on_different_commits", 1)
				if g[0] != want {
					r.Violate("migrate/deps/ref-not-latest",
						fmt.Sprintf("dependency %s is declared with refs %q, which the registry resolves to different commits; the migrated buf.yaml keeps %q, the newest is %q: the module that was written against the newer commit is now built against an older one",
							name, sortedKeys(refs), g[0], want), evidence())
				}
			}
		}
	}
	gotNames := make([]string, 0, len(got))
	for n := range got {
		gotNames = append(gotNames, n)
	}
	sort.Strings(gotNames)
	for _, name := range gotNames {
		if declared[name] == nil {
			r.Violate("migrate/deps/added", fmt.Sprintf("the migrated buf.yaml declares dependency %s, which no module of the workspace declared", name), evidence())
		}
	}
	cov.add("deps_oracle/workspaces_checked", 1)

	// ---- pins
	pinned := map[string]map[string]bool{} // name -> set of dashless commits
	for _, p := range c.Pins {
		if wsNames[p.Name] {
			continue
		}
		if pinned[p.Name] == nil {
			pinned[p.Name] = map[string]bool{}
		}
		pinned[p.Name][p.Commit] = true
	}
	gotPins := map[string]string{}
	if lockText, ok := after["buf.lock"]; ok {
		lock, err := bufconfig.ReadBufLockFile(ctx, strings.NewReader(lockText), "buf.lock")
		if err != nil {
			r.Incomplete("migration harness: the migrated buf.lock is not readable: " + err.Error())
			return
		}
		for _, k := range lock.DepModuleKeys() {
			gotPins[k.FullName().String()] = uuidutil.ToDashless(k.CommitID())
		}
	} else if len(c.Pins) > 0 {
		r.Violate("migrate/lock/missing", "the v1 workspace had a buf.lock and the migrated workspace has none", evidence())
		return
	}
	pinNames := make([]string, 0, len(pinned))
	for n := range pinned {
		pinNames = append(pinNames, n)
	}
	sort.Strings(pinNames)
	for _, name := range pinNames {
		cov.add("deps_oracle/pin_checked", 1)
		if declared[name] == nil {
			cov.add("deps_oracle/indirect_pin_checked", 1)
		}
		commit, ok := gotPins[name]
		if !ok {
			role := "declared-dependency"
			if declared[name] == nil {
				role = "indirect-dependency"
			}
			r.Violate("migrate/lock/pin-dropped/"+role, fmt.Sprintf("module %s is pinned by a v1 buf.lock of the workspace and not by the migrated buf.lock", name), evidence())
			continue
		}
		refDecides := declared[name] != nil && shape(declared[name]) != "declared-unpinned"
		switch {
		case refDecides:
			// the pin follows the ref: a commit some lock pinned, or the commit the migrated ref resolves to
			ofRef := c.RefCommits == nil // no registry tables recorded (workspace grammar): not judged
			if g := got[name]; len(g) == 1 && c.RefCommits[name][g[0]] == commit {
				ofRef = true
			}
			if !pinned[name][commit] && !ofRef {
				r.Violate("migrate/lock/commit-changed", fmt.Sprintf("module %s is pinned at %s after migration; the v1 buf.lock files pinned %v and the migrated ref %q does not resolve to it", name, commit, sortedKeys(pinned[name]), got[name]), evidence())
			}
		case !pinned[name][commit]:
			r.Violate("migrate/lock/commit-changed", fmt.Sprintf("module %s is pinned at %s after migration; the v1 buf.lock files pinned %v", name, commit, sortedKeys(pinned[name])), evidence())
		case len(pinned[name]) > 1 && c.CommitTimes != nil:
			role := "declared-dependency"
			if declared[name] == nil {
				role = "indirect-dependency"
			}
			cov.add("deps_oracle/locks_disagree_without_ref/"+role, 1)
			if newest := c.newestCommit(sortedKeys(pinned[name])); commit != newest {
				r.Violate("migrate/lock/commit-not-latest/"+role,
					fmt.Sprintf("the v1 buf.lock files pin module %s at different commits %v and no ref decides; the migrated buf.lock keeps %s, the newest by create time is %s: the module that was locked to the newer commit is now built against an older one",
						name, sortedKeys(pinned[name]), commit, newest), evidence())
			}
		}
	}
	for name := range gotPins {
		if pinned[name] == nil && !wsNames[name] {
			r.Violate("migrate/lock/pin-added", fmt.Sprintf("the migrated buf.lock pins %s, which no v1 buf.lock pinned", name), evidence())
		}
	}
}

func refsByName(decl []declDep) map[string]map[string]bool {
	out := map[string]map[string]bool{}
	for _, d := range decl {
		if out[d.Name] == nil {
			out[d.Name] = map[string]bool{}
		}
		out[d.Name][d.Ref] = true
	}
	return out
}

// newestCommit returns the commit (dashless) with the latest recorded create time.
func (c MigCase) newestCommit(commits []string) string {
	best := ""
	var bestTime time.Time
	for _, id := range commits {
		if t := c.CommitTimes[id]; best == "" || t.After(bestTime) {
			best, bestTime = id, t
		}
	}
	return best
}

// newestDeclaredRef: when two or more different refs (labels) of one dependency are declared and the
// registry resolves them to different commits, the ref whose commit is the newest.
func (c MigCase) newestDeclaredRef(name string, refs map[string]bool) (string, bool) {
	if c.RefCommits == nil {
		return "", false
	}
	var pinnedRefs []string
	for _, ref := range sortedKeys(refs) {
		if ref != "" {
			pinnedRefs = append(pinnedRefs, ref)
		}
	}
	if len(pinnedRefs) < 2 {
		return "", false
	}
	best := ""
	var bestTime time.Time
	for _, ref := range pinnedRefs {
		id, ok := c.RefCommits[name][ref]
		if !ok {
			return "", false
		}
		if t := c.CommitTimes[id]; best == "" || t.After(bestTime) {
			best, bestTime = ref, t
		}
	}
	return best, true
}

func sortedKeys(set map[string]bool) []string {
	out := make([]string, 0, len(set))
	for k := range set {
		out = append(out, k)
	}
	sort.Strings(out)
	return out
}

// ---------------------------------------------------------------------------------------------
// Dependency-merge worlds: the second workspace grammar of the migration clause.
//
// The migrator merges the `deps` lists and the buf.lock files of all modules into one list and one
// lock. The unit of that merge is the multiset of declarations of ONE dependency name over the
// modules, so it is enumerated as a full product: three modules a, b, c, each declaring the shared
// dependency not at all / unpinned / with ref :r1 / with ref :r2 (4^3 = 64), combined with the
// dimensions the merge also reads: which modules carry a buf.lock, module file versions, a
// second dependency (the merge has one global "resolved locally" flag) or a dependency on a module
// of the workspace, and whether there is a buf.work.yaml at all.
// The shared dependency itself imports a third remote module that no buf.yaml declares (an
// indirect dependency, present in the locks only).
// ---------------------------------------------------------------------------------------------

func depDims() []Dim {
	return []Dim{
		{"d.a", 4},      // declaration of the shared dependency by module a: 0 none; 1 unpinned; 2 :r1; 3 :r2
		{"d.b", 4},      // the same for module b
		{"d.c", 5},      // 0 there is no module c; 1 unpinned; 2 :r1; 3 :r2; 4 module c exists and declares nothing
		{"d.layout", 2}, // 0 buf.work.yaml [a,b(,c)]; 1 no buf.work.yaml: the module directories are migrated together
		{"d.lock", 3},   // 0 every module that declares a remote dependency has a buf.lock (and imports the dependency); 1 no buf.lock anywhere; 2 only the first declaring module has one
		{"d.ver", 3},    // 0 all v1; 1 module b is v1beta1; 2 all v1beta1
		{"d.extra", 5},  // 0 none; 1 a declares a second dependency unpinned; 2 a and b declare it unpinned; 3 a declares it with :r1; 4 a is named and b declares (and imports) workspace module a
		// round 3: the registry holds a history per module (registry.go). A lock of a module that declares
		// the shared dependency with a label pins the label's commit; the locks of the modules that declare
		// it UNPINNED were written at different times: commit levels (1 oldest .. 3 head) of the 1st, 2nd,
		// 3rd such module with a buf.lock
		{"d.pins", 5}, // 0 (3,3,3) all at the head; 1 (2,3,3) the first lock is older (the indirect dependency differs too); 2 (3,2,3) the second is older; 3 (1,2,2) both stale, the indirect dependency agrees; 4 (2,3,1) three different commits
		// form of the digests in the v1 buf.lock files (the format of the buf CLI that wrote them)
		{"d.digest", 3},  // 0 shake256 (b4); 1 none: commit-only entries (before ~v1.10); 2 retired digest types b1- / b3- with the branch and create_time keys of that era
		{"d.lockver", 3}, // version key of the buf.lock files: 0 v1; 1 v1beta1; 2 no version key
		// round 4: how the migrator is invoked (migCallArgs in migrate.go): 0 MigrateAll; with a buf.work.yaml
		// 1 the workspace alone, 2 + all its directories, 3 + its last directory, 4 + its directories reversed and
		// then in order, 5 the workspace twice + the first directory in unnormalised spelling; without one the
		// module directories 2 in order, 3 reversed, 4 reversed then in order, 5 unnormalised spellings
		{"d.call", 6},
	}
}

const (
	sharedName = "buf.build/acme/shared"
	baseName   = "buf.build/acme/base"
	extraName  = "buf.build/acme/extra"
	modaName   = "buf.build/acme/moda"
)

// The history of the shared dependency: every commit is a backward compatible superset of the one
// before (what `buf breaking` enforces on a registry module); commit 3 needs commit 2 of base.
func protoSharedAt(level int) string {
	s := "syntax = \"proto3\";\npackage shared.v1;\nimport \"base/v1/t.proto\";\nmessage D {\n  base.v1.T t = 1;\n}\n"
	if level >= 2 {
		s += "message D2 {\n  string v = 1;\n}\n"
	}
	if level >= 3 {
		s += "message D3 {\n  base.v1.T2 t2 = 1;\n}\n"
	}
	return s
}

func protoBaseAt(level int) string {
	s := "syntax = \"proto3\";\npackage base.v1;\nmessage T {\n  string x = 1;\n}\n"
	if level >= 2 {
		s += "message T2 {\n  string y = 1;\n}\n"
	}
	return s
}

// baseLevelOfShared: the commit of base that commit `level` of shared was pushed with (and that a
// buf.lock written by `buf mod update` lists next to it).
func baseLevelOfShared(level int) int {
	if level >= 3 {
		return 2
	}
	return 1
}

const protoExtra = `syntax = "proto3";
package extra.v1;
message E {
  string y = 1;
}
`

// depWorldProto is the one .proto file of a module of a dependency world. sharedLevel > 0: the file
// imports the shared dependency and uses what commit `sharedLevel` of it added.
func depWorldProto(pkg string, edited bool, sharedLevel int, useExtra bool, importA bool) string {
	var b strings.Builder
	b.WriteString("syntax = \"proto3\";\npackage " + pkg + ";\n")
	if sharedLevel > 0 {
		b.WriteString("import \"shared/v1/d.proto\";\n")
	}
	if useExtra {
		b.WriteString("import \"extra/v1/e.proto\";\n")
	}
	if importA {
		b.WriteString("import \"ma/v1/x.proto\";\n")
	}
	b.WriteString("message X {\n  string name = 1;\n")
	if !edited {
		b.WriteString("  int32 old = 2;\n")
	}
	if sharedLevel > 0 {
		b.WriteString("  shared.v1.D d = 3;\n")
	}
	if useExtra {
		b.WriteString("  extra.v1.E e = 4;\n")
	}
	if importA {
		b.WriteString("  ma.v1.X a = 5;\n")
	}
	b.WriteString("  string BadName = 6;\n")
	if sharedLevel >= 2 {
		b.WriteString("  shared.v1.D2 d2 = 7;\n")
	}
	if sharedLevel >= 3 {
		b.WriteString("  shared.v1.D3 d3 = 8;\n")
	}
	b.WriteString("}\n")
	return b.String()
}

// newDepWorldDeps builds the registry of the dependency-merge worlds in-process: three commits of
// shared, two of base, one of extra and of the published state of module a.
func newDepWorldDeps() (*migDeps, error) {
	day := func(y int, mo time.Month) time.Time { return time.Date(y, mo, 1, 12, 0, 0, 0, time.UTC) }
	base1 := regModule{Name: baseName, Seed: "depworld-" + baseName, Time: day(2021, 1), Files: map[string]string{"base/v1/t.proto": protoBaseAt(1)}}
	base2 := regModule{Name: baseName, Seed: "depworld2-" + baseName, Time: day(2023, 1), Files: map[string]string{"base/v1/t.proto": protoBaseAt(2)}}
	shared := func(level int, seed string, t time.Time) regModule {
		return regModule{Name: sharedName, Seed: seed, Time: t, Files: map[string]string{"shared/v1/d.proto": protoSharedAt(level)}}
	}
	reg, err := newMultiRegistry([][]regModule{
		{
			base1, shared(1, "depworld-"+sharedName, day(2021, 2)),
			{Name: extraName, Seed: "depworld-" + extraName, Time: day(2021, 3), Files: map[string]string{"extra/v1/e.proto": protoExtra}},
			// the published state of module a of the worlds in which a is named (d.extra=4): what a sibling
			// module directory that is not in a common buf.work.yaml resolves `buf.build/acme/moda` to
			{Name: modaName, Seed: "depworld-" + modaName, Time: day(2021, 4), Files: map[string]string{"ma/v1/x.proto": depWorldProto("ma.v1", false, 0, false, false)}},
		},
		{base1, shared(2, "depworld2-"+sharedName, day(2022, 2))},
		{base2, shared(3, "depworld3-"+sharedName, day(2023, 2))},
	}, map[string]map[string]string{
		sharedName: {"r1": "depworld-" + sharedName, "r2": "depworld2-" + sharedName},
		extraName:  {"r1": "depworld-" + extraName},
	})
	if err != nil {
		return nil, err
	}
	return &migDeps{reg: reg, keyProv: reg, commitProv: reg, prov: bufx.Providers{Graph: reg, ModuleData: reg, Commit: reg}}, nil
}

// lockEntry renders one dep of a v1 buf.lock in the form `digest` of dimension d.digest.
func lockEntry(rc regCommit, digest int) m {
	parts := strings.Split(rc.Name, "/")
	e := m{"remote": parts[0], "owner": parts[1], "repository": parts[2], "commit": rc.dashless()}
	switch digest {
	case 0:
		e["digest"] = rc.B4
	case 2:
		// what the buf CLI of 2021 wrote: a digest type that was retired in v1.32, the branch and the create time
		e["digest"] = "b1-" + strings.Repeat("B", 43) + "="
		if rc.Name == baseName {
			e["digest"] = "b3-" + strings.Repeat("A", 43) + "="
		}
		e["branch"] = "main"
		e["create_time"] = rc.Time.Format(time.RFC3339)
	}
	return e
}

// unpinnedLockLevels: commit level of the shared dependency in the lock of the k-th module (k = 0, 1,
// 2) that declares it unpinned and has a buf.lock, per value of d.pins.
var unpinnedLockLevels = [][3]int{{3, 3, 3}, {2, 3, 3}, {3, 2, 3}, {1, 2, 2}, {2, 3, 1}}

// buildDepWorld renders one dependency-merge world and its edited copy.
func buildDepWorld(dims []Dim, ix dimIndex, v []int, deps *migDeps) (MigCase, bool) {
	c := MigCase{Vector: map[string]int{}, Old: map[string]string{}, New: map[string]string{}, Grammar: "deps", Names: map[string]string{}}
	for i, d := range dims {
		if v[i] != 0 {
			c.Vector[d.Name] = v[i]
		}
	}
	reg := deps.reg
	dirs := []string{"a", "b"}
	if ix.val(v, "d.c") != 0 {
		dirs = append(dirs, "c")
	}
	lockMode, ver, extra, layout := ix.val(v, "d.lock"), ix.val(v, "d.ver"), ix.val(v, "d.extra"), ix.val(v, "d.layout")
	pins, digest, lockver := ix.val(v, "d.pins"), ix.val(v, "d.digest"), ix.val(v, "d.lockver")
	refOf := func(val int) (string, bool) {
		switch val {
		case 1:
			return "", true
		case 2:
			return "r1", true
		case 3:
			return "r2", true
		}
		return "", false
	}
	// what every module declares, in the order of its deps list
	decl := map[string][]declDep{}
	for _, dir := range dirs {
		if ref, ok := refOf(ix.val(v, "d."+dir)); ok {
			decl[dir] = append(decl[dir], declDep{Dir: dir, Name: sharedName, Ref: ref})
		}
	}
	if layout == 0 {
		// buf rule for buf.work.yaml workspaces (workspace_targeting.go: "found different refs for the
		// same module within buf.yaml deps in the workspace"): all modules must spell a dependency the
		// same way. Mixed spellings exist only where the module directories are separate workspaces.
		spellings := map[string]bool{}
		for _, dir := range dirs {
			for _, d := range decl[dir] {
				spellings[d.Ref] = true
			}
		}
		if len(spellings) > 1 {
			return c, false
		}
	}
	if extra == 4 && layout == 1 {
		// Without a buf.work.yaml module b resolves `buf.build/acme/moda` to the published module, after
		// the migration to the local directory a: the two may differ (b's breaking check then sees the
		// local edits of a's files). Joining separate directories changes that by design; the property
		// speaks about workspaces, in which the local module wins before and after.
		return c, false
	}
	switch extra {
	case 1:
		decl["a"] = append(decl["a"], declDep{Dir: "a", Name: extraName})
	case 2:
		decl["a"] = append(decl["a"], declDep{Dir: "a", Name: extraName})
		decl["b"] = append(decl["b"], declDep{Dir: "b", Name: extraName})
	case 3:
		decl["a"] = append(decl["a"], declDep{Dir: "a", Name: extraName, Ref: "r1"})
	case 4:
		c.Names["a"] = modaName
		decl["b"] = append(decl["b"], declDep{Dir: "b", Name: modaName})
	}
	declaresRemote := func(dir string) bool { return len(decl[dir]) > 0 }
	firstDeclarer := ""
	for _, dir := range dirs {
		if declaresRemote(dir) {
			firstDeclarer = dir
			break
		}
	}
	hasLock := map[string]bool{}
	for _, dir := range dirs {
		switch lockMode {
		case 0:
			hasLock[dir] = declaresRemote(dir)
		case 2:
			hasLock[dir] = dir == firstDeclarer
		}
	}
	// which commit of the shared dependency the lock of every module pins
	sharedLevel := map[string]int{}
	unpinnedLocks, anyLock := 0, false
	pinnedRefs := map[string]bool{}
	for _, dir := range dirs {
		anyLock = anyLock || hasLock[dir]
		for _, d := range decl[dir] {
			if d.Name != sharedName {
				continue
			}
			if d.Ref != "" {
				pinnedRefs[d.Ref] = true
			}
			if !hasLock[dir] {
				continue
			}
			if d.Ref != "" {
				rc, _ := reg.resolve(sharedName, d.Ref)
				sharedLevel[dir] = rc.Level
			} else {
				sharedLevel[dir] = unpinnedLockLevels[pins][unpinnedLocks]
				unpinnedLocks++
			}
		}
	}
	switch {
	case pins == 4 && unpinnedLocks < 3, pins >= 1 && unpinnedLocks < 2:
		return c, false // the value needs that many locks of modules that declare the dependency unpinned
	case (digest != 0 || lockver != 0) && !anyLock:
		return c, false // no buf.lock to carry the form
	}
	// The commit of the shared dependency the migrated workspace is expected to end up with (reference
	// model, used only to decide how much of the dependency a module may use so that the world is a
	// valid workspace before AND after a faithful migration): the newest declared label if there is
	// one, else the newest locked commit. A module uses everything its own locked commit offers up to
	// that level; a migration that keeps an older commit then no longer builds the module.
	finalLevel := 0
	for ref := range pinnedRefs {
		if rc, _ := reg.resolve(sharedName, ref); rc.Level > finalLevel {
			finalLevel = rc.Level
		}
	}
	if finalLevel == 0 {
		for _, l := range sharedLevel {
			if l > finalLevel {
				finalLevel = l
			}
		}
	}
	lockVersion := []string{"v1", "v1beta1", ""}[lockver]
	for _, dir := range dirs {
		useLevel, useExtra := 0, false
		y := m{"version": "v1"}
		role := "v1-module"
		if ver == 2 || ver == 1 && dir == "b" {
			y["version"] = "v1beta1"
			role = "v1beta1-module"
		}
		c.Roles = append(c.Roles, role)
		if name := c.Names[dir]; name != "" {
			y["name"] = name
		}
		var depStrings []string
		var locked []regCommit
		for _, d := range decl[dir] {
			s := d.Name
			if d.Ref != "" {
				s += ":" + d.Ref
			}
			depStrings = append(depStrings, s)
			c.Decl = append(c.Decl, d)
			if !hasLock[dir] {
				continue
			}
			switch d.Name {
			case sharedName:
				useLevel = sharedLevel[dir]
				if useLevel > finalLevel {
					useLevel = finalLevel
				}
				// the lock of a v1 module lists the transitive closure: shared and the module it imports
				locked = append(locked, reg.at(baseName, baseLevelOfShared(sharedLevel[dir])), reg.at(sharedName, sharedLevel[dir]))
			case extraName:
				useExtra = true
				locked = append(locked, reg.head(extraName))
			case modaName:
				// a pin of a module that is also a module of the workspace (the local module wins)
				locked = append(locked, reg.head(modaName))
			}
		}
		if len(depStrings) > 0 {
			y["deps"] = strs(depStrings)
		}
		c.Old[jp(dir, "buf.yaml")] = EmitYAML(y)
		if hasLock[dir] {
			sort.Slice(locked, func(i, j int) bool { return locked[i].Name < locked[j].Name })
			var lockEntries []any
			for _, rc := range locked {
				lockEntries = append(lockEntries, lockEntry(rc, digest))
				c.Pins = append(c.Pins, pinDep{Dir: dir, Name: rc.Name, Commit: rc.dashless()})
			}
			doc := m{"deps": lockEntries}
			if lockVersion != "" {
				doc["version"] = lockVersion
			}
			c.Old[jp(dir, "buf.lock")] = "# Generated by buf. DO NOT EDIT.\n" + EmitYAML(doc)
		}
		importA := extra == 4 && dir == "b"
		pkg := "m" + dir + ".v1"
		path := jp(dir, "m"+dir+"/v1/x.proto")
		c.Old[path] = depWorldProto(pkg, false, useLevel, useExtra, importA)
		c.New[path] = depWorldProto(pkg, true, useLevel, useExtra, importA)
	}
	// registry tables for the dependency oracle (reference data: what was put into the registry)
	c.CommitTimes = map[string]time.Time{}
	c.RefCommits = map[string]map[string]string{}
	for name, h := range reg.history {
		for _, rc := range h {
			c.CommitTimes[rc.dashless()] = rc.Time
		}
		c.RefCommits[name] = map[string]string{}
		for ref, id := range reg.labels[name] {
			c.RefCommits[name][ref] = uuidutil.ToDashless(id)
		}
	}
	if layout == 0 {
		c.Old["buf.work.yaml"] = EmitYAML(m{"version": "v1", "directories": strs(dirs)})
	} else {
		c.StandaloneModules = true
	}
	for p, text := range c.Old {
		if !strings.HasSuffix(p, ".proto") {
			c.New[p] = text
		}
	}
	if len(c.Names) == 0 {
		c.Names = nil
	}
	c.ModuleDirs = dirs
	if call := ix.val(v, "d.call"); call != 0 {
		var ok bool
		if c.Call, ok = migCallArgs(call, layout == 0, dirs); !ok {
			return c, false
		}
	}
	keys := make([]string, 0, len(c.Vector))
	for k, val := range c.Vector {
		keys = append(keys, fmt.Sprintf("%s=%d", k, val))
	}
	sort.Strings(keys)
	c.Key = strings.Join(keys, ",")
	return c, true
}

// countDepWorldClauses measures which lock-file forms a migrated dependency world exercised.
func countDepWorldClauses(cov *counter, c MigCase) {
	switch c.Vector["d.digest"] {
	case 1:
		cov.add("locks/v1-lock-without-digests", 1)
	case 2:
		cov.add("locks/v1-lock-with-retired-digest-types", 1)
	}
	switch c.Vector["d.lockver"] {
	case 1:
		cov.add("locks/lock-version-v1beta1", 1)
	case 2:
		cov.add("locks/lock-without-version", 1)
	}
	commits := map[string]bool{}
	for _, p := range c.Pins {
		if p.Name == sharedName {
			commits[p.Commit] = true
		}
	}
	if len(commits) > 1 {
		cov.add("locks/shared-dependency-pinned-at-different-commits", 1)
		for p, text := range c.Old {
			if strings.HasSuffix(p, ".proto") && strings.Contains(text, "shared.v1.D2") {
				cov.add("locks/module-uses-additions-of-a-newer-commit", 1)
				break
			}
		}
	}
}

// depWorldVectors enumerates the feature vectors of the dependency-merge worlds.
//
// core (declarations x layout): a module that declares nothing is inert for the merge, so a third
// module is generated only when it declares the dependency, and for three declaring modules only
// the multisets of declarations (a <= b <= c; the modules are interchangeable, the migrator visits
// them in directory order and merges through maps).
//
//	quick:    every core vector alone; locks / versions / second dependency one at a time at every
//	          value on every two-module core vector in which a buf.work.yaml is possible, and on the
//	          two-module vectors with two different spellings (no buf.work.yaml)
//	thorough: every core vector x the full product of locks x versions x second dependency, and
//	          every declaration triple with an inert or declaring module c (full 4x4x4 product) alone
//
// round 3 (history per module, forms of the v1 buf.lock): the new dimensions only matter where two
// or three modules declare the dependency unpinned and carry a lock (d.pins) resp. where a lock exists
// (d.digest, d.lockver), so they are enumerated on those cores:
//
//	quick:    d.pins at every value x layout on (unpinned, unpinned) and (unpinned, unpinned, unpinned);
//	          an older first lock x second dependency / versions at every value; x a third module that
//	          declares a label (the ref decides while the locks disagree); d.digest x d.lockver as a
//	          full product x layout on (unpinned, unpinned); legacy digests x two labels, x disagreeing locks
//	thorough: the full product d.pins x d.digest x d.lockver x layout on both cores, and d.pins x the
//	          full product of locks x versions x second dependency x layout on (unpinned, unpinned)
func depWorldVectors(dims []Dim, ix dimIndex, quick bool) [][]int {
	mk := func(a, b, c, layout int, rest []int) []int {
		v := make([]int, len(dims))
		v[ix["d.a"]], v[ix["d.b"]], v[ix["d.c"]], v[ix["d.layout"]] = a, b, c, layout
		if rest != nil {
			v[ix["d.lock"]], v[ix["d.ver"]], v[ix["d.extra"]] = rest[0], rest[1], rest[2]
		}
		return v
	}
	restDims := []Dim{dims[ix["d.lock"]], dims[ix["d.ver"]], dims[ix["d.extra"]]}
	var restFull [][]int
	for l := 0; l < restDims[0].N; l++ {
		for w := 0; w < restDims[1].N; w++ {
			for e := 0; e < restDims[2].N; e++ {
				restFull = append(restFull, []int{l, w, e})
			}
		}
	}
	restSingles := TWayAll(restDims, 1)
	type core struct{ a, b, c, layout int }
	var cores []core
	for layout := 0; layout < 2; layout++ {
		for a := 0; a < 4; a++ {
			for b := 0; b < 4; b++ {
				cores = append(cores, core{a, b, 0, layout})
			}
		}
		for a := 1; a < 4; a++ {
			for b := a; b < 4; b++ {
				for c := b; c < 4; c++ {
					cores = append(cores, core{a, b, c, layout})
				}
			}
		}
	}
	seen := map[string]bool{}
	var out [][]int
	add := func(v []int) {
		k := fmt.Sprint(v)
		if !seen[k] {
			seen[k] = true
			out = append(out, v)
		}
	}
	for _, co := range cores {
		add(mk(co.a, co.b, co.c, co.layout, nil))
	}
	for _, co := range cores {
		if quick {
			mixed := co.a != 0 && co.b != 0 && co.a != co.b
			if co.c != 0 || (co.layout == 1) != mixed {
				continue
			}
			for _, rv := range restSingles {
				add(mk(co.a, co.b, co.c, co.layout, rv))
			}
		} else {
			for _, rv := range restFull {
				add(mk(co.a, co.b, co.c, co.layout, rv))
			}
		}
	}
	if !quick {
		for layout := 0; layout < 2; layout++ {
			for a := 0; a < 4; a++ {
				for b := 0; b < 4; b++ {
					for c := 1; c < 5; c++ {
						add(mk(a, b, c, layout, nil))
					}
				}
			}
		}
	}
	// ---- round 3
	vec := func(a, b, c, layout int, kv map[string]int) []int {
		v := mk(a, b, c, layout, nil)
		for name, val := range kv {
			v[ix[name]] = val
		}
		return v
	}
	nPins, nDigest, nLockver := dims[ix["d.pins"]].N, dims[ix["d.digest"]].N, dims[ix["d.lockver"]].N
	for layout := 0; layout < 2; layout++ {
		if quick {
			for p := 1; p < nPins; p++ {
				add(vec(1, 1, 0, layout, map[string]int{"d.pins": p}))
				add(vec(1, 1, 1, layout, map[string]int{"d.pins": p}))
			}
			for e := 1; e < dims[ix["d.extra"]].N; e++ {
				add(vec(1, 1, 0, layout, map[string]int{"d.pins": 1, "d.extra": e}))
			}
			for w := 1; w < dims[ix["d.ver"]].N; w++ {
				add(vec(1, 1, 0, layout, map[string]int{"d.pins": 1, "d.ver": w}))
			}
			for g := 0; g < nDigest; g++ {
				for lv := 0; lv < nLockver; lv++ {
					add(vec(1, 1, 0, layout, map[string]int{"d.digest": g, "d.lockver": lv}))
				}
				add(vec(1, 1, 0, layout, map[string]int{"d.digest": g, "d.pins": 1}))
			}
			add(vec(1, 1, 0, layout, map[string]int{"d.ver": 2, "d.lockver": 1}))
		} else {
			for p := 0; p < nPins; p++ {
				for g := 0; g < nDigest; g++ {
					for lv := 0; lv < nLockver; lv++ {
						add(vec(1, 1, 0, layout, map[string]int{"d.pins": p, "d.digest": g, "d.lockver": lv}))
						add(vec(1, 1, 1, layout, map[string]int{"d.pins": p, "d.digest": g, "d.lockver": lv}))
					}
				}
				for _, rv := range restFull {
					add(vec(1, 1, 0, layout, map[string]int{"d.pins": p, "d.lock": rv[0], "d.ver": rv[1], "d.extra": rv[2]}))
				}
			}
		}
	}
	// ---- round 4: the invocation form. The order and the number of visits of the module directories is what
	// the merge of deps and locks iterates over, so it is crossed with disagreeing locks (d.pins) and, where
	// the directories are migrated alone, with two different labels.
	nCall := dims[ix["d.call"]].N
	for layout := 0; layout < 2; layout++ {
		for call := 1; call < nCall; call++ {
			if quick {
				add(vec(1, 1, 0, layout, map[string]int{"d.call": call}))
				add(vec(1, 1, 0, layout, map[string]int{"d.call": call, "d.pins": 1}))
				if call == 3 || call == 4 {
					add(vec(1, 1, 1, layout, map[string]int{"d.call": call, "d.pins": 4}))
				}
			} else {
				for p := 0; p < nPins; p++ {
					add(vec(1, 1, 0, layout, map[string]int{"d.call": call, "d.pins": p}))
					add(vec(1, 1, 1, layout, map[string]int{"d.call": call, "d.pins": p}))
				}
				for e := 1; e < dims[ix["d.extra"]].N; e++ {
					add(vec(1, 1, 0, layout, map[string]int{"d.call": call, "d.extra": e}))
				}
			}
			if layout == 1 {
				add(vec(2, 3, 0, 1, map[string]int{"d.call": call}))
				add(vec(1, 2, 0, 1, map[string]int{"d.call": call}))
			}
		}
	}
	// the module directories are separate workspaces (mixed spellings): a label decides while the locks of
	// the unpinned declarers disagree; two labels with legacy locks
	for c := 2; c < 4; c++ {
		add(vec(1, 1, c, 1, map[string]int{"d.pins": 1}))
		add(vec(1, 1, c, 1, map[string]int{"d.pins": 2}))
	}
	for g := 1; g < nDigest; g++ {
		add(vec(2, 3, 0, 1, map[string]int{"d.digest": g}))
		add(vec(1, 2, 0, 1, map[string]int{"d.digest": g}))
	}
	return out
}

func runMigrationDeps(r *evid.Run) {
	deps, err := newDepWorldDeps()
	if err != nil {
		r.Incomplete("migration (dependency worlds): cannot build the remote modules in-process: " + err.Error())
		return
	}
	dims := depDims()
	ix := indexDims(dims)
	var cases []MigCase
	outside := 0
	for _, v := range depWorldVectors(dims, ix, r.Quick()) {
		if c, ok := buildDepWorld(dims, ix, v, deps); ok {
			cases = append(cases, c)
		} else {
			outside++
		}
	}
	if r.Quick() {
		r.Set("migration_deps_enumeration", "declarations of the shared dependency (none / unpinned / :r1 / :r2) by two modules as a full product and by three declaring modules as multisets, x layout (buf.work.yaml / separate module directories; a buf.work.yaml workspace admits one spelling per dependency); locks, versions and the second dependency one at a time at every value on the two-module vectors")
	} else {
		r.Set("migration_deps_enumeration", "the quick declaration vectors x the full product of locks x versions x second dependency, plus the full 4x4x4 product of declarations by three modules (module c inert or declaring) x layout")
	}
	r.Set("migration_deps_worlds_generated", len(cases))
	r.Set("migration_deps_vectors_outside_grammar", outside)
	cov := newCounter()
	skips := newCounter()
	r.ParallelFor(len(cases), 0, func(i int) {
		c := cases[i]
		r.Eval(1)
		migrateOne(r, c, deps, cov, skips, i%8 == 0)
		r.SampleEvery(i, 499, func() any { return m{"kind": c.kind(), "case": c} })
	})
	snap := cov.snapshot()
	r.Set("migration_deps_coverage", snap)
	r.Set("migration_deps_skipped_reasons_top", skips.top(8))
	if snap["skipped_invalid_before_migration"] > 0 {
		r.Incomplete(fmt.Sprintf("migration (dependency worlds): %d generated worlds do not build before migration (the grammar is meant to generate valid workspaces only)", snap["skipped_invalid_before_migration"]))
	}
	for _, clause := range []string{"deps_oracle/two_refs_on_different_commits", "deps_oracle/locks_disagree_without_ref/declared-dependency", "deps_oracle/locks_disagree_without_ref/indirect-dependency",
		"locks/v1-lock-without-digests", "locks/v1-lock-with-retired-digest-types", "locks/lock-version-v1beta1", "locks/lock-without-version", "locks/module-uses-additions-of-a-newer-commit",
		"migrated", "deps_oracle/workspaces_checked", "deps_oracle/external_dep_checked", "deps_oracle/dep_on_workspace_module",
		"deps_oracle/declared_by_two_or_more_modules/declared-unpinned", "deps_oracle/declared_by_two_or_more_modules/declared-pinned",
		"deps_oracle/declared_by_two_or_more_modules/declared-pinned-and-unpinned", "deps_oracle/declared_by_three_modules",
		"deps_oracle/two_distinct_refs_declared", "deps_oracle/pin_checked", "deps_oracle/indirect_pin_checked",
		"lint_nonempty_before", "breaking_nonempty_before", "descriptors_compared",
		"module_list_checked", "call/explicit", "call/workspace_alone", "call/module_directories_alone", "call/module_directories_alone_reordered",
		"call/directory_reached_twice", "call/directory_reached_three_times", "call/module_with_buf_lock_reached_twice"} {
		if snap[clause] == 0 {
			r.Incomplete("migration (dependency worlds) clause never exercised: " + clause)
		}
	}
}
