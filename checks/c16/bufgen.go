package c16

import (
	"bytes"
	"fmt"
	"os/exec"
	"strings"

	"github.com/bufbuild/buf/private/bufpkg/bufconfig"
	"github.com/bufbuild/bufverif/internal/evid"
)

// ---------------------------------------------------------------------------------------------
// buf.gen.yaml grammar: one frame per version, t-way over the version's feature dimensions.
// ---------------------------------------------------------------------------------------------

// localName is a plugin name for which no protoc-gen-<name> binary exists on PATH and which is
// not a protoc builtin; builtinName is a protoc builtin without a binary on PATH. The writer
// resolves v1 "name:" plugins by looking at PATH, so the check verifies these two facts first.
const (
	localName   = "verifzzq"
	builtinName = "java"
)

// protocBuiltins is the documented list of plugins built into protoc (reference copy).
var protocBuiltins = map[string]bool{"cpp": true, "csharp": true, "java": true, "js": true, "objc": true, "php": true, "python": true, "pyi": true, "ruby": true, "kotlin": true, "rust": true}

func genDims(version string) []Dim {
	var d []Dim
	add := func(name string, n int) { d = append(d, Dim{name, n}) }
	add("syntax", 2)
	switch version {
	case "v2":
		add("clean", 2)
		add("p0.kind", 7)
		add("p0.opt", 4)
		add("p0.strategy", 3)
		add("p0.include_imports", 2)
		add("p0.include_wkt", 2)
		add("p0.types", 3)
		add("p0.exclude_types", 2)
		add("p1", 3)
		add("managed.enabled", 2)
		add("managed.disable", 6)
		add("managed.override", 7)
		add("in.kind", 11)
		add("in.opts", 3)
		add("in.types", 2)
		add("in.exclude_types", 2)
		add("in.paths", 2)
		add("in.exclude_paths", 2)
		add("in2", 2)
	case "v1":
		add("p0.kind", 8)
		add("p0.opt", 4)
		add("p0.strategy", 3)
		add("p1", 3)
		add("managed.enabled", 2)
		add("m.cc_enable_arenas", 3)
		add("m.java_multiple_files", 3)
		add("m.java_string_check_utf8", 3)
		add("m.java_package_prefix", 3)
		add("m.csharp_namespace", 3)
		add("m.optimize_for", 3)
		add("m.go_package_prefix", 3)
		add("m.objc_class_prefix", 4)
		add("m.ruby_package", 3)
		add("m.override", 3)
		add("types", 2)
	case "v1beta1":
		add("p0.kind", 3)
		add("p0.opt", 4)
		add("p0.strategy", 3)
		add("p1", 2)
		add("managed.enabled", 2)
		add("m.cc_enable_arenas", 3)
		add("m.java_multiple_files", 3)
		add("m.optimize_for", 2)
	}
	return d
}

func optValue(val int) any {
	switch val {
	case 1:
		return "paths=source_relative"
	case 2:
		return list("a=b", "c")
	case 3:
		return list("only=one")
	}
	return nil
}

func strategyValue(val int) any {
	switch val {
	case 1:
		return "directory"
	case 2:
		return "all"
	}
	return nil
}

func boolTri(val int) any {
	switch val {
	case 1:
		return true
	case 2:
		return false
	}
	return nil
}

func setIf(mm m, key string, v any) {
	if v != nil {
		mm[key] = v
	}
}

// GenDoc is a rendered buf.gen.yaml.
type GenDoc struct {
	Version string         `json:"version"`
	Vector  map[string]int `json:"features"`
	Text    string         `json:"text"`
}

func renderGen(version string, dims []Dim, ix dimIndex, v []int) GenDoc {
	doc := m{"version": version}
	var plugins []any
	switch version {
	case "v2":
		if ix.val(v, "clean") == 1 {
			doc["clean"] = true
		}
		p0 := m{"out": "gen/p0"}
		switch ix.val(v, "p0.kind") {
		case 0:
			p0["local"] = "protoc-gen-" + localName
		case 1:
			p0["local"] = list("go", "run", "./cmd/protoc-gen-x")
		case 2:
			p0["remote"] = "buf.build/acme/plug"
		case 3:
			p0["remote"] = "buf.build/acme/plug:v1.2.0"
			p0["revision"] = 3
		case 4:
			p0["protoc_builtin"] = "java"
		case 5:
			p0["protoc_builtin"] = "cpp"
			p0["protoc_path"] = "/usr/bin/protoc"
		case 6:
			p0["protoc_builtin"] = "python"
			p0["protoc_path"] = list("/usr/bin/protoc", "--experimental_editions")
		}
		setIf(p0, "opt", optValue(ix.val(v, "p0.opt")))
		setIf(p0, "strategy", strategyValue(ix.val(v, "p0.strategy")))
		if ix.val(v, "p0.include_imports") == 1 {
			p0["include_imports"] = true
		}
		if ix.val(v, "p0.include_wkt") == 1 {
			p0["include_wkt"] = true
		}
		switch ix.val(v, "p0.types") {
		case 1:
			p0["types"] = list("a.v1.B")
		case 2:
			p0["types"] = list("c.D", "a.v1.B")
		}
		if ix.val(v, "p0.exclude_types") == 1 {
			p0["exclude_types"] = list("x.Y")
		}
		plugins = append(plugins, p0)
		switch ix.val(v, "p1") {
		case 1:
			plugins = append(plugins, m{"remote": "buf.build/protocolbuffers/go", "out": "gen/p1", "opt": "x"})
		case 2:
			plugins = append(plugins, m{"local": "protoc-gen-other", "out": "gen/p0", "strategy": "all"})
		}
		managed := m{}
		if ix.val(v, "managed.enabled") == 1 {
			managed["enabled"] = true
		}
		switch ix.val(v, "managed.disable") {
		case 1:
			managed["disable"] = []any{m{"file_option": "go_package"}}
		case 2:
			managed["disable"] = []any{m{"module": "buf.build/acme/dep1", "path": "a/b"}}
		case 3:
			managed["disable"] = []any{m{"field_option": "jstype", "field": "a.v1.B.f"}}
		case 4:
			managed["disable"] = []any{m{"path": "a/b/c.proto"}}
		case 5:
			managed["disable"] = []any{m{"file_option": "java_package", "module": "buf.build/acme/zdep"}, m{"file_option": "csharp_namespace"}, m{"field_option": "jstype"}}
		}
		switch ix.val(v, "managed.override") {
		case 1:
			managed["override"] = []any{m{"file_option": "go_package_prefix", "value": "example.com/gen"}}
		case 2:
			managed["override"] = []any{m{"file_option": "java_multiple_files", "value": false}}
		case 3:
			managed["override"] = []any{m{"file_option": "optimize_for", "value": "CODE_SIZE"}}
		case 4:
			managed["override"] = []any{m{"field_option": "jstype", "value": "JS_STRING", "field": "a.v1.B.f"}}
		case 5:
			managed["override"] = []any{m{"file_option": "java_package_suffix", "value": "", "module": "buf.build/acme/dep1", "path": "a/b"}}
		case 6:
			managed["override"] = []any{m{"file_option": "ruby_package", "value": "Z"}, m{"file_option": "cc_enable_arenas", "value": true, "path": "a"}, m{"file_option": "go_package", "value": "x/y;y", "path": "a/b.proto"}}
		}
		if len(managed) > 0 {
			doc["managed"] = managed
		}
		var inputs []any
		kinds := []string{"", "module", "directory", "proto_file", "tarball", "zip_archive", "binary_image", "json_image", "text_image", "yaml_image", "git_repo"}
		locs := []string{"", "buf.build/acme/dep1:main", "proto", "proto/a/v1/a.proto", "x.tar.gz", "x.zip", "img.binpb", "img.json", "img.txtpb", "img.yaml", "https://github.com/acme/x.git"}
		if k := ix.val(v, "in.kind"); k > 0 {
			in := m{kinds[k]: locs[k]}
			switch o := ix.val(v, "in.opts"); kinds[k] {
			case "git_repo":
				if o == 1 {
					in["branch"], in["subdir"], in["depth"] = "main", "proto", 1
				} else if o == 2 {
					in["tag"], in["recurse_submodules"], in["ref"], in["depth"] = "v1.0.0", true, "refs/x", 0
				}
			case "tarball":
				if o == 1 {
					in["compression"], in["strip_components"] = "gzip", 2
				} else if o == 2 {
					in["subdir"], in["strip_components"] = "proto", 0
				}
			case "zip_archive":
				if o == 1 {
					in["strip_components"] = 1
				} else if o == 2 {
					in["subdir"] = "proto"
				}
			case "proto_file":
				if o == 1 {
					in["include_package_files"] = true
				} else if o == 2 {
					in["include_package_files"] = false
				}
			case "binary_image", "json_image", "text_image", "yaml_image":
				if o == 1 {
					in["compression"] = "zstd"
				} else if o == 2 {
					in["compression"] = "gzip"
				}
			}
			if ix.val(v, "in.types") == 1 {
				in["types"] = list("a.v1.B", "a.v1.S")
			}
			if ix.val(v, "in.exclude_types") == 1 {
				in["exclude_types"] = list("a.v1.Hidden")
			}
			if ix.val(v, "in.paths") == 1 {
				in["paths"] = list("proto/a", "proto/b/b.proto")
			}
			if ix.val(v, "in.exclude_paths") == 1 {
				in["exclude_paths"] = list("proto/a/internal")
			}
			inputs = append(inputs, in)
		}
		if ix.val(v, "in2") == 1 {
			inputs = append(inputs, m{"directory": "other", "exclude_types": list("q.R")})
		}
		if inputs != nil {
			doc["inputs"] = inputs
		}
	case "v1":
		p0 := m{"out": "gen/p0"}
		switch ix.val(v, "p0.kind") {
		case 0:
			p0["name"] = localName
		case 1:
			p0["name"] = builtinName
		case 2:
			p0["plugin"] = localName
		case 3:
			p0["plugin"] = "buf.build/acme/plug"
		case 4:
			p0["plugin"] = "buf.build/acme/plug:v1.2.0"
			p0["revision"] = 2
		case 5:
			p0["name"] = localName
			p0["path"] = "/opt/bin/protoc-gen-custom"
		case 6:
			p0["plugin"] = localName
			p0["path"] = list("go", "run", "./cmd/x")
		case 7:
			p0["plugin"] = "cpp"
			p0["protoc_path"] = list("/usr/bin/protoc", "--flag")
		}
		setIf(p0, "opt", optValue(ix.val(v, "p0.opt")))
		setIf(p0, "strategy", strategyValue(ix.val(v, "p0.strategy")))
		plugins = append(plugins, p0)
		switch ix.val(v, "p1") {
		case 1:
			plugins = append(plugins, m{"plugin": "buf.build/protocolbuffers/go", "out": "gen/p1", "opt": "x"})
		case 2:
			plugins = append(plugins, m{"name": "kotlin", "out": "gen/p0", "strategy": "all"})
		}
		managed := m{}
		if ix.val(v, "managed.enabled") == 1 {
			managed["enabled"] = true
		}
		setIf(managed, "cc_enable_arenas", boolTri(ix.val(v, "m.cc_enable_arenas")))
		setIf(managed, "java_multiple_files", boolTri(ix.val(v, "m.java_multiple_files")))
		setIf(managed, "java_string_check_utf8", boolTri(ix.val(v, "m.java_string_check_utf8")))
		switch ix.val(v, "m.java_package_prefix") {
		case 1:
			managed["java_package_prefix"] = "org"
		case 2:
			managed["java_package_prefix"] = m{"default": "net", "except": list("buf.build/acme/dep1"), "override": m{"buf.build/acme/zdep": "dev", "buf.build/acme/adep": "io"}}
		}
		switch ix.val(v, "m.csharp_namespace") {
		case 1:
			managed["csharp_namespace"] = m{"except": list("buf.build/acme/dep1")}
		case 2:
			managed["csharp_namespace"] = m{"override": m{"buf.build/acme/zdep": "Acme.Z"}}
		}
		switch ix.val(v, "m.optimize_for") {
		case 1:
			managed["optimize_for"] = "SPEED"
		case 2:
			managed["optimize_for"] = m{"default": "LITE_RUNTIME", "except": list("buf.build/acme/dep1"), "override": m{"buf.build/acme/zdep": "CODE_SIZE"}}
		}
		switch ix.val(v, "m.go_package_prefix") {
		case 1:
			managed["go_package_prefix"] = m{"default": "example.com/gen"}
		case 2:
			managed["go_package_prefix"] = m{"default": "example.com/gen", "except": list("buf.build/acme/dep1", "buf.build/googleapis/googleapis"), "override": m{"buf.build/acme/zdep": "example.com/z"}}
		}
		switch ix.val(v, "m.objc_class_prefix") {
		case 1:
			managed["objc_class_prefix"] = m{"default": "AC"}
		case 2:
			managed["objc_class_prefix"] = m{"except": list("buf.build/acme/dep1")}
		case 3:
			managed["objc_class_prefix"] = m{"default": "AC", "override": m{"buf.build/acme/zdep": "ZD"}}
		}
		switch ix.val(v, "m.ruby_package") {
		case 1:
			managed["ruby_package"] = m{"except": list("buf.build/acme/dep1")}
		case 2:
			managed["ruby_package"] = m{"override": m{"buf.build/acme/zdep": "Z::D"}}
		}
		switch ix.val(v, "m.override") {
		case 1:
			managed["override"] = m{"GO_PACKAGE": m{"a/v1/a.proto": "example.com/a;a"}}
		case 2:
			managed["override"] = m{"CC_ENABLE_ARENAS": m{"a/v1/a.proto": "false", "b.proto": "true"}, "JAVA_PACKAGE": m{"b.proto": "com.b"}, "OPTIMIZE_FOR": m{"b.proto": "SPEED"}}
		}
		if len(managed) > 0 {
			doc["managed"] = managed
		}
		if ix.val(v, "types") == 1 {
			doc["types"] = m{"include": list("a.v1.B")}
		}
	case "v1beta1":
		p0 := m{"out": "gen/p0"}
		switch ix.val(v, "p0.kind") {
		case 0:
			p0["name"] = localName
		case 1:
			p0["name"] = builtinName
		case 2:
			p0["name"] = localName
			p0["path"] = "/opt/bin/protoc-gen-custom"
		}
		setIf(p0, "opt", optValue(ix.val(v, "p0.opt")))
		setIf(p0, "strategy", strategyValue(ix.val(v, "p0.strategy")))
		plugins = append(plugins, p0)
		if ix.val(v, "p1") == 1 {
			plugins = append(plugins, m{"name": "kotlin", "out": "gen/p1"})
		}
		if ix.val(v, "managed.enabled") == 1 {
			doc["managed"] = true
		}
		options := m{}
		setIf(options, "cc_enable_arenas", boolTri(ix.val(v, "m.cc_enable_arenas")))
		setIf(options, "java_multiple_files", boolTri(ix.val(v, "m.java_multiple_files")))
		if ix.val(v, "m.optimize_for") == 1 {
			options["optimize_for"] = "CODE_SIZE"
		}
		if len(options) > 0 {
			doc["options"] = options
		}
	}
	doc["plugins"] = plugins
	vec := map[string]int{}
	for i, d := range dims {
		if v[i] != 0 {
			vec[d.Name] = v[i]
		}
	}
	return GenDoc{Version: version, Vector: vec, Text: encodeDoc(doc, ix.val(v, "syntax"), "")}
}

// convertGenDumpToV2 is the reference model of the documented version conversion that
// WriteBufGenYAMLFile performs ("regardless of version, we write the file as v2"): it maps the
// dump of a v1/v1beta1 template to the dump the equivalent v2 template must have.
//   - the version becomes v2
//   - a v1 plugin given by name only ("local or protoc builtin") becomes the protoc builtin of
//     that name if it is one of protoc's builtins and no protoc-gen-<name> is on PATH, else the
//     local plugin protoc-gen-<name>
//   - a local plugin's Name() is a display name (v2 derives it from the path)
//   - the v1 top-level types filter has no v2 counterpart without inputs (buf warns about this in
//     `buf config migrate`); its loss is counted, not reported (see NOTES.md)
func convertGenDumpToV2(d tree) (tree, bool) {
	out := tree{}
	for k, v := range d {
		out[k] = v
	}
	out["file_version"] = "v2"
	typesDropped := out["types"] != nil
	out["types"] = nil
	var plugins []any
	for _, pp := range d["plugins"].([]any) {
		p := tree{}
		for k, v := range pp.(tree) {
			p[k] = v
		}
		switch p["type"].(int) {
		case int(bufconfig.GeneratePluginConfigTypeLocalOrProtocBuiltin):
			name := p["name"].(string)
			if protocBuiltins[name] {
				p["type"] = int(bufconfig.GeneratePluginConfigTypeProtocBuiltin)
			} else {
				p["type"] = int(bufconfig.GeneratePluginConfigTypeLocal)
				p["name"] = "protoc-gen-" + name
				p["path"] = list("protoc-gen-" + name)
			}
		case int(bufconfig.GeneratePluginConfigTypeLocal):
			var parts []string
			for _, s := range p["path"].([]any) {
				parts = append(parts, s.(string))
			}
			p["name"] = strings.Join(parts, " ")
		}
		plugins = append(plugins, p)
	}
	out["plugins"] = plugins
	return out, typesDropped
}

func readGen(text string) (bufconfig.BufGenYAMLFile, error) {
	return bufconfig.ReadBufGenYAMLFile(strings.NewReader(text))
}

// roundTripBufGen is read -> dump -> write -> read -> dump -> write for a buf.gen.yaml text. For a
// v1/v1beta1 template the re-read dump is compared with the reference conversion of the first dump.
func roundTripBufGen(text string) (res rtResult, typesDropped bool) {
	f1, err := readGen(text)
	if err != nil {
		res.rejectWhy = err.Error()
		return res, false
	}
	res.accepted = true
	res.dump1 = DumpBufGen(f1)
	expected := res.dump1
	if res.dump1["file_version"] != "v2" {
		expected, typesDropped = convertGenDumpToV2(res.dump1)
	}
	var w1 bytes.Buffer
	if err := bufconfig.WriteBufGenYAMLFile(&w1, f1); err != nil {
		res.writeErr = err
		return res, typesDropped
	}
	res.written1 = w1.String()
	f2, err := readGen(res.written1)
	if err != nil {
		res.rereadErr = err
		return res, typesDropped
	}
	res.diffs = DiffTrees(expected, DumpBufGen(f2))
	var w2 bytes.Buffer
	if err := bufconfig.WriteBufGenYAMLFile(&w2, f2); err != nil {
		res.write2Err = err
		return res, typesDropped
	}
	res.written2 = w2.String()
	res.idempotent = res.written2 == res.written1
	return res, typesDropped
}

func runBufGen(r *evid.Run, t int) {
	for _, n := range []string{localName, builtinName, "kotlin", "cpp"} {
		if _, err := exec.LookPath("protoc-gen-" + n); err == nil {
			r.Incomplete("buf.gen.yaml: protoc-gen-" + n + " exists on PATH; the reference conversion of v1 name-only plugins assumes it does not")
			return
		}
	}
	type job struct {
		version string
		dims    []Dim
		ix      dimIndex
		vecs    [][]int
		base    string
	}
	var jobs []job
	total := 0
	for _, version := range []string{"v1beta1", "v1", "v2"} {
		dims := genDims(version)
		j := job{version: version, dims: dims, ix: indexDims(dims), vecs: TWayAll(dims, t)}
		bf, err := readGen(renderGen(version, dims, j.ix, make([]int, len(dims))).Text)
		if err != nil {
			r.Incomplete(fmt.Sprintf("buf.gen.yaml %s: the empty document is rejected: %v", version, err))
			continue
		}
		j.base = treeJSON(DumpBufGen(bf))
		jobs = append(jobs, j)
		total += len(j.vecs)
	}
	r.Set("bufgen_documents_generated", total)
	type item struct{ j, k int }
	var items []item
	for ji, j := range jobs {
		for k := range j.vecs {
			items = append(items, item{ji, k})
		}
	}
	cov := newCounter()
	rejects := newCounter()
	seenDim := newCounter()
	effect := newCounter()
	r.ParallelFor(len(items), 0, func(i int) {
		j := jobs[items[i].j]
		doc := renderGen(j.version, j.dims, j.ix, j.vecs[items[i].k])
		r.Eval(1)
		res, typesDropped := roundTripBufGen(doc.Text)
		if !res.accepted {
			cov.add("rejected_by_reader", 1)
			rejects.add(shorten(res.rejectWhy), 1)
			return
		}
		cov.add("accepted", 1)
		cov.add("accepted/"+j.version, 1)
		changed := treeJSON(res.dump1) != j.base
		for name, val := range doc.Vector {
			key := fmt.Sprintf("%s:%s=%d", j.version, name, val)
			seenDim.add(key, 1)
			if len(doc.Vector) == 1 && changed {
				effect.add(key, 1)
			}
		}
		if changed {
			r.Distinct("bufgen|" + doc.Text)
		}
		if j.version != "v2" {
			cov.add("converted_to_v2_by_writer", 1)
			if typesDropped {
				cov.add("info_v1_top_level_types_not_representable_in_v2", 1)
			}
		}
		countGenClauses(cov, res.dump1)
		if len(res.diffs) == 0 && res.writeErr == nil && res.rereadErr == nil {
			cov.add("round_trip_equal", 1)
		}
		if res.idempotent {
			cov.add("write_idempotent", 1)
		}
		r.SampleEvery(i, 2003, func() any { return m{"kind": "buf.gen.yaml", "doc": doc, "written": res.written1} })
		reportRoundTrip(r, "buf.gen.yaml", res, doc)
	})
	snap := cov.snapshot()
	r.Set("bufgen_coverage", snap)
	r.Set("bufgen_reject_reasons_top", rejects.top(10))
	clauses := []string{"accepted/v1beta1", "accepted/v1", "accepted/v2", "managed_enabled", "managed_disable_rules", "managed_override_rules",
		"plugin_remote", "plugin_local", "plugin_protoc_builtin", "plugin_local_or_protoc_builtin", "plugin_type_filters", "two_plugins"}
	for _, k := range []string{"module", "directory", "proto_file", "tarball", "zip_archive", "binary_image", "json_image", "text_image", "yaml_image", "git_repo"} {
		clauses = append(clauses, "input_kind/"+k)
	}
	for _, clause := range clauses {
		if snap[clause] == 0 {
			r.Incomplete("buf.gen.yaml clause never exercised: " + clause)
		}
	}
	var dead []string
	for _, j := range jobs {
		for _, d := range j.dims {
			if d.Name == "syntax" {
				continue
			}
			for val := 1; val < d.N; val++ {
				key := fmt.Sprintf("%s:%s=%d", j.version, d.Name, val)
				if seenDim.get(key) == 0 {
					dead = append(dead, key+" (never accepted)")
				} else if effect.get(key) == 0 && !genNoEffectExpected[key] {
					dead = append(dead, key+" (no effect on the dump)")
				}
			}
		}
	}
	if dead = uniqueSorted(dead); len(dead) > 0 {
		r.Incomplete("buf.gen.yaml feature values without coverage: " + strings.Join(dead, ", "))
	}
}

// genNoEffectExpected: accepted alone only in combination / no effect alone by design.
var genNoEffectExpected = map[string]bool{
	"v1:p0.kind=2":          true, // "plugin: <local name>" parses to the same config as "name: <local name>"
	"v2:p0.include_wkt=1":   true, // rejected without include_imports; accepted in the pair
	"v2:in.opts=1":          true, // options need an input kind
	"v2:in.opts=2":          true,
	"v2:in.types=1":         true,
	"v2:in.exclude_types=1": true,
	"v2:in.paths=1":         true,
	"v2:in.exclude_paths=1": true,
	"v2:p0.strategy=1":      true, // "directory" is the default strategy; Strategy() does not distinguish unset
	"v1:p0.strategy=1":      true,
	"v1beta1:p0.strategy=1": true,
}

func countGenClauses(cov *counter, d tree) {
	plugins := d["plugins"].([]any)
	if len(plugins) > 1 {
		cov.add("two_plugins", 1)
	}
	for _, pp := range plugins {
		p := pp.(tree)
		switch p["type"].(int) {
		case int(bufconfig.GeneratePluginConfigTypeRemote):
			cov.add("plugin_remote", 1)
		case int(bufconfig.GeneratePluginConfigTypeLocal):
			cov.add("plugin_local", 1)
		case int(bufconfig.GeneratePluginConfigTypeProtocBuiltin):
			cov.add("plugin_protoc_builtin", 1)
		case int(bufconfig.GeneratePluginConfigTypeLocalOrProtocBuiltin):
			cov.add("plugin_local_or_protoc_builtin", 1)
		}
		if len(p["include_types"].([]any)) > 0 || len(p["exclude_types"].([]any)) > 0 {
			cov.add("plugin_type_filters", 1)
		}
		if p["include_imports"].(bool) {
			cov.add("plugin_include_imports", 1)
		}
		if p["include_wkt"].(bool) {
			cov.add("plugin_include_wkt", 1)
		}
	}
	if mg, ok := d["managed"].(tree); ok {
		if mg["enabled"].(bool) {
			cov.add("managed_enabled", 1)
		}
		if len(mg["disables"].([]any)) > 0 {
			cov.add("managed_disable_rules", 1)
		}
		if len(mg["overrides"].([]any)) > 0 {
			cov.add("managed_override_rules", 1)
		}
	}
	for _, ii := range d["inputs"].([]any) {
		cov.add("input_kind/"+ii.(tree)["type"].(string), 1)
	}
}
