package c16

import (
	"bytes"
	"fmt"
	"strings"

	"github.com/bufbuild/buf/private/bufpkg/bufconfig"
	"github.com/bufbuild/bufverif/internal/enum"
	"github.com/bufbuild/bufverif/internal/evid"
)

// WorkCase is one buf.work.yaml document: every sequence of 1..3 directory strings of the
// alphabet, in both syntaxes (full product, no pairing needed).
type WorkCase struct {
	Dirs   []string `json:"directories"`
	Syntax int      `json:"syntax"`
	Text   string   `json:"text"`
}

var workAlphabet = []string{"a", "b", "a/b", "./a", "a/", "b/../a", "c/d/e", ".", ""}

// roundTripBufWork is read -> dump -> write -> read -> dump -> write for a buf.work.yaml text.
func roundTripBufWork(text string) rtResult {
	var res rtResult
	f1, err := bufconfig.ReadBufWorkYAMLFile(strings.NewReader(text), "buf.work.yaml")
	if err != nil {
		res.rejectWhy = err.Error()
		return res
	}
	res.accepted = true
	res.dump1 = DumpBufWork(f1)
	var w1 bytes.Buffer
	if err := bufconfig.WriteBufWorkYAMLFile(&w1, f1); err != nil {
		res.writeErr = err
		return res
	}
	res.written1 = w1.String()
	f2, err := bufconfig.ReadBufWorkYAMLFile(strings.NewReader(res.written1), "buf.work.yaml")
	if err != nil {
		res.rereadErr = err
		return res
	}
	res.diffs = DiffTrees(res.dump1, DumpBufWork(f2))
	var w2 bytes.Buffer
	if err := bufconfig.WriteBufWorkYAMLFile(&w2, f2); err != nil {
		res.write2Err = err
		return res
	}
	res.written2 = w2.String()
	res.idempotent = res.written2 == res.written1
	return res
}

func runBufWork(r *evid.Run) {
	var cases []WorkCase
	for _, seq := range enum.Sequences(len(workAlphabet), 0, 3) {
		for syntax := 0; syntax < 2; syntax++ {
			c := WorkCase{Syntax: syntax, Dirs: []string{}}
			for _, i := range seq {
				c.Dirs = append(c.Dirs, workAlphabet[i])
			}
			doc := m{"version": "v1"}
			if len(c.Dirs) > 0 {
				doc["directories"] = strs(c.Dirs)
			}
			c.Text = encodeDoc(doc, syntax, "")
			cases = append(cases, c)
		}
	}
	r.Set("bufwork_documents_generated", len(cases))
	cov := newCounter()
	rejects := newCounter()
	r.ParallelFor(len(cases), 0, func(i int) {
		c := cases[i]
		r.Eval(1)
		res := roundTripBufWork(c.Text)
		if !res.accepted {
			cov.add("rejected_by_reader", 1)
			rejects.add(shorten(res.rejectWhy), 1)
			return
		}
		cov.add("accepted", 1)
		dirs := res.dump1["directories"].([]any)
		if len(dirs) > 1 {
			cov.add("multiple_directories", 1)
		}
		if fmt.Sprint(dirs) != fmt.Sprint(c.Dirs) {
			cov.add("input_not_normalised_or_unsorted", 1)
		}
		r.Distinct("bufwork|" + c.Text)
		if len(res.diffs) == 0 && res.writeErr == nil && res.rereadErr == nil {
			cov.add("round_trip_equal", 1)
		}
		if res.idempotent {
			cov.add("write_idempotent", 1)
		}
		r.SampleEvery(i, 397, func() any { return m{"kind": "buf.work.yaml", "case": c, "written": res.written1} })
		reportRoundTrip(r, "buf.work.yaml", res, c)
	})
	snap := cov.snapshot()
	r.Set("bufwork_coverage", snap)
	r.Set("bufwork_reject_reasons_top", rejects.top(6))
	for _, clause := range []string{"accepted", "multiple_directories", "input_not_normalised_or_unsorted"} {
		if snap[clause] == 0 {
			r.Incomplete("buf.work.yaml clause never exercised: " + clause)
		}
	}
}
