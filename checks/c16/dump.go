package c16

import (
	"encoding/json"
	"fmt"
	"sort"
	"strings"

	"github.com/bufbuild/buf/private/bufpkg/bufconfig"
)

// The dump functions turn a parsed configuration object into a plain tree (map / slice / scalar)
// by calling EVERY public accessor of the object and of everything reachable from it. Two
// configurations are "the same" for the round-trip oracle iff their trees are equal.
// Nothing here looks at private fields or at the external (YAML) structs of bufconfig.

type tree = map[string]any

func strs(in []string) []any {
	out := make([]any, len(in))
	for i, s := range in {
		out[i] = s
	}
	return out
}

func strMapOfLists(m map[string][]string) tree {
	out := tree{}
	for k, v := range m {
		out[k] = strs(v)
	}
	return out
}

func dumpCheckConfig(c bufconfig.CheckConfig) tree {
	return tree{
		"file_version":    c.FileVersion().String(),
		"disabled":        c.Disabled(),
		"use":             strs(c.UseIDsAndCategories()),
		"except":          strs(c.ExceptIDsAndCategories()),
		"ignore":          strs(c.IgnorePaths()),
		"ignore_only":     strMapOfLists(c.IgnoreIDOrCategoryToPaths()),
		"disable_builtin": c.DisableBuiltin(),
	}
}

func dumpLint(c bufconfig.LintConfig) any {
	if c == nil {
		return nil
	}
	t := dumpCheckConfig(c)
	t["enum_zero_value_suffix"] = c.EnumZeroValueSuffix()
	t["rpc_allow_same_request_response"] = c.RPCAllowSameRequestResponse()
	t["rpc_allow_google_protobuf_empty_requests"] = c.RPCAllowGoogleProtobufEmptyRequests()
	t["rpc_allow_google_protobuf_empty_responses"] = c.RPCAllowGoogleProtobufEmptyResponses()
	t["service_suffix"] = c.ServiceSuffix()
	t["allow_comment_ignores"] = c.AllowCommentIgnores()
	return t
}

func dumpBreaking(c bufconfig.BreakingConfig) any {
	if c == nil {
		return nil
	}
	t := dumpCheckConfig(c)
	t["ignore_unstable_packages"] = c.IgnoreUnstablePackages()
	return t
}

func dumpModuleConfig(m bufconfig.ModuleConfig) tree {
	name := ""
	if fn := m.FullName(); fn != nil {
		name = fn.String()
	}
	return tree{
		"dir":      m.DirPath(),
		"name":     name,
		"includes": strMapOfLists(m.RootToIncludes()),
		"excludes": strMapOfLists(m.RootToExcludes()),
		"lint":     dumpLint(m.LintConfig()),
		"breaking": dumpBreaking(m.BreakingConfig()),
	}
}

func dumpPluginConfig(p bufconfig.PluginConfig) tree {
	ref := ""
	if r := p.Ref(); r != nil {
		ref = r.String() + "|" + r.FullName().String() + "|" + r.Ref()
	}
	return tree{
		"type":    int(p.Type()),
		"name":    p.Name(),
		"options": canonAny(p.Options()),
		"args":    strs(p.Args()),
		"ref":     ref,
	}
}

// canonAny makes a value produced by a YAML/JSON decoder comparable: numbers are rendered with
// %v of their numeric value (YAML gives int, JSON gives float64 for the same literal), maps
// get string keys.
func canonAny(v any) any {
	switch x := v.(type) {
	case nil:
		return nil
	case map[string]any:
		out := tree{}
		for k, e := range x {
			out[k] = canonAny(e)
		}
		return out
	case map[any]any:
		out := tree{}
		for k, e := range x {
			out[fmt.Sprint(k)] = canonAny(e)
		}
		return out
	case []any:
		out := make([]any, len(x))
		for i, e := range x {
			out[i] = canonAny(e)
		}
		return out
	case []string:
		return strs(x)
	case string:
		return "s:" + x
	case bool:
		return x
	case int:
		return fmt.Sprintf("n:%v", float64(x))
	case int64:
		return fmt.Sprintf("n:%v", float64(x))
	case uint64:
		return fmt.Sprintf("n:%v", float64(x))
	case float64:
		return fmt.Sprintf("n:%v", x)
	default:
		return fmt.Sprintf("%T:%v", v, v)
	}
}

// DumpBufYAML dumps everything the property lists for a buf.yaml. The top-level lint/breaking
// accessors are dumped under separate keys (see roundTripBufYAML for how they are compared).
func DumpBufYAML(f bufconfig.BufYAMLFile) tree {
	mods := []any{}
	for _, m := range f.ModuleConfigs() {
		mods = append(mods, dumpModuleConfig(m))
	}
	deps := []any{}
	for _, d := range f.ConfiguredDepModuleRefs() {
		deps = append(deps, d.String()+"|"+d.FullName().String()+"|"+d.Ref())
	}
	plugins := []any{}
	for _, p := range f.PluginConfigs() {
		plugins = append(plugins, dumpPluginConfig(p))
	}
	var topLint, topBreaking any = dumpLint(f.TopLevelLintConfig()), dumpBreaking(f.TopLevelBreakingConfig())
	if f.FileVersion() != bufconfig.FileVersionV2 && len(mods) == 1 {
		// v1/v1beta1: the top-level config IS the module's config. When the two accessors agree the
		// dump says so instead of repeating the tree, so that one defect is not reported under two names.
		mod := mods[0].(tree)
		if treeJSON(tree{"x": topLint}) == treeJSON(tree{"x": mod["lint"]}) {
			topLint = "same-as-module"
		}
		if treeJSON(tree{"x": topBreaking}) == treeJSON(tree{"x": mod["breaking"]}) {
			topBreaking = "same-as-module"
		}
	}
	return tree{
		"file_version":       f.FileVersion().String(),
		"file_type":          int(f.FileType()),
		"modules":            mods,
		"deps":               deps,
		"plugins":            plugins,
		"include_docs_link":  f.IncludeDocsLink(),
		"top_level_lint":     topLint,
		"top_level_breaking": topBreaking,
	}
}

// DumpBufLock dumps a buf.lock: every key with name, commit and digest (type and value).
func DumpBufLock(f bufconfig.BufLockFile) (tree, error) {
	deps := []any{}
	for _, k := range f.DepModuleKeys() {
		d, err := k.Digest()
		if err != nil {
			return nil, fmt.Errorf("digest of %s: %w", k.FullName(), err)
		}
		deps = append(deps, tree{
			"name":        k.FullName().String(),
			"commit":      k.CommitID().String(),
			"digest":      d.String(),
			"digest_type": d.Type().String(),
			"string":      k.String(),
		})
	}
	plugins := []any{}
	for _, k := range f.RemotePluginKeys() {
		d, err := k.Digest()
		if err != nil {
			return nil, fmt.Errorf("digest of plugin %s: %w", k.FullName(), err)
		}
		plugins = append(plugins, tree{
			"name":        k.FullName().String(),
			"commit":      k.CommitID().String(),
			"digest":      d.String(),
			"digest_type": d.Type().String(),
			"string":      k.String(),
		})
	}
	return tree{
		"file_version": f.FileVersion().String(),
		"file_type":    int(f.FileType()),
		"deps":         deps,
		"plugins":      plugins,
	}, nil
}

// DumpBufWork dumps a buf.work.yaml.
func DumpBufWork(f bufconfig.BufWorkYAMLFile) tree {
	return tree{
		"file_version": f.FileVersion().String(),
		"file_type":    int(f.FileType()),
		"directories":  strs(f.DirPaths()),
	}
}

func dumpGenPlugin(p bufconfig.GeneratePluginConfig) tree {
	return tree{
		"type":            int(p.Type()),
		"name":            p.Name(),
		"out":             p.Out(),
		"opt":             p.Opt(),
		"include_imports": p.IncludeImports(),
		"include_wkt":     p.IncludeWKT(),
		"strategy":        int(p.Strategy()),
		"path":            strs(p.Path()),
		"protoc_path":     strs(p.ProtocPath()),
		"remote_host":     p.RemoteHost(),
		"revision":        p.Revision(),
		"include_types":   strs(p.IncludeTypes()),
		"exclude_types":   strs(p.ExcludeTypes()),
	}
}

func dumpManaged(m bufconfig.GenerateManagedConfig) any {
	if m == nil {
		return nil
	}
	disables := []any{}
	for _, d := range m.Disables() {
		disables = append(disables, tree{
			"path":         d.Path(),
			"module":       d.FullName(),
			"field":        d.FieldName(),
			"file_option":  d.FileOption().String(),
			"field_option": d.FieldOption().String(),
		})
	}
	overrides := []any{}
	for _, o := range m.Overrides() {
		overrides = append(overrides, tree{
			"path":         o.Path(),
			"module":       o.FullName(),
			"field":        o.FieldName(),
			"file_option":  o.FileOption().String(),
			"field_option": o.FieldOption().String(),
			"value":        fmt.Sprintf("%T:%v", o.Value(), o.Value()),
		})
	}
	return tree{"enabled": m.Enabled(), "disables": disables, "overrides": overrides}
}

func dumpInput(i bufconfig.InputConfig) tree {
	var depth any
	if d := i.Depth(); d != nil {
		depth = fmt.Sprintf("n:%d", *d)
	}
	return tree{
		"type":                  i.Type().String(),
		"location":              i.Location(),
		"compression":           i.Compression(),
		"strip_components":      int(i.StripComponents()),
		"subdir":                i.SubDir(),
		"branch":                i.Branch(),
		"commit_or_tag":         i.CommitOrTag(),
		"ref":                   i.Ref(),
		"depth":                 depth,
		"recurse_submodules":    i.RecurseSubmodules(),
		"include_package_files": i.IncludePackageFiles(),
		"paths":                 strs(i.TargetPaths()),
		"exclude_paths":         strs(i.ExcludePaths()),
		"types":                 strs(i.IncludeTypes()),
		"exclude_types":         strs(i.ExcludeTypes()),
	}
}

// DumpBufGen dumps a buf.gen.yaml: the generate config (plugins, managed mode, v1 type filter,
// clean) and the inputs.
func DumpBufGen(f bufconfig.BufGenYAMLFile) tree {
	g := f.GenerateConfig()
	plugins := []any{}
	for _, p := range g.GeneratePluginConfigs() {
		plugins = append(plugins, dumpGenPlugin(p))
	}
	var types any
	if tc := g.GenerateTypeConfig(); tc != nil {
		types = strs(tc.IncludeTypes())
	}
	inputs := []any{}
	for _, i := range f.InputConfigs() {
		inputs = append(inputs, dumpInput(i))
	}
	return tree{
		"file_version": f.FileVersion().String(),
		"file_type":    int(f.FileType()),
		"clean":        g.CleanPluginOuts(),
		"plugins":      plugins,
		"managed":      dumpManaged(g.GenerateManagedConfig()),
		"types":        types,
		"inputs":       inputs,
	}
}

// flatten turns a tree into path -> JSON(value) with list indices in the path.
func flatten(prefix string, v any, out map[string]string) {
	switch x := v.(type) {
	case tree:
		if len(x) == 0 {
			out[prefix] = "{}"
		}
		for k, e := range x {
			flatten(prefix+"."+k, e, out)
		}
	case []any:
		out[prefix+".#len"] = fmt.Sprint(len(x))
		for i, e := range x {
			flatten(fmt.Sprintf("%s[%d]", prefix, i), e, out)
		}
	default:
		b, _ := json.Marshal(x)
		out[prefix] = string(b)
	}
}

// Diff is one differing leaf between two dumps.
type Diff struct {
	Path   string `json:"path"`   // with indices
	Field  string `json:"field"`  // indices and map keys of user data removed: structural role
	Before string `json:"before"` // "" if absent
	After  string `json:"after"`
	Kind   string `json:"kind"` // dropped | added | changed
}

// structural removes list indices and normalises the length pseudo-leaf, so that all cases that
// differ in the same accessor share a field name.
func structural(path string) string {
	var b strings.Builder
	depth := 0
	for _, r := range path {
		switch {
		case r == '[':
			depth++
		case r == ']':
			depth--
		case depth == 0:
			b.WriteRune(r)
		}
	}
	s := strings.TrimPrefix(b.String(), ".")
	s = strings.TrimSuffix(s, ".#len")
	return s
}

// userKeyed are the accessors whose value is a map keyed by user data (rule ids, roots, option
// names); the key is cut out of the structural field name.
var userKeyed = []string{".ignore_only.", ".includes.", ".excludes.", ".options."}

func cutUserKeys(field string) string {
	for _, uk := range userKeyed {
		if i := strings.Index(field, uk); i >= 0 {
			return field[:i+len(uk)-1]
		}
	}
	return field
}

// DiffTrees lists the differing leaves, sorted by path.
func DiffTrees(a, b tree) []Diff {
	fa, fb := map[string]string{}, map[string]string{}
	flatten("", a, fa)
	flatten("", b, fb)
	keys := map[string]bool{}
	for k := range fa {
		keys[k] = true
	}
	for k := range fb {
		keys[k] = true
	}
	sorted := make([]string, 0, len(keys))
	for k := range keys {
		sorted = append(sorted, k)
	}
	sort.Strings(sorted)
	var out []Diff
	for _, k := range sorted {
		va, oka := fa[k]
		vb, okb := fb[k]
		if oka && okb && va == vb {
			continue
		}
		d := Diff{Path: strings.TrimPrefix(k, "."), Field: cutUserKeys(structural(k)), Before: va, After: vb}
		switch {
		case oka && !okb:
			d.Kind = "dropped"
		case !oka && okb:
			d.Kind = "added"
		default:
			d.Kind = "changed"
			if strings.HasSuffix(k, ".#len") {
				if len(va) > 0 && len(vb) > 0 && atoi(vb) < atoi(va) {
					d.Kind = "dropped"
				} else {
					d.Kind = "added"
				}
			}
		}
		out = append(out, d)
	}
	return out
}

func atoi(s string) int {
	n := 0
	fmt.Sscanf(s, "%d", &n)
	return n
}

// firstPerField keeps one Diff per structural field (the first in path order), preferring the
// "#len" one so that the kind of a shrinking list is "dropped".
func firstPerField(diffs []Diff) []Diff {
	seen := map[string]bool{}
	var out []Diff
	for _, d := range diffs {
		if seen[d.Field] {
			continue
		}
		seen[d.Field] = true
		out = append(out, d)
	}
	return out
}

func treeJSON(t tree) string {
	b, _ := json.Marshal(t)
	return string(b)
}
