package c16

import (
	"encoding/json"
	"fmt"
	"regexp"
	"sort"
	"strings"
)

// EmitYAML is a small block-style YAML emitter for document trees (map[string]any, []any,
// string, bool, int, float64), independent of buf's encoding package. Map keys are sorted.
func EmitYAML(doc map[string]any) string {
	var b strings.Builder
	emitMap(&b, doc, 0, false)
	return b.String()
}

var plainRE = regexp.MustCompile(`^[A-Za-z_/][A-Za-z0-9_./:-]*$`)

var yamlReserved = map[string]bool{"true": true, "false": true, "null": true, "yes": true, "no": true, "on": true, "off": true, "y": true, "n": true}

func scalar(v any) string {
	switch x := v.(type) {
	case nil:
		return "null"
	case string:
		if plainRE.MatchString(x) && !yamlReserved[strings.ToLower(x)] && !strings.HasSuffix(x, ":") {
			return x
		}
		q, _ := json.Marshal(x) // a JSON string is a valid YAML double-quoted scalar
		return string(q)
	case bool:
		if x {
			return "true"
		}
		return "false"
	case int:
		return fmt.Sprintf("%d", x)
	case uint32:
		return fmt.Sprintf("%d", x)
	case float64:
		return fmt.Sprintf("%v", x)
	}
	panic(fmt.Sprintf("EmitYAML: unsupported scalar %T", v))
}

func asMap(v any) (map[string]any, bool) {
	mm, ok := v.(map[string]any)
	return mm, ok
}

func emitValue(b *strings.Builder, v any, indent int) {
	// called right after "key:" or "-" has been written (no trailing space yet)
	if mm, ok := asMap(v); ok {
		if len(mm) == 0 {
			b.WriteString(" {}\n")
			return
		}
		b.WriteString("\n")
		emitMap(b, mm, indent+2, false)
		return
	}
	if l, ok := v.([]any); ok {
		if len(l) == 0 {
			b.WriteString(" []\n")
			return
		}
		b.WriteString("\n")
		emitList(b, l, indent+2)
		return
	}
	b.WriteString(" " + scalar(v) + "\n")
}

func emitMap(b *strings.Builder, mm map[string]any, indent int, firstInline bool) {
	keys := make([]string, 0, len(mm))
	for k := range mm {
		keys = append(keys, k)
	}
	sort.Strings(keys)
	for i, k := range keys {
		if !(i == 0 && firstInline) {
			b.WriteString(strings.Repeat(" ", indent))
		}
		b.WriteString(scalar(k) + ":")
		emitValue(b, mm[k], indent)
	}
}

func emitList(b *strings.Builder, l []any, indent int) {
	for _, e := range l {
		b.WriteString(strings.Repeat(" ", indent) + "-")
		if mm, ok := asMap(e); ok && len(mm) > 0 {
			b.WriteString(" ")
			emitMap(b, mm, indent+2, true)
			continue
		}
		emitValue(b, e, indent)
	}
}
