package c16

import (
	"context"
	"os"
	"path/filepath"
	"strings"
	"testing"

	"github.com/bufbuild/bufverif/internal/bufx"
)

// Reproductions of the findings in FINDINGS.md through the real CLI, in a scratch directory.
// Run with: go test -tags verif -run TestFinding -v ./checks/c16/

func scratch(t *testing.T, files map[string]string) string {
	t.Helper()
	dir := t.TempDir()
	for p, c := range files {
		full := filepath.Join(dir, filepath.FromSlash(p))
		if err := os.MkdirAll(filepath.Dir(full), 0o755); err != nil {
			t.Fatal(err)
		}
		if err := os.WriteFile(full, []byte(c), 0o644); err != nil {
			t.Fatal(err)
		}
	}
	old, _ := os.Getwd()
	if err := os.Chdir(dir); err != nil {
		t.Fatal(err)
	}
	t.Cleanup(func() { _ = os.Chdir(old) })
	return dir
}

func cli(t *testing.T, args ...string) bufx.CLIResult {
	t.Helper()
	res := bufx.RunCLI(context.Background(), nil, "", args...)
	t.Logf("$ buf %s -> exit %d\n%s%s", strings.Join(args, " "), res.ExitCode, res.Stdout, res.Stderr)
	return res
}

func cat(t *testing.T, p string) string {
	b, err := os.ReadFile(p)
	if err != nil {
		return "<" + err.Error() + ">"
	}
	t.Logf("--- %s\n%s", p, b)
	return string(b)
}

// F10: a v1beta1 module with the default lint configuration cannot be linted after `buf config migrate`.
func TestFindingV1Beta1OnlyIDCarriedIntoV2(t *testing.T) {
	scratch(t, map[string]string{
		"buf.yaml":     "version: v1beta1\n",
		"p/v1/a.proto": "syntax = \"proto3\";\npackage p.v1;\nmessage A { string f = 1; }\n",
	})
	if res := cli(t, "lint"); res.ExitCode != 0 {
		t.Fatalf("lint before migration should succeed")
	}
	if res := cli(t, "config", "migrate"); res.ExitCode != 0 {
		t.Fatalf("migrate failed")
	}
	cat(t, "buf.yaml")
	res := cli(t, "lint")
	if res.ExitCode != 0 && strings.Contains(res.Stderr, "FIELD_NO_DESCRIPTOR") {
		t.Logf("REPRODUCED: lint fails after migration: %s", res.Stderr)
	} else {
		t.Errorf("not reproduced")
	}
}

// F10 (second form): the migrator itself fails when the v1beta1 config names a v1beta1-only category.
func TestFindingV1Beta1OnlyCategoryRejected(t *testing.T) {
	scratch(t, map[string]string{
		"buf.yaml":     "version: v1beta1\nlint:\n  use:\n    - STYLE_DEFAULT\n",
		"p/v1/a.proto": "syntax = \"proto3\";\npackage p.v1;\nmessage A { string f = 1; }\n",
	})
	if res := cli(t, "lint"); res.ExitCode != 0 {
		t.Fatalf("lint before migration should succeed")
	}
	res := cli(t, "config", "migrate")
	if res.ExitCode != 0 && strings.Contains(res.Stderr, "STYLE_DEFAULT") {
		t.Logf("REPRODUCED: migrate fails: %s", res.Stderr)
	} else {
		t.Errorf("not reproduced")
	}
}

// F11: a workspace directory without buf.yaml gets the v2 defaults instead of the v1 defaults it had.
func TestFindingModuleWithoutBufYAML(t *testing.T) {
	scratch(t, map[string]string{
		"buf.work.yaml":  "version: v1\ndirectories:\n  - a\n  - b\n",
		"a/buf.yaml":     "version: v1\n",
		"a/p/v1/a.proto": "syntax = \"proto3\";\npackage p.v1;\nmessage A { string f = 1; }\n",
		"b/s/v1/s.proto": "syntax = \"proto2\";\npackage s.v1;\nmessage S { required string id = 1; }\n",
	})
	if res := cli(t, "lint"); res.ExitCode != 0 {
		t.Fatalf("lint before migration should be clean")
	}
	if res := cli(t, "config", "migrate"); res.ExitCode != 0 {
		t.Fatalf("migrate failed")
	}
	cat(t, "buf.yaml")
	res := cli(t, "lint")
	// repaired in /repo by dc1268e: after the migration lint must stay clean
	if res.ExitCode != 0 && strings.Contains(res.Stdout, "should not be required") {
		t.Errorf("defect is back: new lint failure after migration")
	}
}

// F4b in migration form: `ignore: [.]` switches lint off in v1; after migration lint is on.
func TestFindingSwitchedOffLintEnabledByMigration(t *testing.T) {
	scratch(t, map[string]string{
		"buf.yaml":     "version: v1\nlint:\n  ignore:\n    - .\n",
		"p/v1/a.proto": "syntax = \"proto3\";\npackage p.v1;\nmessage bad_name { string f = 1; }\n",
	})
	if res := cli(t, "lint"); res.ExitCode != 0 {
		t.Fatalf("lint before migration should be clean (switched off)")
	}
	if res := cli(t, "config", "migrate"); res.ExitCode != 0 {
		t.Fatalf("migrate failed")
	}
	cat(t, "buf.yaml")
	if res := cli(t, "lint"); res.ExitCode != 0 {
		t.Logf("REPRODUCED: lint reports after migration")
	} else {
		t.Errorf("not reproduced")
	}
}
