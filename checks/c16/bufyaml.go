package c16

import (
	"bytes"
	"encoding/json"
	"fmt"
	"strings"

	"github.com/bufbuild/buf/private/bufpkg/bufconfig"
	"github.com/bufbuild/bufverif/internal/evid"
)

// ---------------------------------------------------------------------------------------------
// buf.yaml document grammar.
//
// A document = a FRAME (version + module layout) x a vector over the frame's feature dimensions.
// For every frame, every vector with <= t non-zero dimensions is rendered (t = 2 quick, 3 thorough).
// ---------------------------------------------------------------------------------------------

// YFrame is a version plus module layout.
type YFrame struct {
	Name     string
	Version  string   // v1beta1 | v1 | v2
	Modules  []string // module paths in document order; nil with Implicit
	Implicit bool     // v2 without a modules key (single module ".")
}

var yFrames = []YFrame{
	{Name: "v1beta1", Version: "v1beta1", Implicit: true},
	{Name: "v1", Version: "v1", Implicit: true},
	{Name: "v2-implicit", Version: "v2", Implicit: true},
	{Name: "v2[.]", Version: "v2", Modules: []string{"."}},
	{Name: "v2[a]", Version: "v2", Modules: []string{"a"}},
	{Name: "v2[a/b]", Version: "v2", Modules: []string{"a/b"}},
	{Name: "v2[a,b]", Version: "v2", Modules: []string{"a", "b"}},
	{Name: "v2[b,a]", Version: "v2", Modules: []string{"b", "a"}},
	{Name: "v2[a,a/b]", Version: "v2", Modules: []string{"a", "a/b"}},
	{Name: "v2[.,a]", Version: "v2", Modules: []string{".", "a"}},
	{Name: "v2[a,a]", Version: "v2", Modules: []string{"a", "a"}},
	{Name: "v2[a,b,a/b]", Version: "v2", Modules: []string{"a", "b", "a/b"}},
}

func (f YFrame) isV2() bool { return f.Version == "v2" }

// modPath returns the path of module k, clamped to the last module ("." for implicit frames).
func (f YFrame) modPath(k int) string {
	if len(f.Modules) == 0 {
		return "."
	}
	if k >= len(f.Modules) {
		k = len(f.Modules) - 1
	}
	return f.Modules[k]
}

func jp(dir, rel string) string {
	if dir == "." || dir == "" {
		return rel
	}
	return dir + "/" + rel
}

// yDims lists the feature dimensions that exist in a frame.
func yDims(f YFrame) []Dim {
	var d []Dim
	add := func(name string, n int) { d = append(d, Dim{name, n}) }
	add("syntax", 3) // yaml | json | yaml with the docs-link header comment
	add("deps", 4)
	add("name0", 2)
	if len(f.Modules) >= 2 {
		add("name1", 2)
	}
	switch {
	case f.Version == "v1beta1":
		add("roots", 4)
		add("bexcludes", 3)
	case f.Version == "v1":
		add("bexcludes", 3)
	case f.isV2() && !f.Implicit:
		add("inc0", 3)
		add("exc0", 3)
		if len(f.Modules) >= 2 {
			add("inc1", 2)
			add("exc1", 2)
		}
	}
	if f.isV2() {
		add("plugins", 4)
	}
	// lint block
	add("l.use", 4)
	add("l.except", 3)
	add("l.ignore", 6)
	add("l.ignore_only", 4)
	add("l.enum_zero_value_suffix", 2)
	add("l.rpc_allow_same_request_response", 2)
	add("l.rpc_allow_google_protobuf_empty_requests", 2)
	add("l.rpc_allow_google_protobuf_empty_responses", 2)
	add("l.service_suffix", 2)
	add("l.comment_ignores", 2)
	add("l.disable_builtin", 2)
	// breaking block
	add("b.use", 3)
	add("b.except", 3)
	add("b.ignore", 6)
	add("b.ignore_only", 4)
	add("b.ignore_unstable_packages", 2)
	add("b.disable_builtin", 2)
	if f.isV2() && !f.Implicit {
		add("l.place", 5)
		add("b.place", 5)
	}
	return d
}

type m = map[string]any

func list(s ...string) []any { return strs(s) }

// ignorePaths renders an ignore value in the context of module paths p0, p1.
func ignorePaths(val int, p0, p1 string) []any {
	switch val {
	case 1:
		return list(jp(p0, "x"))
	case 2:
		return list(p0) // names the module itself: the check is switched off for the module
	case 3:
		return list(jp(p1, "z"), jp(p0, "x"))
	case 4:
		return list("zz/out")
	case 5:
		return list(jp(p0, "x/f.proto"), jp(p0, "x/../y/./g.proto")) // a file and a path needing normalisation
	}
	return nil
}

func ignoreOnly(val int, p0, p1 string, ids [2]string) m {
	switch val {
	case 1:
		return m{ids[0]: list(jp(p0, "x"))}
	case 2:
		return m{ids[0]: list(jp(p0, "x"), jp(p1, "y")), ids[1]: list(p0)}
	case 3:
		return m{ids[0]: []any{}}
	}
	return nil
}

func (f YFrame) lintBlock(ix dimIndex, v []int, p0, p1 string) m {
	b := m{}
	switch ix.val(v, "l.use") {
	case 1:
		b["use"] = list("DEFAULT") // deprecated name of STANDARD in v2
	case 2:
		b["use"] = list("FILE_LOWER_SNAKE_CASE", "BASIC", "BASIC") // unsorted, duplicate
	case 3:
		b["use"] = list("STANDARD", "COMMENTS")
	}
	switch ix.val(v, "l.except") {
	case 1:
		b["except"] = list("ENUM_NO_ALLOW_ALIAS")
	case 2:
		b["except"] = list("RPC_REQUEST_STANDARD_NAME", "IMPORT_NO_WEAK", "ENUM_PASCAL_CASE") // incl. a deprecated id
	}
	if p := ignorePaths(ix.val(v, "l.ignore"), p0, p1); p != nil {
		b["ignore"] = p
	}
	if io := ignoreOnly(ix.val(v, "l.ignore_only"), p0, p1, [2]string{"ENUM_PASCAL_CASE", "BASIC"}); io != nil {
		b["ignore_only"] = io
	}
	if ix.val(v, "l.enum_zero_value_suffix") == 1 {
		b["enum_zero_value_suffix"] = "_NONE"
	}
	for _, k := range []string{"rpc_allow_same_request_response", "rpc_allow_google_protobuf_empty_requests", "rpc_allow_google_protobuf_empty_responses", "disable_builtin"} {
		if ix.val(v, "l."+k) == 1 {
			b[k] = true
		}
	}
	if ix.val(v, "l.service_suffix") == 1 {
		b["service_suffix"] = "API"
	}
	if ix.val(v, "l.comment_ignores") == 1 {
		// the non-default of the version
		if f.isV2() {
			b["disallow_comment_ignores"] = true
		} else {
			b["allow_comment_ignores"] = true
		}
	}
	return b
}

func (f YFrame) breakingBlock(ix dimIndex, v []int, p0, p1 string) m {
	b := m{}
	switch ix.val(v, "b.use") {
	case 1:
		b["use"] = list("WIRE_JSON")
	case 2:
		b["use"] = list("PACKAGE", "FIELD_SAME_LABEL", "FILE_SAME_PHP_GENERIC_SERVICES") // deprecated ids
	}
	switch ix.val(v, "b.except") {
	case 1:
		b["except"] = list("FIELD_SAME_CTYPE") // deprecated
	case 2:
		b["except"] = list("RPC_NO_DELETE", "FILE_NO_DELETE")
	}
	if p := ignorePaths(ix.val(v, "b.ignore"), p0, p1); p != nil {
		b["ignore"] = p
	}
	if io := ignoreOnly(ix.val(v, "b.ignore_only"), p0, p1, [2]string{"FIELD_SAME_TYPE", "FILE"}); io != nil {
		b["ignore_only"] = io
	}
	if ix.val(v, "b.ignore_unstable_packages") == 1 {
		b["ignore_unstable_packages"] = true
	}
	if ix.val(v, "b.disable_builtin") == 1 {
		b["disable_builtin"] = true
	}
	return b
}

// place puts a check block into the document according to the placement value:
// 0 top level; 1 module 0 only; 2 module 1 only (last module if there is no module 1);
// 3 top level, and module 0 carries a different fixed block (a per-module override);
// 4 every module carries the block itself (with its own paths) and nothing is at the top level.
func (f YFrame) place(doc m, mods []m, key string, placement int, override m, block func(p0, p1 string) m) {
	top := func() {
		if b := block(f.modPath(0), f.modPath(1)); len(b) > 0 {
			doc[key] = b
		}
	}
	if len(mods) == 0 {
		top()
		return
	}
	switch placement {
	case 0:
		top()
	case 1:
		if b := block(f.modPath(0), f.modPath(0)); len(b) > 0 {
			mods[0][key] = b
		}
	case 2:
		k := len(mods) - 1
		if k > 1 {
			k = 1
		}
		if b := block(f.modPath(k), f.modPath(k)); len(b) > 0 {
			mods[k][key] = b
		}
	case 3:
		top()
		mods[0][key] = override
	case 4:
		for k := range mods {
			if b := block(f.modPath(k), f.modPath(k)); len(b) > 0 {
				mods[k][key] = b
			}
		}
	}
}

// YDoc is a rendered document.
type YDoc struct {
	Frame  string         `json:"frame"`
	Vector map[string]int `json:"features"`
	Text   string         `json:"text"`
}

const docsLinkFmt = "# For details on buf.yaml configuration, visit https://buf.build/docs/configuration/%s/buf-yaml\n"

// renderBufYAML builds the document text for a frame and a feature vector.
func renderBufYAML(f YFrame, dims []Dim, ix dimIndex, v []int) YDoc {
	doc := m{"version": f.Version}
	switch ix.val(v, "deps") {
	case 1:
		doc["deps"] = list("buf.build/acme/dep1")
	case 2:
		doc["deps"] = list("buf.build/acme/zdep:v1", "buf.build/acme/dep1") // unsorted, with a label
	case 3:
		doc["deps"] = list("buf.build/acme/dep1:0123456789abcdef0123456789abcdef", "buf.example.com/o/r")
	}
	var mods []m
	if !f.Implicit {
		for _, p := range f.Modules {
			mods = append(mods, m{"path": p})
		}
	}
	if ix.val(v, "name0") == 1 {
		if f.Implicit {
			doc["name"] = "buf.build/acme/m0"
		} else {
			mods[0]["name"] = "buf.build/acme/m0"
		}
	}
	if ix.val(v, "name1") == 1 {
		mods[1]["name"] = "buf.build/acme/m1"
	}
	// v1beta1 / v1 build section
	build := m{}
	hasR1, hasR2 := false, false
	switch ix.val(v, "roots") {
	case 1:
		build["roots"] = list("r1")
		hasR1 = true
	case 2:
		build["roots"] = list("r2", "r1")
		hasR1, hasR2 = true, true
	case 3:
		build["roots"] = list(".")
	}
	pre := ""
	if hasR1 {
		pre = "r1/"
	}
	switch ix.val(v, "bexcludes") {
	case 1:
		build["excludes"] = list(pre + "x/ex")
	case 2:
		second := pre + "y/ex2"
		if hasR2 {
			second = "r2/ex2"
		}
		build["excludes"] = list(second, pre+"x/ex")
	}
	if len(build) > 0 {
		doc["build"] = build
	}
	// v2 includes / excludes
	for k := 0; k < 2 && k < len(mods); k++ {
		p := f.modPath(k)
		switch ix.val(v, fmt.Sprintf("inc%d", k)) {
		case 1:
			mods[k]["includes"] = list(jp(p, "x"))
		case 2:
			mods[k]["includes"] = list(jp(p, "y"), jp(p, "x"))
		}
		switch ix.val(v, fmt.Sprintf("exc%d", k)) {
		case 1:
			mods[k]["excludes"] = list(jp(p, "x/ex"))
		case 2:
			mods[k]["excludes"] = list(jp(p, "w"), jp(p, "x/ex")) // w is invalid together with includes
		}
	}
	switch ix.val(v, "plugins") {
	case 1:
		doc["plugins"] = []any{m{"plugin": "buf-plugin-foo"}}
	case 2:
		doc["plugins"] = []any{m{"plugin": list("buf-plugin-foo", "--flag"), "options": m{"k": "v", "n": 1, "b": true, "l": list("p", "q")}}}
	case 3:
		doc["plugins"] = []any{m{"plugin": "buf.build/acme/plug:v1"}, m{"plugin": "local.wasm", "options": m{"f": 1.5}}, m{"plugin": "buf.build/acme/plug2"}}
	}
	f.place(doc, mods, "lint", ix.val(v, "l.place"), m{"use": list("MINIMAL")},
		func(p0, p1 string) m { return f.lintBlock(ix, v, p0, p1) })
	f.place(doc, mods, "breaking", ix.val(v, "b.place"), m{"use": list("WIRE")},
		func(p0, p1 string) m { return f.breakingBlock(ix, v, p0, p1) })
	if mods != nil {
		anyMods := make([]any, len(mods))
		for i, mm := range mods {
			anyMods[i] = mm
		}
		doc["modules"] = anyMods
	}
	vec := map[string]int{}
	for i, d := range dims {
		if v[i] != 0 {
			vec[d.Name] = v[i]
		}
	}
	return YDoc{Frame: f.Name, Vector: vec, Text: encodeDoc(doc, ix.val(v, "syntax"), fmt.Sprintf(docsLinkFmt, f.Version))}
}

// encodeDoc renders a document tree as YAML (0), JSON (1) or YAML with a header comment (2),
// with encoders that are not buf's.
func encodeDoc(doc m, syntax int, header string) string {
	switch syntax {
	case 1:
		b, err := json.MarshalIndent(doc, "", "  ")
		if err != nil {
			panic(err)
		}
		return string(b) + "\n"
	default:
		text := EmitYAML(doc)
		if syntax == 2 {
			return header + text
		}
		return text
	}
}

// ---------------------------------------------------------------------------------------------
// round trip
// ---------------------------------------------------------------------------------------------

// rtResult is what one round trip produced.
type rtResult struct {
	accepted   bool
	rejectWhy  string
	dump1      tree
	written1   string
	diffs      []Diff // dump(read(d)) vs dump(read(write(read(d))))
	topDiffs   []Diff // differences confined to the v2 top-level accessors (informational)
	writeErr   error
	rereadErr  error
	written2   string
	write2Err  error
	idempotent bool
}

func readBufYAML(text string) (bufconfig.BufYAMLFile, error) {
	return bufconfig.ReadBufYAMLFile(strings.NewReader(text), "buf.yaml")
}

func roundTripBufYAML(text string) rtResult {
	var res rtResult
	f1, err := readBufYAML(text)
	if err != nil {
		res.rejectWhy = err.Error()
		return res
	}
	res.accepted = true
	res.dump1 = DumpBufYAML(f1)
	var w1 bytes.Buffer
	if err := bufconfig.WriteBufYAMLFile(&w1, f1); err != nil {
		res.writeErr = err
		return res
	}
	res.written1 = w1.String()
	f2, err := readBufYAML(res.written1)
	if err != nil {
		res.rereadErr = err
		return res
	}
	dump2 := DumpBufYAML(f2)
	var diffs []Diff
	if treeJSON(res.dump1) != treeJSON(dump2) {
		diffs = DiffTrees(res.dump1, dump2)
	}
	for _, d := range diffs {
		// The property is about the per-module EFFECTIVE settings. For v2 the writer is free to
		// move identical per-module sections to the top level (hoisting) and the reader spreads a
		// top-level section over the modules, so TopLevel*Config() of a v2 file is not part of
		// "the same configuration"; it is reported as information only. For v1/v1beta1 the
		// top-level config IS the module's config and is compared strictly.
		if res.dump1["file_version"] == "v2" && strings.HasPrefix(d.Field, "top_level_") {
			res.topDiffs = append(res.topDiffs, d)
			continue
		}
		res.diffs = append(res.diffs, d)
	}
	var w2 bytes.Buffer
	if err := bufconfig.WriteBufYAMLFile(&w2, f2); err != nil {
		res.write2Err = err
		return res
	}
	res.written2 = w2.String()
	res.idempotent = res.written2 == res.written1
	return res
}

// sink is what the per-case code needs from evid.Run (a collector implements it for replays).
type sink interface {
	Violate(signature, what string, c any)
	Incomplete(reason string)
	Distinct(key string)
}

var _ sink = (*evid.Run)(nil)

// reportRoundTrip turns an rtResult into violations; fileType is used in signatures.
func reportRoundTrip(r sink, fileType string, res rtResult, c any) {
	caseOf := func(extra m) m {
		out := m{"kind": fileType, "case": c, "written": res.written1}
		for k, v := range extra {
			out[k] = v
		}
		return out
	}
	if res.writeErr != nil {
		r.Violate("roundtrip/"+fileType+"/write-error", "an accepted document cannot be written back: "+res.writeErr.Error(), caseOf(nil))
		return
	}
	if res.rereadErr != nil {
		r.Violate("roundtrip/"+fileType+"/written-document-rejected", "the written document is rejected by the reader: "+res.rereadErr.Error(), caseOf(nil))
		return
	}
	for _, d := range firstPerField(res.diffs) {
		r.Violate(
			fmt.Sprintf("roundtrip/%s/%s/%s", fileType, d.Field, d.Kind),
			fmt.Sprintf("read(write(read(d))) differs from read(d) at accessor %s: %s -> %s", d.Path, orAbsent(d.Before), orAbsent(d.After)),
			caseOf(m{"diffs": res.diffs}),
		)
	}
	if res.write2Err != nil {
		r.Violate("idempotence/"+fileType+"/second-write-error", res.write2Err.Error(), caseOf(nil))
		return
	}
	if !res.idempotent {
		r.Violate("idempotence/"+fileType+"/bytes", "write(read(write(x))) != write(x)", caseOf(m{"written2": res.written2}))
	}
}

func orAbsent(s string) string {
	if s == "" {
		return "<absent>"
	}
	return s
}
