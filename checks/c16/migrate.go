package c16

import (
	"context"
	"fmt"
	"os"
	"sort"
	"strings"
	"time"

	"github.com/bufbuild/buf/private/buf/bufmigrate"
	"github.com/bufbuild/buf/private/buf/bufworkspace"
	"github.com/bufbuild/buf/private/bufpkg/bufconfig"
	"github.com/bufbuild/buf/private/bufpkg/bufimage"
	"github.com/bufbuild/buf/private/bufpkg/bufmodule"
	"github.com/bufbuild/buf/private/bufpkg/bufmodule/bufmoduletesting"
	"github.com/bufbuild/buf/private/pkg/storage"
	"github.com/bufbuild/buf/private/pkg/storage/storagemem"
	"github.com/bufbuild/buf/private/pkg/uuidutil"
	"github.com/bufbuild/bufverif/internal/bufx"
	"github.com/bufbuild/bufverif/internal/evid"
	"github.com/google/uuid"
	"google.golang.org/protobuf/proto"
	"google.golang.org/protobuf/types/descriptorpb"
)

// ---------------------------------------------------------------------------------------------
// Workspace grammar for the migration clause.
// ---------------------------------------------------------------------------------------------

func migDims() []Dim {
	return []Dim{
		{"layout", 5}, // 0 work[a,b]; 1 single module at the root (no buf.work.yaml); 2 work[a]; 3 work[a,sub/b]; 4 work[a,b], b without buf.yaml
		{"import", 2}, // module B imports a file of module A
		{"a.kind", 4}, // 0 v1; 1 v1beta1; 2 v1beta1 with roots [r1]; 3 v1beta1 with roots [r1,r2]
		{"a.excludes", 2},
		{"a.name", 2},
		{"a.lint", 14},
		{"a.breaking", 9},
		{"a.deps", 2}, // dependency on a remote module, pinned in a v1 buf.lock (b4 digest), and used by a file
		{"b.ver", 2},
		{"b.excludes", 2},
		{"b.name", 2},
		{"b.lint", 4},
		{"b.breaking", 3},
		{"b.deps", 3}, // 1 the same remote dependency with its own buf.lock (duplicate pins to merge); 2 declares workspace module A by name
		// round 4: HOW the migrator is invoked = the sequence of workspace / module directories it is asked to add
		// (see migCallArgs): 0 bufmigrate.MigrateAll (discovery: plain `buf config migrate`); 1 the workspace alone;
		// 2 the workspace and every one of its directories; 3 the workspace and its last directory; 4 the workspace and
		// its directories in reverse order, then once more in order; 5 the workspace twice and its first directory,
		// unnormalised spellings. Without a buf.work.yaml the module directories alone (2 in order, 3 reversed,
		// 4 reversed then in order, 5 unnormalised spellings).
		{"call", 6},
		// where the v1 workspace lives in the tree the migrator is run on: 0 at its root; 1 below directory "w"
		// (the migrated buf.yaml is then written into w when the workspace alone is named, and at the root
		// with module paths w/... for every other invocation: Migrator.Migrate, last bullet);
		// 2 below "w" and the workspace alone is named (= call 1, so that quick pairs every other dimension
		// with a destination directory that is not the root of the tree; needs a buf.work.yaml and call 0)
		{"at", 3},
	}
}

const atPrefix = "w"

// underPrefix moves an argument of the migrator below directory prefix, keeping its spelling.
func underPrefix(prefix, p string) string {
	switch {
	case prefix == "":
		return p
	case p == ".":
		return prefix
	case p == "./":
		return "./" + prefix + "/"
	case strings.HasPrefix(p, "./"):
		return "./" + prefix + "/" + p[2:]
	}
	return prefix + "/" + p
}

// migCall is an explicit invocation of Migrator.Migrate (`buf config migrate --workspace .. --module ..`).
type migCall struct {
	Workspaces []string `json:"workspaces"`
	Modules    []string `json:"modules"`
}

// migCallArgs renders value call (1..5) of the invocation dimension for a workspace whose buf.work.yaml at
// the root lists dirs (hasWork), or whose module directories dirs are migrated together without one.
// The forms with a buf.work.yaml are all documented as equivalent (bufmigrate.Migrator.Migrate: "if workspace
// foo has directories bar and baz, then specifying foo, foo + bar and foo + bar + baz are the same"); without
// one "the buf.yaml will contain exactly these directories". ok is false where the form does not exist or
// repeats another value.
func migCallArgs(call int, hasWork bool, dirs []string) (*migCall, bool) {
	rev := make([]string, 0, len(dirs))
	for i := len(dirs) - 1; i >= 0; i-- {
		rev = append(rev, dirs[i])
	}
	odd := func(d string) string {
		if d == "." {
			return "./"
		}
		return "./" + d + "/"
	}
	if hasWork {
		switch call {
		case 1:
			return &migCall{Workspaces: []string{"."}}, true
		case 2:
			return &migCall{Workspaces: []string{"."}, Modules: append([]string{}, dirs...)}, true
		case 3:
			return &migCall{Workspaces: []string{"."}, Modules: []string{dirs[len(dirs)-1]}}, true
		case 4:
			return &migCall{Workspaces: []string{"."}, Modules: append(rev, dirs...)}, true
		case 5:
			return &migCall{Workspaces: []string{".", "./"}, Modules: []string{odd(dirs[0])}}, true
		}
		return nil, false
	}
	switch call {
	case 2:
		return &migCall{Modules: append([]string{}, dirs...)}, true
	case 3:
		if len(dirs) < 2 {
			return nil, false
		}
		return &migCall{Modules: rev}, true
	case 4:
		return &migCall{Modules: append(rev, dirs...)}, true
	case 5:
		var mods []string
		for _, d := range dirs {
			mods = append(mods, odd(d))
		}
		return &migCall{Modules: mods}, true
	}
	return nil, false
}

// MigCase is one generated workspace (old state) together with its edited copy (new state).
type MigCase struct {
	Vector map[string]int    `json:"features"`
	Old    map[string]string `json:"files"`
	New    map[string]string `json:"-"`
	// ModuleDirs are the directories of the original modules ("." for layout 0).
	ModuleDirs []string `json:"module_dirs"`
	Key        string   `json:"-"`
	// Grammar is "" for the workspace grammar of migDims and "deps" for the dependency-merge worlds
	// of migdeps.go (the replay needs to know which grammar the feature vector belongs to).
	Grammar string `json:"grammar,omitempty"`
	// What the generator wrote into the v1 configuration files about dependencies (reference data
	// of the dependency oracle, recorded at generation time, not read back through buf).
	Names map[string]string `json:"module_names,omitempty"` // module dir -> name
	Decl  []declDep         `json:"declared_deps,omitempty"`
	Pins  []pinDep          `json:"pinned_deps,omitempty"`
	// Roles optionally overrides the structural role of each module used in signatures.
	Roles []string `json:"-"`
	// StandaloneModules: there is no buf.work.yaml; every module directory is its own v1 workspace
	// before migration (they are migrated together into one v2 workspace).
	StandaloneModules bool `json:"standalone_modules,omitempty"`
	// Registry tables of the dependency-merge worlds (reference data of the dependency oracle: what the
	// generator put into the in-process registry): create time per commit (dashless), and per module
	// name the commit every ref resolves to ("" = head of the default label). nil for the workspace grammar.
	CommitTimes map[string]time.Time         `json:"-"`
	RefCommits  map[string]map[string]string `json:"-"`
	// Call: the explicit invocation of the migrator (nil = bufmigrate.MigrateAll), round 4.
	Call *migCall `json:"call,omitempty"`
	// Prefix: the migrator is run on a tree that holds the whole workspace below this directory ("" = at the root).
	Prefix string `json:"workspace_below,omitempty"`
	// NoBufYAML: original module directories that have no buf.yaml (built with the v1 defaults).
	NoBufYAML []string `json:"dirs_without_buf_yaml,omitempty"`
}

// declDep is one entry of a `deps:` list of a v1/v1beta1 buf.yaml.
type declDep struct {
	Dir  string `json:"dir"`
	Name string `json:"name"`
	Ref  string `json:"ref,omitempty"`
}

// pinDep is one entry of a v1 buf.lock.
type pinDep struct {
	Dir    string `json:"dir"`
	Name   string `json:"name"`
	Commit string `json:"commit"` // dashless
}

// kind is the "kind" of the evidence case objects (selects the grammar on replay).
func (c MigCase) kind() string {
	if c.Grammar == "deps" {
		return "migration-deps"
	}
	return "migration"
}

const protoA = `syntax = "proto3";
package p.v1;
import "google/protobuf/empty.proto";
// buf:lint:ignore ENUM_PASCAL_CASE
enum bad_enum {
  BAD_ENUM_UNSPECIFIED = 0;
  BAD_ENUM_X = 1;
}
enum Color {
  COLOR_NONE = 0;
  COLOR_RED = 1;
}
message A {
  string f = 1;
  int32 g = 2;
  Color c = 3;
  string descriptor = 4;
}
message PingRequest {}
message PingResponse {}
service PingAPI {
  rpc Ping(PingRequest) returns (PingResponse);
  rpc Same(A) returns (A);
  rpc Nothing(google.protobuf.Empty) returns (google.protobuf.Empty);
  rpc In(google.protobuf.Empty) returns (InResponse);
  rpc Out(OutRequest) returns (google.protobuf.Empty);
  rpc Up(stream PingRequest) returns (PingResponse);
}
message InResponse {}
message OutRequest {}
`

// protoANew: field g deleted, f changes type, an enum value renamed, Up loses client streaming.
const protoANew = `syntax = "proto3";
package p.v1;
import "google/protobuf/empty.proto";
// buf:lint:ignore ENUM_PASCAL_CASE
enum bad_enum {
  BAD_ENUM_UNSPECIFIED = 0;
  BAD_ENUM_Y = 1;
}
enum Color {
  COLOR_NONE = 0;
  COLOR_RED = 1;
}
message A {
  int64 f = 1;
  Color c = 3;
  string descriptor = 4;
}
message PingRequest {}
message PingResponse {}
service PingAPI {
  rpc Ping(PingRequest) returns (PingResponse);
  rpc Same(A) returns (A);
  rpc Nothing(google.protobuf.Empty) returns (google.protobuf.Empty);
  rpc In(google.protobuf.Empty) returns (InResponse);
  rpc Out(OutRequest) returns (google.protobuf.Empty);
  rpc Up(PingRequest) returns (PingResponse);
}
message InResponse {}
message OutRequest {}
`

const protoBad = `syntax = "proto3";
package p.v1;
message bad_msg {
  string BadField = 1;
  int32 keep = 2;
}
`

const protoBadNew = `syntax = "proto3";
package p.v1;
message bad_msg {
  string BadField = 1;
}
`

const protoUnstable = `syntax = "proto3";
package q.v1alpha1;
message U {
  string a = 1;
  string b = 2;
}
message Gone {}
`

const protoUnstableNew = `syntax = "proto3";
package q.v1alpha1;
message U {
  string a = 1;
}
`

const protoSkip = `syntax = "proto3";
package ex;
message skip_me {
  string NotSnake = 1;
  int32 n = 2;
}
`

const protoSkipNew = `syntax = "proto3";
package ex;
message skip_me {
  string NotSnake = 1;
}
`

const protoLegacy = `syntax = "proto2";
package p.v1;
import "p/v2/c.proto";
message Legacy {
  required string id = 1;
  optional int32 n = 2 [default = 5];
  optional p.v2.C c = 3;
  extensions 100 to 200;
}
extend Legacy {
  optional string ext_a = 100;
  optional string ext_b = 101;
}
`

// protoLegacyNew: a default changes, an extension is deleted.
const protoLegacyNew = `syntax = "proto2";
package p.v1;
import "p/v2/c.proto";
message Legacy {
  required string id = 1;
  optional int32 n = 2 [default = 6];
  optional p.v2.C c = 3;
  extensions 100 to 200;
}
extend Legacy {
  optional string ext_a = 100;
}
`

// protoC closes a PACKAGE import cycle p.v1 -> p.v2 -> p.v1 (no file cycle).
const protoC = `syntax = "proto3";
package p.v2;
import "p/v1/bad.proto";
message C {
  p.v1.bad_msg m = 1;
}
`

const protoBLegacy = `syntax = "proto2";
package s.v1;
message OldS {
  required string id = 1;
  optional int32 n = 2 [default = 1];
  extensions 100 to 110;
}
extend OldS {
  optional string old_ext = 100;
}
`

const protoBLegacyNew = `syntax = "proto2";
package s.v1;
message OldS {
  required string id = 1;
  optional int32 n = 2 [default = 2];
  extensions 100 to 110;
}
`

const protoUseDep = `syntax = "proto3";
package p.v1;
import "dep/v1/d.proto";
message UsesDep {
  dep.v1.D d = 1;
}
`

const protoBUseDep = `syntax = "proto3";
package s.v1;
import "dep/v1/d.proto";
message BUsesDep {
  dep.v1.D d = 1;
}
`

const protoDep = `syntax = "proto3";
package dep.v1;
message D {
  string x = 1;
}
`

func protoS(imp bool, edited bool) string {
	var b strings.Builder
	b.WriteString("syntax = \"proto3\";\npackage s.v1;\n")
	if imp {
		b.WriteString("import \"p/v1/a.proto\";\n")
	}
	b.WriteString("message S {\n  string name = 1;\n")
	if !edited {
		b.WriteString("  int32 old = 2;\n")
	}
	if imp {
		b.WriteString("  p.v1.A a = 3;\n")
	}
	b.WriteString("}\nenum Kind {\n  KIND_ZERO = 0;\n}\nservice Svc {\n  rpc Get(S) returns (S);\n}\n")
	return b.String()
}

const protoBSkip = `syntax = "proto3";
package bex;
message b_skip {
  string X = 1;
}
`

const depName = "buf.build/acme/dep"

// explicitLintIDs are rule ids and categories that exist under the same name in v1beta1, v1 and v2.
var explicitLintIDs = []string{"COMMENTS", "UNARY_RPC", "ENUM_PASCAL_CASE", "MESSAGE_PASCAL_CASE", "FIELD_LOWER_SNAKE_CASE", "SERVICE_SUFFIX", "ENUM_ZERO_VALUE_SUFFIX", "RPC_REQUEST_RESPONSE_UNIQUE", "PACKAGE_VERSION_SUFFIX"}

func lintSection(val int) m {
	switch val {
	case 1:
		return m{"use": list("BASIC")}
	case 2:
		return m{"use": list("DEFAULT"), "except": list("ENUM_ZERO_VALUE_SUFFIX", "RPC_REQUEST_STANDARD_NAME")}
	case 3:
		return m{"ignore": list("p/v1/bad.proto")}
	case 4:
		return m{"ignore": list(".")} // names the module itself: lint is switched off
	case 5:
		return m{"ignore_only": m{"MESSAGE_PASCAL_CASE": list("p/v1"), "FIELD_LOWER_SNAKE_CASE": list("p/v1/bad.proto", "q")}}
	case 6:
		return m{"enum_zero_value_suffix": "_NONE", "service_suffix": "API"}
	case 7:
		return m{"rpc_allow_same_request_response": true, "rpc_allow_google_protobuf_empty_requests": true}
	case 8:
		return m{"allow_comment_ignores": true}
	case 9:
		return m{"use": list("DEFAULT", "COMMENTS", "UNARY_RPC")}
	case 10:
		return m{"use": list("STYLE_DEFAULT"), "ignore": list("q")} // a v1beta1-only category (not valid in v1)
	case 11:
		return m{"use": strs(explicitLintIDs)}
	case 12:
		return m{"use": strs(explicitLintIDs), "except": list("PACKAGE_VERSION_SUFFIX"), "allow_comment_ignores": true,
			"enum_zero_value_suffix": "_NONE", "service_suffix": "API", "rpc_allow_same_request_response": true,
			"ignore": list("q"), "ignore_only": m{"COMMENTS": list("p/v1/a.proto", "p/v2"), "FIELD_LOWER_SNAKE_CASE": list("p/v1/bad.proto")}}
	case 13:
		return m{"rpc_allow_google_protobuf_empty_responses": true}
	}
	return nil
}

func breakingSection(val int) m {
	switch val {
	case 1:
		return m{"use": list("WIRE")}
	case 2:
		return m{"use": list("PACKAGE")}
	case 3:
		return m{"use": list("FILE"), "except": list("FIELD_NO_DELETE", "FILE_NO_DELETE")}
	case 4:
		return m{"ignore": list("p/v1/bad.proto")}
	case 5:
		return m{"ignore": list(".")}
	case 6:
		return m{"ignore_only": m{"FIELD_NO_DELETE": list("p/v1/a.proto"), "FIELD_SAME_TYPE": list("p")}}
	case 7:
		return m{"ignore_unstable_packages": true}
	case 8:
		return m{"use": list("WIRE_JSON"), "ignore_unstable_packages": true, "ignore": list("q/v1alpha1")}
	}
	return nil
}

func bLintSection(val int) m {
	switch val {
	case 1:
		return m{"use": list("BASIC"), "except": list("FIELD_NO_DESCRIPTOR")}
	case 2:
		return m{"ignore": list("s/v1")}
	case 3:
		return m{"use": strs(explicitLintIDs), "service_suffix": "Svc", "enum_zero_value_suffix": "_ZERO", "ignore_only": m{"COMMENTS": list("s/v1/s.proto")}}
	}
	return nil
}

func bBreakingSection(val int) m {
	switch val {
	case 1:
		return m{"use": list("WIRE_JSON")}
	case 2:
		return m{"ignore": list("s")}
	}
	return nil
}

// buildMigCase renders the files of a workspace and of its edited copy. ok is false when the
// vector combines features that the grammar does not define (e.g. roots on a v1 module).
func buildMigCase(dims []Dim, ix dimIndex, v []int, deps *migDeps) (MigCase, bool) {
	c := MigCase{Vector: map[string]int{}, Old: map[string]string{}, New: map[string]string{}}
	for i, d := range dims {
		if v[i] != 0 {
			c.Vector[d.Name] = v[i]
		}
	}
	layout := ix.val(v, "layout")
	hasB := layout == 0 || layout >= 3
	aDir, bDir := "a", "b"
	switch layout {
	case 1:
		aDir = "."
	case 3:
		bDir = "sub/b"
	}
	if !hasB {
		for _, name := range []string{"import", "b.ver", "b.excludes", "b.name", "b.lint", "b.breaking", "b.deps"} {
			if ix.val(v, name) != 0 {
				return c, false
			}
		}
	}
	if layout == 4 {
		for _, name := range []string{"b.ver", "b.excludes", "b.name", "b.lint", "b.breaking", "b.deps"} {
			if ix.val(v, name) != 0 {
				return c, false // b has no buf.yaml in this layout
			}
		}
	}
	aV1beta1 := ix.val(v, "a.kind") >= 1
	roots := 0
	if k := ix.val(v, "a.kind"); k >= 2 {
		roots = k - 1
	}
	put := func(dir, rel, oldText, newText string) {
		p := jp(dir, rel)
		if oldText != "" {
			c.Old[p] = oldText
		}
		if newText != "" {
			c.New[p] = newText
		}
	}
	both := func(dir, rel, text string) { put(dir, rel, text, text) }

	// ---- module A
	root1, root2 := "", ""
	switch roots {
	case 1:
		root1, root2 = "r1/", "r1/"
	case 2:
		root1, root2 = "r1/", "r2/"
	}
	put(aDir, root1+"p/v1/a.proto", protoA, protoANew)
	put(aDir, root1+"p/v1/bad.proto", protoBad, protoBadNew)
	put(aDir, root2+"q/v1alpha1/u.proto", protoUnstable, protoUnstableNew)
	put(aDir, root1+"ex/skip.proto", protoSkip, protoSkipNew)
	put(aDir, root1+"p/v1/legacy.proto", protoLegacy, protoLegacyNew)
	both(aDir, root1+"p/v2/c.proto", protoC)
	aYAML := m{"version": "v1"}
	if aV1beta1 {
		aYAML["version"] = "v1beta1"
	}
	build := m{}
	switch roots {
	case 1:
		build["roots"] = list("r1")
	case 2:
		build["roots"] = list("r1", "r2")
	}
	if ix.val(v, "a.excludes") == 1 {
		build["excludes"] = list(root1 + "ex")
	}
	if len(build) > 0 {
		aYAML["build"] = build
	}
	if ix.val(v, "a.name") == 1 {
		aYAML["name"] = "buf.build/acme/moda"
		c.Names = map[string]string{aDir: "buf.build/acme/moda"}
	}
	if s := lintSection(ix.val(v, "a.lint")); s != nil {
		aYAML["lint"] = s
	}
	if s := breakingSection(ix.val(v, "a.breaking")); s != nil {
		aYAML["breaking"] = s
	}
	if ix.val(v, "a.deps") == 1 {
		aYAML["deps"] = list(depName)
		both(aDir, root1+"p/v1/usedep.proto", protoUseDep)
		lock := m{"version": "v1", "deps": []any{m{
			"remote": "buf.build", "owner": "acme", "repository": "dep",
			"commit": uuidutil.ToDashless(deps.commit), "digest": deps.b4,
		}}}
		both(aDir, "buf.lock", "# Generated by buf. DO NOT EDIT.\n"+EmitYAML(lock))
		c.Decl = append(c.Decl, declDep{Dir: aDir, Name: depName})
		c.Pins = append(c.Pins, pinDep{Dir: aDir, Name: depName, Commit: uuidutil.ToDashless(deps.commit)})
	}
	both(aDir, "buf.yaml", EmitYAML(aYAML))
	c.ModuleDirs = []string{aDir}

	// ---- module B
	if hasB {
		imp := ix.val(v, "import") == 1
		put(bDir, "s/v1/s.proto", protoS(imp, false), protoS(imp, true))
		both(bDir, "bex/skip.proto", protoBSkip)
		put(bDir, "s/v1/legacy.proto", protoBLegacy, protoBLegacyNew)
		if layout != 4 {
			bYAML := m{"version": "v1"}
			if ix.val(v, "b.ver") == 1 {
				bYAML["version"] = "v1beta1"
			}
			if ix.val(v, "b.excludes") == 1 {
				bYAML["build"] = m{"excludes": list("bex")}
			}
			if ix.val(v, "b.name") == 1 {
				bYAML["name"] = "buf.build/acme/modb"
				if c.Names == nil {
					c.Names = map[string]string{}
				}
				c.Names[bDir] = "buf.build/acme/modb"
			}
			if s := bLintSection(ix.val(v, "b.lint")); s != nil {
				bYAML["lint"] = s
			}
			if s := bBreakingSection(ix.val(v, "b.breaking")); s != nil {
				bYAML["breaking"] = s
			}
			switch ix.val(v, "b.deps") {
			case 1:
				bYAML["deps"] = list(depName)
				both(bDir, "s/v1/usedep.proto", protoBUseDep)
				lock := m{"version": "v1", "deps": []any{m{
					"remote": "buf.build", "owner": "acme", "repository": "dep",
					"commit": uuidutil.ToDashless(deps.commit), "digest": deps.b4,
				}}}
				both(bDir, "buf.lock", "# Generated by buf. DO NOT EDIT.\n"+EmitYAML(lock))
				c.Decl = append(c.Decl, declDep{Dir: bDir, Name: depName})
				c.Pins = append(c.Pins, pinDep{Dir: bDir, Name: depName, Commit: uuidutil.ToDashless(deps.commit)})
			case 2:
				// a dependency on a module of the same workspace (only meaningful when A is named)
				bYAML["deps"] = list("buf.build/acme/moda")
				c.Decl = append(c.Decl, declDep{Dir: bDir, Name: "buf.build/acme/moda"})
			}
			both(bDir, "buf.yaml", EmitYAML(bYAML))
		}
		c.ModuleDirs = append(c.ModuleDirs, bDir)
	} else if ix.val(v, "import") == 1 {
		return c, false
	}
	if layout != 1 {
		dirs := []string{aDir}
		if hasB {
			dirs = append(dirs, bDir)
		}
		both(".", "buf.work.yaml", EmitYAML(m{"version": "v1", "directories": strs(dirs)}))
	}
	if layout == 4 {
		c.NoBufYAML = []string{bDir}
	}
	if ix.val(v, "at") >= 1 {
		c.Prefix = atPrefix
	}
	if ix.val(v, "at") == 2 {
		if layout == 1 || ix.val(v, "call") != 0 {
			return c, false
		}
		c.Call, _ = migCallArgs(1, true, c.ModuleDirs)
	}
	if call := ix.val(v, "call"); call != 0 {
		var ok bool
		if c.Call, ok = migCallArgs(call, layout != 1, c.ModuleDirs); !ok {
			return c, false
		}
	}
	keys := make([]string, 0, len(c.Vector))
	for k, val := range c.Vector {
		keys = append(keys, fmt.Sprintf("%s=%d", k, val))
	}
	sort.Strings(keys)
	c.Key = strings.Join(keys, ",")
	return c, true
}

// ---------------------------------------------------------------------------------------------
// Observation of a workspace: per module dir the built files, descriptors, lint and breaking.
// ---------------------------------------------------------------------------------------------

type migDeps struct {
	omni   bufmoduletesting.OmniProvider
	commit uuid.UUID
	b4     string
	prov   bufx.Providers
	// what the migrator is given (bufmigrate.NewMigrator)
	keyProv    bufmodule.ModuleKeyProvider
	commitProv bufmodule.CommitProvider
	// reg: the registry with a history per module (dependency-merge worlds, migdeps.go / registry.go)
	reg *multiRegistry
}

func newMigDeps() (*migDeps, error) {
	commit := fixedUUID("mig-dep")
	omni, err := bufmoduletesting.NewOmniProvider(bufmoduletesting.ModuleData{
		Name:       depName,
		CommitID:   commit,
		PathToData: map[string][]byte{"dep/v1/d.proto": []byte(protoDep)},
	})
	if err != nil {
		return nil, err
	}
	mod := omni.GetModuleForCommitID(commit)
	if mod == nil {
		return nil, fmt.Errorf("dep module not found")
	}
	b4, err := mod.Digest(bufmodule.DigestTypeB4)
	if err != nil {
		return nil, err
	}
	return &migDeps{omni: omni, commit: commit, b4: b4.String(), keyProv: omni, commitProv: omni, prov: bufx.Providers{Graph: omni, ModuleData: omni, Commit: omni}}, nil
}

// modView is what the property observes for one module.
type modView struct {
	bucketID string
	files    map[string]*descriptorpb.FileDescriptorProto // non-import files by root-relative path
	image    bufimage.Image
	lintCfg  bufconfig.LintConfig
	brkCfg   bufconfig.BreakingConfig
}

func memBucketRW(files map[string]string) (storage.ReadWriteBucket, error) {
	b := storagemem.NewReadWriteBucket()
	for p, c := range files {
		if err := storage.PutPath(context.Background(), b, p, []byte(c)); err != nil {
			return nil, err
		}
	}
	return b, nil
}

func bucketFiles(ctx context.Context, b storage.ReadBucket) (map[string]string, error) {
	out := map[string]string{}
	err := b.Walk(ctx, "", func(info storage.ObjectInfo) error {
		data, err := storage.ReadPath(ctx, b, info.Path())
		if err != nil {
			return err
		}
		out[info.Path()] = string(data)
		return nil
	})
	return out, err
}

// viewWorkspace builds every target module of the workspace in the bucket the way `buf lint` /
// `buf breaking` do (one image per module, the other modules as imports).
func viewWorkspace(ctx context.Context, bucket storage.ReadBucket, deps *migDeps) ([]*modView, bufworkspace.Workspace, error) {
	return viewWorkspaceAt(ctx, bucket, ".", deps)
}

// viewStandalone views every module directory as its own workspace (no buf.work.yaml: this is what
// `buf build <dir>` / `buf lint <dir>` see before several module directories are migrated together).
func viewStandalone(ctx context.Context, bucket storage.ReadBucket, dirs []string, deps *migDeps) ([]*modView, error) {
	var out []*modView
	for _, dir := range dirs {
		views, _, err := viewWorkspaceAt(ctx, bucket, dir, deps)
		if err != nil {
			return nil, fmt.Errorf("%s: %w", dir, err)
		}
		out = append(out, views...)
	}
	return out, nil
}

func viewWorkspaceAt(ctx context.Context, bucket storage.ReadBucket, subDir string, deps *migDeps) ([]*modView, bufworkspace.Workspace, error) {
	ws, err := bufx.Workspace(ctx, bucket, subDir, nil, nil, deps.prov)
	if err != nil {
		return nil, nil, fmt.Errorf("workspace: %w", err)
	}
	var out []*modView
	for _, mod := range bufmodule.ModuleSetTargetModules(ws) {
		ms, err := ws.WithTargetOpaqueIDs(mod.OpaqueID())
		if err != nil {
			return nil, nil, fmt.Errorf("target %s: %w", mod.OpaqueID(), err)
		}
		img, err := bufimage.BuildImage(ctx, bufx.Logger, bufmodule.ModuleSetToModuleReadBucketWithOnlyProtoFiles(ms))
		if err != nil {
			return nil, nil, fmt.Errorf("build %s: %w", mod.OpaqueID(), err)
		}
		mv := &modView{bucketID: mod.BucketID(), files: map[string]*descriptorpb.FileDescriptorProto{}, image: img,
			lintCfg: ws.GetLintConfigForOpaqueID(mod.OpaqueID()), brkCfg: ws.GetBreakingConfigForOpaqueID(mod.OpaqueID())}
		for _, f := range img.Files() {
			if !f.IsImport() {
				mv.files[f.Path()] = f.FileDescriptorProto()
			}
		}
		out = append(out, mv)
	}
	return out, ws, nil
}

// groupByOriginal assigns each module view to the original module directory that equals or
// contains its bucket id (a v1beta1 module with several roots becomes several v2 modules).
func groupByOriginal(views []*modView, dirs []string) (map[string][]*modView, []string) {
	out := map[string][]*modView{}
	var orphans []string
	for _, mv := range views {
		best := ""
		found := false
		for _, d := range dirs {
			if d == "." || mv.bucketID == d || strings.HasPrefix(mv.bucketID, d+"/") {
				if !found || len(d) > len(best) {
					best, found = d, true
				}
			}
		}
		if !found {
			orphans = append(orphans, mv.bucketID)
			continue
		}
		out[best] = append(out[best], mv)
	}
	return out, orphans
}

func annKey(a bufx.Annotation) string {
	return fmt.Sprintf("%s:%d:%d:%d:%d %s %s", a.Path, a.StartLine, a.StartCol, a.EndLine, a.EndCol, a.Type, a.Message)
}

// checkResult is a set of annotations or an error.
type checkResult struct {
	anns map[string]bool
	err  string
}

func (c checkResult) String() string {
	if c.err != "" {
		return "ERROR: " + c.err
	}
	keys := make([]string, 0, len(c.anns))
	for k := range c.anns {
		keys = append(keys, k)
	}
	sort.Strings(keys)
	return strings.Join(keys, "\n")
}

func lintGroup(ctx context.Context, group []*modView) checkResult {
	res := checkResult{anns: map[string]bool{}}
	for _, mv := range group {
		anns, err := bufx.Lint(ctx, mv.lintCfg, mv.image)
		if err != nil {
			res.err = err.Error()
			return res
		}
		for _, a := range anns {
			res.anns[annKey(a)] = true
		}
	}
	return res
}

// breakingGroup compares each new module image with the image of the old module with the same
// bucket id; a module without a counterpart is compared with the union... (never happens in the
// grammar: the edit never adds or removes a module), reported as an error.
func breakingGroup(ctx context.Context, newGroup, oldGroup []*modView) checkResult {
	res := checkResult{anns: map[string]bool{}}
	oldByID := map[string]*modView{}
	for _, mv := range oldGroup {
		oldByID[mv.bucketID] = mv
	}
	for _, mv := range newGroup {
		old := oldByID[mv.bucketID]
		if old == nil {
			res.err = "no old module for " + mv.bucketID
			return res
		}
		anns, err := bufx.Breaking(ctx, mv.brkCfg, mv.image, old.image)
		if err != nil {
			res.err = err.Error()
			return res
		}
		for _, a := range anns {
			res.anns[annKey(a)] = true
		}
	}
	return res
}

// ---------------------------------------------------------------------------------------------
// The exploration.
// ---------------------------------------------------------------------------------------------

func runMigration(r *evid.Run) {
	deps, err := newMigDeps()
	if err != nil {
		r.Incomplete("migration: cannot build the remote dependency in-process: " + err.Error())
		return
	}
	dims := migDims()
	ix := indexDims(dims)
	var cases []MigCase
	undefined := 0
	// VERIF_C16_MIG_DIMS (development aid, e.g. for mutant runs): only these dimensions may be non-zero
	allowed := map[string]bool{}
	for _, name := range strings.Split(os.Getenv("VERIF_C16_MIG_DIMS"), ",") {
		if name != "" {
			allowed[name] = true
		}
	}
	if len(allowed) > 0 {
		r.Incomplete("migration restricted to dimensions " + os.Getenv("VERIF_C16_MIG_DIMS") + " (VERIF_C16_MIG_DIMS)")
	}
	// The check sections of module A interact with the dimensions that change paths or module
	// boundaries (layout, kind/roots, excludes, import); the migrator converts every module's lint
	// and breaking section by an independent call, so sections do not interact with each other, with
	// names, deps or module B's sections.
	//   quick:    singles + all pairs of interacting dimensions
	//   thorough: singles + ALL pairs + all triples of pairwise interacting dimensions
	structural := map[string]bool{"layout": true, "import": true, "a.kind": true, "a.excludes": true, "at": true}
	isSection := func(n string) bool { return n == "a.lint" || n == "a.breaking" }
	// The invocation form decides which directories are visited how often and in which order; what a
	// visit reads is the directory's layout, version / roots, name, deps and lock - not the content of a
	// check section (converted inside the visit by an independent call).
	isAnySection := func(n string) bool { return isSection(n) || n == "b.lint" || n == "b.breaking" }
	interacts := func(a, b string) bool {
		if isSection(a) && !structural[b] || isSection(b) && !structural[a] {
			return false
		}
		if a == "call" && isAnySection(b) || b == "call" && isAnySection(a) {
			return false
		}
		// Where the workspace lives changes the destination directory every path of the migrated buf.yaml is
		// relative to: module paths, excludes, the ignore paths of the check sections, the place of the buf.lock.
		atPartner := map[string]bool{"layout": true, "a.kind": true, "call": true, "a.excludes": true, "b.excludes": true, "a.deps": true, "b.deps": true, "a.lint": true, "a.breaking": true}
		if a == "at" && !atPartner[b] || b == "at" && !atPartner[a] {
			return false
		}
		return true
	}
	seenKey := map[string]bool{}
	add := func(v []int) {
		if len(allowed) > 0 {
			for i, d := range dims {
				if v[i] != 0 && !allowed[d.Name] {
					return
				}
			}
		}
		c, ok := buildMigCase(dims, ix, v, deps)
		if !ok {
			undefined++
			return
		}
		if seenKey[c.Key] {
			return
		}
		seenKey[c.Key] = true
		cases = append(cases, c)
	}
	if r.Quick() {
		r.Set("migration_enumeration", "every single dimension at every value + all pairs of interacting dimensions (sections of module A x structural dimensions; every pair not involving a section of module A)")
		TWayInteracting(dims, 2, interacts, add)
	} else {
		r.Set("migration_enumeration", "every single dimension at every value + ALL pairs + all triples of pairwise interacting dimensions")
		TWay(dims, 2, add)
		TWayInteracting(dims, 3, interacts, add)
	}
	r.Set("migration_workspaces_generated", len(cases))
	r.Set("migration_vectors_outside_grammar", undefined)
	cov := newCounter()
	skips := newCounter()
	r.ParallelFor(len(cases), 0, func(i int) {
		c := cases[i]
		r.Eval(1)
		migrateOne(r, c, deps, cov, skips, i%8 == 0)
		r.SampleEvery(i, 499, func() any { return m{"kind": c.kind(), "case": c} })
	})
	snap := cov.snapshot()
	r.Set("migration_coverage", snap)
	r.Set("migration_skipped_reasons_top", skips.top(8))
	for _, clause := range []string{"migrated", "v1_module", "v1beta1_module", "v1beta1_multiple_roots", "excludes", "two_modules", "inter_module_import",
		"module_without_buf_yaml", "remote_dep_with_lock", "lock_upgraded_to_b5", "lint_nonempty_before", "breaking_nonempty_before",
		"lint_disabled_before", "breaking_disabled_before", "per_module_configs_differ", "lint_compared", "breaking_compared", "descriptors_compared",
		"module_list_checked", "call/discovery_MigrateAll", "call/explicit", "call/workspace_alone", "call/module_directories_alone", "call/workspace_named_twice",
		"call/unnormalised_spelling", "call/directory_reached_twice", "call/directory_reached_three_times", "call/directory_without_buf_yaml_reached_twice",
		"call/named_module_reached_twice", "call/module_with_buf_lock_reached_twice",
		"at/workspace_below_a_directory", "at/migrated_buf_yaml_at_the_tree_root", "at/migrated_buf_yaml_inside_the_directory", "at/with_check_section_paths"} {
		if snap[clause] == 0 {
			r.Incomplete("migration clause never exercised: " + clause)
		}
	}
}

// migrateOne explores one workspace. full also runs the real migrator on the edited copy (otherwise the
// edited .proto files are placed under the migrated configuration of the original, which is
// cross-checked to be the same thing on every case with full=true).
func migrateOne(r sink, c MigCase, deps *migDeps, cov, skips *counter, full bool) {
	ctx := context.Background()
	skip := func(why string) {
		cov.add("skipped_invalid_before_migration", 1)
		skips.add(why, 1)
	}
	// ---- before: both states must build, lint and breaking must run (the configuration is valid)
	var before [2]map[string][]*modView // 0 old, 1 new (edited copy)
	for k, files := range []map[string]string{c.Old, c.New} {
		var views []*modView
		var err error
		if c.StandaloneModules {
			views, err = viewStandalone(ctx, bufx.MemBucket(files), c.ModuleDirs, deps)
		} else {
			views, _, err = viewWorkspace(ctx, bufx.MemBucket(files), deps)
		}
		if err != nil {
			if c.Grammar == "deps" && c.Vector["d.digest"] != 0 && strings.Contains(err.Error(), "buf.lock") {
				// The buf.lock files of the dependency worlds are valid by the documented format (see
				// lockExpectation in buflock.go: commit-only entries and retired digest types are backfilled
				// through the digest resolver the workspace provider installs): the reader must accept them.
				class := map[int]string{1: "no-digest", 2: "retired-digest-type"}[c.Vector["d.digest"]]
				r.Violate("accept/buf.lock/v1-or-v1beta1/"+class+"/workspace-provider",
					"a v1 workspace whose buf.lock files are valid by the documented format ("+class+", backfilled from the registry) is rejected before migration: "+err.Error(), m{"kind": c.kind(), "case": c})
				return
			}
			skip("workspace before: " + shorten(err.Error()))
			return
		}
		grouped, orphans := groupByOriginal(views, c.ModuleDirs)
		if len(orphans) > 0 {
			r.Incomplete(fmt.Sprintf("migration harness: module %v outside the generated module dirs %v", orphans, c.ModuleDirs))
			return
		}
		before[k] = grouped
	}
	lintBefore, breakingBefore := map[string]checkResult{}, map[string]checkResult{}
	for _, dir := range c.ModuleDirs {
		lintBefore[dir] = lintGroup(ctx, before[0][dir])
		if e := lintBefore[dir].err; e != "" {
			skip("lint before: " + shorten(e))
			return
		}
		breakingBefore[dir] = breakingGroup(ctx, before[1][dir], before[0][dir])
		if e := breakingBefore[dir].err; e != "" {
			skip("breaking before: " + shorten(e))
			return
		}
	}
	// ---- migrate
	// rootedAfter: the workspace lives below c.Prefix and the migrated buf.yaml is at the root of the tree
	rootedAfter := false
	migrate := func(files map[string]string) (map[string]string, bool) {
		if c.Prefix != "" {
			moved := make(map[string]string, len(files))
			for p, text := range files {
				moved[c.Prefix+"/"+p] = text
			}
			files = moved
		}
		bucket, err := memBucketRW(files)
		if err != nil {
			r.Incomplete("migration harness: " + err.Error())
			return nil, false
		}
		migrator := bufmigrate.NewMigrator(bufx.Logger, deps.keyProv, deps.commitProv)
		err = func() (err error) {
			// a panic of the migrator is a finding about the workspace, not the end of the exploration
			defer func() {
				if p := recover(); p != nil {
					err = panicError{fmt.Sprint(p)}
				}
			}()
			if c.Call != nil {
				var ws, mods []string
				for _, p := range c.Call.Workspaces {
					ws = append(ws, underPrefix(c.Prefix, p))
				}
				for _, p := range c.Call.Modules {
					mods = append(mods, underPrefix(c.Prefix, p))
				}
				return migrator.Migrate(ctx, bucket, ws, mods, nil)
			}
			return bufmigrate.MigrateAll(ctx, migrator, bucket, nil)
		}()
		if pe, ok := err.(panicError); ok {
			r.Violate("migrate/panic/"+panicClass(pe.msg),
				"the migrator panics on a workspace that builds, lints and breaking-checks without error: "+pe.msg, m{"kind": c.kind(), "case": c})
			return nil, false
		}
		if err != nil {
			r.Violate("migrate/error/"+errClass(err.Error()),
				"a workspace that builds, lints and breaking-checks without error is rejected by the migrator: "+err.Error(), m{"kind": c.kind(), "case": c})
			return nil, false
		}
		after, err := bucketFiles(ctx, bucket)
		if err != nil {
			r.Incomplete("migration harness: " + err.Error())
			return nil, false
		}
		if c.Prefix != "" {
			// The v2 workspace is where the migrated buf.yaml is: inside the directory (then it is observed
			// from there, like the original), or at the root of the tree with module paths below the directory.
			_, inside := after[c.Prefix+"/buf.yaml"]
			_, atRoot := after["buf.yaml"]
			if inside && !atRoot {
				moved := make(map[string]string, len(after))
				for p, text := range after {
					if !strings.HasPrefix(p, c.Prefix+"/") {
						r.Violate("migrate/files-outside-the-workspace", "the migration of a workspace below "+c.Prefix+" wrote "+p, m{"kind": c.kind(), "case": c})
						return nil, false
					}
					moved[strings.TrimPrefix(p, c.Prefix+"/")] = text
				}
				after = moved
				rootedAfter = false
			} else {
				rootedAfter = true
			}
		}
		return after, true
	}
	var afterFiles [2]map[string]string
	var ok bool
	if afterFiles[0], ok = migrate(c.Old); !ok {
		return
	}
	migrated := configFiles(afterFiles[0])
	if full {
		if afterFiles[1], ok = migrate(c.New); !ok {
			return
		}
		// the migrator only reads configuration files: the migrated configuration of the edited copy
		// must be the one of the original (this is what lets the other cases skip the second run)
		if fmt.Sprint(migrated) != fmt.Sprint(configFiles(afterFiles[1])) {
			r.Incomplete("migration harness: migrated configuration depends on .proto content for case " + c.Key)
			return
		}
		cov.add("second_migration_cross_checked", 1)
	} else {
		afterFiles[1] = map[string]string{}
		for p, text := range c.New {
			if strings.HasSuffix(p, ".proto") {
				if rootedAfter {
					p = c.Prefix + "/" + p
				}
				afterFiles[1][p] = text
			}
		}
		for p, text := range migrated {
			afterFiles[1][p] = text
		}
	}
	// ---- after
	for p := range afterFiles[0] {
		base := p[strings.LastIndex(p, "/")+1:]
		if base == "buf.work.yaml" || (base == "buf.yaml" && p != "buf.yaml") || (base == "buf.lock" && p != "buf.lock") {
			r.Violate("migrate/leftover/"+base, "a v1 configuration file is still present after migration: "+p, m{"kind": c.kind(), "case": c, "migrated": migrated})
		}
	}
	// every module directory is listed once: the migrator never writes includes, so two entries with one
	// path are two modules that build the same files (buf refuses to load such a workspace at all); named
	// here so that the defect is not reported as whatever error the loader happens to answer
	if text, ok := afterFiles[0]["buf.yaml"]; ok {
		if file, err := readBufYAML(text); err == nil {
			count := map[string]int{}
			for _, mc := range file.ModuleConfigs() {
				dir := mc.DirPath()
				if rootedAfter {
					dir = strings.TrimPrefix(dir, c.Prefix+"/")
				}
				count[dir]++
			}
			cov.add("module_list_checked", 1)
			for _, dir := range sortedCountKeys(count) {
				if count[dir] > 1 {
					role := "module"
					for _, d := range c.NoBufYAML {
						if d == dir {
							role = "module-without-buf.yaml"
						}
					}
					r.Violate("migrate/modules/directory-listed-twice/"+role, fmt.Sprintf("the migrated buf.yaml lists module directory %s %d times (migrator invoked with %s)", dir, count[dir], c.callString()), m{"kind": c.kind(), "case": c, "migrated": migrated})
					return
				}
			}
		}
	}
	// the dependency oracle reads the migrated files only; it runs before the migrated workspace is built so
	// that a wrong ref / pin is named as such even when it also breaks the build
	checkMigratedDeps(r, c, afterFiles[0], migrated, cov)
	var after [2]map[string][]*modView
	for k := range afterFiles {
		views, _, err := viewWorkspace(ctx, bufx.MemBucket(afterFiles[k]), deps)
		if err != nil {
			r.Violate("migrate/workspace-after/"+errClass(err.Error()), "the migrated workspace does not build: "+err.Error(), m{"kind": c.kind(), "case": c, "migrated": migrated})
			return
		}
		afterDirs := c.ModuleDirs
		if rootedAfter {
			afterDirs = nil
			for _, d := range c.ModuleDirs {
				afterDirs = append(afterDirs, underPrefix(c.Prefix, d))
			}
		}
		grouped, orphans := groupByOriginal(views, afterDirs)
		if rootedAfter {
			rekeyed := map[string][]*modView{}
			for i, d := range afterDirs {
				rekeyed[c.ModuleDirs[i]] = grouped[d]
			}
			grouped = rekeyed
		}
		if len(orphans) > 0 {
			r.Violate("migrate/modules/unexpected-module", fmt.Sprintf("modules outside the original module directories after migration: %v", orphans), m{"kind": c.kind(), "case": c, "migrated": migrated})
			return
		}
		after[k] = grouped
	}
	cov.add("migrated", 1)
	if c.Grammar == "" {
		r.Distinct("migrate|" + c.Key)
	} else {
		r.Distinct("migrate-" + c.Grammar + "|" + c.Key)
	}
	if c.Grammar == "" {
		countMigClauses(cov, c, afterFiles[0])
	} else {
		countDepWorldClauses(cov, c)
	}
	countCallClauses(cov, c)
	if c.Prefix != "" {
		cov.add("at/workspace_below_a_directory", 1)
		if rootedAfter {
			cov.add("at/migrated_buf_yaml_at_the_tree_root", 1)
		} else {
			cov.add("at/migrated_buf_yaml_inside_the_directory", 1)
		}
		if c.Vector["a.lint"] != 0 || c.Vector["a.breaking"] != 0 {
			cov.add("at/with_check_section_paths", 1)
		}
	}

	for di, dir := range c.ModuleDirs {
		// structural role of the module, used in signatures
		role := "v1-module"
		switch {
		case di == 0 && c.Vector["a.kind"] >= 1, di == 1 && c.Vector["b.ver"] == 1:
			role = "v1beta1-module"
		case di == 1 && c.Vector["layout"] == 4:
			role = "module-without-buf.yaml"
		}
		if di < len(c.Roles) {
			role = c.Roles[di]
		}
		// 1. same file set, each file in exactly one module
		bf, af := map[string]*descriptorpb.FileDescriptorProto{}, map[string]*descriptorpb.FileDescriptorProto{}
		for _, mv := range before[0][dir] {
			for p, d := range mv.files {
				bf[p] = d
			}
		}
		dup := ""
		for _, mv := range after[0][dir] {
			for p, d := range mv.files {
				if _, ok := af[p]; ok {
					dup = p
				}
				af[p] = d
			}
		}
		if len(after[0][dir]) > 1 {
			cov.add("module_split_into_several", 1)
		}
		if dup != "" {
			r.Violate("migrate/files/file-in-two-modules", "after migration file "+dup+" of module "+dir+" is built by two modules", m{"kind": c.kind(), "case": c, "migrated": migrated})
		}
		var missing, extra []string
		for p := range bf {
			if _, ok := af[p]; !ok {
				missing = append(missing, p)
			}
		}
		for p := range af {
			if _, ok := bf[p]; !ok {
				extra = append(extra, p)
			}
		}
		sort.Strings(missing)
		sort.Strings(extra)
		if len(missing)+len(extra) > 0 {
			kind := "missing"
			if len(missing) == 0 {
				kind = "extra"
			}
			r.Violate("migrate/files/"+kind, fmt.Sprintf("module %s: files built before but not after %v, after but not before %v", dir, missing, extra), m{"kind": c.kind(), "case": c, "migrated": migrated})
		}
		if len(bf) > 0 {
			cov.add("file_sets_compared", 1)
		}
		// 2. descriptors
		for p, d := range bf {
			if ad, ok := af[p]; ok {
				cov.add("descriptors_compared", 1)
				if !proto.Equal(d, ad) {
					r.Violate("migrate/descriptor/changed", "module "+dir+": descriptor of "+p+" differs after migration", m{"kind": c.kind(), "case": c, "migrated": migrated})
				}
			}
		}
		// 3. lint
		lb := lintBefore[dir]
		cov.add("lint_compared", 1)
		if len(lb.anns) > 0 {
			cov.add("lint_nonempty_before", 1)
		}
		reportCheckDiff(r, "lint", role, dir, lb, lintGroup(ctx, after[0][dir]), c, migrated,
			disabledFlip(before[0][dir], after[0][dir], func(mv *modView) bool { return mv.lintCfg.Disabled() }))
		// 4. breaking (edited copy against original)
		bb := breakingBefore[dir]
		cov.add("breaking_compared", 1)
		if len(bb.anns) > 0 {
			cov.add("breaking_nonempty_before", 1)
		}
		reportCheckDiff(r, "breaking", role, dir, bb, breakingGroup(ctx, after[1][dir], after[0][dir]), c, migrated,
			disabledFlip(before[1][dir], after[1][dir], func(mv *modView) bool { return mv.brkCfg.Disabled() }))
		for _, mv := range before[0][dir] {
			if mv.lintCfg.Disabled() {
				cov.add("lint_disabled_before", 1)
			}
			if mv.brkCfg.Disabled() {
				cov.add("breaking_disabled_before", 1)
			}
		}
	}
}

// reportCheckDiff compares the results of a check before and after migration.
func reportCheckDiff(r sink, kind, role, dir string, before, after checkResult, c MigCase, migrated map[string]string, disabledBecameEnabled bool) {
	if disabledBecameEnabled {
		// the structural cause is known: name the defect, not the annotations it happens to produce
		if before.String() != after.String() {
			r.Violate("migrate/"+kind+"/switched-off-check-enabled-by-migration",
				fmt.Sprintf("module %s: %s was switched off for the module (ignore names the module itself, Disabled()==true) and is enabled after migration; results before %q after %q", dir, kind, clip(before.String()), clip(after.String())),
				m{"kind": c.kind(), "case": c, "migrated": migrated, "before": before.String(), "after": after.String()})
		}
		return
	}
	if after.err != "" {
		r.Violate("migrate/"+kind+"/error-after/"+errClass(after.err),
			fmt.Sprintf("module %s: %s worked before migration (%d annotations) and fails after it: %s", dir, kind, len(before.anns), after.err),
			m{"kind": c.kind(), "case": c, "migrated": migrated, "before": before.String()})
		return
	}
	var lost, gained []string
	for k := range before.anns {
		if !after.anns[k] {
			lost = append(lost, k)
		}
	}
	for k := range after.anns {
		if !before.anns[k] {
			gained = append(gained, k)
		}
	}
	if len(lost)+len(gained) == 0 {
		return
	}
	sort.Strings(lost)
	sort.Strings(gained)
	// signature: direction + the rule ids involved (stable, small set)
	ids := map[string]bool{}
	for _, k := range append(append([]string{}, lost...), gained...) {
		parts := strings.SplitN(k, " ", 3)
		if len(parts) >= 2 {
			ids[parts[1]] = true
		}
	}
	dirn := "lost"
	if len(lost) == 0 {
		dirn = "gained"
	} else if len(gained) > 0 {
		dirn = "lost+gained"
	}
	idList := make([]string, 0, len(ids))
	for id := range ids {
		idList = append(idList, id)
	}
	sort.Strings(idList)
	if len(idList) > 4 {
		idList = append(idList[:4], "...")
	}
	r.Violate(fmt.Sprintf("migrate/%s/%s/annotations-%s/%s", kind, role, dirn, strings.Join(idList, "+")),
		fmt.Sprintf("module %s: %s results differ after migration: lost %v gained %v", dir, kind, lost, gained),
		m{"kind": c.kind(), "case": c, "migrated": migrated, "before": before.String(), "after": after.String()})
}

// disabledFlip reports whether some module's check config was Disabled() before migration while
// no module of the group is disabled afterwards.
func disabledFlip(before, after []*modView, disabled func(*modView) bool) bool {
	was := false
	for _, mv := range before {
		if disabled(mv) {
			was = true
		}
	}
	if !was {
		return false
	}
	for _, mv := range after {
		if disabled(mv) {
			return false
		}
	}
	return true
}

func clip(s string) string {
	if len(s) > 300 {
		return s[:300] + "..."
	}
	return s
}

// v1beta1OnlyIDs are the lint rule and category names that exist only in the v1beta1 rule set
// (reference data from buf's rule documentation; v1 and v2 do not know them).
var v1beta1OnlyIDs = map[string]bool{
	"FIELD_NO_DESCRIPTOR": true, "FILE_LAYOUT": true, "PACKAGE_AFFINITY": true, "SENSIBLE": true,
	"STYLE_BASIC": true, "STYLE_DEFAULT": true, "OTHER": true,
}

// errClass maps an error of the migrator / check client to a stable class.
func errClass(s string) string {
	if strings.Contains(s, "is not a known rule or category ID") {
		id := ""
		if i := strings.Index(s, "\""); i >= 0 {
			if j := strings.Index(s[i+1:], "\""); j >= 0 {
				id = s[i+1 : i+1+j]
			}
		}
		if v1beta1OnlyIDs[id] {
			return "v1beta1-only-id-carried-into-v2"
		}
		return "unknown-rule-id/" + id
	}
	if strings.Contains(s, ": unknown type ") {
		// a type of an imported file is gone (module dir, file, position and type name are the case's)
		return "unknown-type-of-an-import"
	}
	return shorten(s)
}

type panicError struct{ msg string }

func (p panicError) Error() string { return "panic: " + p.msg }

// panicClass removes numbers and addresses from a panic message.
func panicClass(s string) string {
	var b strings.Builder
	for _, r := range s {
		if r >= '0' && r <= '9' {
			continue
		}
		b.WriteRune(r)
	}
	out := strings.Join(strings.Fields(b.String()), " ")
	if len(out) > 80 {
		out = out[:80]
	}
	return out
}

func sortedCountKeys(count map[string]int) []string {
	keys := make([]string, 0, len(count))
	for k := range count {
		keys = append(keys, k)
	}
	sort.Strings(keys)
	return keys
}

func (c MigCase) callString() string {
	if c.Call == nil {
		return "MigrateAll"
	}
	return fmt.Sprintf("workspaces %v modules %v", c.Call.Workspaces, c.Call.Modules)
}

// countCallClauses measures which add sequences of the invocation dimension a migrated case exercised.
func countCallClauses(cov *counter, c MigCase) {
	if c.Call == nil {
		cov.add("call/discovery_MigrateAll", 1)
		return
	}
	cov.add("call/explicit", 1)
	hasWork := len(c.Call.Workspaces) > 0
	if hasWork && len(c.Call.Modules) == 0 {
		cov.add("call/workspace_alone", 1)
	}
	if !hasWork {
		cov.add("call/module_directories_alone", 1)
		if len(c.Call.Modules) > 1 && c.Call.Modules[0] != c.ModuleDirs[0] {
			cov.add("call/module_directories_alone_reordered", 1)
		}
	}
	if len(c.Call.Workspaces) > 1 {
		cov.add("call/workspace_named_twice", 1)
	}
	seen := map[string]int{}
	odd := false
	for _, d := range c.Call.Modules {
		if strings.HasPrefix(d, "./") {
			odd = true
			d = strings.TrimSuffix(strings.TrimPrefix(d, "./"), "/")
			if d == "" {
				d = "."
			}
		}
		seen[d]++
	}
	if odd {
		cov.add("call/unnormalised_spelling", 1)
	}
	for _, d := range sortedCountKeys(seen) {
		reached := seen[d]
		if hasWork {
			reached++ // every generated module directory is listed by the buf.work.yaml
		}
		if reached < 2 {
			continue
		}
		cov.add("call/directory_reached_twice", 1)
		if reached > 2 {
			cov.add("call/directory_reached_three_times", 1)
		}
		for _, nb := range c.NoBufYAML {
			if nb == d {
				cov.add("call/directory_without_buf_yaml_reached_twice", 1)
			}
		}
		if c.Names[d] != "" {
			cov.add("call/named_module_reached_twice", 1)
		}
		for _, p := range c.Pins {
			if p.Dir == d {
				cov.add("call/module_with_buf_lock_reached_twice", 1)
				break
			}
		}
	}
}

func configFiles(files map[string]string) map[string]string {
	out := map[string]string{}
	for p, c := range files {
		if !strings.HasSuffix(p, ".proto") {
			out[p] = c
		}
	}
	return out
}

func countMigClauses(cov *counter, c MigCase, after map[string]string) {
	v := c.Vector
	hasB := v["layout"] == 0 || v["layout"] >= 3
	if v["a.kind"] >= 1 || v["b.ver"] == 1 {
		cov.add("v1beta1_module", 1)
	}
	if v["a.kind"] == 0 {
		cov.add("v1_module", 1)
	}
	if v["a.kind"] == 3 {
		cov.add("v1beta1_multiple_roots", 1)
	}
	if v["a.excludes"] == 1 || v["b.excludes"] == 1 {
		cov.add("excludes", 1)
	}
	if hasB {
		cov.add("two_modules", 1)
	}
	if v["layout"] == 1 {
		cov.add("single_module_no_workspace_file", 1)
	}
	if v["layout"] == 4 {
		cov.add("module_without_buf_yaml", 1)
	}
	if v["import"] == 1 {
		cov.add("inter_module_import", 1)
	}
	if v["b.deps"] == 1 && v["a.deps"] == 1 {
		cov.add("two_locks_merged", 1)
	}
	if v["b.deps"] == 2 {
		cov.add("dep_on_workspace_module", 1)
	}
	if v["a.deps"] == 1 || v["b.deps"] == 1 {
		cov.add("remote_dep_with_lock", 1)
		for p, text := range after {
			if strings.HasSuffix(p, "buf.lock") && strings.Contains(text, "digest: b5:") {
				cov.add("lock_upgraded_to_b5", 1)
			}
		}
	}
	if hasB && (v["a.lint"] != 0 || v["b.lint"] != 0 || v["a.breaking"] != 0 || v["b.breaking"] != 0) {
		cov.add("per_module_configs_differ", 1)
	}
}
