package c16

import (
	"encoding/json"
	"os"
	"path/filepath"
	"testing"

	"github.com/bufbuild/bufverif/internal/evid"
)

// TestReplayFiles re-judges every replay file of C16 that exists (skips when there are none).
func TestReplayFiles(t *testing.T) {
	files, _ := filepath.Glob(filepath.Join(evid.Root(), "replays", "C16", "*.json"))
	if len(files) == 0 {
		t.Skip("no replay files")
	}
	for _, f := range files {
		b, err := os.ReadFile(f)
		if err != nil {
			t.Fatal(err)
		}
		var rf struct {
			Signature string          `json:"signature"`
			Case      json.RawMessage `json:"case"`
		}
		if err := json.Unmarshal(b, &rf); err != nil {
			t.Fatal(err)
		}
		what, violated := replay(rf.Case)
		t.Logf("%s\n   recorded %s\n   replay violated=%v: %.300s", filepath.Base(f), rf.Signature, violated, what)
	}
}
