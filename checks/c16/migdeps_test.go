package c16

import (
	"encoding/json"
	"sort"
	"strings"
	"testing"

	"github.com/bufbuild/buf/private/bufpkg/bufmodule"
)

// TestDepWorldReplay: a dependency-merge world is rebuilt from its feature vector and judged clean
// on the unchanged tree (the replay path of kind "migration-deps").
func TestDepWorldReplay(t *testing.T) {
	raw, _ := json.Marshal(m{"kind": "migration-deps", "case": m{"features": m{"d.a": 1, "d.b": 1, "d.extra": 2}}})
	what, violated := replay(raw)
	if violated || what != "no oracle fails" {
		t.Fatalf("violated=%v: %s", violated, what)
	}
}

// TestDepsOracleSelfTest feeds the dependency oracle hand-made migration results: the faithful one
// is accepted, and each kind of loss is reported under its own signature.
func TestDepsOracleSelfTest(t *testing.T) {
	deps, err := newDepWorldDeps()
	if err != nil {
		t.Fatal(err)
	}
	dims := depDims()
	ix := indexDims(dims)
	v := make([]int, len(dims))
	v[ix["d.a"]], v[ix["d.b"]], v[ix["d.layout"]], v[ix["d.extra"]] = 1, 2, 1, 1 // a: shared + extra unpinned, b: shared:r1
	c, ok := buildDepWorld(dims, ix, v, deps)
	if !ok {
		t.Fatal("vector outside the grammar")
	}
	// a's lock pins the head of shared (commit 3, with commit 2 of base), b's lock the commit of :r1
	// (commit 1, with commit 1 of base): the faithful result keeps shared:r1 at its commit and the
	// newest base.
	level := map[string]int{baseName: 2, extraName: 1, sharedName: 1}
	lockAt := func(levels map[string]int, names ...string) string {
		var b strings.Builder
		b.WriteString("version: v2\ndeps:\n")
		for _, n := range names {
			rc := deps.reg.at(n, levels[n])
			mod, _, ok := deps.reg.module(rc.Commit)
			if !ok {
				t.Fatal("no module for " + n)
			}
			d, err := mod.Digest(bufmodule.DigestTypeB5)
			if err != nil {
				t.Fatal(err)
			}
			b.WriteString("  - name: " + n + "\n    commit: " + rc.dashless() + "\n    digest: " + d.String() + "\n")
		}
		return b.String()
	}
	lock := func(names ...string) string { return lockAt(level, names...) }
	yaml := func(depLines ...string) string {
		s := "version: v2\nmodules:\n  - path: a\n  - path: b\n"
		if len(depLines) > 0 {
			s += "deps:\n"
			for _, d := range depLines {
				s += "  - " + d + "\n"
			}
		}
		return s
	}
	fullLock := lock(baseName, extraName, sharedName)
	for _, tc := range []struct {
		name string
		yaml string
		lock string
		want []string
	}{
		{"faithful", yaml(extraName, sharedName+":r1"), fullLock, nil},
		{"dep dropped", yaml(sharedName + ":r1"), fullLock, []string{"migrate/deps/dropped/declared-unpinned"}},
		{"pinned dep dropped", yaml(extraName), fullLock, []string{"migrate/deps/dropped/declared-pinned-and-unpinned"}},
		{"ref dropped", yaml(extraName, sharedName), fullLock, []string{"migrate/deps/ref-dropped/declared-pinned-and-unpinned"}},
		{"ref invented", yaml(extraName, sharedName+":zz"), fullLock, []string{"migrate/deps/ref-invented"}},
		{"dep added", yaml(extraName, sharedName+":r1", baseName), fullLock, []string{"migrate/deps/added"}},
		{"indirect pin dropped", yaml(extraName, sharedName+":r1"), lock(extraName, sharedName), []string{"migrate/lock/pin-dropped/indirect-dependency"}},
		{"declared pin dropped", yaml(extraName, sharedName+":r1"), lock(baseName, sharedName), []string{"migrate/lock/pin-dropped/declared-dependency"}},
		{"lock missing", yaml(extraName, sharedName+":r1"), "", []string{"migrate/lock/missing"}},
		{"older indirect pin kept", yaml(extraName, sharedName+":r1"), lockAt(map[string]int{baseName: 1, extraName: 1, sharedName: 1}, baseName, extraName, sharedName), []string{"migrate/lock/commit-not-latest/indirect-dependency"}},
		{"pin neither locked nor of the ref", yaml(extraName, sharedName+":r1"), lockAt(map[string]int{baseName: 2, extraName: 1, sharedName: 2}, baseName, extraName, sharedName), []string{"migrate/lock/commit-changed"}},
	} {
		after := map[string]string{"buf.yaml": tc.yaml}
		if tc.lock != "" {
			after["buf.lock"] = tc.lock
		}
		col := &collector{}
		checkMigratedDeps(col, c, after, after, newCounter())
		if len(col.incomplete) > 0 {
			t.Fatalf("%s: harness problem %v", tc.name, col.incomplete)
		}
		var got []string
		for sig := range col.violations {
			got = append(got, sig)
		}
		sort.Strings(got)
		if strings.Join(got, ",") != strings.Join(tc.want, ",") {
			t.Errorf("%s: got %v want %v", tc.name, got, tc.want)
		}
	}
}

// TestNewestWinsSelfTest: two labels on different commits, and unpinned declarations whose locks
// disagree: only the newest ref / commit is accepted by the dependency oracle.
func TestNewestWinsSelfTest(t *testing.T) {
	deps, err := newDepWorldDeps()
	if err != nil {
		t.Fatal(err)
	}
	dims := depDims()
	ix := indexDims(dims)
	b5 := func(name string, level int) string {
		rc := deps.reg.at(name, level)
		mod, _, _ := deps.reg.module(rc.Commit)
		d, err := mod.Digest(bufmodule.DigestTypeB5)
		if err != nil {
			t.Fatal(err)
		}
		return "  - name: " + name + "\n    commit: " + rc.dashless() + "\n    digest: " + d.String() + "\n"
	}
	for _, tc := range []struct {
		name        string
		a, b, pins  int
		dep         string
		base, share int
		want        string
	}{
		{"labels, newest kept", 2, 3, 0, sharedName + ":r2", 1, 2, ""},
		{"labels, oldest kept", 2, 3, 0, sharedName + ":r1", 1, 1, "migrate/deps/ref-not-latest"},
		{"locks disagree, newest kept", 1, 1, 1, sharedName, 2, 3, ""},
		{"locks disagree, oldest kept", 1, 1, 1, sharedName, 1, 2, "migrate/lock/commit-not-latest/declared-dependency,migrate/lock/commit-not-latest/indirect-dependency"},
		{"locks disagree on the declared dependency only, oldest kept", 1, 1, 3, sharedName, 1, 1, "migrate/lock/commit-not-latest/declared-dependency"},
	} {
		v := make([]int, len(dims))
		v[ix["d.a"]], v[ix["d.b"]], v[ix["d.layout"]], v[ix["d.pins"]] = tc.a, tc.b, 1, tc.pins
		c, ok := buildDepWorld(dims, ix, v, deps)
		if !ok {
			t.Fatalf("%s: vector outside the grammar", tc.name)
		}
		after := map[string]string{
			"buf.yaml": "version: v2\nmodules:\n  - path: a\n  - path: b\ndeps:\n  - " + tc.dep + "\n",
			"buf.lock": "version: v2\ndeps:\n" + b5(baseName, tc.base) + b5(sharedName, tc.share),
		}
		col := &collector{}
		checkMigratedDeps(col, c, after, after, newCounter())
		if len(col.incomplete) > 0 {
			t.Fatalf("%s: harness problem %v", tc.name, col.incomplete)
		}
		var got []string
		for sig := range col.violations {
			got = append(got, sig)
		}
		sort.Strings(got)
		if strings.Join(got, ",") != tc.want {
			t.Errorf("%s: got %v want %q", tc.name, got, tc.want)
		}
	}
}
