package c16

import (
	"encoding/json"
	"sort"
	"strings"
	"testing"

	"github.com/bufbuild/buf/private/bufpkg/bufmodule"
)

// TestDepWorldReplay: a dependency-merge world is rebuilt from its feature vector and judged clean
// on the unchanged tree (the replay path of kind "migration-deps").
func TestDepWorldReplay(t *testing.T) {
	raw, _ := json.Marshal(m{"kind": "migration-deps", "case": m{"features": m{"d.a": 1, "d.b": 1, "d.extra": 2}}})
	what, violated := replay(raw)
	if violated || what != "no oracle fails" {
		t.Fatalf("violated=%v: %s", violated, what)
	}
}

// TestDepsOracleSelfTest feeds the dependency oracle hand-made migration results: the faithful one
// is accepted, and each kind of loss is reported under its own signature.
func TestDepsOracleSelfTest(t *testing.T) {
	deps, err := newDepWorldDeps()
	if err != nil {
		t.Fatal(err)
	}
	dims := depDims()
	ix := indexDims(dims)
	v := make([]int, len(dims))
	v[ix["d.a"]], v[ix["d.b"]], v[ix["d.layout"]], v[ix["d.extra"]] = 1, 2, 1, 1 // a: shared + extra unpinned, b: shared:r1
	c, ok := buildDepWorld(dims, ix, v, deps)
	if !ok {
		t.Fatal("vector outside the grammar")
	}
	commit := func(name string) string { return strings.ReplaceAll(deps.mods[name].commit.String(), "-", "") }
	lock := func(names ...string) string {
		var b strings.Builder
		b.WriteString("version: v2\ndeps:\n")
		for _, n := range names {
			mod := deps.omni.GetModuleForCommitID(deps.mods[n].commit)
			d, err := mod.Digest(bufmodule.DigestTypeB5)
			if err != nil {
				t.Fatal(err)
			}
			b.WriteString("  - name: " + n + "\n    commit: " + commit(n) + "\n    digest: " + d.String() + "\n")
		}
		return b.String()
	}
	yaml := func(depLines ...string) string {
		s := "version: v2\nmodules:\n  - path: a\n  - path: b\n"
		if len(depLines) > 0 {
			s += "deps:\n"
			for _, d := range depLines {
				s += "  - " + d + "\n"
			}
		}
		return s
	}
	fullLock := lock(baseName, extraName, sharedName)
	for _, tc := range []struct {
		name string
		yaml string
		lock string
		want []string
	}{
		{"faithful", yaml(extraName, sharedName+":r1"), fullLock, nil},
		{"dep dropped", yaml(sharedName + ":r1"), fullLock, []string{"migrate/deps/dropped/declared-unpinned"}},
		{"pinned dep dropped", yaml(extraName), fullLock, []string{"migrate/deps/dropped/declared-pinned-and-unpinned"}},
		{"ref dropped", yaml(extraName, sharedName), fullLock, []string{"migrate/deps/ref-dropped/declared-pinned-and-unpinned"}},
		{"ref invented", yaml(extraName, sharedName+":zz"), fullLock, []string{"migrate/deps/ref-invented"}},
		{"dep added", yaml(extraName, sharedName+":r1", baseName), fullLock, []string{"migrate/deps/added"}},
		{"indirect pin dropped", yaml(extraName, sharedName+":r1"), lock(extraName, sharedName), []string{"migrate/lock/pin-dropped/indirect-dependency"}},
		{"declared pin dropped", yaml(extraName, sharedName+":r1"), lock(baseName, sharedName), []string{"migrate/lock/pin-dropped/declared-dependency"}},
		{"lock missing", yaml(extraName, sharedName+":r1"), "", []string{"migrate/lock/missing"}},
	} {
		after := map[string]string{"buf.yaml": tc.yaml}
		if tc.lock != "" {
			after["buf.lock"] = tc.lock
		}
		col := &collector{}
		checkMigratedDeps(col, c, after, after, newCounter())
		if len(col.incomplete) > 0 {
			t.Fatalf("%s: harness problem %v", tc.name, col.incomplete)
		}
		var got []string
		for sig := range col.violations {
			got = append(got, sig)
		}
		sort.Strings(got)
		if strings.Join(got, ",") != strings.Join(tc.want, ",") {
			t.Errorf("%s: got %v want %v", tc.name, got, tc.want)
		}
	}
}
