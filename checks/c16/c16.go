// Package c16 is the check for property C16 (see DESIGN.md section 3).
package c16
