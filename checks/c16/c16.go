// Package c16 is the check for property C16: configuration files round-trip, writing is
// idempotent, and migration of v1/v1beta1 workspaces to v2 preserves files, descriptors and
// lint / breaking results per module.
//
// Bounded exhaustive exploration (engine B): every document of an explicit grammar (frame x
// all feature vectors with at most t non-zero dimensions, t = 2 quick / 3 thorough) is pushed
// through the real readers and writers; every generated v1/v1beta1 workspace is migrated with the
// real migrator and built / linted / breaking-checked before and after.
package c16

import (
	"fmt"
	"os"
	"sort"
	"strings"
	"sync"
	"time"

	"github.com/bufbuild/bufverif/internal/evid"
)

func init() {
	evid.Register(&evid.Check{ID: "C16", Level: "exploration", Run: run, QuickBudget: 420 * time.Second, ThoroughBudget: 30 * time.Minute})
}

// counter is a concurrency-safe string -> count map for coverage facts.
type counter struct {
	mu sync.Mutex
	m  map[string]int
}

func newCounter() *counter { return &counter{m: map[string]int{}} }

func (c *counter) add(k string, n int) {
	c.mu.Lock()
	c.m[k] += n
	c.mu.Unlock()
}

func (c *counter) get(k string) int {
	c.mu.Lock()
	defer c.mu.Unlock()
	return c.m[k]
}

func (c *counter) snapshot() map[string]int {
	c.mu.Lock()
	defer c.mu.Unlock()
	out := make(map[string]int, len(c.m))
	for k, v := range c.m {
		out[k] = v
	}
	return out
}

// top returns the n most frequent keys as "count x key".
func (c *counter) top(n int) []string {
	s := c.snapshot()
	keys := make([]string, 0, len(s))
	for k := range s {
		keys = append(keys, k)
	}
	sort.Slice(keys, func(i, j int) bool {
		if s[keys[i]] != s[keys[j]] {
			return s[keys[i]] > s[keys[j]]
		}
		return keys[i] < keys[j]
	})
	if len(keys) > n {
		keys = keys[:n]
	}
	out := make([]string, len(keys))
	for i, k := range keys {
		out[i] = fmt.Sprintf("%d x %s", s[k], k)
	}
	return out
}

func run(r *evid.Run) {
	t := 2
	if !r.Quick() {
		t = 3
	}
	r.Rule(fmt.Sprintf("documents: for each file type and each frame (version x layout) every feature vector with at most %d non-zero dimensions, every non-zero dimension at every value (%d-way exhaustive, not the full product); "+
		"a document is a distinct non-trivial case iff its text is new, the reader accepts it and its accessor dump differs from the dump of the frame's empty document (the features had an effect). "+
		"migration: workspaces of the workspace grammar (layout x module kinds x roots x excludes x names x lint/breaking sections x deps): every single dimension at every value, all pairs of interacting dimensions (thorough: all pairs and all interacting triples); a workspace is distinct iff its feature key is new, it builds/lints/breaking-checks before migration and the migrator accepted it. "+
		"migration, dependency-merge worlds: the declarations of one shared remote dependency (none / unpinned / :r1 / :r2) by two modules as a full product and by three declaring modules as multisets, with and without a buf.work.yaml, x which modules carry a buf.lock, file versions, a second dependency / a dependency on a workspace module (quick: one at a time; thorough: full product, plus the full 4x4x4 product of declarations by three modules); on the vectors with two or three unpinned declarers additionally which commit of the dependency's history each lock pins (all at the head / first older / second older / both stale / three different) and the form of the v1 lock files (shake256, commit-only, retired digest types x version key v1, v1beta1, none). "+
		"buf.lock documents: the full product of the lock grammar; a document that is valid by the documented format must be accepted (reference model of validity).", t, t))
	r.Set("t_way", t)
	r.Assume("migration, dependencies: every commit of a registry module is a backward compatible superset of the commit before it (what the registry's breaking check enforces), commits of one module have distinct create times, and a lock of a module that declares a label pins the commit the label resolves to at migration time; where the modules of a workspace disagree on the ref or on the locked commit of a dependency, the newest by create time must survive (what a v1 buf.work.yaml workspace already builds against)")
	r.Assume("buf.lock validity is judged by a reference model written from the documented format (digest types per version, backfill of missing / retired digests through the digest resolver); documents with neither a version nor deps are outside the model")
	r.Assume("the dimension grammar is t-way exhaustive (t=2 quick, t=3 thorough), not the full product of all features")
	r.Assume("'the same configuration' is judged on the public accessors of the parsed objects (deep accessor dump); for v2 buf.yaml the TopLevelLintConfig/TopLevelBreakingConfig accessors are informational because hoisting identical per-module sections is the writer's documented freedom; the per-module effective configs are compared strictly")

	// VERIF_C16_PHASES (development aid): comma separated subset of yaml,lock,work,gen,migdeps,migrate
	phases := map[string]bool{}
	for _, p := range strings.Split(os.Getenv("VERIF_C16_PHASES"), ",") {
		if p != "" {
			phases[p] = true
		}
	}
	on := func(p string) bool { return len(phases) == 0 || phases[p] }
	if len(phases) > 0 {
		r.Incomplete("only phases " + os.Getenv("VERIF_C16_PHASES") + " were run (VERIF_C16_PHASES)")
	}
	if on("yaml") {
		runBufYAML(r, t)
	}
	if on("lock") && !r.Expired() {
		runBufLock(r, t)
	}
	if on("work") && !r.Expired() {
		runBufWork(r)
	}
	if on("gen") && !r.Expired() {
		runBufGen(r, t)
	}
	if on("migdeps") && !r.Expired() {
		runMigrationDeps(r)
	}
	if on("migrate") && !r.Expired() {
		runMigration(r)
	}
}

// ---------------------------------------------------------------------------------------------
// buf.yaml
// ---------------------------------------------------------------------------------------------

func runBufYAML(r *evid.Run, t int) {
	type job struct {
		frame YFrame
		dims  []Dim
		ix    dimIndex
		vecs  [][]int
		base  string // dump JSON of the frame's empty document
	}
	var jobs []job
	total := 0
	dimCount := map[string]int{}
	for _, f := range yFrames {
		dims := yDims(f)
		j := job{frame: f, dims: dims, ix: indexDims(dims), vecs: TWayAll(dims, t)}
		base := renderBufYAML(f, dims, j.ix, make([]int, len(dims)))
		bf, err := readBufYAML(base.Text)
		if err != nil {
			r.Incomplete(fmt.Sprintf("buf.yaml frame %s: the empty document is rejected: %v", f.Name, err))
			continue
		}
		j.base = treeJSON(DumpBufYAML(bf))
		jobs = append(jobs, j)
		total += len(j.vecs)
		dimCount[f.Name] = len(dims)
	}
	r.Set("bufyaml_frames", len(jobs))
	r.Set("bufyaml_dimensions_per_frame", dimCount)
	r.Set("bufyaml_documents_generated", total)

	cov := newCounter()     // clause coverage
	rejects := newCounter() // reject reasons
	effect := newCounter()  // per "frame-independent dim=value": documents where the dump differed from base
	seenDim := newCounter() // per dim=value: accepted documents containing it
	var seenText sync.Map

	// flatten the work list
	type item struct{ j, k int }
	items := make([]item, 0, total)
	for ji, j := range jobs {
		for k := range j.vecs {
			items = append(items, item{ji, k})
		}
	}
	r.ParallelFor(len(items), 0, func(i int) {
		j := jobs[items[i].j]
		v := j.vecs[items[i].k]
		doc := renderBufYAML(j.frame, j.dims, j.ix, v)
		if _, dup := seenText.LoadOrStore(doc.Text, true); dup {
			cov.add("duplicate_text", 1)
			return
		}
		r.Eval(1)
		res := roundTripBufYAML(doc.Text)
		if !res.accepted {
			cov.add("rejected_by_reader", 1)
			rejects.add(shorten(res.rejectWhy), 1)
			return
		}
		cov.add("accepted", 1)
		cov.add("accepted/"+j.frame.Version, 1)
		dumpJSON := treeJSON(res.dump1)
		changed := dumpJSON != j.base
		for name, val := range doc.Vector {
			key := fmt.Sprintf("%s=%d", name, val)
			seenDim.add(key, 1)
			if len(doc.Vector) == 1 && changed {
				effect.add(key, 1)
			}
		}
		if changed {
			r.Distinct("bufyaml|" + doc.Text)
		}
		countBufYAMLClauses(cov, res)
		r.SampleEvery(i, 4001, func() any { return m{"kind": "buf.yaml", "doc": doc, "written": res.written1} })
		reportRoundTrip(r, "buf.yaml", res, doc)
	})

	snap := cov.snapshot()
	r.Set("bufyaml_coverage", snap)
	r.Set("bufyaml_reject_reasons_top", rejects.top(12))
	// non-vacuity of clauses
	for _, clause := range []string{
		"accepted/v1beta1", "accepted/v1", "accepted/v2", "multi_module", "overlapping_module_paths", "same_dir_twice",
		"has_includes", "has_excludes", "includes_on_single_root_module", "lint_disabled_module", "breaking_disabled_module",
		"per_module_lint_differs", "written_hoisted_to_top_level", "written_per_module_sections", "has_deps", "has_plugins",
		"deprecated_ids", "ignore_only_paths", "v1beta1_multiple_roots", "docs_link_preserved",
	} {
		if snap[clause] == 0 {
			r.Incomplete("buf.yaml clause never exercised: " + clause)
		}
	}
	// every single-dimension value must be accepted somewhere and have an observable effect
	var dead []string
	for _, j := range jobs {
		for _, d := range j.dims {
			if d.Name == "syntax" {
				continue
			}
			for val := 1; val < d.N; val++ {
				key := fmt.Sprintf("%s=%d", d.Name, val)
				if seenDim.get(key) == 0 {
					dead = append(dead, key+" (never accepted)")
				} else if effect.get(key) == 0 && !noEffectExpected[key] {
					dead = append(dead, key+" (no effect on the dump)")
				}
			}
		}
	}
	dead = uniqueSorted(dead)
	if len(dead) > 0 {
		r.Incomplete("buf.yaml feature values without coverage: " + strings.Join(dead, ", "))
	}
}

// noEffectExpected lists feature values that are accepted but by design do not change the parsed
// configuration when they are the only feature (they matter in combination).
var noEffectExpected = map[string]bool{
	"l.ignore_only=3": true, // an empty path list is dropped by the reader
	"b.ignore_only=3": true,
	"l.ignore=4":      true, // a top-level ignore path outside every module is skipped
	"b.ignore=4":      true,
	"l.place=1":       true, "l.place=2": true, "l.place=3": false, "l.place=4": true, // placement of an empty block
	"b.place=1": true, "b.place=2": true, "b.place=4": true,
	"roots=3": true, // roots: ["."] is the default
}

func uniqueSorted(in []string) []string {
	sort.Strings(in)
	var out []string
	for i, s := range in {
		if i == 0 || s != in[i-1] {
			out = append(out, s)
		}
	}
	return out
}

func shorten(s string) string {
	s = strings.ReplaceAll(s, "\n", " ")
	if i := strings.Index(s, "decode buf.yaml: "); i >= 0 {
		s = s[i+len("decode buf.yaml: "):]
	}
	// strip quoted user data so that reasons group
	var b strings.Builder
	inq := false
	for _, r := range s {
		if r == '"' {
			inq = !inq
			b.WriteRune('"')
			continue
		}
		if !inq {
			b.WriteRune(r)
		}
	}
	s = b.String()
	if len(s) > 110 {
		s = s[:110]
	}
	return s
}

// countBufYAMLClauses measures which clauses of the property an accepted document exercised.
func countBufYAMLClauses(cov *counter, res rtResult) {
	d := res.dump1
	mods, _ := d["modules"].([]any)
	if len(mods) > 1 {
		cov.add("multi_module", 1)
	}
	dirs := map[string]int{}
	var lintDumps []string
	for _, mm := range mods {
		mod := mm.(tree)
		dir := mod["dir"].(string)
		dirs[dir]++
		inc := mod["includes"].(tree)
		exc := mod["excludes"].(tree)
		nInc, nExc := 0, 0
		for _, l := range inc {
			nInc += len(l.([]any))
		}
		for _, l := range exc {
			nExc += len(l.([]any))
		}
		if nInc > 0 {
			cov.add("has_includes", 1)
			if dir == "." && len(mods) == 1 && nExc == 0 {
				cov.add("includes_on_single_root_module", 1)
			}
		}
		if nExc > 0 {
			cov.add("has_excludes", 1)
		}
		if len(inc) > 1 {
			cov.add("v1beta1_multiple_roots", 1)
		}
		lint := mod["lint"].(tree)
		brk := mod["breaking"].(tree)
		if lint["disabled"].(bool) {
			cov.add("lint_disabled_module", 1)
		}
		if brk["disabled"].(bool) {
			cov.add("breaking_disabled_module", 1)
		}
		if len(lint["ignore_only"].(tree)) > 0 || len(brk["ignore_only"].(tree)) > 0 {
			cov.add("ignore_only_paths", 1)
		}
		if len(lint["ignore"].([]any)) > 0 || len(brk["ignore"].([]any)) > 0 {
			cov.add("ignore_paths", 1)
		}
		for _, id := range append(append([]any{}, lint["use"].([]any)...), append(lint["except"].([]any), append(brk["use"].([]any), brk["except"].([]any)...)...)...) {
			switch id.(string) {
			case "DEFAULT", "IMPORT_NO_WEAK", "FIELD_SAME_LABEL", "FIELD_SAME_CTYPE", "FILE_SAME_PHP_GENERIC_SERVICES":
				cov.add("deprecated_ids", 1)
			}
		}
		if lint["enum_zero_value_suffix"] != "" || lint["service_suffix"] != "" || lint["rpc_allow_same_request_response"].(bool) ||
			lint["rpc_allow_google_protobuf_empty_requests"].(bool) || lint["rpc_allow_google_protobuf_empty_responses"].(bool) {
			cov.add("lint_options", 1)
		}
		if brk["ignore_unstable_packages"].(bool) {
			cov.add("breaking_ignore_unstable_packages", 1)
		}
		lintDumps = append(lintDumps, treeJSON(lint))
	}
	for i := 1; i < len(lintDumps); i++ {
		if lintDumps[i] != lintDumps[0] {
			cov.add("per_module_lint_differs", 1)
			break
		}
	}
	for dir, n := range dirs {
		if n > 1 {
			cov.add("same_dir_twice", 1)
		}
		for other := range dirs {
			if other != dir && (dir == "." || strings.HasPrefix(other, dir+"/")) {
				cov.add("overlapping_module_paths", 1)
			}
		}
	}
	if len(d["deps"].([]any)) > 0 {
		cov.add("has_deps", 1)
	}
	if len(d["plugins"].([]any)) > 0 {
		cov.add("has_plugins", 1)
	}
	if d["include_docs_link"].(bool) && strings.HasPrefix(res.written1, "# For details on buf.yaml configuration") {
		cov.add("docs_link_preserved", 1)
	}
	if d["file_version"] == "v2" && res.written1 != "" {
		topLevel := strings.Contains(res.written1, "\nlint:") || strings.Contains(res.written1, "\nbreaking:")
		perModule := strings.Contains(res.written1, "\n    lint:") || strings.Contains(res.written1, "\n    breaking:")
		if topLevel && len(mods) > 1 {
			cov.add("written_hoisted_to_top_level", 1)
		}
		if perModule {
			cov.add("written_per_module_sections", 1)
		}
	}
	if len(res.topDiffs) > 0 {
		cov.add("info_v2_top_level_accessor_changed", 1)
	}
	if len(res.diffs) == 0 && res.rereadErr == nil && res.writeErr == nil {
		cov.add("round_trip_equal", 1)
	}
	if res.idempotent {
		cov.add("write_idempotent", 1)
	}
}
