package c08

import (
	"fmt"
	"sort"
	"strings"

	"github.com/bufbuild/buf/private/bufpkg/bufcas"
	"github.com/bufbuild/bufverif/internal/enum"
)

// part C: bufcas file sets and manifests.

// manifestUniverse extends the 14-path universe with more paths that are valid relative paths on a
// POSIX file system: leading/trailing/inner spaces, tab, newline, unicode directories.
var manifestUniverse = append(append([]string(nil), universe...),
	" a.proto", "a.proto ", "d  e/a.proto", "a\tb.proto", "a\nb.proto", "ü/ö b.proto",
)

type caseC struct {
	Part     string            `json:"part"`
	Files    map[string]string `json:"files"`
	Order    []string          `json:"walk_order,omitempty"`
	Manifest string            `json:"manifest_text,omitempty"`
	Want     string            `json:"want,omitempty"`
	Got      string            `json:"got,omitempty"`
	Err      string            `json:"error,omitempty"`
	Path     string            `json:"path,omitempty"`
}

// pathFamily classifies a path by the feature that can interfere with the line format.
func pathFamily(p string) string {
	switch {
	case strings.Contains(p, "\n"):
		return "path-with-newline"
	case strings.Contains(p, "  "):
		return "path-with-two-consecutive-spaces"
	default:
		return "plain-path"
	}
}

// roundTrip parses the canonical text back and compares. Returns "" when the round trip holds, else an
// outcome class and a detail.
func roundTrip(m bufcas.Manifest) (string, string) {
	text := m.String()
	parsed, err := bufcas.ParseManifest(text)
	if err != nil {
		return "parse-error", err.Error()
	}
	a, b := m.FileNodes(), parsed.FileNodes()
	if len(a) != len(b) {
		return "parsed-different", fmt.Sprintf("%d file nodes became %d", len(a), len(b))
	}
	for i := range a {
		if a[i].Path() != b[i].Path() || a[i].Digest().String() != b[i].Digest().String() {
			return "parsed-different", fmt.Sprintf("node %d: %q %s became %q %s", i, a[i].Path(), a[i].Digest(), b[i].Path(), b[i].Digest())
		}
	}
	if parsed.String() != text {
		return "parsed-different", "re-rendered text differs"
	}
	for _, n := range a {
		if parsed.GetFileNode(n.Path()) == nil || parsed.GetDigest(n.Path()) == nil {
			return "parsed-different", fmt.Sprintf("lookup of %q fails on the parsed manifest", n.Path())
		}
	}
	return "", ""
}

func (e *explorer) partC(k int) {
	r := e.r
	contents := []string{"", "a"}
	// which single paths round-trip on their own?
	aloneBad := map[string]bool{}
	for _, p := range manifestUniverse {
		files := map[string]string{p: "a"}
		b, err := memBucket(files)
		if err != nil {
			r.Incomplete(fmt.Sprintf("memory bucket rejects path %q: %v", p, err))
			aloneBad[p] = true
			continue
		}
		fs, err := bufcas.NewFileSetForBucket(e.ctx, b)
		if err != nil {
			r.Violate("fileset-error/"+pathFamily(p)+"/"+errClass(err), "NewFileSetForBucket failed: "+err.Error(), caseC{Part: "C", Files: files, Err: err.Error()})
			aloneBad[p] = true
			continue
		}
		if outcome, _ := roundTrip(fs.Manifest()); outcome != "" {
			aloneBad[p] = true
		}
	}
	subsets := enum.Subsets(len(manifestUniverse), 0, k)
	r.Set("C_subsets", len(subsets))
	r.Set("C_universe_paths", manifestUniverse)
	r.ParallelFor(len(subsets), 0, func(si int) {
		subset := subsets[si]
		t := tally{}
		dims := make([]int, len(subset))
		for i := range dims {
			dims[i] = len(contents)
		}
		each := func(cv []int) bool {
			files := map[string]string{}
			for i, u := range subset {
				files[manifestUniverse[u]] = contents[cv[i]]
			}
			e.caseC(t, files, aloneBad, si)
			return !r.Expired()
		}
		if len(subset) == 0 {
			each(nil)
		} else {
			enum.Product(dims, each)
		}
		e.merge(t)
	})
}

func (e *explorer) caseC(t tally, files map[string]string, aloneBad map[string]bool, si int) {
	r := e.r
	r.Eval(1)
	t.add("C/cases", 1)
	paths := sortedKeys(files)
	want := refManifestText(files)
	if len(files) > 0 {
		r.Distinct("C|" + want)
	}
	for _, p := range paths {
		if strings.Contains(p, " ") {
			t.add("C/paths-with-space", 1)
		}
		for _, c := range p {
			if c > 127 {
				t.add("C/paths-with-unicode", 1)
				break
			}
		}
	}
	b, err := memBucket(files)
	if err != nil {
		r.Incomplete("memory bucket: " + err.Error())
		return
	}
	fileSet, err := bufcas.NewFileSetForBucket(e.ctx, b)
	if err != nil {
		r.Violate("fileset-error/set/"+errClass(err), "NewFileSetForBucket failed: "+err.Error(), caseC{Part: "C", Files: files, Err: err.Error()})
		return
	}
	m := fileSet.Manifest()
	text := m.String()
	r.SampleEvery(si, 401, func() any { return map[string]any{"part": "C", "files": files, "manifest": text} })

	// 1. canonical text equals the reference rendering (sorted by path, "digest<SP><SP>path\n")
	if text != want {
		diag := "other"
		lines := strings.Split(strings.TrimSuffix(text, "\n"), "\n")
		wantLines := strings.Split(strings.TrimSuffix(want, "\n"), "\n")
		sa, sb := append([]string(nil), lines...), append([]string(nil), wantLines...)
		sort.Strings(sa)
		sort.Strings(sb)
		if strings.Join(sa, "\n") == strings.Join(sb, "\n") {
			diag = "not-sorted-by-path"
		}
		r.Violate("manifest-text/"+diag, "Manifest.String differs from the canonical rendering", caseC{Part: "C", Files: files, Want: want, Got: text})
	} else {
		t.add("C/text-agrees", 1)
	}
	// 2. the blob set serves the content of every node
	for _, n := range m.FileNodes() {
		blob := fileSet.BlobSet().GetBlob(n.Digest())
		if blob == nil || string(blob.Content()) != files[n.Path()] {
			r.Violate("fileset-blob/content", "blob of a file node is missing or has different content", caseC{Part: "C", Files: files, Path: n.Path()})
		}
	}
	// 3. enumeration order does not matter (file set from every Walk permutation; NewManifest from every node order)
	if len(paths) >= 2 {
		for pi, perm := range enum.Permutations(len(paths)) {
			if pi == 0 {
				continue
			}
			order := make([]string, len(paths))
			for i, p := range perm {
				order[i] = paths[p]
			}
			t.add("C/walk-orders", 1)
			r.Eval(1)
			fs2, err := bufcas.NewFileSetForBucket(e.ctx, withOrder(b, order))
			if err != nil {
				r.Violate("fileset-error/order/"+errClass(err), "NewFileSetForBucket failed: "+err.Error(), caseC{Part: "C", Files: files, Order: order, Err: err.Error()})
				continue
			}
			if got := fs2.Manifest().String(); got != text {
				r.Violate("manifest-order/walk", "manifest text depends on the Walk order", caseC{Part: "C", Files: files, Order: order, Want: text, Got: got})
			}
			nodes := m.FileNodes()
			permuted := make([]bufcas.FileNode, len(nodes))
			for i, p := range perm {
				permuted[i] = nodes[p]
			}
			m2, err := bufcas.NewManifest(permuted)
			if err != nil {
				r.Violate("manifest-error/new/"+errClass(err), "NewManifest failed: "+err.Error(), caseC{Part: "C", Files: files, Order: order, Err: err.Error()})
				continue
			}
			if got := m2.String(); got != text {
				r.Violate("manifest-order/nodes", "manifest text depends on the node order given to NewManifest", caseC{Part: "C", Files: files, Order: order, Want: text, Got: got})
			}
		}
	}
	// 4. canonical text parses back to an equal manifest (also through the blob form)
	outcome, detail := roundTrip(m)
	if outcome == "" {
		blob, err := bufcas.ManifestToBlob(m)
		if err == nil {
			var m3 bufcas.Manifest
			m3, err = bufcas.BlobToManifest(blob)
			if err == nil && m3.String() != text {
				err = fmt.Errorf("text differs after blob round trip")
			}
		}
		if err != nil {
			outcome, detail = "blob-roundtrip", err.Error()
		}
	}
	if outcome == "" {
		t.add("C/roundtrip-ok", 1)
		return
	}
	// attribute the failure to the paths that fail on their own
	families := map[string]bool{}
	for _, p := range paths {
		if aloneBad[p] {
			families[pathFamily(p)] = true
		}
	}
	c := caseC{Part: "C", Files: files, Manifest: text, Err: outcome + ": " + detail}
	if len(families) == 0 {
		r.Violate("manifest-roundtrip/combination-of-paths/"+outcome, "canonical manifest text does not parse back to an equal manifest although every path does on its own", c)
		return
	}
	for fam := range families {
		t.add("C/roundtrip-fails/"+fam, 1)
		r.Violate("manifest-roundtrip/"+fam, "canonical manifest text of a file set does not parse back to an equal manifest ("+fam+")", c)
	}
}
