package c08

// part F: read faults.
//
// The digest is a pure function of the module files (and of the dependency digests). A storage operation
// that fails while the file set itself never changes must therefore not be able to produce the digest of a
// DIFFERENT file set (or dependency set): under a fault, every observed digest is either an error or the
// fault-free value. The fault space is enumerated, not sampled: a fault-free recording pass through a
// counting wrapper bucket lists every (operation, path, occurrence) the scenario performs, and every one of
// them is failed in turn, once or persistently, with every error kind of the operation.

import (
	"bytes"
	"context"
	"errors"
	"fmt"
	"io"
	"io/fs"
	"sort"
	"strings"
	"sync"

	"github.com/bufbuild/buf/private/bufpkg/bufcas"
	"github.com/bufbuild/buf/private/bufpkg/bufmodule"
	"github.com/bufbuild/buf/private/pkg/storage"
	"github.com/bufbuild/buf/private/pkg/storage/storagearchive"
	"github.com/bufbuild/buf/private/pkg/storage/storagemem"
	"github.com/bufbuild/bufverif/internal/enum"
)

// faultSpec is one point of the fault space.
type faultSpec struct {
	Op         string `json:"op"`         // stat | get | read | close | walk
	Path       string `json:"path"`       // object path (walk: the prefix)
	Occurrence int    `json:"occurrence"` // 1-based index among the calls of this operation on this path
	Persistent bool   `json:"persistent"` // false: only this occurrence fails; true: this and every later one
	Kind       string `json:"error"`      // notexist | io | unexpected-eof
}

func (f faultSpec) String() string {
	mode := "once"
	if f.Persistent {
		mode = "from then on"
	}
	return fmt.Sprintf("%s(%q) call #%d fails %s with %s", f.Op, f.Path, f.Occurrence, mode, f.Kind)
}

var errInjectedIO = errors.New("injected I/O error")

func (f faultSpec) err() error {
	switch f.Kind {
	case "notexist":
		return &fs.PathError{Op: f.Op, Path: f.Path, Err: fs.ErrNotExist}
	case "unexpected-eof":
		return io.ErrUnexpectedEOF
	default:
		return &fs.PathError{Op: f.Op, Path: f.Path, Err: errInjectedIO}
	}
}

// faultKinds lists the error kinds injected per operation. Stat is injected with I/O-class errors only: a
// Stat that answers "does not exist" is an answer, not a failure (it is how the documentation file is chosen).
var faultKinds = map[string][]string{
	"stat":  {"io"},
	"get":   {"notexist", "io"},
	"read":  {"io", "unexpected-eof"},
	"close": {"io"},
	"walk":  {"io", "notexist"},
}

var faultOps = []string{"stat", "get", "read", "close", "walk"}

// faultBucket forwards every call to the wrapped bucket, counts the calls per (operation, path) and fails
// the ones selected by spec (nil: recording only). Reads are served in chunks of at most chunk bytes, so that
// a Read fault can also hit after a part of the content was delivered. The wrapped bucket is never changed:
// Walk keeps listing every object.
type faultBucket struct {
	storage.ReadBucket
	chunk  int
	spec   *faultSpec
	mu     sync.Mutex
	counts map[string]int
	fired  int
}

func newFaultBucket(b storage.ReadBucket, chunk int, spec *faultSpec) *faultBucket {
	return &faultBucket{ReadBucket: b, chunk: chunk, spec: spec, counts: map[string]int{}}
}

func (b *faultBucket) hit(op, path string) error {
	b.mu.Lock()
	defer b.mu.Unlock()
	key := op + "\x00" + path
	b.counts[key]++
	s := b.spec
	if s == nil || s.Op != op || s.Path != path {
		return nil
	}
	n := b.counts[key]
	if n == s.Occurrence || (s.Persistent && n > s.Occurrence) {
		b.fired++
		return s.err()
	}
	return nil
}

func (b *faultBucket) firedCount() int {
	b.mu.Lock()
	defer b.mu.Unlock()
	return b.fired
}

func (b *faultBucket) Get(ctx context.Context, path string) (storage.ReadObjectCloser, error) {
	if err := b.hit("get", path); err != nil {
		return nil, err
	}
	o, err := b.ReadBucket.Get(ctx, path)
	if err != nil {
		return nil, err
	}
	return &faultObject{ReadObjectCloser: o, b: b, path: path}, nil
}

func (b *faultBucket) Stat(ctx context.Context, path string) (storage.ObjectInfo, error) {
	if err := b.hit("stat", path); err != nil {
		return nil, err
	}
	return b.ReadBucket.Stat(ctx, path)
}

func (b *faultBucket) Walk(ctx context.Context, prefix string, f func(storage.ObjectInfo) error) error {
	if err := b.hit("walk", prefix); err != nil {
		return err
	}
	return b.ReadBucket.Walk(ctx, prefix, f)
}

type faultObject struct {
	storage.ReadObjectCloser
	b    *faultBucket
	path string
}

func (o *faultObject) Read(p []byte) (int, error) {
	if err := o.b.hit("read", o.path); err != nil {
		return 0, err
	}
	if o.b.chunk > 0 && len(p) > o.b.chunk {
		p = p[:o.b.chunk]
	}
	return o.ReadObjectCloser.Read(p)
}

func (o *faultObject) Close() error {
	err := o.ReadObjectCloser.Close()
	if ferr := o.b.hit("close", o.path); ferr != nil {
		return ferr
	}
	return err
}

// opCount is one line of a recording.
type opCount struct {
	op, path string
	n        int
}

func (b *faultBucket) recording() []opCount {
	b.mu.Lock()
	defer b.mu.Unlock()
	out := make([]opCount, 0, len(b.counts))
	for k, n := range b.counts {
		op, path, _ := strings.Cut(k, "\x00")
		out = append(out, opCount{op, path, n})
	}
	sort.Slice(out, func(i, j int) bool {
		if out[i].op != out[j].op {
			return out[i].op < out[j].op
		}
		return out[i].path < out[j].path
	})
	return out
}

// faultSpace enumerates every fault of a recording.
func faultSpace(rec []opCount) []faultSpec {
	var out []faultSpec
	for _, oc := range rec {
		for k := 1; k <= oc.n; k++ {
			for _, kind := range faultKinds[oc.op] {
				out = append(out, faultSpec{Op: oc.op, Path: oc.path, Occurrence: k, Kind: kind})
				if k < oc.n { // failing the last occurrence persistently is the same as failing it once
					out = append(out, faultSpec{Op: oc.op, Path: oc.path, Occurrence: k, Persistent: true, Kind: kind})
				}
			}
		}
	}
	return out
}

// faultOutcome is one value observed in a scenario: got is set only when the operation succeeded.
type faultOutcome struct {
	what string // e.g. "b5", "b4", "manifest", "m1/b5"
	want string
	got  string
	err  error
	diag func(got string) string // names the wrong construction behind a deviating value
	// class overrides the scenario's signature class; derived marks a deviation that is the consequence of
	// another reported deviation of the same run (a dependent of a module whose own digest deviates)
	class   string
	derived bool
}

func (o faultOutcome) deviates() bool { return o.err == nil && o.got != o.want }

type caseF struct {
	Part     string            `json:"part"`
	Class    string            `json:"class"`
	Scenario string            `json:"scenario"`
	Files    map[string]string `json:"files,omitempty"`
	World    *caseB            `json:"world,omitempty"`
	Faulty   string            `json:"faulty_bucket,omitempty"`
	Fault    *faultSpec        `json:"fault,omitempty"`
	FaultStr string            `json:"fault_text,omitempty"`
	Observed string            `json:"observed"`
	Want     string            `json:"want"`
	Got      string            `json:"got"`
	Diag     string            `json:"diagnosis,omitempty"`
}

func digestOutcome(m bufmodule.Module, dt, what, want string, diag func(string) string) faultOutcome {
	o := digestOf(m, dt)
	out := faultOutcome{what: what, want: want, err: o.err, diag: diag}
	if o.err == nil {
		out.got = o.s
	}
	return out
}

func failedOutcomes(err error, whats ...string) []faultOutcome {
	out := make([]faultOutcome, len(whats))
	for i, w := range whats {
		out[i] = faultOutcome{what: w, err: err}
	}
	return out
}

// coarseDiag maps the detailed diagnosis to the class used in signatures.
func coarseDiag(d string) string {
	switch d {
	case "other":
		return "other"
	case "dependencies-ignored", "direct-dependencies-only", "dependency-digests-not-sorted":
		return "different-dependency-set"
	case "manifest-lines-not-sorted-by-path":
		return d
	default:
		return "different-file-set"
	}
}

// faultDiagnose extends depDiagnose by "the digest over a subset of the dependencies".
func (w *world) faultDiagnose(dt string, i int, got string) string {
	d := w.depDiagnose(dt, i, got)
	if d != "other" || dt != "b5" {
		return d
	}
	reach := w.reach[i]
	for mask := 0; mask < 1<<len(reach)-1; mask++ {
		var deps []string
		for b, j := range reach {
			if mask&(1<<b) != 0 {
				deps = append(deps, w.ref5[j])
			}
		}
		if refB5(w.mf[i], deps) == got {
			return "dependencies-ignored"
		}
	}
	return "other"
}

// faultScenario is one way of turning a (possibly faulty) bucket with the given files into observed values.
type faultScenario struct {
	class string // signature component: which seam consumes the bucket
	name  string
	run   func(ctx context.Context, b storage.ReadBucket, files map[string]string) []faultOutcome
}

func fileSetScenarios() []faultScenario {
	local := func(order []string) func(ctx context.Context, b storage.ReadBucket, files map[string]string) []faultOutcome {
		return func(ctx context.Context, b storage.ReadBucket, files map[string]string) []faultOutcome {
			mf := refModuleFiles(files)
			mods, err := buildSet(ctx, []modSpec{{bucket: b, bucketID: "bkt", target: true}}, []int{0}, cacheNone)
			if err != nil {
				return failedOutcomes(err, order...)
			}
			var out []faultOutcome
			for _, dt := range order {
				dt := dt
				want := refB5(mf, nil)
				if dt == "b4" {
					want = refB4(mf, nil)
				}
				out = append(out, digestOutcome(mods[0], dt, dt, want, func(got string) string { return diagnose(dt, got, files, nil, nil) }))
			}
			return out
		}
	}
	remote := func(keyType string, cm cacheMode) func(ctx context.Context, b storage.ReadBucket, files map[string]string) []faultOutcome {
		return func(ctx context.Context, b storage.ReadBucket, files map[string]string) []faultOutcome {
			mf := refModuleFiles(files)
			key := refB5(mf, nil)
			if keyType == "b4" {
				key = refB4(mf, nil)
			}
			s := modSpec{remote: true, bucket: b, name: nameN1, commit: commitFor(nameN1, 0), target: true, keyDigest: key}
			mods, err := buildSet(ctx, []modSpec{s}, []int{0}, cm)
			if err != nil {
				return failedOutcomes(err, "b5", "b4")
			}
			return []faultOutcome{
				digestOutcome(mods[0], "b5", "b5", refB5(mf, nil), func(got string) string { return diagnose("b5", got, files, nil, nil) }),
				digestOutcome(mods[0], "b4", "b4", refB4(mf, nil), func(got string) string { return diagnose("b4", got, files, nil, nil) }),
			}
		}
	}
	archive := func(zip bool) func(ctx context.Context, b storage.ReadBucket, files map[string]string) []faultOutcome {
		return func(ctx context.Context, b storage.ReadBucket, files map[string]string) []faultOutcome {
			var buf bytes.Buffer
			out := storagemem.NewReadWriteBucket()
			var err error
			if zip {
				if err = storagearchive.Zip(ctx, b, &buf, true); err == nil {
					err = storagearchive.Unzip(ctx, bytes.NewReader(buf.Bytes()), int64(buf.Len()), out)
				}
			} else {
				if err = storagearchive.Tar(ctx, b, &buf); err == nil {
					err = storagearchive.Untar(ctx, &buf, out)
				}
			}
			if err != nil {
				return failedOutcomes(err, "b5", "b4")
			}
			return local([]string{"b5", "b4"})(ctx, out, files)
		}
	}
	return []faultScenario{
		{"digest", "local module, Digest(b5) then Digest(b4)", local([]string{"b5", "b4"})},
		{"digest", "local module, Digest(b4) then Digest(b5)", local([]string{"b4", "b5"})},
		{"digest", "remote module with b5 key", remote("b5", cacheNone)},
		{"digest", "remote module with b4 key", remote("b4", cacheNone)},
		{"cache", "remote module through the module cache (dir)", remote("b5", cacheDir)},
		{"cache", "remote module through the module cache (tar)", remote("b5", cacheTar)},
		{"archive", "tar round trip of the bucket, then local module", archive(false)},
		{"archive", "zip round trip of the bucket, then local module", archive(true)},
		{"fileset", "bufcas.NewFileSetForBucket", func(ctx context.Context, b storage.ReadBucket, files map[string]string) []faultOutcome {
			want := refManifestText(files)
			fsSet, err := bufcas.NewFileSetForBucket(ctx, b)
			if err != nil {
				return failedOutcomes(err, "manifest")
			}
			return []faultOutcome{{what: "manifest", want: want, got: fsSet.Manifest().String(), diag: func(got string) string {
				if len(got) < len(want) {
					return "different-file-set"
				}
				return "other"
			}}}
		}},
	}
}

// faultFileSets: the file sets whose every read fault is enumerated. Every path has a content of its own, so
// that the digests of different subsets differ.
func faultFileSets(quick bool) []map[string]string {
	content := func(p string) string {
		if refIsProto(p) {
			return "// " + p + "\n"
		}
		return "c:" + p
	}
	k := 3
	if quick {
		k = 2
	}
	var out []map[string]string
	for _, sub := range enum.Subsets(len(universe), 1, k) {
		files := map[string]string{}
		for _, u := range sub {
			files[universe[u]] = content(universe[u])
		}
		out = append(out, files)
	}
	// larger sets: every role at once, a middle position in the walk
	for _, paths := range [][]string{
		{"a.proto", "d/a.proto", "LICENSE", "buf.md", "README.md", "x.txt"},
		{"a.proto", "d/e/b.proto", "ü.proto"},
		{"a b.proto", "LICENSE", "README.markdown", "d/LICENSE"},
	} {
		files := map[string]string{}
		for _, p := range paths {
			files[p] = content(p)
		}
		out = append(out, files)
	}
	return out
}

func (e *explorer) partF() {
	r := e.r
	sets := faultFileSets(r.Quick())
	scenarios := fileSetScenarios()
	r.Set("F_file_sets", len(sets))
	r.Set("F_scenarios", len(scenarios))
	r.Set("F_fault_kinds", faultKinds)
	const chunk = 5
	// 1. single modules
	r.ParallelFor(len(sets)*len(scenarios), 0, func(ii int) {
		files, sc := sets[ii/len(scenarios)], scenarios[ii%len(scenarios)]
		t := tally{}
		defer e.merge(t)
		mk := func(spec *faultSpec) *faultBucket {
			b, err := memBucket(files)
			if err != nil {
				panic(err)
			}
			return newFaultBucket(b, chunk, spec)
		}
		rec := mk(nil)
		r.Eval(1)
		usable := false
		for _, o := range sc.run(e.ctx, rec, files) {
			if o.err == nil && o.got == o.want {
				usable = true
			} else if o.err == nil {
				t.add("F/fault-free-deviation", 1) // reported by parts A and C
			}
		}
		if !usable {
			t.add("F/skipped-scenarios-without-a-defined-value", 1)
			return
		}
		r.Distinct("F|" + sc.name + "|" + refKey(files))
		t.add("F/cases", 1)
		for fi, spec := range faultSpace(rec.recording()) {
			if r.Expired() {
				return
			}
			spec := spec
			fb := mk(&spec)
			r.Eval(1)
			outs := sc.run(e.ctx, fb, files)
			e.judgeFault(t, fb, spec, outs, caseF{Part: "F", Class: sc.class, Scenario: sc.name, Files: files})
			r.SampleEvery(ii*4096+fi, 30011, func() any {
				return caseF{Part: "F", Class: sc.class, Scenario: sc.name, Files: files, Fault: &spec, FaultStr: spec.String()}
			})
		}
	})
	// 2. dependency graphs: a fault in the bucket of one module, observed in the digests of all modules
	type item struct {
		g      enum.Digraph
		remote []bool
		x      int // the module whose bucket is faulty
		scheme int
	}
	var items []item
	for n := 2; n <= 3; n++ {
		for _, g := range enum.Digraphs(n, true) {
			ne := len(g.Edges())
			if ne == 0 || (r.Quick() && n == 3 && ne != 2) {
				continue
			}
			for mask := 0; mask < 1<<n; mask++ {
				remote := make([]bool, n)
				for i := range remote {
					remote[i] = mask&(1<<i) != 0
				}
				ok := true
				for _, ed := range g.Edges() {
					if remote[ed[0]] && !remote[ed[1]] {
						ok = false
					}
				}
				if !ok {
					continue
				}
				for x := 0; x < n; x++ {
					for _, scheme := range []int{schemePlain, schemeWKTProvider} {
						items = append(items, item{g, remote, x, scheme})
					}
				}
			}
		}
	}
	r.Set("F_dependency_worlds_x_faulty_module", len(items))
	r.ParallelFor(len(items), 0, func(ii int) {
		it := items[ii]
		t := tally{}
		defer e.merge(t)
		scheme := it.scheme
		w := newWorld(it.g, it.remote, false, make([]int, it.g.N), scheme)
		run := func(spec *faultSpec) (*faultBucket, []faultOutcome) {
			specs := w.specs(0, false)
			fb := newFaultBucket(specs[it.x].bucket, 16, spec)
			specs[it.x].bucket = fb
			var whats []string
			for _, dt := range []string{"b5", "b4"} {
				for i := 0; i < w.n; i++ {
					whats = append(whats, fmt.Sprintf("m%d/%s", i, dt))
				}
			}
			mods, err := buildSet(e.ctx, specs, identity(w.n), cacheNone)
			if err != nil {
				return fb, failedOutcomes(err, whats...)
			}
			var outs []faultOutcome
			for _, dt := range []string{"b5", "b4"} {
				for i := 0; i < w.n; i++ {
					i, dt := i, dt
					want := w.ref5[i]
					if dt == "b4" {
						want = w.ref4[i]
					}
					o := digestOutcome(mods[i], dt, fmt.Sprintf("m%d/%s", i, dt), want, func(got string) string { return w.faultDiagnose(dt, i, got) })
					if i == it.x {
						o.class = "digest" // the digest of the module whose own bucket is faulty: the same seam as a single module
					}
					outs = append(outs, o)
				}
			}
			// outs[0..n) are the b5 values: the deviation of a dependent follows from the deviation of its dependency
			for i := 0; i < w.n; i++ {
				for _, j := range w.reach[i] {
					if outs[i].deviates() && outs[j].deviates() {
						outs[i].derived = true
					}
				}
			}
			return fb, outs
		}
		rec, outs := run(nil)
		r.Eval(1)
		for _, o := range outs {
			if o.err != nil || o.got != o.want {
				t.add("F/fault-free-deviation", 1) // reported by part B
				return
			}
		}
		wc := w.base("F")
		r.Distinct(fmt.Sprintf("F|deps|%v|%v|%d|%s", it.g.Edges(), it.remote, it.x, schemeNames[scheme]))
		t.add("F/cases", 1)
		t.add("F/dependency-cases", 1)
		for _, spec := range faultSpace(rec.recording()) {
			if r.Expired() {
				return
			}
			spec := spec
			r.Eval(1)
			fb, outs := run(&spec)
			e.judgeFault(t, fb, spec, outs, caseF{Part: "F", Class: "deps", Scenario: "dependency graph, Digest(b5) of every module then Digest(b4)",
				World: &wc, Faulty: fmt.Sprintf("module %d (%s)", it.x, w.kind(it.x)), Files: w.files[it.x]})
		}
	})
}

// judgeFault applies the oracle to the outcomes of one faulted run.
func (e *explorer) judgeFault(t tally, fb *faultBucket, spec faultSpec, outs []faultOutcome, c caseF) {
	if fb.firedCount() == 0 {
		t.add("F/faults-not-reached", 1)
		return
	}
	t.add("F/faults-fired/"+spec.Op+"-"+spec.Kind, 1)
	failed := false
	for _, o := range outs {
		switch {
		case o.err != nil:
			failed = true
		case o.got == o.want:
			t.add("F/values-unaffected", 1)
		case o.derived:
			t.add("F/derived-deviations", 1)
		default:
			d := "other"
			if o.diag != nil {
				d = o.diag(o.got)
			}
			cc := c
			cc.Fault, cc.FaultStr, cc.Observed, cc.Want, cc.Got, cc.Diag = &spec, spec.String(), o.what, o.want, o.got, d
			if o.class != "" {
				cc.Class = o.class
			}
			e.r.Violate("fault-impure/"+cc.Class+"/"+spec.Op+"-"+spec.Kind+"/"+coarseDiag(d),
				"a storage operation failed while the files never changed, and a value other than the fault-free one was returned without an error ("+d+")", cc)
		}
	}
	if failed {
		t.add("F/outcome/error-reported", 1)
	} else {
		t.add("F/outcome/fault-survived", 1)
	}
}
