package c08

// Reference model ("refdigest"): the published digest construction written from the property text,
// using golang.org/x/crypto/sha3 directly. Nothing in this file calls into bufcas / bufmodule.
//
//   file digest   = SHAKE256(content), 64 bytes, rendered "shake256:<hex>"
//   manifest text = for every file, ascending by path (byte order): "<file digest>  <path>\n"
//   files digest  = SHAKE256(manifest text), rendered "shake256:<hex>"
//   b4            = files digest over the module files (+ the v1 buf.yaml / buf.lock object data
//                   as two more manifest entries, when the module carries them)
//   b5            = SHAKE256(join("\n", files digest string, sorted dependency b5 strings...)),
//                   rendered "b5:<hex>"
//   module files  = every path with extension .proto, the path "LICENSE" at the root, and the FIRST
//                   existing of buf.md, README.md, README.markdown at the root.

import (
	"encoding/hex"
	"sort"
	"strings"

	"golang.org/x/crypto/sha3"
)

var refDocOrder = []string{"buf.md", "README.md", "README.markdown"}

func refShakeHex(data []byte) string {
	out := make([]byte, 64)
	sha3.ShakeSum256(out, data)
	return hex.EncodeToString(out)
}

// refIsProto: extension of the last path component is ".proto".
func refIsProto(p string) bool {
	base := p
	if i := strings.LastIndexByte(p, '/'); i >= 0 {
		base = p[i+1:]
	}
	return strings.HasSuffix(base, ".proto")
}

// refDoc returns the chosen documentation file of a file set ("" if none).
func refDoc(files map[string]string) string {
	for _, d := range refDocOrder {
		if _, ok := files[d]; ok {
			return d
		}
	}
	return ""
}

// refModuleFiles is the classification model: which (path, content) pairs the digest may depend on.
func refModuleFiles(files map[string]string) map[string]string {
	doc := refDoc(files)
	out := map[string]string{}
	for p, c := range files {
		if refIsProto(p) || p == "LICENSE" || (doc != "" && p == doc) {
			out[p] = c
		}
	}
	return out
}

func refHasProto(files map[string]string) bool {
	for p := range files {
		if refIsProto(p) {
			return true
		}
	}
	return false
}

func sortedKeys(m map[string]string) []string {
	ks := make([]string, 0, len(m))
	for k := range m {
		ks = append(ks, k)
	}
	sort.Strings(ks)
	return ks
}

// refManifestText renders the canonical manifest of exactly the given files.
func refManifestText(files map[string]string) string {
	var sb strings.Builder
	for _, p := range sortedKeys(files) {
		sb.WriteString("shake256:")
		sb.WriteString(refShakeHex([]byte(files[p])))
		sb.WriteString("  ")
		sb.WriteString(p)
		sb.WriteString("\n")
	}
	return sb.String()
}

// refManifestTextInOrder renders manifest lines in a given path order (a wrong-construction hypothesis).
func refManifestTextInOrder(files map[string]string, order []string) string {
	var sb strings.Builder
	for _, p := range order {
		c, ok := files[p]
		if !ok {
			continue
		}
		sb.WriteString("shake256:" + refShakeHex([]byte(c)) + "  " + p + "\n")
	}
	return sb.String()
}

func refFilesDigest(moduleFiles map[string]string) string {
	return "shake256:" + refShakeHex([]byte(refManifestText(moduleFiles)))
}

// refB4 of a module given its module files and optional v1 buf.yaml / buf.lock object data (name -> data).
func refB4(moduleFiles map[string]string, objectData map[string]string) string {
	all := map[string]string{}
	for p, c := range moduleFiles {
		all[p] = c
	}
	for p, c := range objectData {
		all[p] = c
	}
	return refFilesDigest(all)
}

// refB5 of a module given its module files and the b5 digest strings of all its (transitive) dependencies.
func refB5(moduleFiles map[string]string, depB5 []string) string {
	deps := append([]string(nil), depB5...)
	sort.Strings(deps)
	parts := append([]string{refFilesDigest(moduleFiles)}, deps...)
	return "b5:" + refShakeHex([]byte(strings.Join(parts, "\n")))
}

// refB5FromManifestText is refB5 with an explicit manifest text (for wrong-construction hypotheses).
func refB5FromManifestText(text string, depB5 []string) string {
	deps := append([]string(nil), depB5...)
	sort.Strings(deps)
	parts := append([]string{"shake256:" + refShakeHex([]byte(text))}, deps...)
	return "b5:" + refShakeHex([]byte(strings.Join(parts, "\n")))
}

// refKey is a canonical rendering of a (path, content) set; equal keys <=> equal sets.
func refKey(files map[string]string) string {
	var sb strings.Builder
	for _, p := range sortedKeys(files) {
		sb.WriteString(hex.EncodeToString([]byte(p)))
		sb.WriteByte('=')
		sb.WriteString(hex.EncodeToString([]byte(files[p])))
		sb.WriteByte(';')
	}
	return sb.String()
}

func pathBase(p string) string {
	if i := strings.LastIndexByte(p, '/'); i >= 0 {
		return p[i+1:]
	}
	return p
}

// refRole names the structural role of a path within a file set.
func refRole(p string, files map[string]string) string {
	switch {
	case refIsProto(p):
		return "proto"
	case p == "LICENSE":
		return "license"
	case p == refDoc(files):
		return "chosen-doc"
	case p == "buf.md" || p == "README.md" || p == "README.markdown":
		return "shadowed-doc"
	case pathBase(p) == "LICENSE":
		return "nested-license"
	case strings.Contains(pathBase(p), ".proto"):
		return "proto-like-name"
	default:
		return "non-module"
	}
}

// diagnose names the wrong construction that explains an observed digest: it looks for the subset of the
// file set whose reference digest equals the observed one and names the roles of the files that are hashed
// although they are not module files ("extra-<role>") or not hashed although they are ("missing-<role>").
// dt is "b4" or "b5"; order is the walk order in effect (may be nil).
func diagnose(dt, actual string, files map[string]string, deps []string, order []string) string {
	mk := func(mf map[string]string) string {
		if dt == "b4" {
			return refB4(mf, nil)
		}
		return refB5(mf, deps)
	}
	paths := sortedKeys(files)
	mf := refModuleFiles(files)
	if len(paths) <= 8 {
		for mask := 0; mask < 1<<len(paths); mask++ {
			sub := map[string]string{}
			for i, p := range paths {
				if mask&(1<<i) != 0 {
					sub[p] = files[p]
				}
			}
			if mk(sub) != actual {
				continue
			}
			diff := map[string]bool{}
			for _, p := range paths {
				_, in := sub[p]
				_, should := mf[p]
				switch {
				case in && !should:
					diff["extra-"+refRole(p, files)] = true
				case !in && should:
					diff["missing-"+refRole(p, files)] = true
				}
			}
			var ds []string
			for d := range diff {
				ds = append(ds, d)
			}
			sort.Strings(ds)
			if len(ds) > 0 {
				return strings.Join(ds, "+")
			}
		}
	}
	// the right files, but manifest lines in an order other than ascending by path
	mfPaths := sortedKeys(mf)
	if n := len(mfPaths); n >= 2 && n <= 5 {
		var rec func(cur []string, used []bool) bool
		rec = func(cur []string, used []bool) bool {
			if len(cur) == n {
				text := refManifestTextInOrder(mf, cur)
				alt := "shake256:" + refShakeHex([]byte(text))
				if dt == "b5" {
					alt = refB5FromManifestText(text, deps)
				}
				return alt == actual
			}
			for i := 0; i < n; i++ {
				if !used[i] {
					used[i] = true
					if rec(append(cur, mfPaths[i]), used) {
						return true
					}
					used[i] = false
				}
			}
			return false
		}
		if rec(nil, make([]bool, n)) {
			return "manifest-lines-not-sorted-by-path"
		}
	}
	_ = order
	if dt == "b5" && len(deps) > 0 {
		if refB5(mf, nil) == actual {
			return "dependencies-ignored"
		}
	}
	return "other"
}
