package c08

import (
	"encoding/hex"
	"errors"
	"fmt"
	"sort"
	"strings"

	"github.com/bufbuild/buf/private/bufpkg/bufmodule"
	"github.com/bufbuild/bufverif/internal/enum"
	"github.com/google/uuid"
)

// part B: dependency graphs among local and remote modules.

type caseB struct {
	Part        string            `json:"part"`
	N           int               `json:"modules"`
	Edges       [][2]int          `json:"edges"`
	Remote      []bool            `json:"remote"`
	NamedLocals bool              `json:"named_locals"`
	AddOrder    []int             `json:"add_order,omitempty"`
	Targets     string            `json:"targets,omitempty"`
	Provider    string            `json:"provider,omitempty"`
	Scheme      string            `json:"path_scheme,omitempty"`
	DepKeyOrder string            `json:"dep_key_order,omitempty"`
	Module      int               `json:"module"`
	Files       map[string]string `json:"files,omitempty"`
	Digest      string            `json:"digest_type,omitempty"`
	Want        string            `json:"want,omitempty"`
	Got         string            `json:"got,omitempty"`
	Got2        string            `json:"got_after,omitempty"`
	Err         string            `json:"error,omitempty"`
	Perturb     string            `json:"perturbation,omitempty"`
}

// world is one assignment of contents to the modules of a graph together with the reference digests.
type world struct {
	n        int
	g        enum.Digraph
	remote   []bool
	named    bool
	scheme   int
	versions []int
	files    []map[string]string
	mf       []map[string]string
	names    []string
	commits  []uuid.UUID
	reach    [][]int // transitive dependencies, ascending
	direct   [][]int
	ref4     []string
	ref5     []string
}

func depName(i int) string { return fmt.Sprintf("buf.build/acme/m%d", i) }

// Path schemes of part B: under which path a module provides the file its dependents import.
//
//	schemePlain          p<i>/m<i>.proto
//	schemeWKTProvider    a well-known-type path (google/protobuf/*.proto): the module is a WKT provider such as
//	                     buf.build/protocolbuffers/wellknowntypes or a module vendoring google/protobuf; it is a
//	                     dependency of its importers like any other module
//	schemeWKTUnprovided  plain paths, and every module also imports a well-known type that no module of the set
//	                     provides: not an error, not a dependency
const (
	schemePlain = iota
	schemeWKTProvider
	schemeWKTUnprovided
	numSchemes
)

var schemeNames = [numSchemes]string{"", "wkt-path-provider", "wkt-import-unprovided"}

// wktProviderPaths[i] is the well-known-type path module i provides under schemeWKTProvider.
var wktProviderPaths = []string{"google/protobuf/any.proto", "google/protobuf/timestamp.proto", "google/protobuf/duration.proto"}

// wktUnprovidedImport is imported by every module under schemeWKTUnprovided.
const wktUnprovidedImport = "google/protobuf/empty.proto"

func depPath(i, scheme int) string {
	if scheme == schemeWKTProvider {
		return wktProviderPaths[i]
	}
	return fmt.Sprintf("p%d/m%d.proto", i, i)
}

func depFiles(i int, g enum.Digraph, version int, scheme int) map[string]string {
	var sb strings.Builder
	for j := 0; j < g.N; j++ {
		if g.Adj[i][j] {
			fmt.Fprintf(&sb, "import \"%s\";\n", depPath(j, scheme))
		}
	}
	if scheme == schemeWKTUnprovided {
		fmt.Fprintf(&sb, "import \"%s\";\n", wktUnprovidedImport)
	}
	fmt.Fprintf(&sb, "// m%d v%d\n", i, version)
	files := map[string]string{
		depPath(i, scheme): sb.String(),
		"LICENSE":          fmt.Sprintf("license of m%d", i),
	}
	switch i {
	case 1:
		files["x.txt"] = "not a module file"
	case 2:
		files["README.md"] = "doc of m2"
		files["README.markdown"] = "shadowed doc"
	}
	return files
}

func newWorld(g enum.Digraph, remote []bool, named bool, versions []int, scheme int) *world {
	n := g.N
	w := &world{n: n, g: g, remote: remote, named: named, versions: versions, scheme: scheme,
		files: make([]map[string]string, n), mf: make([]map[string]string, n), names: make([]string, n),
		commits: make([]uuid.UUID, n), reach: make([][]int, n), direct: make([][]int, n), ref4: make([]string, n), ref5: make([]string, n)}
	for i := 0; i < n; i++ {
		w.files[i] = depFiles(i, g, versions[i], scheme)
		w.mf[i] = refModuleFiles(w.files[i])
		if remote[i] || named {
			w.names[i] = depName(i)
			w.commits[i] = commitFor(w.names[i], versions[i])
		}
		for j := range g.Reach(i) {
			w.reach[i] = append(w.reach[i], j)
		}
		sort.Ints(w.reach[i])
		for j := 0; j < n; j++ {
			if g.Adj[i][j] {
				w.direct[i] = append(w.direct[i], j)
			}
		}
	}
	var rec func(i int) string
	rec = func(i int) string {
		if w.ref5[i] != "" {
			return w.ref5[i]
		}
		var deps []string
		for _, j := range w.reach[i] {
			deps = append(deps, rec(j))
		}
		w.ref5[i] = refB5(w.mf[i], deps)
		return w.ref5[i]
	}
	for i := 0; i < n; i++ {
		rec(i)
		w.ref4[i] = refB4(w.mf[i], nil)
	}
	return w
}

func (w *world) pinned(i int, desc bool) []depKey {
	var out []depKey
	for _, j := range w.reach[i] {
		out = append(out, depKey{name: depName(j), commit: commitFor(depName(j), w.versions[j]), digest: w.ref5[j]})
	}
	if desc {
		for a, b := 0, len(out)-1; a < b; a, b = a+1, b-1 {
			out[a], out[b] = out[b], out[a]
		}
	}
	return out
}

func (w *world) specs(targets int, depDesc bool) []modSpec {
	specs := make([]modSpec, w.n)
	for i := 0; i < w.n; i++ {
		b, err := memBucket(w.files[i])
		if err != nil {
			panic(err)
		}
		s := modSpec{bucket: b, name: w.names[i], commit: w.commits[i], target: targets == 0 || targets == i+1}
		if w.remote[i] {
			s.remote = true
			s.keyDigest = w.ref5[i]
			s.depKeys = w.pinned(i, depDesc)
		} else {
			s.bucketID = fmt.Sprintf("bkt-%d", i)
		}
		specs[i] = s
	}
	return specs
}

// sigSuffix separates defects that need a special path scheme from the general ones (plain worlds keep
// the signatures they always had).
func (w *world) sigSuffix() string {
	if w.scheme == schemePlain {
		return ""
	}
	return "/" + schemeNames[w.scheme]
}

func (w *world) kind(i int) string {
	if w.remote[i] {
		return "remote"
	}
	return "local"
}

func (w *world) base(part string) caseB {
	return caseB{Part: part, N: w.n, Edges: w.g.Edges(), Remote: w.remote, NamedLocals: w.named, Scheme: schemeNames[w.scheme]}
}

func sortedStrings(in []string) bool { return sort.StringsAreSorted(in) }

// depDiagnose names the wrong dependency handling that explains an observed digest.
func (w *world) depDiagnose(dt string, i int, actual string) string {
	var all, direct []string
	for _, j := range w.reach[i] {
		all = append(all, w.ref5[j])
	}
	for _, j := range w.direct[i] {
		direct = append(direct, w.ref5[j])
	}
	if d := diagnose(dt, actual, w.files[i], all, nil); d != "other" {
		return d
	}
	if dt != "b5" {
		return "other"
	}
	if refB5(w.mf[i], direct) == actual {
		return "direct-dependencies-only"
	}
	fd := refFilesDigest(w.mf[i])
	for _, perm := range enum.Permutations(len(all)) {
		parts := []string{fd}
		for _, p := range perm {
			parts = append(parts, all[p])
		}
		if "b5:"+refShakeHex([]byte(strings.Join(parts, "\n"))) == actual {
			return "dependency-digests-not-sorted"
		}
	}
	return "other"
}

func (e *explorer) partB() {
	r := e.r
	type item struct {
		g      enum.Digraph
		remote []bool
	}
	var items []item
	for n := 1; n <= 3; n++ {
		for _, g := range enum.Digraphs(n, true) {
			for mask := 0; mask < 1<<n; mask++ {
				remote := make([]bool, n)
				for i := range remote {
					remote[i] = mask&(1<<i) != 0
				}
				ok := true
				for _, ed := range g.Edges() {
					if remote[ed[0]] && !remote[ed[1]] {
						ok = false // a remote module can only pin remote modules
					}
				}
				if ok {
					items = append(items, item{g, remote})
				}
			}
		}
	}
	r.Set("B_graph_assignments", len(items))
	r.ParallelFor(len(items), 0, func(ii int) {
		it := items[ii]
		t := tally{}
		n := it.g.N
		anyLocal, anyRemote := false, false
		for _, rm := range it.remote {
			if rm {
				anyRemote = true
			} else {
				anyLocal = true
			}
		}
		hasEdge := len(it.g.Edges()) > 0
		for scheme := 0; scheme < numSchemes; scheme++ {
			if scheme == schemeWKTProvider && !hasEdge {
				continue // nobody imports the provided file: the same as a plain world
			}
			for _, named := range []bool{false, true} {
				if named && !anyLocal {
					continue
				}
				w := newWorld(it.g, it.remote, named, make([]int, n), scheme)
				if scheme == schemePlain {
					r.Distinct(fmt.Sprintf("B|%d|%v|%v|%v", n, it.g.Edges(), it.remote, named))
				} else {
					r.Distinct(fmt.Sprintf("B|%d|%v|%v|%v|%s", n, it.g.Edges(), it.remote, named, schemeNames[scheme]))
					t.add("B/cases-"+schemeNames[scheme], 1)
					for _, ed := range it.g.Edges() {
						if scheme == schemeWKTProvider && !it.remote[ed[0]] {
							t.add("B/wkt-provider-edges/local-on-"+w.kind(ed[1]), 1)
						}
					}
				}
				t.add("B/cases", 1)
				for i := 0; i < n; i++ {
					if len(w.reach[i]) > len(w.direct[i]) {
						t.add("B/cases-with-transitive-dep", 1)
						break
					}
				}
				if anyLocal && anyRemote {
					t.add("B/cases-mixed-local-remote", 1)
				}
				remoteMulti := false
				for i := 0; i < n; i++ {
					if it.remote[i] && len(w.reach[i]) >= 2 {
						remoteMulti = true
					}
				}
				provs := []string{"own"}
				// the module cache does not interact with the path scheme: cache providers on plain worlds only
				if scheme == schemePlain && (!r.Quick() || n < 3) {
					provs = append(provs, "cache-dir", "cache-tar")
				}
				if anyRemote {
					provs = append(provs, "omni")
				}
				for _, order := range enum.Permutations(n) {
					for targets := 0; targets <= n; targets++ {
						if n == 1 && targets == 1 {
							continue
						}
						for _, prov := range provs {
							for _, desc := range []bool{false, true} {
								if desc && (!remoteMulti || prov != "own") {
									continue
								}
								e.checkWorld(t, w, order, targets, prov, desc)
							}
						}
					}
				}
				e.depPerturbations(t, w)
				if scheme == schemePlain { // pinned keys of remote modules carry no paths
					e.pinnedDigestChanges(t, w)
				}
			}
		}
		e.merge(t)
	})
}

func (e *explorer) buildWorld(w *world, order []int, targets int, prov string, desc bool) ([]bufmodule.Module, error) {
	specs := w.specs(targets, desc)
	switch prov {
	case "omni":
		return buildSetOmni(e.ctx, specs, w.files, order)
	case "cache-dir":
		return buildSet(e.ctx, specs, order, cacheDir)
	case "cache-tar":
		return buildSet(e.ctx, specs, order, cacheTar)
	default:
		return buildSet(e.ctx, specs, order, cacheNone)
	}
}

func (e *explorer) checkWorld(t tally, w *world, order []int, targets int, prov string, desc bool) {
	r := e.r
	r.Eval(1)
	c := w.base("B")
	c.AddOrder, c.Provider = order, prov
	c.Targets = "all"
	if targets > 0 {
		c.Targets = fmt.Sprintf("only module %d", targets-1)
	}
	if desc {
		c.DepKeyOrder = "descending"
	}
	mods, err := e.buildWorld(w, order, targets, prov, desc)
	if err != nil {
		c.Err = err.Error()
		r.Violate("deps-build-error/"+prov+"/"+errClass(err)+w.sigSuffix(), "building the module set failed: "+err.Error(), c)
		return
	}
	for i := 0; i < w.n; i++ {
		// is the order in which the dependency digests reach the hash different from their sorted order?
		if len(w.reach[i]) >= 2 {
			var given []string
			for _, dk := range w.pinned(i, desc && w.remote[i]) {
				given = append(given, dk.digest)
			}
			if !sortedStrings(given) {
				t.add("B/dep-order-not-sorted-as-given", 1)
			}
		}
		for _, dt := range digestTypes {
			want := w.ref5[i]
			if dt == "b4" {
				want = w.ref4[i]
			}
			o := digestOf(mods[i], dt)
			ci := c
			ci.Module, ci.Files, ci.Digest, ci.Want, ci.Got = i, w.files[i], dt, want, o.s
			if o.err != nil {
				ci.Err = o.err.Error()
			}
			if o.s == "" {
				var dm *bufmodule.DigestMismatchError
				if errors.As(o.err, &dm) {
					continue // a verification failure of this module's other digest type or of a dependency: reported there
				}
				r.Violate("deps-digest-error/"+dt+"/"+w.kind(i)+"/"+errClass(o.err)+w.sigSuffix(), "Digest failed: "+fmt.Sprint(o.err), ci)
				continue
			}
			if o.s != want {
				diag := w.depDiagnose(dt, i, o.s)
				r.Violate("deps-refdigest/"+dt+"/"+w.kind(i)+"/"+diag+w.sigSuffix(),
					fmt.Sprintf("%s digest of a %s module in a dependency graph differs from the reference construction (%s)", dt, w.kind(i), diag), ci)
				continue
			}
			if prov == "omni" {
				t.add("B/agree/omni", 1)
			} else {
				t.add("B/agree/"+w.kind(i), 1)
			}
			if w.scheme != schemePlain && dt == "b5" && !w.remote[i] && len(w.reach[i]) > 0 {
				t.add("B/agree/"+schemeNames[w.scheme]+"/local-importer", 1)
			}
		}
	}
}

func (e *explorer) observeWorld(w *world) ([]map[string]string, error) {
	mods, err := e.buildWorld(w, identity(w.n), 0, "own", false)
	if err != nil {
		return nil, err
	}
	out := make([]map[string]string, w.n)
	for i := range mods {
		out[i] = map[string]string{}
		for _, dt := range digestTypes {
			if o := digestOf(mods[i], dt); o.s != "" {
				out[i][dt] = o.s
			}
		}
	}
	return out, nil
}

// depPerturbations changes the content of one module at a time and checks which digests move.
func (e *explorer) depPerturbations(t tally, w *world) {
	r := e.r
	before, err := e.observeWorld(w)
	if err != nil {
		return // reported by checkWorld
	}
	for j := 0; j < w.n; j++ {
		versions := make([]int, w.n)
		versions[j] = 1
		w2 := newWorld(w.g, w.remote, w.named, versions, w.scheme)
		r.Eval(1)
		after, err := e.observeWorld(w2)
		if err != nil {
			c := w.base("B")
			c.Perturb, c.Err = fmt.Sprintf("content of module %d changed", j), err.Error()
			r.Violate("deps-build-error/perturbed/"+errClass(err)+w.sigSuffix(), "building the perturbed module set failed: "+err.Error(), c)
			continue
		}
		for i := 0; i < w.n; i++ {
			dependsOn := i == j
			for _, x := range w.reach[i] {
				if x == j {
					dependsOn = true
				}
			}
			for _, dt := range digestTypes {
				a, okA := before[i][dt]
				b, okB := after[i][dt]
				if !okA || !okB {
					continue
				}
				expect := dependsOn
				if dt == "b4" {
					expect = i == j
				}
				if (a != b) == expect {
					if expect {
						t.add("B/perturb/dependent-changed", 1)
						if w.scheme != schemePlain && i != j {
							t.add("B/perturb/dependent-changed/"+schemeNames[w.scheme], 1)
						}
					} else {
						t.add("B/perturb/independent-unchanged", 1)
					}
					continue
				}
				verdict := "insensitive"
				if !expect {
					verdict = "oversensitive"
				}
				rel := "self"
				if i != j {
					rel = w.kind(i) + "-on-" + w.kind(j)
				}
				c := w.base("B")
				c.Module, c.Digest, c.Got, c.Got2 = i, dt, a, b
				c.Perturb = fmt.Sprintf("content of module %d changed (module %d depends on it: %v)", j, i, dependsOn)
				r.Violate("dep-sensitivity/"+verdict+"/"+dt+"/"+rel+w.sigSuffix(), "digest reaction to a dependency change is wrong: "+verdict, c)
			}
		}
	}
}

func flipHexByte(digest string, byteIdx int, mask byte) string {
	prefix, hx, _ := strings.Cut(digest, ":")
	raw, err := hex.DecodeString(hx)
	if err != nil || byteIdx >= len(raw) {
		panic("bad reference digest " + digest)
	}
	raw[byteIdx] ^= mask
	return prefix + ":" + hex.EncodeToString(raw)
}

// pinnedDigestChanges changes one byte of one pinned dependency digest of one remote module at a time.
func (e *explorer) pinnedDigestChanges(t tally, w *world) {
	r := e.r
	masks := []byte{0x01}
	if !r.Quick() {
		masks = []byte{0x01, 0x02, 0x04, 0x08, 0x10, 0x20, 0x40, 0x80}
	}
	for i := 0; i < w.n; i++ {
		if !w.remote[i] || len(w.reach[i]) == 0 {
			continue
		}
		for d := range w.reach[i] {
			for byteIdx := 0; byteIdx < 64; byteIdx++ {
				for _, mask := range masks {
					pinned := w.pinned(i, false)
					pinned[d].digest = flipHexByte(pinned[d].digest, byteIdx, mask)
					var ds []string
					for _, dk := range pinned {
						ds = append(ds, dk.digest)
					}
					newRef := refB5(w.mf[i], ds)
					desc := fmt.Sprintf("pinned digest of dependency m%d of remote module m%d: byte %d xor %#x", w.reach[i][d], i, byteIdx, mask)
					c := w.base("B")
					c.Module, c.Digest, c.Perturb = i, "b5", desc

					// (a) the module key still carries the old digest: verification must notice
					specs := w.specs(0, false)
					specs[i].depKeys = pinned
					r.Eval(1)
					mods, err := buildSet(e.ctx, specs, identity(w.n), cacheNone)
					if err != nil {
						c.Err = err.Error()
						r.Violate("deps-build-error/pinned/"+errClass(err), "building failed: "+err.Error(), c)
						continue
					}
					o := digestOf(mods[i], "b5")
					var dm *bufmodule.DigestMismatchError
					switch {
					case o.err == nil:
						ca := c
						ca.Want, ca.Got = newRef, o.s
						r.Violate("pinned-dep-digest/change-undetected/b5", "a remote module whose pinned dependency digest changed still verifies against its old digest", ca)
					case !errors.As(o.err, &dm):
						ca := c
						ca.Err = o.err.Error()
						r.Violate("pinned-dep-digest/unexpected-error/"+errClass(o.err), "unexpected error: "+o.err.Error(), ca)
					case o.s != newRef:
						ca := c
						ca.Want, ca.Got = newRef, o.s
						r.Violate("deps-refdigest/b5/remote/"+w.depDiagnose("b5", i, o.s), "recomputed digest differs from the reference construction", ca)
					default:
						t.add("B/pinned-digest-change/detected", 1)
					}

					// (b) the module key carries the new digest: accepted, equal to the reference, different from before;
					// local ancestors follow, remote ancestors (pinned to the old key) do not.
					specs = w.specs(0, false)
					specs[i].depKeys = pinned
					specs[i].keyDigest = newRef
					cur := make([]string, w.n)
					var rec func(x int) string
					rec = func(x int) string {
						if cur[x] != "" {
							return cur[x]
						}
						switch {
						case x == i:
							cur[x] = newRef
						case w.remote[x]:
							cur[x] = w.ref5[x]
						default:
							var deps []string
							for _, y := range w.reach[x] {
								deps = append(deps, rec(y))
							}
							cur[x] = refB5(w.mf[x], deps)
						}
						return cur[x]
					}
					r.Eval(1)
					mods, err = buildSet(e.ctx, specs, identity(w.n), cacheNone)
					if err != nil {
						c.Err = err.Error()
						r.Violate("deps-build-error/pinned/"+errClass(err), "building failed: "+err.Error(), c)
						continue
					}
					good := true
					for x := 0; x < w.n; x++ {
						want := rec(x)
						ox := digestOf(mods[x], "b5")
						cb := c
						cb.Module, cb.Want, cb.Got = x, want, ox.s
						if ox.err != nil {
							cb.Err = ox.err.Error()
						}
						dependsOn := x == i
						for _, y := range w.reach[x] {
							if y == i {
								dependsOn = true
							}
						}
						if ox.err != nil || ox.s != want {
							good = false
							r.Violate("pinned-dep-digest/rekeyed-mismatch/"+w.kind(x), "after re-keying a remote module with a changed pinned dependency digest, a digest differs from the reference", cb)
							continue
						}
						if dependsOn && !w.remote[x] || x == i {
							if ox.s == w.ref5[x] {
								good = false
								r.Violate("dep-sensitivity/insensitive/b5/pinned-digest", "digest did not change although a dependency digest changed", cb)
							}
						}
					}
					if good {
						t.add("B/pinned-digest-change/rekeyed", 1)
					}
				}
			}
		}
	}
}
