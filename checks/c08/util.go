package c08

import (
	"bytes"
	"context"
	"errors"
	"fmt"
	"io/fs"
	"os"
	"path/filepath"
	"regexp"
	"sort"
	"strings"

	"github.com/bufbuild/buf/private/bufpkg/bufmodule"
	"github.com/bufbuild/buf/private/bufpkg/bufmodule/bufmodulestore"
	"github.com/bufbuild/buf/private/bufpkg/bufparse"
	"github.com/bufbuild/buf/private/pkg/filelock"
	"github.com/bufbuild/buf/private/pkg/slogext"
	"github.com/bufbuild/buf/private/pkg/storage"
	"github.com/bufbuild/buf/private/pkg/storage/storagearchive"
	"github.com/bufbuild/buf/private/pkg/storage/storagemem"
	"github.com/bufbuild/buf/private/pkg/storage/storageos"
	"github.com/google/uuid"
)

// tally is a per-work-item counter map, merged into the run at the end of the item.
type tally map[string]int

func (t tally) add(k string, n int) { t[k] += n }

func toBytes(files map[string]string) map[string][]byte {
	out := make(map[string][]byte, len(files))
	for p, c := range files {
		out[p] = []byte(c)
	}
	return out
}

func memBucket(files map[string]string) (storage.ReadBucket, error) {
	return storagemem.NewReadBucket(toBytes(files))
}

// orderBucket is a ReadBucket whose Walk emits objects in a chosen order (rank by path); objects
// without a rank come last in path order. Every other call is forwarded.
type orderBucket struct {
	storage.ReadBucket
	rank map[string]int
}

func (o *orderBucket) Walk(ctx context.Context, prefix string, f func(storage.ObjectInfo) error) error {
	var infos []storage.ObjectInfo
	if err := o.ReadBucket.Walk(ctx, prefix, func(oi storage.ObjectInfo) error {
		infos = append(infos, oi)
		return nil
	}); err != nil {
		return err
	}
	sort.SliceStable(infos, func(i, j int) bool {
		ri, oki := o.rank[infos[i].Path()]
		rj, okj := o.rank[infos[j].Path()]
		switch {
		case oki && okj:
			return ri < rj
		case oki != okj:
			return oki
		default:
			return infos[i].Path() < infos[j].Path()
		}
	})
	for _, oi := range infos {
		if err := f(oi); err != nil {
			return err
		}
	}
	return nil
}

func withOrder(b storage.ReadBucket, order []string) storage.ReadBucket {
	rank := make(map[string]int, len(order))
	for i, p := range order {
		rank[p] = i
	}
	return &orderBucket{ReadBucket: b, rank: rank}
}

// diskBucket writes the files with plain os calls under dir and opens a storageos bucket on it.
func diskBucket(dir string, files map[string]string) (storage.ReadBucket, error) {
	if err := os.MkdirAll(dir, 0o755); err != nil {
		return nil, err
	}
	for p, c := range files {
		full := filepath.Join(dir, filepath.FromSlash(p))
		if err := os.MkdirAll(filepath.Dir(full), 0o755); err != nil {
			return nil, err
		}
		if err := os.WriteFile(full, []byte(c), 0o644); err != nil {
			return nil, err
		}
	}
	return storageos.NewProvider().NewReadWriteBucket(dir)
}

func tarRoundTrip(ctx context.Context, files map[string]string) (storage.ReadBucket, error) {
	src, err := memBucket(files)
	if err != nil {
		return nil, err
	}
	var buf bytes.Buffer
	if err := storagearchive.Tar(ctx, src, &buf); err != nil {
		return nil, err
	}
	out := storagemem.NewReadWriteBucket()
	if err := storagearchive.Untar(ctx, &buf, out); err != nil {
		return nil, err
	}
	return out, nil
}

func zipRoundTrip(ctx context.Context, files map[string]string, compressed bool) (storage.ReadBucket, error) {
	src, err := memBucket(files)
	if err != nil {
		return nil, err
	}
	var buf bytes.Buffer
	if err := storagearchive.Zip(ctx, src, &buf, compressed); err != nil {
		return nil, err
	}
	out := storagemem.NewReadWriteBucket()
	if err := storagearchive.Unzip(ctx, bytes.NewReader(buf.Bytes()), int64(buf.Len()), out); err != nil {
		return nil, err
	}
	return out, nil
}

// --- module construction -------------------------------------------------------------------

const (
	nameN1 = "buf.build/acme/n1"
	nameN2 = "buf.build/acme/n2"
)

func commitFor(name string, version int) uuid.UUID {
	return uuid.NewSHA1(uuid.NameSpaceURL, []byte(fmt.Sprintf("c08/%s/%d", name, version)))
}

// depKey is a pinned dependency of a remote module as the registry would return it.
type depKey struct {
	name   string
	commit uuid.UUID
	digest string // "b5:<hex>"
}

// modSpec describes one module added to a ModuleSetBuilder.
type modSpec struct {
	remote   bool
	bucket   storage.ReadBucket // local: the source bucket; remote: what the provider serves (unfiltered)
	bucketID string             // local only
	name     string             // optional for local, required for remote
	commit   uuid.UUID
	target   bool

	targetPaths  []string
	excludePaths []string
	protoTarget  string

	yaml, lock *[2]string // v1 object data {name, data}

	// remote only
	keyDigest string   // digest string of the ModuleKey handed to AddRemoteModule
	depKeys   []depKey // pinned deps served by the provider (order as given)
}

type cacheMode int

const (
	cacheNone cacheMode = iota
	cacheDir
	cacheTar
)

func fullName(s string) (bufparse.FullName, error) { return bufparse.ParseFullName(s) }

func newKey(name string, commit uuid.UUID, digest string) (bufmodule.ModuleKey, error) {
	fn, err := fullName(name)
	if err != nil {
		return nil, err
	}
	return bufmodule.NewModuleKey(fn, commit, func() (bufmodule.Digest, error) {
		return bufmodule.ParseDigest(digest)
	})
}

func objData(od *[2]string) (bufmodule.ObjectData, error) {
	if od == nil {
		return nil, nil
	}
	return bufmodule.NewObjectData(od[0], []byte(od[1]))
}

// mapProvider serves ModuleData by full name.
type mapProvider struct {
	byName map[string]bufmodule.ModuleData
}

func (p *mapProvider) GetModuleDatasForModuleKeys(ctx context.Context, keys []bufmodule.ModuleKey) ([]bufmodule.ModuleData, error) {
	out := make([]bufmodule.ModuleData, 0, len(keys))
	for _, k := range keys {
		d, ok := p.byName[k.FullName().String()]
		if !ok {
			return nil, &fs.PathError{Op: "read", Path: k.String(), Err: fs.ErrNotExist}
		}
		out = append(out, d)
	}
	return out, nil
}

// storeProvider serves ModuleData out of a bufmodulestore (the module cache).
type storeProvider struct {
	store bufmodulestore.ModuleDataStore
}

func (p *storeProvider) GetModuleDatasForModuleKeys(ctx context.Context, keys []bufmodule.ModuleKey) ([]bufmodule.ModuleData, error) {
	found, notFound, err := p.store.GetModuleDatasForModuleKeys(ctx, keys)
	if err != nil {
		return nil, err
	}
	if len(notFound) > 0 {
		return nil, &fs.PathError{Op: "read", Path: notFound[0].String(), Err: fs.ErrNotExist}
	}
	return found, nil
}

// buildSet adds the specs in the given order (indices into specs) and builds the module set.
// Returned modules are indexed like specs.
func buildSet(ctx context.Context, specs []modSpec, order []int, cm cacheMode) ([]bufmodule.Module, error) {
	prov := &mapProvider{byName: map[string]bufmodule.ModuleData{}}
	keys := make([]bufmodule.ModuleKey, len(specs))
	var datas []bufmodule.ModuleData
	for i := range specs {
		s := &specs[i]
		if !s.remote {
			continue
		}
		key, err := newKey(s.name, s.commit, s.keyDigest)
		if err != nil {
			return nil, err
		}
		keys[i] = key
		deps := make([]bufmodule.ModuleKey, len(s.depKeys))
		for j, dk := range s.depKeys {
			k, err := newKey(dk.name, dk.commit, dk.digest)
			if err != nil {
				return nil, err
			}
			deps[j] = k
		}
		yaml, err := objData(s.yaml)
		if err != nil {
			return nil, err
		}
		lock, err := objData(s.lock)
		if err != nil {
			return nil, err
		}
		bucket := s.bucket
		md := bufmodule.NewModuleData(ctx, key,
			func() (storage.ReadBucket, error) { return bucket, nil },
			func() ([]bufmodule.ModuleKey, error) { return deps, nil },
			func() (bufmodule.ObjectData, error) { return yaml, nil },
			func() (bufmodule.ObjectData, error) { return lock, nil },
		)
		prov.byName[key.FullName().String()] = md
		datas = append(datas, md)
	}
	var provider bufmodule.ModuleDataProvider = prov
	if cm != cacheNone && len(datas) > 0 {
		var opts []bufmodulestore.ModuleDataStoreOption
		if cm == cacheTar {
			opts = append(opts, bufmodulestore.ModuleDataStoreWithTar())
		}
		store := bufmodulestore.NewModuleDataStore(slogext.NopLogger, storagemem.NewReadWriteBucket(), filelock.NewNopLocker(), opts...)
		if err := store.PutModuleDatas(ctx, datas); err != nil {
			return nil, fmt.Errorf("cache put: %w", err)
		}
		provider = &storeProvider{store: store}
	}
	sb := bufmodule.NewModuleSetBuilder(ctx, slogext.NopLogger, provider, bufmodule.NopCommitProvider)
	for _, i := range order {
		s := &specs[i]
		if s.remote {
			var opts []bufmodule.RemoteModuleOption
			if len(s.targetPaths) > 0 || len(s.excludePaths) > 0 {
				opts = append(opts, bufmodule.RemoteModuleWithTargetPaths(s.targetPaths, s.excludePaths))
			}
			sb.AddRemoteModule(keys[i], s.target, opts...)
			continue
		}
		var opts []bufmodule.LocalModuleOption
		if s.name != "" {
			fn, err := fullName(s.name)
			if err != nil {
				return nil, err
			}
			opts = append(opts, bufmodule.LocalModuleWithFullNameAndCommitID(fn, s.commit))
		}
		if len(s.targetPaths) > 0 || len(s.excludePaths) > 0 {
			opts = append(opts, bufmodule.LocalModuleWithTargetPaths(s.targetPaths, s.excludePaths))
		}
		if s.protoTarget != "" {
			opts = append(opts, bufmodule.LocalModuleWithProtoFileTargetPath(s.protoTarget, false))
		}
		if s.yaml != nil {
			od, err := objData(s.yaml)
			if err != nil {
				return nil, err
			}
			opts = append(opts, bufmodule.LocalModuleWithV1Beta1OrV1BufYAMLObjectData(od))
		}
		if s.lock != nil {
			od, err := objData(s.lock)
			if err != nil {
				return nil, err
			}
			opts = append(opts, bufmodule.LocalModuleWithV1Beta1OrV1BufLockObjectData(od))
		}
		sb.AddLocalModule(s.bucket, s.bucketID, s.target, opts...)
	}
	ms, err := sb.Build()
	if err != nil {
		return nil, err
	}
	out := make([]bufmodule.Module, len(specs))
	for i := range specs {
		s := &specs[i]
		var m bufmodule.Module
		if s.name != "" {
			fn, err := fullName(s.name)
			if err != nil {
				return nil, err
			}
			m = ms.GetModuleForFullName(fn)
		} else {
			m = ms.GetModuleForBucketID(s.bucketID)
		}
		if m == nil {
			return nil, fmt.Errorf("module %d (%s%s) missing from the built module set", i, s.name, s.bucketID)
		}
		if m.IsLocal() == s.remote {
			return nil, fmt.Errorf("module %d: locality flipped (IsLocal=%v, spec remote=%v)", i, m.IsLocal(), s.remote)
		}
		out[i] = m
	}
	return out, nil
}

func identity(n int) []int {
	o := make([]int, n)
	for i := range o {
		o[i] = i
	}
	return o
}

// obs is one observed digest (or error) of a module.
type obs struct {
	s   string
	err error
}

func digestOf(m bufmodule.Module, dt string) obs {
	t := bufmodule.DigestTypeB5
	if dt == "b4" {
		t = bufmodule.DigestTypeB4
	}
	d, err := m.Digest(t)
	if err != nil {
		// A remote module whose pinned key digest does not match reports the digest it computed.
		var dm *bufmodule.DigestMismatchError
		if errors.As(err, &dm) && dm.ActualDigest != nil && dm.ActualDigest.Type() == t &&
			dm.FullName != nil && m.FullName() != nil && dm.FullName.String() == m.FullName().String() {
			return obs{s: dm.ActualDigest.String(), err: err}
		}
		return obs{err: err}
	}
	if d == nil {
		return obs{err: errors.New("nil digest without error")}
	}
	return obs{s: d.String()}
}

var (
	reHex    = regexp.MustCompile(`[0-9a-f]{16,}`)
	reQuoted = regexp.MustCompile(`"[^"]*"`)
	reDigits = regexp.MustCompile(`[0-9]+`)
)

// errClass normalises an error text for use inside a signature.
func errClass(err error) string {
	if err == nil {
		return "nil"
	}
	var dm *bufmodule.DigestMismatchError
	if errors.As(err, &dm) {
		return "digest-mismatch"
	}
	s := err.Error()
	if strings.Contains(s, "had no .proto files") {
		return "no-proto-files"
	}
	s = reHex.ReplaceAllString(s, "#")
	s = reQuoted.ReplaceAllString(s, `""`)
	s = reDigits.ReplaceAllString(s, "N")
	s = strings.Join(strings.Fields(s), " ")
	if len(s) > 80 {
		s = s[:80]
	}
	return s
}

func isNoProto(err error) bool {
	return err != nil && strings.Contains(err.Error(), "had no .proto files")
}

func cloneFiles(f map[string]string) map[string]string {
	out := make(map[string]string, len(f)+1)
	for k, v := range f {
		out[k] = v
	}
	return out
}
