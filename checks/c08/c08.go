// Package c08 is the check for property C08 (see DESIGN.md section 3).
package c08
